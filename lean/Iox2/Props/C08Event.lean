/-
C08 — QoS limits suffice and are enforced, EVENT messaging pattern: max notifiers, max listeners, max nodes, event id max value.

Model: `Iox2/Model/EventPorts.lean` (validated against the real ports by the differential run `eventports`).
Every theorem quantifies over every reachable world (`Reach c w`).

"a registry slot is free": `∃ i, reg.slots[i]? = some none`; by `free_slot_iff_below_limit` this is the same as
"fewer ports are registered than the service's limit".
-/
import Iox2.Proof.EventPortsStep
import Iox2.Proof.EventPortsShutdown
import Iox2.Proof.EventPortsNodes
namespace Iox2.EventPorts

/-! ### registries and limits -/

theorem exists_none_iff_lt : ∀ (l : List (Option Nat)), (∃ i : Nat, l[i]? = some none) ↔ (l.filterMap id).length < l.length
  | [] => by simp
  | x :: l => by
    have ih := exists_none_iff_lt l
    cases x with
    | none =>
      simp only [List.filterMap_cons, id, List.length_cons]
      have : (l.filterMap id).length ≤ l.length := List.length_filterMap_le _ _
      constructor
      · intro _; omega
      · intro _; exact ⟨0, by simp⟩
    | some a =>
      simp only [List.filterMap_cons, id, List.length_cons]
      constructor
      · rintro ⟨i, hi⟩
        cases i with
        | zero => simp at hi
        | succ i =>
          have : ∃ j : Nat, l[j]? = some none := ⟨i, by simpa using hi⟩
          have := ih.mp this; omega
      · intro h
        obtain ⟨i, hi⟩ := ih.mpr (by omega)
        exact ⟨i + 1, by simpa using hi⟩

/-- a slot is free iff fewer ports are registered than the registry has slots -/
theorem free_slot_iff_below_limit (r : Reg) : (∃ i : Nat, r.slots[i]? = some none) ↔ r.len < r.slots.length :=
  exists_none_iff_lt r.slots

/-- the registries have exactly as many slots as the service's limits say, so the limits are never exceeded -/
theorem limits_never_exceeded {c : Cfg} {w : World} (r : Reach c w) :
    w.notReg.slots.length = c.maxNot ∧ w.lisReg.slots.length = c.maxLis ∧ w.notReg.len ≤ c.maxNot ∧ w.lisReg.len ≤ c.maxLis := by
  obtain ⟨inv, hc⟩ := r.inv
  have a := inv.notLen; have b := inv.lisLen
  rw [hc] at a b
  exact ⟨a, b, by rw [← a]; exact Reg.len_le _, by rw [← b]; exact Reg.len_le _⟩

/-- the registered notifiers are exactly the notifiers that exist (alive, or of a dead node that nobody cleaned up yet) -/
theorem notifier_registered_iff_exists {c : Cfg} {w : World} (r : Reach c w) (n : Nat) :
    n ∈ w.notReg.labels ↔ ∃ N, w.nots n = some N ∧ N.st ≠ .gone := by
  obtain ⟨inv, _⟩ := r.inv
  constructor
  · intro h
    obtain ⟨i, hi⟩ := Reg.mem_labels.mp h
    have := inv.nots.slot i n hi
    simp only [notOwn] at this
    cases hN : w.nots n with
    | none => rw [hN] at this; simp at this
    | some N =>
      rw [hN] at this
      refine ⟨N, rfl, fun e => ?_⟩
      simp [e] at this
  · rintro ⟨N, hN, hst⟩
    have hown : notOwn w n = some N.slot := by simp [notOwn, hN, hst]
    exact Reg.mem_labels.mpr ⟨N.slot, inv.nots.owner n N.slot hown⟩

/-! ### max notifiers -/

/-- Creating a notifier (fresh label, through a usable service handle) succeeds iff a slot of the notifier registry is free;
otherwise it is refused with `ExceedsMaxSupportedNotifiers`. -/
theorem cnot_succeeds_iff_slot_free {c : Cfg} {w : World} (r : Reach c w) {n k : Nat} {d : Option Nat} {P : Part}
    (hn : w.nots n = none) (hP : usable w k = .ok P) :
    ((step w (.cnot n d k)).2 = .ok ↔ ∃ i : Nat, w.notReg.slots[i]? = some none) ∧
    ((step w (.cnot n d k)).2 ≠ .ok → (step w (.cnot n d k)).2 = .err .exceedsNotifiers) := by
  obtain ⟨inv, _⟩ := r.inv
  cases e : w.notReg.add n with
  | none =>
    rw [step_cnot_full hn hP e]
    have := (Reg.add_none_iff inv.nots n).mp e
    exact ⟨⟨fun h => (by cases h), fun h => absurd h this⟩, fun _ => rfl⟩
  | some rs =>
    obtain ⟨reg, slot⟩ := rs
    rw [step_cnot_ok hn hP e]
    have := (Reg.add_isSome_iff inv.nots n).mp (by rw [e]; rfl)
    exact ⟨⟨fun _ => this, fun _ => rfl⟩, fun h => absurd rfl h⟩

/-- … iff fewer than `max_notifiers` notifiers are registered -/
theorem cnot_succeeds_iff_below_limit {c : Cfg} {w : World} (r : Reach c w) {n k : Nat} {d : Option Nat} {P : Part}
    (hn : w.nots n = none) (hP : usable w k = .ok P) :
    (step w (.cnot n d k)).2 = .ok ↔ w.notReg.len < c.maxNot := by
  rw [(cnot_succeeds_iff_slot_free r hn hP).1, free_slot_iff_below_limit, (limits_never_exceeded r).1]

/-- a refused creation has no effect at all (no registry change, no lifecycle event, nothing) -/
theorem cnot_refused_no_effect {w : World} {n k : Nat} {d : Option Nat} (h : (step w (.cnot n d k)).2 ≠ .ok) :
    (step w (.cnot n d k)).1 = w := by
  rcases step_cnot_cases w n k d with ⟨e, _⟩ | ⟨o, e, _, _⟩ | ⟨P, e, _⟩ | ⟨P, reg, slot, hk, _⟩
  · rw [e]
  · rw [e]
  · rw [e]
  · exact absurd hk h

/-- a successful creation takes exactly one slot -/
theorem cnot_takes_one_slot {c : Cfg} {w : World} (r : Reach c w) {n k : Nat} {d : Option Nat}
    (h : (step w (.cnot n d k)).2 = .ok) :
    ∃ i : Nat, w.notReg.slots[i]? = some none ∧ (step w (.cnot n d k)).1.notReg.slots = w.notReg.slots.set i (some n) := by
  obtain ⟨inv, _⟩ := r.inv
  obtain ⟨P, reg, slot, hn, hP, e⟩ := step_cnot_of_ok h
  have hown : notOwn w n = none := by simp [notOwn, hn]
  obtain ⟨_, r2, r3, _⟩ := inv.nots.add hown e
  refine ⟨slot, r3, ?_⟩
  rw [step_cnot_ok hn hP e]
  cases hcr : w.cfg.created with
  | none => simpa [cnotBase] using r2
  | some cid =>
    show (notifyCore (cnotBase w n k d reg slot) n (newNoti w k d slot) cid).1.notReg.slots = _
    rw [(notifyCore_frame _ _ _ _).2.2.1]
    simpa [cnotBase] using r2

/-- dropping a notifier frees its slot … -/
theorem dnot_frees_slot {c : Cfg} {w : World} (r : Reach c w) {n : Nat} {N : Noti} (hN : w.nots n = some N) (hst : N.st = .alive) :
    (step w (.dnot n)).2 = .ok ∧ w.notReg.slots[N.slot]? = some (some n) ∧
    (step w (.dnot n)).1.notReg.slots = w.notReg.slots.set N.slot none := by
  obtain ⟨inv, _⟩ := r.inv
  have hown : notOwn w n = some N.slot := by simp [notOwn, hN, hst]
  refine ⟨by rw [step_dnot_alive hN hst], inv.nots.owner n N.slot hown, ?_⟩
  rw [step_dnot_alive hN hst, (afterPortDrop_frame _ _ _).2.2.1]
  show ((dropEmit w n N).notReg.remove N.slot).slots = _
  have : (dropEmit w n N).notReg = w.notReg := by
    unfold dropEmit; split
    · exact (notifyCore_frame _ _ _ _).2.2.1
    · rfl
  rw [this]; rfl

/-- … so that the next creation succeeds again: capacity is available as soon as it is freed -/
theorem cnot_succeeds_after_dnot {c : Cfg} {w : World} (r : Reach c w) {n : Nat} {N : Noti} (hN : w.nots n = some N)
    (hst : N.st = .alive) {n' k : Nat} {d : Option Nat} {P : Part}
    (hn' : (step w (.dnot n)).1.nots n' = none) (hP : usable (step w (.dnot n)).1 k = .ok P) :
    (step (step w (.dnot n)).1 (.cnot n' d k)).2 = .ok := by
  have r1 : Reach c (step w (.dnot n)).1 := Reach.step _ r
  obtain ⟨_, h2, h3⟩ := dnot_frees_slot r hN hst
  apply (cnot_succeeds_iff_slot_free r1 hn' hP).1.mpr
  refine ⟨N.slot, ?_⟩
  rw [h3]
  have : N.slot < w.notReg.slots.length := by
    rcases Nat.lt_or_ge N.slot w.notReg.slots.length with h | h
    · exact h
    · rw [List.getElem?_eq_none h] at h2; cases h2
  simp [this]

/-! ### max listeners -/

theorem clis_succeeds_iff_slot_free {c : Cfg} {w : World} (r : Reach c w) {l k : Nat} {P : Part}
    (hl : w.liss l = none) (hP : usable w k = .ok P) :
    ((step w (.clis l k)).2 = .ok ↔ ∃ i : Nat, w.lisReg.slots[i]? = some none) ∧
    ((step w (.clis l k)).2 ≠ .ok → (step w (.clis l k)).2 = .err .exceedsListeners) := by
  obtain ⟨inv, _⟩ := r.inv
  cases e : w.lisReg.add l with
  | none =>
    rw [step_clis_full hl hP e]
    have := (Reg.add_none_iff inv.lis l).mp e
    exact ⟨⟨fun h => (by cases h), fun h => absurd h this⟩, fun _ => rfl⟩
  | some rs =>
    obtain ⟨reg, slot⟩ := rs
    rw [step_clis_ok hl hP e]
    have := (Reg.add_isSome_iff inv.lis l).mp (by rw [e]; rfl)
    exact ⟨⟨fun _ => this, fun _ => rfl⟩, fun h => absurd rfl h⟩

theorem clis_succeeds_iff_below_limit {c : Cfg} {w : World} (r : Reach c w) {l k : Nat} {P : Part}
    (hl : w.liss l = none) (hP : usable w k = .ok P) :
    (step w (.clis l k)).2 = .ok ↔ w.lisReg.len < c.maxLis := by
  rw [(clis_succeeds_iff_slot_free r hl hP).1, free_slot_iff_below_limit, (limits_never_exceeded r).2.1]

theorem clis_refused_no_effect {w : World} {l k : Nat} (h : (step w (.clis l k)).2 ≠ .ok) :
    (step w (.clis l k)).1 = w := by
  rcases step_clis_cases w l k with ⟨e, _⟩ | ⟨o, e, _, _⟩ | ⟨P, e, _⟩ | ⟨P, reg, slot, hk, _⟩
  · rw [e]
  · rw [e]
  · rw [e]
  · exact absurd hk h

theorem dlis_frees_slot {c : Cfg} {w : World} (r : Reach c w) {l : Nat} {L : Lis} (hL : w.liss l = some L) (hst : L.st = .alive) :
    (step w (.dlis l)).2 = .ok ∧ w.lisReg.slots[L.slot]? = some (some l) ∧
    (step w (.dlis l)).1.lisReg.slots = w.lisReg.slots.set L.slot none := by
  obtain ⟨inv, _⟩ := r.inv
  have hown : lisOwn w l = some L.slot := by simp [lisOwn, hL, hst]
  refine ⟨by rw [step_dlis_alive hL hst], inv.lis.owner l L.slot hown, ?_⟩
  rw [step_dlis_alive hL hst, (afterPortDrop_frame _ _ _).2.1]
  rfl

theorem clis_succeeds_after_dlis {c : Cfg} {w : World} (r : Reach c w) {l : Nat} {L : Lis} (hL : w.liss l = some L)
    (hst : L.st = .alive) {l' k : Nat} {P : Part}
    (hl' : (step w (.dlis l)).1.liss l' = none) (hP : usable (step w (.dlis l)).1 k = .ok P) :
    (step (step w (.dlis l)).1 (.clis l' k)).2 = .ok := by
  have r1 : Reach c (step w (.dlis l)).1 := Reach.step _ r
  obtain ⟨_, h2, h3⟩ := dlis_frees_slot r hL hst
  apply (clis_succeeds_iff_slot_free r1 hl' hP).1.mpr
  refine ⟨L.slot, ?_⟩
  rw [h3]
  have : L.slot < w.lisReg.slots.length := by
    rcases Nat.lt_or_ge L.slot w.lisReg.slots.length with h | h
    · exact h
    · rw [List.getElem?_eq_none h] at h2; cases h2
  simp [this]

/-! ### max nodes -/

/-- A further node can open the service iff the service still exists and fewer than `max_nodes` nodes are registered in it;
the refusals are specific and without effect. -/
theorem open_succeeds_iff {w : World} {k : Nat} (hk : w.parts k = none) :
    ((step w (.open k)).2 = .ok ↔ serviceExists w = true ∧ nodeCount w < w.cfg.maxNodes) ∧
    (serviceExists w = false → step w (.open k) = (w, .err .doesNotExist)) ∧
    (serviceExists w = true → w.cfg.maxNodes ≤ nodeCount w → step w (.open k) = (w, .err .exceedsNodes)) := by
  simp only [step, hk, Option.isSome_none, Bool.false_eq_true, if_false]
  cases hs : serviceExists w with
  | false => simp
  | true =>
    by_cases hn : w.cfg.maxNodes ≤ nodeCount w
    · simp [hn]
    · simp [hn]; omega

theorem open_refused_no_effect {w : World} {k : Nat} (h : (step w (.open k)).2 ≠ .ok) : (step w (.open k)).1 = w := by
  simp only [step] at h ⊢
  repeat' split
  all_goals first | rfl | (exfalso; simp_all)

/-- the node registry never holds more than `max_nodes` nodes -/
theorem max_nodes_never_exceeded {c : Cfg} (hc : c.Sane) {w : World} (r : Reach c w) : nodeCount w ≤ c.maxNodes := by
  have := (r.nodeInv hc).limit
  rw [r.inv.2] at this; exact this

/-- only `open` registers a node: no other call increases the number of registered nodes, and no node that was not registered
becomes registered (dropping / killing / cleaning up can only free capacity) -/
theorem only_open_registers_a_node {c : Cfg} {w : World} (r : Reach c w) (op : Op) (hop : ∀ k, op ≠ .open k) :
    nodeCount (step w op).1 ≤ nodeCount w ∧ ∀ j, svcCore (step w op).1 j = true → svcCore w j = true := by
  have s := Shrinks.by_step w op hop
  have inv := r.inv.1
  have inv' := (Reach.step op r).inv.1
  exact ⟨s.by_nodeCount inv inv', s.by_svcCore inv inv'⟩

/-- Capacity is available again as soon as it is freed: when a node that holds the service through its service handle only (no
ports) drops that handle, a further node can open the service — if somebody still keeps the service alive. -/
theorem open_succeeds_after_node_left {c : Cfg} (hc : c.Sane) {w : World} (r : Reach c w) {k : Nat} {P : Part}
    (hP : w.parts k = some P) (hd : P.dead = false) (hs : P.svc = true) (hnp : ¬ hasPort w k)
    {k' : Nat} (hk' : (step w (.dsvc k)).1.parts k' = none) (hse : serviceExists (step w (.dsvc k)).1 = true) :
    (step w (.dsvc k)).2 = .ok ∧ (step (step w (.dsvc k)).1 (.open k')).2 = .ok := by
  have e : step w (.dsvc k) = (setP w k { P with svc := false }, .ok) := by simp [step, hP, hd, hs]
  rw [e] at hk' hse ⊢
  refine ⟨rfl, ?_⟩
  have r1 : Reach c (setP w k { P with svc := false }) := by
    have := Reach.step (.dsvc k) r; rw [e] at this; exact this
  obtain ⟨inv, hcfg⟩ := r.inv
  obtain ⟨inv1, _⟩ := r1.inv
  have ni := r.nodeInv hc
  apply (open_succeeds_iff hk').1.mpr
  refine ⟨hse, ?_⟩
  show nodeCount (setP w k { P with svc := false }) < w.cfg.maxNodes
  refine Nat.lt_of_lt_of_le ?_ ni.limit
  have s : Shrinks w (setP w k { P with svc := false }) := Shrinks.by_setP hP (by simp)
  simp only [nodeCount, setP_partKeys]
  apply filter_length_lt_of_imp
  · intro j _ h; exact s.by_svcCore inv inv1 j h
  · refine ⟨k, ni.mem k (by rw [hP]; rfl), (svcCore_iff inv k).mpr ⟨P, hP, Or.inl hs⟩, ?_⟩
    apply Bool.eq_false_iff.mpr
    intro h
    obtain ⟨Q, hQ, hc2⟩ := (svcCore_iff inv1 k).mp h
    simp only [setP_parts, if_true] at hQ
    cases hQ
    rcases hc2 with h | h
    · simp at h
    · exact hnp h

/-! ### event id max value -/

/-- `EventIdOutOfBounds` iff the id exceeds `event_id_max_value`; then nothing is delivered: no listener, no registry, not the
ghost history changes — only the notifier itself has refreshed its view of the listener registry. -/
theorem out_of_bounds_iff {c : Cfg} {w : World} (r : Reach c w) {n : Nat} {N : Noti} (hN : w.nots n = some N) (hst : N.st = .alive) (id : Nat) :
    ((step w (.notifyId n id)).2 = .err .outOfBounds ↔ c.idMax < id) ∧
    (c.idMax < id → (step w (.notifyId n id)).1 = setN w n (updateConns w N)) := by
  obtain ⟨_, hc⟩ := r.inv
  rw [step_notifyId_alive hN hst]
  by_cases hid : w.cfg.idMax < id
  · rw [notifyCore_oob w n N hid, ← hc]
    exact ⟨⟨fun _ => hid, fun _ => rfl⟩, fun _ => rfl⟩
  · rw [← hc]
    refine ⟨⟨fun h => ?_, fun h => absurd h hid⟩, fun h => absurd h hid⟩
    rw [notifyCore_result w n N (Nat.le_of_not_lt hid)] at h
    split at h <;> simp [outOfNotify] at h

/-- in particular every listener is untouched -/
theorem out_of_bounds_delivers_nothing {c : Cfg} {w : World} (r : Reach c w) {n : Nat} {N : Noti} (hN : w.nots n = some N)
    (hst : N.st = .alive) {id : Nat} (hid : c.idMax < id) :
    (step w (.notifyId n id)).1.liss = w.liss ∧ (step w (.notifyId n id)).1.hist = w.hist ∧
    (step w (.notifyId n id)).1.lisReg = w.lisReg ∧ (step w (.notifyId n id)).1.notReg = w.notReg := by
  rw [(out_of_bounds_iff r hN hst id).2 hid]
  exact ⟨rfl, rfl, rfl, rfl⟩

/-- every id a listener ever holds is inside the bounds -/
theorem pending_ids_within_bounds {c : Cfg} {w : World} (r : Reach c w) {l : Nat} {L : Lis} (hL : w.liss l = some L) :
    ∀ id ∈ L.pending, id ≤ c.idMax := by
  obtain ⟨inv, hc⟩ := r.inv
  intro id hid
  rw [← hc]; exact ((inv.pend l L hL).2.1 id hid).1

/-! ### C17 flavour: node handle, service handle, notifiers, listeners dropped in any order

(helpers and the step analysis: `Iox2/Proof/EventPortsShutdown.lean`).  The model has no panic outcome at all: `Out` has no such
constructor — the differential run confirms that no drop of the real objects panics in any order. -/

/-- After everything was dropped nothing is left — except the directories of the nodes whose last owner was a port. -/
theorem c17_all_dropped_resources {w : World} (h : AllDropped w) :
    resources w = if !w.cfg.ipc then [] else if dirsLeft w = 0 then [] else [("nodedir", dirsLeft w)] :=
  all_dropped_resources h

/-- FALSE: `AllDropped w → resources w = []`.  Witness (replayed on the real code, same answer: `ls => nodedir=1`):
`new ipc 1 1 0 - - - 1 -; cnot 0 - 0; dsvc 0; dnode 0; dnot 0`. -/
theorem c17_all_dropped_may_leave_node_directory :
    ∃ (c : Cfg) (ops : List Op), c.Sane ∧ AllDropped (run (World.init c) ops) ∧ resources (run (World.init c) ops) = [("nodedir", 1)] :=
  all_dropped_may_leave_node_directory

/-- A node directory stays behind only in one way: a port is dropped after both the node handle and the service handle of its
node were dropped. -/
theorem c17_dir_left_only_by_port_drop_after_handles (w : World) (op : Op) {k : Nat} {P' : Part}
    (h : (step w op).1.parts k = some P') (hd : P'.dirLeft = true) :
    (∃ P, w.parts k = some P ∧ P.dirLeft = true) ∨ PortDropAfterHandles w op k :=
  dirLeft_only_by_port_drop_after_handles w op h hd

/-- `_partial`: every history in which, for every node, the node handle or the service handle is dropped after the node's ports
(any order otherwise) leaves nothing behind once everything is dropped. -/
theorem c17_shutdown_leaves_nothing_partial {c : Cfg} {w : World} (r : ReachHandlesLast c w) (h : AllDropped w) :
    resources w = [] :=
  shutdown_leaves_nothing_partial r h

/-- dropping the node handle or the service handle does not touch any port, registry entry or pending notification: the
survivors keep working exactly as before -/
theorem c17_handles_drop_leaves_ports_alone (w : World) (k : Nat) :
    ((step w (.dnode k)).1.liss = w.liss ∧ (step w (.dnode k)).1.nots = w.nots ∧ (step w (.dnode k)).1.lisReg = w.lisReg ∧
     (step w (.dnode k)).1.notReg = w.notReg ∧ (step w (.dnode k)).1.hist = w.hist) ∧
    ((step w (.dsvc k)).1.liss = w.liss ∧ (step w (.dsvc k)).1.nots = w.nots ∧ (step w (.dsvc k)).1.lisReg = w.lisReg ∧
     (step w (.dsvc k)).1.notReg = w.notReg ∧ (step w (.dsvc k)).1.hist = w.hist) :=
  handles_drop_leaves_ports_alone w k

/-! ### non-vacuity -/

def cfgL : Cfg := { maxNot := 1, maxLis := 1, maxNodes := 1, idMax := 2, created := none, dropped := none, dead := none }

-- the second notifier / listener / node is refused, after a drop the creation succeeds again, id 3 is out of bounds
example : (run (World.init cfgL) [.cnot 0 none 0, .clis 0 0]).notReg.len = 1 := by decide
example : (step (run (World.init cfgL) [.cnot 0 none 0, .clis 0 0]) (.cnot 1 none 0)).2 = .err .exceedsNotifiers := by decide
example : (step (run (World.init cfgL) [.cnot 0 none 0, .clis 0 0]) (.clis 1 0)).2 = .err .exceedsListeners := by decide
example : (step (run (World.init cfgL) [.cnot 0 none 0, .clis 0 0]) (.open 1)).2 = .err .exceedsNodes := by decide
example : (step (run (World.init cfgL) [.cnot 0 none 0, .clis 0 0, .dnot 0]) (.cnot 1 none 0)).2 = .ok := by decide
example : (step (run (World.init cfgL) [.cnot 0 none 0, .clis 0 0, .dlis 0]) (.clis 1 0)).2 = .ok := by decide
example : (step (run (World.init cfgL) [.cnot 0 none 0, .clis 0 0]) (.notifyId 0 3)).2 = .err .outOfBounds := by decide
example : (step (run (World.init cfgL) [.cnot 0 none 0, .clis 0 0]) (.notifyId 0 2)).2 = .okN 1 := by decide
example : (step (run (World.init cfgL) [.dsvc 0]) (.open 1)).2 = .err .doesNotExist := by decide
example : (step (run (World.init { cfgL with maxNodes := 2 }) [.open 1, .dsvc 1]) (.open 2)).2 = .ok := by decide

-- shutdown: handles last leaves nothing, a port last leaves the node directory; a dead node is cleaned up completely
example : resources (run (World.init cfgL) [.cnot 0 none 0, .clis 0 0, .dnot 0, .dlis 0, .dnode 0, .dsvc 0]) = [] := by decide
example : AllDropped (run (World.init cfgL) [.cnot 0 none 0, .clis 0 0, .dnot 0, .dlis 0, .dnode 0, .dsvc 0]) := by decide
example : resources (run (World.init cfgL) [.cnot 0 none 0, .clis 0 0, .dnode 0, .dsvc 0, .dnot 0, .dlis 0]) = [("nodedir", 1)] := by decide
example : resources (run (World.init { cfgL with maxNodes := 2 }) [.open 1, .cnot 0 none 1, .clis 0 1, .kill 1, .cleanup 0, .dsvc 0, .dnode 0]) = [] := by
  decide

end Iox2.EventPorts
