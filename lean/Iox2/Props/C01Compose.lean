/-
C01 — composition level: the ORDER in which `PublisherSharedState::send_sample` refreshes the
connections (a newly seen subscriber gets the history), adds the sample to the history and delivers
it, interleaved step by step with a subscriber that registers at any moment.  The step list is
regenerated from /repo (`Gen/ApiOrder.lean`, translator `extract/api_order.py`).
Simplifications: one subscriber, unbounded history and buffer (eviction is the L1 model's subject).
-/
import Iox2.Gen.ApiOrder
import Iox2.Proof.ComposePS
namespace Iox2.Props.C01Compose
open Iox2.Compose Iox2.Compose.PS Iox2.Gen.ApiOrder

def sendProg : List POp := expand publisher_sendSample

/-- the CURRENT source: refresh the connections, then the history, then deliver -/
theorem send_sample_program : sendProg = nominal := by decide

/-- a subscriber that registers at ANY moment of a send receives every sample at most once, in send order -/
theorem late_joiner_each_sample_once_in_order (s : St) (h : Reach sendProg s) : s.queue.Pairwise (· < ·) := by
  rw [send_sample_program] at h
  exact (reach_inv s h).qSorted

/-- nothing is delivered to a subscriber the publisher is not connected to -/
theorem unconnected_subscriber_gets_nothing (s : St) (h : Reach sendProg s) : s.connected = false → s.queue = [] := by
  rw [send_sample_program] at h
  exact (reach_inv s h).qEmpty

/-- contrast: with the history updated before the connections are refreshed, a subscriber that registered
before the send receives the sample twice -/
theorem history_before_refresh_duplicates :
    ∃ s, Reach [.addHistory, .refresh, .deliver] s ∧ s.queue = [0, 0] := by
  let P : List POp := [.addHistory, .refresh, .deliver]
  refine ⟨pstep (pstep (pstep (pbegin P (sregister {})))), ?_, by decide⟩
  exact .pstep (.pstep (.pstep (.pbegin (.sregister .init))))

/-- non-vacuity: a late joiner that got the history and then the next sample -/
example : ∃ s, Reach sendProg s ∧ s.queue = [0, 1] := by
  let p4 (s : St) := pstep (pstep (pstep (pstep (pbegin sendProg s))))
  refine ⟨p4 (sregister (p4 {})), ?_, by decide⟩
  exact .pstep (.pstep (.pstep (.pstep (.pbegin (.sregister (.pstep (.pstep (.pstep (.pstep (.pbegin .init))))))))))

end Iox2.Props.C01Compose
