/-
C09 / RobustUniqueIndexSet (model Iox2/Model/RobustIndexSet.lean) — statements to be proved.
DO NOT change the model or weaken a statement; if a statement is false, report the counterexample.

Setting: ANY number of threads with pairwise different owner ids, ANY programs (acquire, release
of an index the thread holds with or without lock-if-last, borrowed_indices, recover on behalf
of an owner that has died, die), ANY capacity, all interleavings (`Reachable`).
-/
import Iox2.Model.RobustIndexSet

namespace Iox2.C09.RuisP
open Iox2.Sched Iox2.RUIS

/-- initial configuration; thread `i` has owner id `owners[i]`.  A thread whose program starts
with `die` is dead from the start (`settle`). -/
def initCfg (cap : Nat) (owners : List Nat) (progs : List (List Cmd)) : Cfg RSh Th :=
  ((owners.zip progs).map fun (o, p) => Th.init o p).foldl
    (fun (c : Cfg RSh Th) t => let (sh, t') := settle c.sh t; { sh := sh, th := c.th ++ [t'] })
    { sh := RSh.init cap, th := [] }

/-- owner ids are valid (not the EMPTY marker) and pairwise different -/
def OwnersOk (owners : List Nat) : Prop := owners.Nodup ∧ ∀ o ∈ owners, o ≠ EMPTY

/-! ## Proof development: one inductive invariant `Inv`, preserved by every step -/

/-! ### result strings -/
def resKey (r : Res) : Option Char × Option Char := ((showRes r).toList[0]?, (showRes r).toList[8]?)

theorem resKey_acquired (n : Nat) : resKey (.acquired n) = (some 'a', some 'o') := by
  simp [resKey, showRes, String.toList_append]
  constructor <;> rfl

theorem showRes_acquired {r : Res} {n : Nat} (h : showRes r = showRes (.acquired n)) : ∃ n', r = .acquired n' := by
  have hk : resKey r = (some 'a', some 'o') := by rw [← resKey_acquired n]; simp [resKey, h]
  cases r with
  | acquired n' => exact ⟨n', rfl⟩
  | errLocked => exact absurd hk (by decide)
  | errOut => exact absurd hk (by decide)
  | released l => cases l <;> exact absurd hk (by decide)
  | errNotOwned => exact absurd hk (by decide)
  | borrowed k => 
    have : resKey (.borrowed k) = (some 'b', (showRes (.borrowed k)).toList[8]?) := by
      simp [resKey, showRes, String.toList_append]; rfl
    rw [this] at hk
    have h2 := congrArg Prod.fst hk
    simp at h2
  | recovered l => cases l <;> exact absurd hk (by decide)

theorem showRes_errOut {r : Res} (h : showRes r = showRes .errOut) : r = .errOut := by
  have hk : resKey r = (some 'a', some 'e') := by simp [resKey, h]; decide
  cases r with
  | acquired n' => rw [resKey_acquired] at hk; exact absurd hk (by decide)
  | errLocked => exact absurd h (by decide)
  | errOut => rfl
  | released l => cases l <;> exact absurd hk (by decide)
  | errNotOwned => exact absurd hk (by decide)
  | borrowed k => 
    have : resKey (.borrowed k) = (some 'b', (showRes (.borrowed k)).toList[8]?) := by
      simp [resKey, showRes, String.toList_append]; rfl
    rw [this] at hk
    have h2 := congrArg Prod.fst hk
    simp at h2
  | recovered l => cases l <;> exact absurd hk (by decide)

theorem skipped_ne_acquired (n : Nat) : "recover skipped" ≠ showRes (.acquired n) := by
  intro h
  have : resKey (.acquired n) = (some 'r', some 's') := by simp only [resKey, ← h]; decide
  rw [resKey_acquired] at this; exact absurd this (by decide)

/-! ### classification of program counters, per-pc facts -/
/-- the thread's cell CAS `EMPTY → owner` on cell `n` succeeded, its increment is pending -/
def pendAcq (n : Nat) : PC → Prop
  | .incLd (.acq n') => n' = n
  | .incCas (.acq n') _ => n' = n
  | _ => False

/-- the thread emptied cell `n` (release / recovery), its increment is pending -/
def pendRel (n : Nat) : PC → Prop
  | .incLd (.rel n' _) => n' = n
  | .incCas (.rel n' _) _ => n' = n
  | .incLd (.recov n' _ _) => n' = n
  | .incCas (.recov n' _ _) _ => n' = n
  | _ => False

/-- acquire scan: snapshot of the generation counter, number of cells found occupied so far -/
def scanA (cap : Nat) : PC → Option (Nat × Nat)
  | .acCell _ g n => some (g, n)
  | .acValidate _ g => some (g, cap)
  | _ => none

/-- lock scan (count still 0): snapshot, number of cells found empty so far -/
def scanL (cap : Nat) : PC → Option (Nat × Nat)
  | .bgCell _ g0 n c => if c = 0 then some (g0, n) else none
  | .incLd (.bg g0 c _) => if c = 0 then some (g0, cap) else none
  | .incCas (.bg g0 c _) _ => if c = 0 then some (g0, cap) else none
  | .lkCas _ g => if g = LOCKG then none else some (g, cap)
  | _ => none

def klProg : KL → Option (Nat × Nat)
  | .recover n _ d => some (d, n + 1)
  | .release => none

def kbProg : KB → Option (Nat × Nat)
  | .lock kl => klProg kl
  | .borrowed => none

/-- recovery progress: dead owner, number of cells known not to carry its id -/
def rcProg (cap : Nat) : PC → Option (Nat × Nat)
  | .rcIsLocked _ d => some (d, 0)
  | .rcDist _ d => some (d, 0)
  | .rcLoad _ d n => some (d, n)
  | .rcCas _ d n _ => some (d, n)
  | .incLd (.recov n _ d) => some (d, n + 1)
  | .incCas (.recov n _ d) _ => some (d, n + 1)
  | .incLd (.bg _ _ kb) => kbProg kb
  | .incCas (.bg _ _ kb) _ => kbProg kb
  | .lkIsLocked kl => klProg kl
  | .lkCas kl _ => klProg kl
  | .bgDist kb => kbProg kb
  | .bgLdGen kb => kbProg kb
  | .bgCell kb _ _ _ => kbProg kb
  | .rcFinal d => some (d, cap)
  | _ => none

/-- the cell the thread owns without having it in `held` -/
def ownCell : PC → Option Nat
  | .incLd (.acq n) => some n
  | .incCas (.acq n) _ => some n
  | .rlDist n _ _ => some n
  | .rlCas n _ _ => some n
  | _ => none

def ownerArg : PC → Option Nat
  | .acDist o => some o
  | .acLdGen o => some o
  | .acCell o _ _ => some o
  | .acValidate o _ => some o
  | .rlDist _ o _ => some o
  | .rlCas _ o _ => some o
  | _ => none

def pcMisc (cap : Nat) : PC → Prop
  | .incCas _ g => g ≠ LOCKG
  | .acCell _ _ n => n < cap
  | .bgCell _ _ n _ => n < cap
  | .rcCas _ d _ o => o = d ∧ o ≠ EMPTY
  | _ => True

structure PcOk (cap : Nat) (s : RSh) (owner : Nat) (held : List Nat) (pc : PC) : Prop where
  ownerArg : ∀ o, ownerArg pc = some o → o = owner
  ownCell : ∀ n, ownCell pc = some n → n < cap ∧ s.cells[n]? = some owner ∧ n ∉ held
  misc : pcMisc cap pc
  rc : ∀ d k, rcProg cap pc = some (d, k) → d ∈ s.deadOwners ∧ ∀ j, j < k → s.cells[j]? ≠ some d
  scanA : ∀ g n, scanA cap pc = some (g, n) → g ≤ s.gen ∧ g ≠ LOCKG
  scanL : ∀ g n, scanL cap pc = some (g, n) → g ≤ s.gen ∧ g ≠ LOCKG

/-- effect of one step of the sub-machine on the shared state, seen by everybody -/
structure Eff (s : RSh) (owner : Nat) (pc : PC) (o : Out) : Prop where
  cap : o.sh.cap = s.cap
  dead : o.sh.deadOwners = s.deadOwners
  len : o.sh.cells.length = s.cells.length
  genMono : s.gen ≤ o.sh.gen
  genLe : o.sh.gen ≤ LOCKG
  genLock : s.gen = LOCKG → o.sh.gen = LOCKG
  cells : ∀ j, o.sh.cells[j]? = s.cells[j]? ∨
      (s.cells[j]? = some EMPTY ∧ o.sh.cells[j]? = some owner ∧ o.next = .inl (.incLd (.acq j))) ∨
      (o.sh.cells[j]? = some EMPTY ∧ ((s.cells[j]? = some owner ∧ ownCell pc = some j) ∨ ∃ d, d ∈ s.deadOwners ∧ s.cells[j]? = some d) ∧
        ∃ pc', o.next = .inl pc' ∧ pendRel j pc')
  pendA : ∀ j, pendAcq j pc → o.sh.gen = s.gen → s.gen ≠ LOCKG → ∃ pc', o.next = .inl pc' ∧ pendAcq j pc'
  pendR : ∀ j, pendRel j pc → o.sh.gen = s.gen → s.gen ≠ LOCKG → ∃ pc', o.next = .inl pc' ∧ pendRel j pc'
  recov : o.recovered = [] ∨ ∃ d j, o.recovered = [(d, j)] ∧ d ∈ s.deadOwners ∧ s.cells[j]? = some d ∧
      o.sh.cells[j]? = some EMPTY

theorem finishLock_sh (s : RSh) (kl : KL) (b : Bool) (evs : List Ev) : (finishLock s kl b evs).sh = s := by
  cases kl <;> rfl
theorem finishLock_recovered (s : RSh) (kl : KL) (b : Bool) (evs : List Ev) : (finishLock s kl b evs).recovered = [] := by
  cases kl <;> rfl
theorem finishBg_sh (s : RSh) (kb : KB) (g n : Nat) (evs : List Ev) : (finishBg s kb g n evs).sh = s := by
  cases kb <;> simp only [finishBg] <;> try rfl
  split <;> simp [finishLock_sh]
theorem finishBg_recovered (s : RSh) (kb : KB) (g n : Nat) (evs : List Ev) : (finishBg s kb g n evs).recovered = [] := by
  cases kb <;> simp only [finishBg] <;> try rfl
  split <;> simp [finishLock_recovered]
theorem finishInc_sh (s : RSh) (k : K) (v : Nat) (evs : List Ev) : (finishInc s k v evs).sh = s := by
  cases k <;> simp only [finishInc] <;> (repeat' split) <;> simp [finishBg_sh]
theorem finishInc_recovered (s : RSh) (k : K) (v : Nat) (evs : List Ev) : (finishInc s k v evs).recovered = [] := by
  cases k <;> simp only [finishInc] <;> (repeat' split) <;> simp [finishBg_recovered]

theorem getD_eq {l : List Nat} {n : Nat} (hn : n < l.length) : l.getD n EMPTY = l[n] := by
  simp [List.getD, hn]

/-! ### effect of a sub-machine step on the shared state -/
theorem eff_of_sh_eq {s : RSh} {owner : Nat} {pc : PC} {o : Out} (hg : s.gen ≤ LOCKG) (h : o.sh = s) (hr : o.recovered = [])
    (hA : ∀ j, pendAcq j pc → s.gen ≠ LOCKG → ∃ pc', o.next = .inl pc' ∧ pendAcq j pc')
    (hR : ∀ j, pendRel j pc → s.gen ≠ LOCKG → ∃ pc', o.next = .inl pc' ∧ pendRel j pc') : Eff s owner pc o := by
  refine ⟨by rw [h], by rw [h], by rw [h], by rw [h]; exact Nat.le_refl _, by rw [h]; exact hg, by rw [h]; exact id,
    fun j => .inl (by rw [h]), fun j hj _ hl => hA j hj hl, fun j hj _ hl => hR j hj hl, .inl hr⟩

theorem stepOp_eff {cap : Nat} {s : RSh} {owner : Nat} {held : List Nat} {pc : PC}
    (hlen : s.cells.length = cap) (hg : s.gen ≤ LOCKG) (hown : owner ≠ EMPTY)
    (h : PcOk cap s owner held pc) : Eff s owner pc (stepOp s pc) := by
  cases pc with
  | acDist o => exact eff_of_sh_eq hg rfl rfl (by simp [pendAcq]) (by simp [pendRel])
  | acLdGen o => 
    apply eff_of_sh_eq hg <;> simp only [stepOp] <;> split <;> simp [pendAcq, pendRel]
  | acValidate o g => 
    apply eff_of_sh_eq hg <;> simp only [stepOp] <;> (repeat' split) <;> simp [pendAcq, pendRel]
  | rlDist idx o m => exact eff_of_sh_eq hg rfl rfl (by simp [pendAcq]) (by simp [pendRel])
  | lkIsLocked kl =>
    apply eff_of_sh_eq hg <;> simp only [stepOp] <;> split <;> simp [pendAcq, pendRel, finishLock_sh, finishLock_recovered]
  | bgDist kb => exact eff_of_sh_eq hg rfl rfl (by simp [pendAcq]) (by simp [pendRel])
  | bgLdGen kb => 
    apply eff_of_sh_eq hg <;> simp only [stepOp] <;> split <;> simp [pendAcq, pendRel, finishBg_sh, finishBg_recovered]
  | bgCell kb g0 n count => exact eff_of_sh_eq hg rfl rfl (by simp [pendAcq]) (by simp [pendRel])
  | rcIsLocked m d => 
    apply eff_of_sh_eq hg <;> simp only [stepOp] <;> split <;> simp [pendAcq, pendRel]
  | rcDist m d => exact eff_of_sh_eq hg rfl rfl (by simp [pendAcq]) (by simp [pendRel])
  | rcLoad m d n =>
    apply eff_of_sh_eq hg <;> simp only [stepOp] <;> split <;> simp [pendAcq, pendRel]
  | rcFinal d => exact eff_of_sh_eq hg rfl rfl (by simp [pendAcq]) (by simp [pendRel])
  | incLd k =>
    apply eff_of_sh_eq hg
    · simp only [stepOp]; split <;> simp [finishInc_sh]
    · simp only [stepOp]; split <;> simp [finishInc_recovered]
    · intro j hj hl; simp only [stepOp, hl, if_false]; exact ⟨_, rfl, by cases k <;> simp_all [pendAcq]⟩
    · intro j hj hl; simp only [stepOp, hl, if_false]; exact ⟨_, rfl, by cases k <;> simp_all [pendRel]⟩
  | incCas k g => 
    have hgl : g ≠ LOCKG := h.misc
    by_cases h1 : s.gen = g
    · have e : stepOp s (.incCas k g) = finishInc { s with gen := g + 1 } k (g + 1) [.cas "gen" .rel .rlx g (g + 1) true] := by
        simp [stepOp, h1]
      rw [e]
      refine ⟨by simp [finishInc_sh], by simp [finishInc_sh], by simp [finishInc_sh], by simp [finishInc_sh]; omega,
        by simp [finishInc_sh]; omega, by intro h2; omega, fun j => .inl (by simp [finishInc_sh]), ?_, ?_, .inl (finishInc_recovered _ _ _ _)⟩
      · intro j _ h2; simp [finishInc_sh] at h2; omega
      · intro j _ h2; simp [finishInc_sh] at h2; omega
    · apply eff_of_sh_eq hg
      · simp only [stepOp, h1, if_false]; split <;> simp [finishInc_sh]
      · simp only [stepOp, h1, if_false]; split <;> simp [finishInc_recovered]
      · intro j hj hl; simp only [stepOp, h1, hl, if_false]; exact ⟨_, rfl, by cases k <;> simp_all [pendAcq]⟩
      · intro j hj hl; simp only [stepOp, h1, hl, if_false]; exact ⟨_, rfl, by cases k <;> simp_all [pendRel]⟩
  | lkCas kl g => 
    by_cases h1 : s.gen = g
    · have e : stepOp s (.lkCas kl g) = finishLock { s with gen := LOCKG } kl true [.cas "gen" .rlx .rlx g LOCKG true] := by
        simp [stepOp, h1]
      rw [e]
      refine ⟨by simp [finishLock_sh], by simp [finishLock_sh], by simp [finishLock_sh], by simp [finishLock_sh]; omega,
        by simp [finishLock_sh], by intro h2; simp [finishLock_sh], fun j => .inl (by simp [finishLock_sh]), ?_, ?_, .inl (finishLock_recovered _ _ _ _)⟩
      · intro j hj; simp [pendAcq] at hj
      · intro j hj; simp [pendRel] at hj
    · apply eff_of_sh_eq hg <;> simp only [stepOp, h1, if_false] <;> simp [pendAcq, pendRel]
  | acCell o g n =>
    have ho : o = owner := h.ownerArg o rfl
    have hn : n < s.cells.length := by have : n < cap := h.misc; omega
    subst ho
    by_cases h1 : s.cells.getD n EMPTY = EMPTY
    · have e : stepOp s (.acCell o g n) = { sh := { s with cells := s.cells.set n o }, next := .inl (.incLd (.acq n)), evs := [.cas (cellVar n) .rlx .rlx EMPTY o true] } := by
        simp only [stepOp, h1, if_true]
      rw [e]
      refine ⟨rfl, rfl, by simp, Nat.le_refl _, hg, id, ?_, by simp [pendAcq], by simp [pendRel], .inl rfl⟩
      intro j
      by_cases hj : n = j
      · subst hj; right; left
        refine ⟨?_, by simp [hn], rfl⟩
        rw [getD_eq hn] at h1; simp [hn, h1]
      · left; simp [List.getElem?_set_ne hj]
    · apply eff_of_sh_eq hg <;> simp only [stepOp, h1, if_false] <;> simp [pendAcq, pendRel]
  | rlCas idx o m =>
    have ho : o = owner := h.ownerArg o rfl
    obtain ⟨hn, hc, _⟩ := h.ownCell idx rfl
    have hn : idx < s.cells.length := by omega
    subst ho
    have h1 : s.cells.getD idx EMPTY = o := by rw [getD_eq hn]; simpa [hn] using hc
    have e : stepOp s (.rlCas idx o m) = { sh := { s with cells := s.cells.set idx EMPTY }, next := .inl (.incLd (.rel idx m)), evs := [.cas (cellVar idx) .rlx .rlx o EMPTY true] } := by
      simp only [stepOp, h1, if_true]
    rw [e]
    refine ⟨rfl, rfl, by simp, Nat.le_refl _, hg, id, ?_, by simp [pendAcq], by simp [pendRel], .inl rfl⟩
    intro j
    by_cases hj : idx = j
    · subst hj; right; right
      exact ⟨by simp [hn], .inl ⟨hc, rfl⟩, _, rfl, by simp [pendRel]⟩
    · left; simp [List.getElem?_set_ne hj]
  | rcCas m d n o =>
    obtain ⟨hod, hoe⟩ : o = d ∧ o ≠ EMPTY := h.misc
    subst hod
    have hd : o ∈ s.deadOwners := (h.rc o n rfl).1
    by_cases h1 : s.cells.getD n EMPTY = o
    · have hn : n < s.cells.length := by
        apply Classical.byContradiction; intro hn
        simp [List.getD, Nat.not_lt.mp hn] at h1; exact hoe h1.symm
      have hc : s.cells[n]? = some o := by rw [getD_eq hn] at h1; simp [hn, h1]
      have e : stepOp s (.rcCas m o n o) = { sh := { s with cells := s.cells.set n EMPTY }, next := .inl (.incLd (.recov n m o)), evs := [.cas (cellVar n) .rlx .rlx o EMPTY true], recovered := [(o, n)] } := by
        simp only [stepOp, h1, if_true]
      rw [e]
      refine ⟨rfl, rfl, by simp, Nat.le_refl _, hg, id, ?_, by simp [pendAcq], by simp [pendRel], .inr ⟨o, n, rfl, hd, hc, by simp [hn]⟩⟩
      intro j
      by_cases hj : n = j
      · subst hj; right; right
        exact ⟨by simp [hn], .inr ⟨o, hd, hc⟩, _, rfl, by simp [pendRel]⟩
      · left; simp [List.getElem?_set_ne hj]
    · apply eff_of_sh_eq hg <;> simp only [stepOp, h1, if_false] <;> simp [pendAcq, pendRel]

/-! ### transitions of the sub-machine -/
theorem finishLock_next (s : RSh) (kl : KL) (b : Bool) (evs : List Ev) : (finishLock s kl b evs).next =
    match kl with
    | .release => .inr (.released b)
    | .recover n m d => .inl (if n + 1 < s.cap then .rcLoad m d (n + 1) else .rcFinal d) := by
  cases kl <;> rfl

theorem finishBg_next (s : RSh) (kb : KB) (g c : Nat) (evs : List Ev) : (finishBg s kb g c evs).next =
    match kb with
    | .borrowed => .inr (.borrowed c)
    | .lock kl => if c = 0 then .inl (.lkCas kl g) else (finishLock s kl false evs).next := by
  cases kb <;> simp only [finishBg]
  split <;> rfl

theorem finishInc_next (s : RSh) (k : K) (v : Nat) (evs : List Ev) : (finishInc s k v evs).next =
    match k with
    | .acq n => .inr (if v = LOCKG then .errLocked else .acquired n)
    | .rel _ m => if m = .lockIfLast then .inl (.lkIsLocked .release) else .inr (.released false)
    | .bg g0 c kb => if g0 + 1 = v then (finishBg s kb v c evs).next else .inl (.bgLdGen kb)
    | .recov n m d => if v = LOCKG then .inr (.recovered true) else if m = .lockIfLast then .inl (.lkIsLocked (.recover n m d))
        else .inl (if n + 1 < s.cap then .rcLoad m d (n + 1) else .rcFinal d) := by
  cases k <;> simp only [finishInc] <;> (repeat' split) <;> rfl

/-- case split on a pc and on the continuations it carries -/
macro "pc_cases " pc:ident : tactic =>
  `(tactic| (cases $pc:ident <;> (try (rename K => k; cases k)) <;> (try (rename KB => kb; cases kb)) <;>
      (try (rename KL => kl; cases kl))))

theorem stepOp_ownerArg {s : RSh} {pc pc' : PC} {o : Nat} (hn : (stepOp s pc).next = .inl pc')
    (ho : ownerArg pc' = some o) : ownerArg pc = some o := by
  pc_cases pc <;> simp only [stepOp, bgAfterScan, apply_ite Out.next, finishInc_next, finishBg_next, finishLock_next] at hn
  all_goals grind [ownerArg]

theorem stepOp_ownCell {s : RSh} {pc pc' : PC} {n : Nat} (hn : (stepOp s pc).next = .inl pc')
    (ho : ownCell pc' = some n) : (ownCell pc = some n ∧ (stepOp s pc).sh = s) ∨
      (∃ o g, pc = .acCell o g n ∧ s.cells.getD n EMPTY = EMPTY ∧ (stepOp s pc).sh.cells = s.cells.set n o) := by
  pc_cases pc <;> simp only [stepOp, bgAfterScan, apply_ite Out.next, apply_ite Out.sh, finishInc_sh, finishBg_sh, finishLock_sh,
    finishInc_next, finishBg_next, finishLock_next, ite_self, apply_ite RSh.cells] at hn ⊢
  all_goals grind [ownCell]

theorem stepOp_misc {cap : Nat} {s : RSh} {pc pc' : PC} (hc : s.cap = cap) (hn : (stepOp s pc).next = .inl pc') :
    pcMisc cap pc' := by
  pc_cases pc <;> simp only [stepOp, bgAfterScan, apply_ite Out.next, finishInc_next, finishBg_next, finishLock_next] at hn
  all_goals grind [pcMisc]

theorem stepOp_rc {cap : Nat} {s : RSh} {pc pc' : PC} {d k' : Nat} (hc : s.cap = cap) (hm : pcMisc cap pc)
    (hd : ∀ k, rcProg cap pc = some (d, k) → d ≠ EMPTY)
    (hn : (stepOp s pc).next = .inl pc') (hr : rcProg cap pc' = some (d, k')) :
    ∃ k, rcProg cap pc = some (d, k) ∧ ∀ j, j < k' → j < k ∨ (stepOp s pc).sh.cells[j]? ≠ some d := by
  pc_cases pc <;> simp only [stepOp, bgAfterScan, apply_ite Out.next, apply_ite Out.sh, finishInc_sh, finishBg_sh, finishLock_sh,
    finishInc_next, finishBg_next, finishLock_next, ite_self, apply_ite RSh.cells] at hn ⊢
  all_goals grind [rcProg, kbProg, klProg, pcMisc]

theorem stepOp_scanA {cap : Nat} {s : RSh} {pc pc' : PC} {g n' : Nat} (hc : s.cap = cap)
    (hp : ∀ g n, scanA cap pc = some (g, n) → g ≤ s.gen ∧ g ≠ LOCKG)
    (hn : (stepOp s pc).next = .inl pc') (hr : scanA cap pc' = some (g, n')) :
    (stepOp s pc).sh = s ∧ g ≤ s.gen ∧ g ≠ LOCKG ∧
      (n' = 0 ∨ ∃ n, scanA cap pc = some (g, n) ∧ ∀ j, j < n' → j < n ∨ s.cells[j]? ≠ some EMPTY) := by
  pc_cases pc <;> simp only [stepOp, bgAfterScan, apply_ite Out.next, apply_ite Out.sh, finishInc_sh, finishBg_sh, finishLock_sh,
    finishInc_next, finishBg_next, finishLock_next, ite_self] at hn ⊢
  all_goals grind [scanA]

theorem stepOp_scanL {cap : Nat} {s : RSh} {pc pc' : PC} {g n' : Nat} (hc : s.cap = cap)
    (hlen : s.cells.length = cap) (hm : pcMisc cap pc)
    (hp : ∀ g n, scanL cap pc = some (g, n) → g ≤ s.gen ∧ g ≠ LOCKG)
    (hn : (stepOp s pc).next = .inl pc') (hr : scanL cap pc' = some (g, n')) :
    (stepOp s pc).sh.cells = s.cells ∧ g ≤ (stepOp s pc).sh.gen ∧ g ≠ LOCKG ∧
      (n' = 0 ∨ (scanL cap pc).isSome ∧ ∀ g0 n, scanL cap pc = some (g0, n) → ((stepOp s pc).sh.gen = g → s.gen = g0) ∧
        ∀ j, j < n' → j < n ∨ s.cells[j]? = some EMPTY) := by
  pc_cases pc <;> simp only [stepOp, bgAfterScan, apply_ite Out.next, apply_ite Out.sh, finishInc_sh, finishBg_sh, finishLock_sh,
    finishInc_next, finishBg_next, finishLock_next, ite_self, apply_ite RSh.gen, apply_ite RSh.cells] at hn ⊢
  all_goals (repeat' (split at hn))
  all_goals (try (injection hn with hn; subst hn))
  all_goals (try simp only [scanL] at hp hr ⊢)
  all_goals (try simp only [pcMisc] at hm)
  all_goals grind

theorem stepOp_acquired {cap : Nat} {s : RSh} {pc : PC} {n : Nat} (hm : pcMisc cap pc)
    (hn : (stepOp s pc).next = .inr (.acquired n)) :
    ownCell pc = some n ∧ (stepOp s pc).sh.cells = s.cells ∧ s.gen ≠ LOCKG := by
  pc_cases pc <;> simp only [stepOp, bgAfterScan, apply_ite Out.next, apply_ite Out.sh, finishInc_sh, finishBg_sh, finishLock_sh,
    finishInc_next, finishBg_next, finishLock_next, ite_self, apply_ite RSh.cells] at hn ⊢
  all_goals grind [ownCell, pcMisc]

theorem stepOp_errOut {s : RSh} {pc : PC} (hn : (stepOp s pc).next = .inr .errOut) :
    ∃ o g, pc = .acValidate o g ∧ s.gen = g := by
  pc_cases pc <;> simp only [stepOp, bgAfterScan, apply_ite Out.next, finishInc_next, finishBg_next, finishLock_next] at hn
  all_goals grind

theorem stepOp_res_cells {s : RSh} {pc : PC} {r : Res} (hn : (stepOp s pc).next = .inr r) :
    (stepOp s pc).sh.cells = s.cells := by
  pc_cases pc <;> simp only [stepOp, bgAfterScan, apply_ite Out.next, apply_ite Out.sh, finishInc_sh, finishBg_sh, finishLock_sh,
    finishInc_next, finishBg_next, finishLock_next, ite_self, apply_ite RSh.cells] at hn ⊢
  all_goals grind

theorem stepOp_res_recovered {s : RSh} {pc : PC} {r : Res} (hn : (stepOp s pc).next = .inr r) :
    (stepOp s pc).recovered = [] := by
  pc_cases pc <;> simp only [stepOp, bgAfterScan, apply_ite Out.next, apply_ite Out.recovered, finishInc_recovered, finishBg_recovered,
    finishLock_recovered, finishInc_next, finishBg_next, finishLock_next, ite_self] at hn ⊢
  all_goals grind

theorem finishLock_evs (s : RSh) (kl : KL) (b : Bool) (evs : List Ev) : (finishLock s kl b evs).evs = evs := by
  cases kl <;> rfl
theorem finishBg_evs (s : RSh) (kb : KB) (g n : Nat) (evs : List Ev) : (finishBg s kb g n evs).evs = evs := by
  cases kb <;> simp only [finishBg] <;> try rfl
  split <;> simp [finishLock_evs]
theorem finishInc_evs (s : RSh) (k : K) (v : Nat) (evs : List Ev) : (finishInc s k v evs).evs = evs := by
  cases k <;> simp only [finishInc] <;> (repeat' split) <;> simp [finishBg_evs]

theorem stepOp_evs (s : RSh) (pc : PC) (x : String) : Ev.ret x ∉ (stepOp s pc).evs := by
  cases pc <;> simp only [stepOp, bgAfterScan, apply_ite Out.evs, finishInc_evs, finishBg_evs, finishLock_evs] <;>
    (repeat' split) <;> simp

theorem stepOp_gen_change {s : RSh} {pc : PC} (h : (stepOp s pc).sh.gen ≠ s.gen) :
    (∃ k g, pc = .incCas k g ∧ s.gen = g ∧ (stepOp s pc).sh.gen = g + 1) ∨
    (∃ kl g, pc = .lkCas kl g ∧ s.gen = g ∧ (stepOp s pc).sh.gen = LOCKG) := by
  cases pc <;> simp only [stepOp, bgAfterScan, apply_ite Out.sh, finishInc_sh, finishBg_sh, finishLock_sh, ite_self,
    apply_ite RSh.gen] at h ⊢
  all_goals grind

/-! ### the invariant -/
structure ThOk (cap : Nat) (s : RSh) (t : Th) : Prop where
  ownerNe : t.owner ≠ EMPTY
  nodup : t.held.Nodup
  deadPc : t.dead = true → t.pc = none
  deadIff : t.owner ∈ s.deadOwners ↔ t.dead = true
  held : t.dead = false → ∀ n ∈ t.held, n < cap ∧ s.cells[n]? = some t.owner
  log : ∀ p ∈ t.recoveredLog, p.1 ∈ s.deadOwners ∧ p.2 < cap ∧ s.cells[p.2]? ≠ some p.1
  pcOk : ∀ pc, t.pc = some pc → PcOk cap s t.owner t.held pc

def PendAcq (c : Cfg RSh Th) (n : Nat) : Prop := ∃ (j : Nat) (u : Th) (pc : PC), c.th[j]? = some u ∧ u.pc = some pc ∧ pendAcq n pc
def PendRel (c : Cfg RSh Th) (n : Nat) : Prop := ∃ (j : Nat) (u : Th) (pc : PC), c.th[j]? = some u ∧ u.pc = some pc ∧ pendRel n pc

structure Inv (cap : Nat) (c : Cfg RSh Th) : Prop where
  cap_eq : c.sh.cap = cap
  len : c.sh.cells.length = cap
  genLe : c.sh.gen ≤ LOCKG
  ownersNodup : (c.th.map (·.owner)).Nodup
  deadNe : ∀ d ∈ c.sh.deadOwners, d ≠ EMPTY
  thOk : ∀ (i : Nat) (t : Th), c.th[i]? = some t → ThOk cap c.sh t
  scanA : ∀ (i : Nat) (t : Th) (pc : PC) (g n : Nat), c.th[i]? = some t → t.pc = some pc → scanA cap pc = some (g, n) → c.sh.gen = g →
    ∀ j, j < n → c.sh.cells[j]? ≠ some EMPTY ∨ PendRel c j
  scanL : ∀ (i : Nat) (t : Th) (pc : PC) (g n : Nat), c.th[i]? = some t → t.pc = some pc → scanL cap pc = some (g, n) → c.sh.gen = g →
    ∀ j, j < n → j < cap → c.sh.cells[j]? = some EMPTY ∨ PendAcq c j
  logNodup : ((c.th.map (·.recoveredLog)).flatten).Nodup

/-- what a (sub-)step of thread `t` may do, as seen by the other threads -/
structure Upd (c : Cfg RSh Th) (t : Th) (s' : RSh) (t' : Th) : Prop where
  cap : s'.cap = c.sh.cap
  dead : s'.deadOwners = c.sh.deadOwners
  len : s'.cells.length = c.sh.cells.length
  genMono : c.sh.gen ≤ s'.gen
  genLe : s'.gen ≤ LOCKG
  owner : t'.owner = t.owner
  cells : ∀ j, s'.cells[j]? = c.sh.cells[j]? ∨
      (c.sh.cells[j]? = some EMPTY ∧ s'.cells[j]? = some t.owner ∧ ∃ pc', t'.pc = some pc' ∧ pendAcq j pc') ∨
      (s'.cells[j]? = some EMPTY ∧ (c.sh.cells[j]? = some t.owner ∨ ∃ d, d ∈ c.sh.deadOwners ∧ c.sh.cells[j]? = some d) ∧
        ∃ pc', t'.pc = some pc' ∧ pendRel j pc')
  pendA : ∀ j pc, t.pc = some pc → pendAcq j pc → s'.gen = c.sh.gen → c.sh.gen ≠ LOCKG →
      ∃ pc', t'.pc = some pc' ∧ pendAcq j pc'
  pendR : ∀ j pc, t.pc = some pc → pendRel j pc → s'.gen = c.sh.gen → c.sh.gen ≠ LOCKG →
      ∃ pc', t'.pc = some pc' ∧ pendRel j pc'
  log : t'.recoveredLog = t.recoveredLog ∨ ∃ d j, t'.recoveredLog = t.recoveredLog ++ [(d, j)] ∧ d ∈ c.sh.deadOwners ∧
      c.sh.cells[j]? = some d ∧ s'.cells[j]? = some EMPTY

theorem owner_inj {c : Cfg RSh Th} (h : (c.th.map (·.owner)).Nodup) {i j : Nat} {t u : Th}
    (hi : c.th[i]? = some t) (hj : c.th[j]? = some u) (he : t.owner = u.owner) : i = j := by
  have h1 : (c.th.map (·.owner))[i]? = some t.owner := by simp [hi]
  have h2 : (c.th.map (·.owner))[j]? = some t.owner := by simp [hj, he]
  have hi' : i < (c.th.map (·.owner)).length := by
    apply Classical.byContradiction; intro hh; rw [List.getElem?_eq_none (Nat.le_of_not_lt hh)] at h1; simp at h1
  have hj' : j < (c.th.map (·.owner)).length := by
    apply Classical.byContradiction; intro hh; rw [List.getElem?_eq_none (Nat.le_of_not_lt hh)] at h2; simp at h2
  rw [List.getElem?_eq_getElem hi'] at h1
  rw [List.getElem?_eq_getElem hj'] at h2
  exact (List.getElem_inj h).mp (Option.some.inj (h1.trans h2.symm))

theorem map_set_same {α β : Type} (f : α → β) (l : List α) (i : Nat) (a a' : α) (h : l[i]? = some a) (hf : f a' = f a) :
    (l.set i a').map f = l.map f := by
  apply List.ext_getElem?
  intro j
  simp only [List.getElem?_map, List.getElem?_set]
  split
  · rename_i hij; subst hij
    split
    · simp [h, hf]
    · rename_i hl; simp [List.getElem?_eq_none (Nat.le_of_not_lt hl)]
  · rfl

theorem flatten_set_append_perm {α : Type} (L : List (List α)) (i : Nat) (Li ys : List α) (h : L[i]? = some Li) :
    (L.set i (Li ++ ys)).flatten.Perm (ys ++ L.flatten) := by
  induction L generalizing i with
  | nil => simp at h
  | cons a L ih =>
    cases i with
    | zero =>
      simp at h; subst h
      simp only [List.set_cons_zero, List.flatten_cons]
      rw [← List.append_assoc]
      exact List.Perm.append_right _ List.perm_append_comm
    | succ i =>
      simp at h
      simp only [List.set_cons_succ, List.flatten_cons]
      have := ih i h
      refine (List.Perm.append_left a this).trans ?_
      rw [← List.append_assoc, ← List.append_assoc]
      exact List.Perm.append_right _ List.perm_append_comm

/-! ### what the other threads see of a step -/
section
section generic
variable {cap : Nat} {c : Cfg RSh Th} {i : Nat} {t t' : Th} {s' : RSh}

theorem Upd.cells_keep (U : Upd c t s' t') {v j : Nat} (h1 : v ≠ EMPTY) (h2 : v ≠ t.owner)
    (h3 : v ∉ c.sh.deadOwners) (h : c.sh.cells[j]? = some v) : s'.cells[j]? = some v := by
  rcases U.cells j with h' | ⟨h', _⟩ | ⟨_, h' | ⟨d, hd, h'⟩, _⟩
  · rw [h', h]
  · rw [h] at h'; exact absurd (Option.some.inj h') h1
  · rw [h] at h'; exact absurd (Option.some.inj h') h2
  · rw [h] at h'; cases Option.some.inj h'; exact absurd hd h3

theorem Upd.cells_dead_ne (U : Upd c t s' t') {d j : Nat} (hne : d ≠ EMPTY)
    (hto : d ≠ t.owner) (h : c.sh.cells[j]? ≠ some d) : s'.cells[j]? ≠ some d := by
  rcases U.cells j with h' | ⟨_, h', _⟩ | ⟨h', _, _⟩
  · rw [h']; exact h
  · rw [h']; intro e; exact hto (Option.some.inj e).symm
  · rw [h']; intro e; exact hne (Option.some.inj e).symm

theorem ThOk_other (hI : Inv cap c) (hi : c.th[i]? = some t) (hl : t.dead = false) (U : Upd c t s' t')
    {u : Th} (hu : ThOk cap c.sh u) (hne : u.owner ≠ t.owner) : ThOk cap s' u := by
  have htl : t.owner ∉ c.sh.deadOwners := by
    intro h; have := ((hI.thOk i t hi).deadIff).mp h; simp [hl] at this
  have keep : u.dead = false → ∀ j : Nat, c.sh.cells[j]? = some u.owner → s'.cells[j]? = some u.owner := by
    intro hul j hj
    refine U.cells_keep hu.ownerNe hne ?_ hj
    intro h; have := hu.deadIff.mp h; simp [hul] at this
  have dne : ∀ d : Nat, d ∈ c.sh.deadOwners → ∀ j : Nat, c.sh.cells[j]? ≠ some d → s'.cells[j]? ≠ some d := by
    intro d hd j hj
    exact U.cells_dead_ne (hI.deadNe d hd) (fun e => htl (e ▸ hd)) hj
  refine ⟨hu.ownerNe, hu.nodup, hu.deadPc, by rw [U.dead]; exact hu.deadIff, ?_, ?_, ?_⟩
  · intro hul n hn
    obtain ⟨h1, h2⟩ := hu.held hul n hn
    exact ⟨h1, keep hul n h2⟩
  · intro p hp
    obtain ⟨h1, h2, h3⟩ := hu.log p hp
    exact ⟨by rw [U.dead]; exact h1, h2, dne p.1 h1 p.2 h3⟩
  · intro pc hpc
    have hul : u.dead = false := by
      cases hd : u.dead with
      | false => rfl
      | true => have := hu.deadPc hd; rw [hpc] at this; cases this
    have P := hu.pcOk pc hpc
    refine ⟨P.ownerArg, ?_, P.misc, ?_, ?_, ?_⟩
    · intro n hn
      obtain ⟨h1, h2, h3⟩ := P.ownCell n hn
      exact ⟨h1, keep hul n h2, h3⟩
    · intro d k hk
      obtain ⟨h1, h2⟩ := P.rc d k hk
      exact ⟨by rw [U.dead]; exact h1, fun j hj => dne d h1 j (h2 j hj)⟩
    · intro g n hgn
      obtain ⟨h1, h2⟩ := P.scanA g n hgn
      exact ⟨Nat.le_trans h1 U.genMono, h2⟩
    · intro g n hgn
      obtain ⟨h1, h2⟩ := P.scanL g n hgn
      exact ⟨Nat.le_trans h1 U.genMono, h2⟩

theorem PendRel_upd (hi : c.th[i]? = some t) (U : Upd c t s' t') {j : Nat} (h : PendRel c j)
    (hg : s'.gen = c.sh.gen) (hl : c.sh.gen ≠ LOCKG) : PendRel { sh := s', th := c.th.set i t' } j := by
  obtain ⟨w, u, pc, hw, hpc, hp⟩ := h
  by_cases hwi : w = i
  · subst hwi
    rw [hi] at hw; cases hw
    obtain ⟨pc', h1, h2⟩ := U.pendR j pc hpc hp hg hl
    have hlt : w < c.th.length := by
      apply Classical.byContradiction; intro hh; rw [List.getElem?_eq_none (Nat.le_of_not_lt hh)] at hi; cases hi
    exact ⟨w, t', pc', by simp [hlt], h1, h2⟩
  · exact ⟨w, u, pc, by simp [List.getElem?_set_ne (Ne.symm hwi), hw], hpc, hp⟩

theorem PendAcq_upd (hi : c.th[i]? = some t) (U : Upd c t s' t') {j : Nat} (h : PendAcq c j)
    (hg : s'.gen = c.sh.gen) (hl : c.sh.gen ≠ LOCKG) : PendAcq { sh := s', th := c.th.set i t' } j := by
  obtain ⟨w, u, pc, hw, hpc, hp⟩ := h
  by_cases hwi : w = i
  · subst hwi
    rw [hi] at hw; cases hw
    obtain ⟨pc', h1, h2⟩ := U.pendA j pc hpc hp hg hl
    have hlt : w < c.th.length := by
      apply Classical.byContradiction; intro hh; rw [List.getElem?_eq_none (Nat.le_of_not_lt hh)] at hi; cases hi
    exact ⟨w, t', pc', by simp [hlt], h1, h2⟩
  · exact ⟨w, u, pc, by simp [List.getElem?_set_ne (Ne.symm hwi), hw], hpc, hp⟩

/-- a pending thread other than the stepping one stays pending -/
theorem PendRel_set_ne (hi : c.th[i]? = some t) {j : Nat} (h : PendRel c j)
    (hn : ∀ pc, t.pc = some pc → ¬ pendRel j pc) : PendRel { sh := s', th := c.th.set i t' } j := by
  obtain ⟨w, u, pc, hw, hpc, hp⟩ := h
  by_cases hwi : w = i
  · subst hwi; rw [hi] at hw; cases hw; exact absurd hp (hn pc hpc)
  · exact ⟨w, u, pc, by simp [List.getElem?_set_ne (Ne.symm hwi), hw], hpc, hp⟩

theorem PendAcq_set_ne (hi : c.th[i]? = some t) {j : Nat} (h : PendAcq c j)
    (hn : ∀ pc, t.pc = some pc → ¬ pendAcq j pc) : PendAcq { sh := s', th := c.th.set i t' } j := by
  obtain ⟨w, u, pc, hw, hpc, hp⟩ := h
  by_cases hwi : w = i
  · subst hwi; rw [hi] at hw; cases hw; exact absurd hp (hn pc hpc)
  · exact ⟨w, u, pc, by simp [List.getElem?_set_ne (Ne.symm hwi), hw], hpc, hp⟩

theorem PendRel_self (hi : c.th[i]? = some t) {j : Nat} {pc' : PC} (h1 : t'.pc = some pc') (h2 : pendRel j pc') :
    PendRel { sh := s', th := c.th.set i t' } j := by
  have hlt : i < c.th.length := by
    apply Classical.byContradiction; intro hh; rw [List.getElem?_eq_none (Nat.le_of_not_lt hh)] at hi; cases hi
  exact ⟨i, t', pc', by simp [hlt], h1, h2⟩

theorem PendAcq_self (hi : c.th[i]? = some t) {j : Nat} {pc' : PC} (h1 : t'.pc = some pc') (h2 : pendAcq j pc') :
    PendAcq { sh := s', th := c.th.set i t' } j := by
  have hlt : i < c.th.length := by
    apply Classical.byContradiction; intro hh; rw [List.getElem?_eq_none (Nat.le_of_not_lt hh)] at hi; cases hi
  exact ⟨i, t', pc', by simp [hlt], h1, h2⟩

end generic
end

/-! ### generic preservation lemma -/
section
variable {cap : Nat} {c : Cfg RSh Th} {i : Nat} {t t' : Th} {s' : RSh}

theorem lt_of_getElem? {α : Type} {l : List α} {i : Nat} {a : α} (h : l[i]? = some a) : i < l.length := by
  apply Classical.byContradiction; intro hh; rw [List.getElem?_eq_none (Nat.le_of_not_lt hh)] at h; cases h

theorem Inv_of_upd (hI : Inv cap c) (hi : c.th[i]? = some t) (hl : t.dead = false) (U : Upd c t s' t')
    (hT : ThOk cap s' t')
    (hA : ∀ pc g n, t'.pc = some pc → scanA cap pc = some (g, n) → s'.gen = g →
      ∀ j, j < n → s'.cells[j]? ≠ some EMPTY ∨ PendRel { sh := s', th := c.th.set i t' } j)
    (hL : ∀ pc g n, t'.pc = some pc → scanL cap pc = some (g, n) → s'.gen = g →
      ∀ j, j < n → j < cap → s'.cells[j]? = some EMPTY ∨ PendAcq { sh := s', th := c.th.set i t' } j) :
    Inv cap { sh := s', th := c.th.set i t' } := by
  have hlt : i < c.th.length := lt_of_getElem? hi
  have hTi := hI.thOk i t hi
  have get : ∀ (j : Nat) (u : Th), (c.th.set i t')[j]? = some u → (j = i ∧ u = t') ∨ (j ≠ i ∧ c.th[j]? = some u) := by
    intro j u hj
    by_cases hji : j = i
    · subst hji; simp [hlt] at hj; exact .inl ⟨rfl, hj.symm⟩
    · rw [List.getElem?_set_ne (Ne.symm hji)] at hj; exact .inr ⟨hji, hj⟩
  refine ⟨by simp [U.cap, hI.cap_eq], by simp [U.len, hI.len], U.genLe, ?_, by simp [U.dead]; exact hI.deadNe, ?_, ?_, ?_, ?_⟩
  · -- owners
    show ((c.th.set i t').map (·.owner)).Nodup
    rw [map_set_same (·.owner) c.th i t t' hi U.owner]; exact hI.ownersNodup
  · -- thOk
    intro j u hj
    rcases get j u hj with ⟨_, rfl⟩ | ⟨hji, hj'⟩
    · exact hT
    · refine ThOk_other hI hi hl U (hI.thOk j u hj') ?_
      intro e; exact hji (owner_inj hI.ownersNodup hj' hi e)
  · -- scanA
    intro j u pc g n hj hpc hs hg j0 hj0
    rcases get j u hj with ⟨_, rfl⟩ | ⟨hji, hj'⟩
    · exact hA pc g n hpc hs hg j0 hj0
    · have P := (hI.thOk j u hj').pcOk pc hpc
      obtain ⟨hle, hne⟩ := P.scanA g n hs
      have hgen : c.sh.gen = g := by have := U.genMono; simp at hg; omega
      have hgen' : s'.gen = c.sh.gen := by simp at hg; omega
      have hnl : c.sh.gen ≠ LOCKG := by rw [hgen]; exact hne
      have old := hI.scanA j u pc g n hj' hpc hs hgen j0 hj0
      show s'.cells[j0]? ≠ some EMPTY ∨ _
      rcases U.cells j0 with h' | ⟨_, h', _⟩ | ⟨_, _, pc', h1, h2⟩
      · rcases old with h | h
        · left; rw [h']; exact h
        · right; exact PendRel_upd hi U h hgen' hnl
      · left; rw [h']; intro e; exact hTi.ownerNe (Option.some.inj e)
      · right; exact PendRel_self hi h1 h2
  · -- scanL
    intro j u pc g n hj hpc hs hg j0 hj0 hj0c
    rcases get j u hj with ⟨_, rfl⟩ | ⟨hji, hj'⟩
    · exact hL pc g n hpc hs hg j0 hj0 hj0c
    · have P := (hI.thOk j u hj').pcOk pc hpc
      obtain ⟨hle, hne⟩ := P.scanL g n hs
      have hgen : c.sh.gen = g := by have := U.genMono; simp at hg; omega
      have hgen' : s'.gen = c.sh.gen := by simp at hg; omega
      have hnl : c.sh.gen ≠ LOCKG := by rw [hgen]; exact hne
      have old := hI.scanL j u pc g n hj' hpc hs hgen j0 hj0 hj0c
      show s'.cells[j0]? = some EMPTY ∨ _
      rcases U.cells j0 with h' | ⟨_, _, pc', h1, h2⟩ | ⟨h', _, _⟩
      · rcases old with h | h
        · left; rw [h']; exact h
        · right; exact PendAcq_upd hi U h hgen' hnl
      · right; exact PendAcq_self hi h1 h2
      · left; exact h'
  · -- logNodup
    show (((c.th.set i t').map (·.recoveredLog)).flatten).Nodup
    rcases U.log with h | ⟨d, j0, h, hd, hc, _⟩
    · rw [map_set_same (·.recoveredLog) c.th i t t' hi h]; exact hI.logNodup
    · have e : (c.th.set i t').map (·.recoveredLog) = (c.th.map (·.recoveredLog)).set i (t.recoveredLog ++ [(d, j0)]) := by
        rw [List.map_set, h]
      rw [e]
      have hp := flatten_set_append_perm (c.th.map (·.recoveredLog)) i t.recoveredLog [(d, j0)] (by simp [hi])
      rw [hp.nodup_iff]
      simp only [List.singleton_append, List.nodup_cons]
      refine ⟨?_, hI.logNodup⟩
      intro hm
      simp only [List.mem_flatten, List.mem_map] at hm
      obtain ⟨l, ⟨u, hu, rfl⟩, hm⟩ := hm
      obtain ⟨w, hw, hw'⟩ := List.getElem_of_mem hu
      have := (hI.thOk w u (by simp [hw, hw'])).log (d, j0) hm
      exact this.2.2 hc
end

/-! ### `runPC` in terms of `stepOp` -/
/-- the thread after a step of the sub-machine, before `settle` -/
def afterOp (t : Th) (o : Out) : Th :=
  match o.next with
  | .inl pc' => { t with recoveredLog := t.recoveredLog ++ o.recovered, pc := some pc' }
  | .inr (.acquired n) => { t with recoveredLog := t.recoveredLog ++ o.recovered, pc := none, held := t.held ++ [n] }
  | .inr _ => { t with recoveredLog := t.recoveredLog ++ o.recovered, pc := none }

theorem afterOp_owner (t : Th) (o : Out) : (afterOp t o).owner = t.owner := by
  unfold afterOp; split <;> rfl
theorem afterOp_dead (t : Th) (o : Out) : (afterOp t o).dead = t.dead := by
  unfold afterOp; split <;> rfl
theorem afterOp_gate (t : Th) (o : Out) : (afterOp t o).gate = t.gate := by
  unfold afterOp; split <;> rfl
theorem afterOp_log (t : Th) (o : Out) : (afterOp t o).recoveredLog = t.recoveredLog ++ o.recovered := by
  unfold afterOp; split <;> rfl
theorem afterOp_pc_inl {t : Th} {o : Out} {pc' : PC} (h : o.next = .inl pc') : (afterOp t o).pc = some pc' := by
  unfold afterOp; rw [h]
theorem afterOp_held_inl {t : Th} {o : Out} {pc' : PC} (h : o.next = .inl pc') : (afterOp t o).held = t.held := by
  unfold afterOp; rw [h]
theorem afterOp_pc_inr {t : Th} {o : Out} {r : Res} (h : o.next = .inr r) : (afterOp t o).pc = none := by
  unfold afterOp; rw [h]; cases r <;> rfl
theorem afterOp_pc_some {t : Th} {o : Out} {pc' : PC} (h : (afterOp t o).pc = some pc') : o.next = .inl pc' := by
  cases hn : o.next with
  | inl p => rw [afterOp_pc_inl hn] at h; cases h; rfl
  | inr r => rw [afterOp_pc_inr hn] at h; cases h
theorem afterOp_held (t : Th) (o : Out) : (afterOp t o).held = t.held ∨
    ∃ n, o.next = .inr (.acquired n) ∧ (afterOp t o).held = t.held ++ [n] := by
  unfold afterOp
  split
  · left; rfl
  · rename_i n h; right; exact ⟨n, h, rfl⟩
  · left; rfl

theorem runPC_eq (s : RSh) (t : Th) (pc : PC) : runPC s t pc =
    match (stepOp s pc).next with
    | .inl _ => ((stepOp s pc).sh, afterOp t (stepOp s pc), (stepOp s pc).evs)
    | .inr r => ((settle (stepOp s pc).sh (afterOp t (stepOp s pc))).1, (settle (stepOp s pc).sh (afterOp t (stepOp s pc))).2,
        (stepOp s pc).evs ++ [.ret (showRes r)]) := by
  simp only [runPC, afterOp]
  cases h : (stepOp s pc).next with
  | inl pc' => rfl
  | inr r => cases r <;> rfl

theorem scanA_not_pendRel {cap : Nat} {pc : PC} {x : Nat × Nat} (h : scanA cap pc = some x) (j : Nat) : ¬ pendRel j pc := by
  pc_cases pc <;> simp [scanA] at h <;> simp [pendRel]
theorem scanL_not_pendAcq {cap : Nat} {pc : PC} {x : Nat × Nat} (h : scanL cap pc = some x) (j : Nat) : ¬ pendAcq j pc := by
  pc_cases pc <;> simp [scanL] at h <;> simp [pendAcq]

/-! ### the stepping thread -/
section
variable {cap : Nat} {c : Cfg RSh Th} {i : Nat} {t : Th} {pc : PC}

theorem upd_stepOp (hI : Inv cap c) (hi : c.th[i]? = some t) (hpc : t.pc = some pc) :
    Upd c t (stepOp c.sh pc).sh (afterOp t (stepOp c.sh pc)) := by
  have hT := hI.thOk i t hi
  have P := hT.pcOk pc hpc
  have E := stepOp_eff hI.len hI.genLe hT.ownerNe P
  refine ⟨E.cap, E.dead, E.len, E.genMono, E.genLe, afterOp_owner _ _, ?_, ?_, ?_, ?_⟩
  · intro j
    rcases E.cells j with h | ⟨h1, h2, h3⟩ | ⟨h1, h2, pc', h3, h4⟩
    · exact .inl h
    · exact .inr (.inl ⟨h1, h2, _, afterOp_pc_inl h3, by simp [pendAcq]⟩)
    · refine .inr (.inr ⟨h1, ?_, pc', afterOp_pc_inl h3, h4⟩)
      rcases h2 with ⟨h2, _⟩ | h2
      · exact .inl h2
      · exact .inr h2
  · intro j pc0 h0 hp hg hl
    rw [hpc] at h0; cases h0
    obtain ⟨pc', h1, h2⟩ := E.pendA j hp hg hl
    exact ⟨pc', afterOp_pc_inl h1, h2⟩
  · intro j pc0 h0 hp hg hl
    rw [hpc] at h0; cases h0
    obtain ⟨pc', h1, h2⟩ := E.pendR j hp hg hl
    exact ⟨pc', afterOp_pc_inl h1, h2⟩
  · rw [afterOp_log]
    rcases E.recov with h | ⟨d, j, h, h1, h2, h3⟩
    · left; rw [h]; simp
    · right; exact ⟨d, j, by rw [h], h1, h2, h3⟩

theorem thOk_stepOp (hI : Inv cap c) (hi : c.th[i]? = some t) (hl : t.dead = false) (hpc : t.pc = some pc) :
    ThOk cap (stepOp c.sh pc).sh (afterOp t (stepOp c.sh pc)) := by
  have hT := hI.thOk i t hi
  have P := hT.pcOk pc hpc
  have E := stepOp_eff hI.len hI.genLe hT.ownerNe P
  have U := upd_stepOp hI hi hpc
  have htl : t.owner ∉ c.sh.deadOwners := by
    intro h; have := hT.deadIff.mp h; simp [hl] at this
  have dne : ∀ d : Nat, d ∈ c.sh.deadOwners → ∀ j : Nat, c.sh.cells[j]? ≠ some d → (stepOp c.sh pc).sh.cells[j]? ≠ some d := by
    intro d hd j hj
    exact U.cells_dead_ne (hI.deadNe d hd) (fun e => htl (e ▸ hd)) hj
  -- a cell the thread keeps in `held`, or owns otherwise and is not touching, keeps its value
  have keep : ∀ n : Nat, c.sh.cells[n]? = some t.owner → ownCell pc ≠ some n ∨ (stepOp c.sh pc).sh.cells = c.sh.cells →
      (stepOp c.sh pc).sh.cells[n]? = some t.owner := by
    intro n hn hne
    rcases E.cells n with h | ⟨h1, _, _⟩ | ⟨h0, ⟨_, h1⟩ | ⟨d, hd, h1⟩, _⟩
    · rw [h]; exact hn
    · rw [hn] at h1; exact absurd (Option.some.inj h1) hT.ownerNe
    · rcases hne with hne | hne
      · exact absurd h1 hne
      · rw [hne]; exact hn
    · rw [hn] at h1; cases Option.some.inj h1; exact absurd hd htl
  refine ⟨by rw [afterOp_owner]; exact hT.ownerNe, ?_, (by rw [afterOp_dead, hl]; intro h; cases h),
    (by rw [afterOp_owner, afterOp_dead, E.dead]; exact hT.deadIff), ?_, ?_, ?_⟩
  · -- nodup
    rcases afterOp_held t (stepOp c.sh pc) with h | ⟨n, hn, h⟩
    · rw [h]; exact hT.nodup
    · rw [h]
      obtain ⟨h1, _, _⟩ := stepOp_acquired P.misc hn
      have := (P.ownCell n h1).2.2
      exact List.nodup_append.mpr ⟨hT.nodup, by simp, by intro a ha b hb; simp at hb; subst hb; intro e; subst e; exact this ha⟩
  · -- held
    intro _ n hn
    rw [afterOp_owner]
    have old : ∀ n ∈ t.held, n < cap ∧ (stepOp c.sh pc).sh.cells[n]? = some t.owner := by
      intro n hn
      obtain ⟨h1, h2⟩ := hT.held hl n hn
      refine ⟨h1, keep n h2 (.inl ?_)⟩
      intro e; exact (P.ownCell n e).2.2 hn
    rcases afterOp_held t (stepOp c.sh pc) with h | ⟨m, hm, h⟩
    · rw [h] at hn; exact old n hn
    · rw [h] at hn
      rcases List.mem_append.mp hn with hn | hn
      · exact old n hn
      · simp at hn; subst hn
        obtain ⟨h1, h2, _⟩ := stepOp_acquired P.misc hm
        obtain ⟨h3, h4, _⟩ := P.ownCell n h1
        exact ⟨h3, by rw [h2]; exact h4⟩
  · -- log
    intro p hp
    rw [afterOp_log] at hp
    rw [E.dead]
    rcases List.mem_append.mp hp with hp | hp
    · obtain ⟨h1, h2, h3⟩ := hT.log p hp
      exact ⟨h1, h2, dne p.1 h1 p.2 h3⟩
    · rcases E.recov with h | ⟨d, j, h, h1, h2, h3⟩
      · rw [h] at hp; cases hp
      · rw [h] at hp; simp at hp; subst hp
        refine ⟨h1, ?_, ?_⟩
        · have := lt_of_getElem? h2; rw [hI.len] at this; exact this
        · show (stepOp c.sh pc).sh.cells[j]? ≠ some d
          rw [h3]; intro e; exact hI.deadNe d h1 (Option.some.inj e).symm
  · -- pcOk
    intro pc' hpc'
    have hn := afterOp_pc_some hpc'
    rw [afterOp_owner, afterOp_held_inl hn]
    refine ⟨?_, ?_, stepOp_misc hI.cap_eq hn, ?_, ?_, ?_⟩
    · intro o ho; exact P.ownerArg o (stepOp_ownerArg hn ho)
    · intro n ho
      rcases stepOp_ownCell hn ho with ⟨h1, h2⟩ | ⟨o, g, rfl, h1, h2⟩
      · rw [h2]; exact P.ownCell n h1
      · have ho' : o = t.owner := P.ownerArg o rfl
        have hn' : n < cap := P.misc
        subst ho'
        refine ⟨hn', by rw [h2]; simp [hI.len, hn'], ?_⟩
        intro hmem
        have := (hT.held hl n hmem).2
        rw [getD_eq (by rw [hI.len]; exact hn')] at h1
        simp [hI.len, hn', h1] at this
        exact hT.ownerNe this.symm
    · intro d k' hk'
      obtain ⟨k, h1, h2⟩ := stepOp_rc hI.cap_eq P.misc (fun k hk => hI.deadNe d (P.rc d k hk).1) hn hk'
      obtain ⟨h3, h4⟩ := P.rc d k h1
      refine ⟨by rw [E.dead]; exact h3, ?_⟩
      intro j hj
      rcases h2 j hj with h | h
      · exact dne d h3 j (h4 j h)
      · exact h
    · intro g n hs
      obtain ⟨h1, h2, h3, _⟩ := stepOp_scanA hI.cap_eq P.scanA hn hs
      rw [h1]; exact ⟨h2, h3⟩
    · intro g n hs
      obtain ⟨_, h2, h3, _⟩ := stepOp_scanL hI.cap_eq hI.len P.misc P.scanL hn hs
      exact ⟨h2, h3⟩
end

/-! ### invariant preserved by a sub-machine step -/
section
variable {cap : Nat} {c : Cfg RSh Th} {i : Nat} {t : Th} {pc : PC}

theorem Inv_stepOp (hI : Inv cap c) (hi : c.th[i]? = some t) (hl : t.dead = false) (hpc : t.pc = some pc) :
    Inv cap { sh := (stepOp c.sh pc).sh, th := c.th.set i (afterOp t (stepOp c.sh pc)) } := by
  have hT := hI.thOk i t hi
  have P := hT.pcOk pc hpc
  have U := upd_stepOp hI hi hpc
  refine Inv_of_upd hI hi hl U (thOk_stepOp hI hi hl hpc) ?_ ?_
  · intro pc' g n' hpc' hs hg j hj
    have hn := afterOp_pc_some hpc'
    obtain ⟨h1, h2, h3, h4⟩ := stepOp_scanA hI.cap_eq P.scanA hn hs
    rcases h4 with h4 | ⟨n, h4, h5⟩
    · omega
    · rcases h5 j hj with h5 | h5
      · have hgen : c.sh.gen = g := by rw [h1] at hg; exact hg
        rcases hI.scanA i t pc g n hi hpc h4 hgen j h5 with h | h
        · left; rw [h1]; exact h
        · right; exact PendRel_upd hi U h (by rw [h1]) (by rw [hgen]; exact h3)
      · left; rw [h1]; exact h5
  · intro pc' g n' hpc' hs hg j hj hjc
    have hn := afterOp_pc_some hpc'
    obtain ⟨h1, h2, h3, h4⟩ := stepOp_scanL hI.cap_eq hI.len P.misc P.scanL hn hs
    rcases h4 with h4 | ⟨h4, h5⟩
    · omega
    · obtain ⟨⟨g0, n⟩, hx⟩ := Option.isSome_iff_exists.mp h4
      obtain ⟨h6, h7⟩ := h5 g0 n hx
      rcases h7 j hj with h7 | h7
      · rcases hI.scanL i t pc g0 n hi hpc hx (h6 hg) j h7 hjc with h | h
        · left; rw [h1]; exact h
        · right; exact PendAcq_set_ne hi h (by intro pc0 h0; rw [hpc] at h0; cases h0; exact scanL_not_pendAcq hx j)
      · left; rw [h1]; exact h7
end

/-! ### steps between operations -/
section
variable {cap : Nat} {c : Cfg RSh Th} {i : Nat} {t : Th}

/-- a thread between two operations changes only its own local state -/
theorem Inv_local {t' : Th} (hI : Inv cap c) (hi : c.th[i]? = some t) (hl : t.dead = false) (hpc : t.pc = none)
    (ho : t'.owner = t.owner) (hlog : t'.recoveredLog = t.recoveredLog) (hT : ThOk cap c.sh t')
    (hs : ∀ pc, t'.pc = some pc → scanA cap pc = none ∧ scanL cap pc = none) :
    Inv cap { sh := c.sh, th := c.th.set i t' } := by
  refine Inv_of_upd hI hi hl ⟨rfl, rfl, rfl, Nat.le_refl _, hI.genLe, ho, fun j => .inl rfl, ?_, ?_, .inl hlog⟩ hT ?_ ?_
  · intro j pc h; rw [hpc] at h; cases h
  · intro j pc h; rw [hpc] at h; cases h
  · intro pc g n h1 h2; rw [(hs pc h1).1] at h2; cases h2
  · intro pc g n h1 h2; rw [(hs pc h1).2] at h2; cases h2

theorem Inv_die (hI : Inv cap c) (hi : c.th[i]? = some t) (hpc : t.pc = none) :
    Inv cap { sh := { c.sh with deadOwners := t.owner :: c.sh.deadOwners },
              th := c.th.set i { t with dead := true, todo := [] } } := by
  have hlt : i < c.th.length := lt_of_getElem? hi
  have hTi := hI.thOk i t hi
  have get : ∀ (j : Nat) (u : Th), (c.th.set i { t with dead := true, todo := [] })[j]? = some u →
      (j = i ∧ u = { t with dead := true, todo := [] }) ∨ (j ≠ i ∧ c.th[j]? = some u) := by
    intro j u hj
    by_cases hji : j = i
    · subst hji; simp [hlt] at hj; exact .inl ⟨rfl, hj.symm⟩
    · rw [List.getElem?_set_ne (Ne.symm hji)] at hj; exact .inr ⟨hji, hj⟩
  refine ⟨hI.cap_eq, hI.len, hI.genLe, ?_, ?_, ?_, ?_, ?_, ?_⟩
  · show ((c.th.set i _).map (·.owner)).Nodup
    rw [map_set_same (·.owner) c.th i t { t with dead := true, todo := [] } hi rfl]; exact hI.ownersNodup
  · intro d hd
    simp only [List.mem_cons] at hd
    rcases hd with rfl | hd
    · exact hTi.ownerNe
    · exact hI.deadNe d hd
  · intro j u hj
    rcases get j u hj with ⟨_, rfl⟩ | ⟨hji, hj'⟩
    · refine ⟨hTi.ownerNe, hTi.nodup, fun _ => hpc, by simp, by intro h; simp at h, ?_, ?_⟩
      · intro p hp
        obtain ⟨h1, h2, h3⟩ := hTi.log p hp
        exact ⟨List.mem_cons_of_mem _ h1, h2, h3⟩
      · intro pc h; simp only [] at h; rw [hpc] at h; cases h
    · have hu := hI.thOk j u hj'
      have hne : u.owner ≠ t.owner := fun e => hji (owner_inj hI.ownersNodup hj' hi e)
      refine ⟨hu.ownerNe, hu.nodup, hu.deadPc, ?_, hu.held, ?_, ?_⟩
      · simp only [List.mem_cons, hne, false_or]; exact hu.deadIff
      · intro p hp
        obtain ⟨h1, h2, h3⟩ := hu.log p hp
        exact ⟨List.mem_cons_of_mem _ h1, h2, h3⟩
      · intro pc h
        have P := hu.pcOk pc h
        exact ⟨P.ownerArg, P.ownCell, P.misc, fun d k hk => ⟨List.mem_cons_of_mem _ (P.rc d k hk).1, (P.rc d k hk).2⟩,
          P.scanA, P.scanL⟩
  · intro j u pc g n hj h1 h2 h3 j0 hj0
    have hj' : c.th[j]? = some u ∧ j ≠ i := by
      rcases get j u hj with ⟨_, rfl⟩ | ⟨hji, hj'⟩
      · simp only [] at h1; rw [hpc] at h1; cases h1
      · exact ⟨hj', hji⟩
    rcases hI.scanA j u pc g n hj'.1 h1 h2 h3 j0 hj0 with h | h
    · exact .inl h
    · exact .inr (PendRel_set_ne hi h (by intro pc0 h0; rw [hpc] at h0; cases h0))
  · intro j u pc g n hj h1 h2 h3 j0 hj0 hj0c
    have hj' : c.th[j]? = some u ∧ j ≠ i := by
      rcases get j u hj with ⟨_, rfl⟩ | ⟨hji, hj'⟩
      · simp only [] at h1; rw [hpc] at h1; cases h1
      · exact ⟨hj', hji⟩
    rcases hI.scanL j u pc g n hj'.1 h1 h2 h3 j0 hj0 hj0c with h | h
    · exact .inl h
    · exact .inr (PendAcq_set_ne hi h (by intro pc0 h0; rw [hpc] at h0; cases h0))
  · show (((c.th.set i _).map (·.recoveredLog)).flatten).Nodup
    rw [map_set_same (·.recoveredLog) c.th i t { t with dead := true, todo := [] } hi rfl]; exact hI.logNodup

theorem set_self {α : Type} {l : List α} {i : Nat} {a : α} (h : l[i]? = some a) : l.set i a = l := by
  apply List.ext_getElem?
  intro j
  rw [List.getElem?_set]
  split
  · rename_i hij; subst hij; split
    · exact h.symm
    · rename_i hl; exact (List.getElem?_eq_none (Nat.le_of_not_lt hl)).symm
  · rfl

theorem Inv_settle (hI : Inv cap c) (hi : c.th[i]? = some t) (hpc : t.pc = none) :
    Inv cap { sh := (settle c.sh t).1, th := c.th.set i (settle c.sh t).2 } := by
  unfold settle
  split
  · exact Inv_die hI hi hpc
  · simp only [set_self hi]; exact hI
end

/-! ### `runPC`, `start`, gate -/
section
variable {cap : Nat} {c : Cfg RSh Th} {i : Nat} {t : Th}

theorem nextCmd_enabled {s : RSh} {t : Th} {l : List Cmd} {cmd : Cmd} {rest : List Cmd}
    (h : nextCmd s t l = some (cmd, rest)) : enabled s t cmd = true := by
  induction l with
  | nil => simp [nextCmd] at h
  | cons a l ih =>
    simp only [nextCmd] at h
    split at h
    · simp at h; rw [← h.1]; assumption
    · exact ih h

theorem Inv_runPC {pc : PC} (hI : Inv cap c) (hi : c.th[i]? = some t) (hl : t.dead = false) (hpc : t.pc = some pc) :
    Inv cap { sh := (runPC c.sh t pc).1, th := c.th.set i (runPC c.sh t pc).2.1 } := by
  have h1 := Inv_stepOp hI hi hl hpc
  rw [runPC_eq]
  cases hn : (stepOp c.sh pc).next with
  | inl pc' => exact h1
  | inr r =>
    have hlt : i < c.th.length := lt_of_getElem? hi
    have := Inv_settle (i := i) (t := afterOp t (stepOp c.sh pc)) h1 (by simp [hlt]) (afterOp_pc_inr hn)
    simpa [List.set_set] using this

theorem PcOk_first {s : RSh} {owner : Nat} {held : List Nat} {pc : PC}
    (h1 : ∀ o, ownerArg pc = some o → o = owner)
    (h2 : ∀ n, ownCell pc = some n → n < cap ∧ s.cells[n]? = some owner ∧ n ∉ held)
    (h3 : pcMisc cap pc) (h4 : ∀ d k, rcProg cap pc = some (d, k) → d ∈ s.deadOwners ∧ k = 0)
    (h5 : scanA cap pc = none) (h6 : scanL cap pc = none) : PcOk cap s owner held pc :=
  ⟨h1, h2, h3, fun d k hk => ⟨(h4 d k hk).1, by intro j hj; have := (h4 d k hk).2; omega⟩,
    (by intro g n h; rw [h5] at h; cases h), (by intro g n h; rw [h6] at h; cases h)⟩

theorem Inv_start {cmd : Cmd} {rest : List Cmd} (hI : Inv cap c) (hi : c.th[i]? = some t) (hl : t.dead = false)
    (hpc : t.pc = none) (hn : nextCmd c.sh t t.todo = some (cmd, rest)) (hd : cmd ≠ .die) :
    Inv cap { sh := c.sh, th := c.th.set i (start { t with todo := rest } cmd) } := by
  have hT := hI.thOk i t hi
  have hen := nextCmd_enabled hn
  cases cmd with
  | die => exact absurd rfl hd
  | acquire =>
    refine Inv_local hI hi hl hpc rfl rfl ⟨hT.ownerNe, hT.nodup, ?_, hT.deadIff, hT.held, hT.log, ?_⟩ ?_
    · intro h; simp [start, hl] at h
    · intro pc h; simp [start] at h; subst h
      exact PcOk_first (by simp [ownerArg, start]) (by simp [ownCell]) (by simp [pcMisc]) (by simp [rcProg]) rfl rfl
    · intro pc h; simp [start] at h; subst h; exact ⟨rfl, rfl⟩
  | borrowed =>
    refine Inv_local hI hi hl hpc rfl rfl ⟨hT.ownerNe, hT.nodup, ?_, hT.deadIff, hT.held, hT.log, ?_⟩ ?_
    · intro h; simp [start, hl] at h
    · intro pc h; simp [start] at h; subst h
      exact PcOk_first (by simp [ownerArg, start]) (by simp [ownCell]) (by simp [pcMisc]) (by simp [rcProg, kbProg]) rfl rfl
    · intro pc h; simp [start] at h; subst h; exact ⟨rfl, rfl⟩
  | recover d m =>
    refine Inv_local hI hi hl hpc rfl rfl ⟨hT.ownerNe, hT.nodup, ?_, hT.deadIff, hT.held, hT.log, ?_⟩ ?_
    · intro _; exact hpc
    · intro pc h; simp [start, hpc] at h
    · intro pc h; simp [start, hpc] at h
  | release pos m =>
    have hpos : pos < t.held.length := by simpa [enabled] using hen
    have hidx : t.held[pos]?.getD 0 = t.held[pos] := by simp [hpos]
    refine Inv_local hI hi hl hpc rfl rfl ⟨hT.ownerNe, ?_, ?_, hT.deadIff, ?_, hT.log, ?_⟩ ?_
    · exact hT.nodup.eraseIdx pos
    · intro h; simp [start, hl] at h
    · intro _ n hn'
      exact hT.held hl n (List.mem_of_mem_eraseIdx hn')
    · intro pc h; simp [start] at h; subst h
      refine PcOk_first (by simp [ownerArg, start]) ?_ (by simp [pcMisc]) (by simp [rcProg]) rfl rfl
      intro n hn'
      simp only [ownCell, Option.some.injEq] at hn'
      subst hn'
      rw [hidx]
      obtain ⟨h1, h2⟩ := hT.held hl t.held[pos] (List.getElem_mem hpos)
      refine ⟨h1, h2, ?_⟩
      simp only [start]
      intro hm
      obtain ⟨k, hk, hk'⟩ := List.mem_eraseIdx_iff_getElem?.mp hm
      have hkl := lt_of_getElem? hk'
      rw [List.getElem?_eq_getElem hkl] at hk'
      exact hk ((List.getElem_inj hT.nodup).mp (Option.some.inj hk'))
    · intro pc h; simp [start] at h; subst h; exact ⟨rfl, rfl⟩

theorem Inv_gate {s' : RSh} {t' : Th} {evs : List Ev} (hI : Inv cap c) (hi : c.th[i]? = some t) (hl : t.dead = false)
    (hpc : t.pc = none) (hg : step_gate c.sh t = some (s', t', evs)) : Inv cap { sh := s', th := c.th.set i t' } := by
  have hT := hI.thOk i t hi
  have hlt : i < c.th.length := lt_of_getElem? hi
  unfold step_gate at hg
  split at hg
  · rename_i d m hgate
    split at hg
    · rename_i hd
      simp at hg; obtain ⟨rfl, rfl, _⟩ := hg
      refine Inv_local hI hi hl hpc rfl rfl ⟨hT.ownerNe, hT.nodup, ?_, hT.deadIff, hT.held, hT.log, ?_⟩ ?_
      · intro h; simp [hl] at h
      · intro pc h; simp at h; subst h
        exact PcOk_first (by simp [ownerArg]) (by simp [ownCell]) (by simp [pcMisc])
          (by intro d' k hk; simp [rcProg] at hk; obtain ⟨rfl, rfl⟩ := hk; exact ⟨hd, rfl⟩) rfl rfl
      · intro pc h; simp at h; subst h; exact ⟨rfl, rfl⟩
    · simp at hg; obtain ⟨rfl, rfl, _⟩ := hg
      have h1 : Inv cap { sh := c.sh, th := c.th.set i { t with gate := none } } := by
        refine Inv_local hI hi hl hpc rfl rfl ⟨hT.ownerNe, hT.nodup, fun _ => hpc, hT.deadIff, hT.held, hT.log, ?_⟩ ?_
        · intro pc h; simp [hpc] at h
        · intro pc h; simp [hpc] at h
      have := Inv_settle (i := i) (t := { t with gate := none }) h1 (by simp [hlt]) hpc
      simpa [List.set_set] using this
  · cases hg
end

/-! ### one step of the system -/
section
variable {cap : Nat} {c : Cfg RSh Th} {i : Nat} {t : Th}

theorem stepAt_some {c c' : Cfg RSh Th} {i : Nat} {evs : List Ev} (h : sys.stepAt c i = some (c', evs)) :
    ∃ t sh' t', c.th[i]? = some t ∧ step c.sh t = some (sh', t', evs) ∧ c' = { sh := sh', th := c.th.set i t' } := by
  unfold Sys.stepAt at h
  split at h
  · simp at h
  · rename_i t ht
    split at h
    · simp at h
    · rename_i sh' t' evs' hs
      simp at h
      obtain ⟨rfl, rfl⟩ := h
      exact ⟨t, sh', t', ht, hs, rfl⟩

theorem step_cases {s : RSh} {t : Th} {r : RSh × Th × List Ev} (h : step s t = some r) :
    t.dead = false ∧
    ((∃ pc, t.pc = some pc ∧ r = runPC s t pc) ∨
     (t.pc = none ∧ step_gate s t = some r) ∨
     (t.pc = none ∧ ∃ cmd rest, nextCmd s t t.todo = some (cmd, rest) ∧ cmd ≠ .die ∧
        ((∃ pc, (start { t with todo := rest } cmd).pc = some pc ∧ r = runPC s (start { t with todo := rest } cmd) pc) ∨
         ((start { t with todo := rest } cmd).pc = none ∧ step_gate s (start { t with todo := rest } cmd) = some r)))) := by
  unfold step at h
  split at h
  · cases h
  · rename_i hd
    refine ⟨by simpa using hd, ?_⟩
    split at h
    · rename_i pc hpc
      left; exact ⟨pc, hpc, by simpa using h.symm⟩
    · rename_i hpc
      split at h
      · right; left; exact ⟨hpc, h⟩
      · split at h
        · cases h
        · cases h
        · rename_i cmd rest hne hn
          right; right
          refine ⟨hpc, cmd, rest, hn, ?_, ?_⟩
          · intro e; subst e; exact hne rfl
          · simp only [] at h
            split at h
            · rename_i pc hpc'
              left; exact ⟨pc, hpc', by simpa using h.symm⟩
            · rename_i hpc'
              right
              refine ⟨hpc', ?_⟩
              split at h
              · exact h
              · cases h

theorem start_dead {t : Th} {cmd : Cmd} (h : cmd ≠ .die) : (start t cmd).dead = t.dead := by
  cases cmd <;> first | rfl | exact absurd rfl h

theorem Inv_step {c' : Cfg RSh Th} {evs : List Ev} (hI : Inv cap c) (h : sys.stepAt c i = some (c', evs)) :
    Inv cap c' := by
  obtain ⟨t, sh', t', hi, hst, rfl⟩ := stepAt_some h
  have hlt : i < c.th.length := lt_of_getElem? hi
  obtain ⟨hl, hc⟩ := step_cases hst
  rcases hc with ⟨pc, hpc, hr⟩ | ⟨hpc, hg⟩ | ⟨hpc, cmd, rest, hn, hd, hc⟩
  · have := Inv_runPC hI hi hl hpc
    rw [← hr] at this; exact this
  · exact Inv_gate hI hi hl hpc hg
  · have h0 := Inv_start hI hi hl hpc hn hd
    have hi0 : (c.th.set i (start { t with todo := rest } cmd))[i]? = some (start { t with todo := rest } cmd) := by
      simp [hlt]
    have hl0 : (start { t with todo := rest } cmd).dead = false := by rw [start_dead hd]; exact hl
    rcases hc with ⟨pc, hpc0, hr⟩ | ⟨hpc0, hg⟩
    · have := Inv_runPC h0 hi0 hl0 hpc0
      rw [← hr] at this
      simpa [List.set_set] using this
    · have := Inv_gate h0 hi0 hl0 hpc0 hg
      simpa [List.set_set] using this
end

/-! ### initial configuration -/
section
variable {cap : Nat} {c : Cfg RSh Th}

theorem Inv_append (hI : Inv cap c) {o : Nat} (p : List Cmd) (hne : o ≠ EMPTY) (hno : o ∉ c.th.map (·.owner))
    (hnd : o ∉ c.sh.deadOwners) : Inv cap { sh := c.sh, th := c.th ++ [Th.init o p] } := by
  have get : ∀ (j : Nat) (u : Th), (c.th ++ [Th.init o p])[j]? = some u → c.th[j]? = some u ∨ u = Th.init o p := by
    intro j u hj
    rw [List.getElem?_append] at hj
    split at hj
    · exact .inl hj
    · right
      have := List.mem_of_getElem? hj
      simpa using this
  have getpc : ∀ (j : Nat) (u : Th) (pc : PC), (c.th ++ [Th.init o p])[j]? = some u → u.pc = some pc → c.th[j]? = some u := by
    intro j u pc hj hpc
    rcases get j u hj with h | rfl
    · exact h
    · simp [Th.init] at hpc
  have pr : ∀ j, PendRel c j → PendRel { sh := c.sh, th := c.th ++ [Th.init o p] } j := by
    rintro j ⟨w, u, pc, hw, h1, h2⟩
    exact ⟨w, u, pc, by simp [List.getElem?_append_left (lt_of_getElem? hw), hw], h1, h2⟩
  have pa : ∀ j, PendAcq c j → PendAcq { sh := c.sh, th := c.th ++ [Th.init o p] } j := by
    rintro j ⟨w, u, pc, hw, h1, h2⟩
    exact ⟨w, u, pc, by simp [List.getElem?_append_left (lt_of_getElem? hw), hw], h1, h2⟩
  refine ⟨hI.cap_eq, hI.len, hI.genLe, ?_, hI.deadNe, ?_, ?_, ?_, ?_⟩
  · show ((c.th ++ [Th.init o p]).map (·.owner)).Nodup
    rw [List.map_append]
    refine List.nodup_append.mpr ⟨hI.ownersNodup, by simp, ?_⟩
    intro a ha b hb
    simp [Th.init] at hb; subst hb
    intro e; subst e; exact hno ha
  · intro j u hj
    rcases get j u hj with h | rfl
    · exact hI.thOk j u h
    · exact ⟨hne, by simp [Th.init], by simp [Th.init], by simp [Th.init, hnd], by simp [Th.init], by simp [Th.init],
        by simp [Th.init]⟩
  · intro j u pc g n hj h1 h2 h3 j0 hj0
    rcases hI.scanA j u pc g n (getpc j u pc hj h1) h1 h2 h3 j0 hj0 with h | h
    · exact .inl h
    · exact .inr (pr j0 h)
  · intro j u pc g n hj h1 h2 h3 j0 hj0 hj0c
    rcases hI.scanL j u pc g n (getpc j u pc hj h1) h1 h2 h3 j0 hj0 hj0c with h | h
    · exact .inl h
    · exact .inr (pa j0 h)
  · show (((c.th ++ [Th.init o p]).map (·.recoveredLog)).flatten).Nodup
    simp only [List.map_append, List.flatten_append, List.map_cons, List.map_nil, List.flatten_cons, List.flatten_nil,
      Th.init, List.append_nil]
    exact hI.logNodup

theorem settle_owner (s : RSh) (t : Th) : (settle s t).2.owner = t.owner := by
  unfold settle; split <;> rfl
theorem settle_dead_sub (s : RSh) (t : Th) : ∀ d ∈ (settle s t).1.deadOwners, d ∈ s.deadOwners ∨ d = t.owner := by
  unfold settle; split
  · intro d hd; simp at hd; rcases hd with h | h
    · exact .inr h
    · exact .inl h
  · intro d hd; exact .inl hd

/-- one round of the fold in `initCfg` -/
def pushTh (c : Cfg RSh Th) (t : Th) : Cfg RSh Th :=
  { sh := (settle c.sh t).1, th := c.th ++ [(settle c.sh t).2] }

theorem Inv_push (hI : Inv cap c) {o : Nat} (p : List Cmd) (hne : o ≠ EMPTY) (hno : o ∉ c.th.map (·.owner))
    (hnd : o ∉ c.sh.deadOwners) : Inv cap (pushTh c (Th.init o p)) := by
  have h1 := Inv_append hI p hne hno hnd
  have := Inv_settle (i := c.th.length) (t := Th.init o p) h1 (by simp) (by simp [Th.init])
  simpa [pushTh] using this

theorem Inv_fold (l : List (Nat × List Cmd)) : ∀ c : Cfg RSh Th, Inv cap c →
    (∀ d ∈ c.sh.deadOwners, d ∈ c.th.map (·.owner)) → (l.map (·.1)).Nodup →
    (∀ x ∈ l, x.1 ≠ EMPTY ∧ x.1 ∉ c.th.map (·.owner)) →
    Inv cap ((l.map fun (o, p) => Th.init o p).foldl pushTh c) := by
  induction l with
  | nil => intro c hI _ _ _; exact hI
  | cons x l ih =>
    intro c hI hsub hnd hx
    obtain ⟨o, p⟩ := x
    simp only [List.map_cons, List.foldl_cons]
    have hxo := hx (o, p) (by simp)
    have hod : o ∉ c.sh.deadOwners := fun h => hxo.2 (hsub o h)
    simp only [List.map_cons, List.nodup_cons] at hnd
    apply ih
    · exact Inv_push hI p hxo.1 hxo.2 hod
    · intro d hd
      simp only [pushTh, List.map_append, List.map_cons, List.map_nil, List.mem_append, List.mem_singleton, settle_owner]
      rcases settle_dead_sub _ _ d hd with h | h
      · exact .inl (hsub d h)
      · exact .inr h
    · exact hnd.2
    · intro y hy
      refine ⟨(hx y (List.mem_cons_of_mem _ hy)).1, ?_⟩
      simp only [pushTh, List.map_append, List.map_cons, List.map_nil, List.mem_append, List.mem_singleton, settle_owner]
      intro h
      rcases h with h | h
      · exact (hx y (List.mem_cons_of_mem _ hy)).2 h
      · apply hnd.1
        simp only [Th.init] at h
        rw [← h]
        exact List.mem_map_of_mem hy

theorem zip_fst_sublist {α β : Type} : ∀ (l1 : List α) (l2 : List β), ((l1.zip l2).map (·.1)).Sublist l1
  | [], _ => by simp
  | _ :: _, [] => by simp
  | a :: l1, b :: l2 => by
    simp only [List.zip_cons_cons, List.map_cons]
    exact (zip_fst_sublist l1 l2).cons_cons a

theorem Inv_init (cap : Nat) (owners : List Nat) (progs : List (List Cmd)) (ho : OwnersOk owners) :
    Inv cap (initCfg cap owners progs) := by
  have e : initCfg cap owners progs =
      ((owners.zip progs).map fun (o, p) => Th.init o p).foldl pushTh { sh := RSh.init cap, th := [] } := rfl
  rw [e]
  apply Inv_fold
  · refine ⟨rfl, by simp [RSh.init], by simp [RSh.init], by simp, by simp [RSh.init], by simp, by simp, by simp, by simp⟩
  · simp [RSh.init]
  · exact ho.1.sublist (zip_fst_sublist owners progs)
  · intro x hx
    refine ⟨ho.2 x.1 ?_, by simp⟩
    exact (zip_fst_sublist owners progs).subset (List.mem_map_of_mem hx)

theorem Inv_reachable {cap : Nat} {owners : List Nat} {progs : List (List Cmd)} (ho : OwnersOk owners)
    {c : Cfg RSh Th} (h : Reachable sys (initCfg cap owners progs) c) : Inv cap c :=
  Reachable.inv (Inv cap) (Inv_init cap owners progs ho) (fun _ _ _ _ hI hs => Inv_step hI hs) c h
end

/-! ### what a step looks like from outside -/
theorem settle_gen (s : RSh) (t : Th) : (settle s t).1.gen = s.gen := by
  unfold settle; split <;> rfl
theorem settle_pc (s : RSh) (t : Th) : (settle s t).2.pc = t.pc := by
  unfold settle; split <;> rfl

theorem start_pc_first {t : Th} {cmd : Cmd} {pc : PC} (h0 : t.pc = none) (h : (start t cmd).pc = some pc) :
    (∃ o, pc = .acDist o) ∨ (∃ i o m, pc = .rlDist i o m) ∨ (∃ kb, pc = .bgDist kb) := by
  cases cmd <;> simp [start, h0] at h <;> subst h <;> simp

theorem first_stepOp {s : RSh} {pc : PC}
    (h : (∃ o, pc = .acDist o) ∨ (∃ i o m, pc = .rlDist i o m) ∨ (∃ kb, pc = .bgDist kb)) :
    (stepOp s pc).sh = s ∧ ∃ pc', (stepOp s pc).next = .inl pc' := by
  rcases h with ⟨o, rfl⟩ | ⟨i, o, m, rfl⟩ | ⟨kb, rfl⟩ <;> exact ⟨rfl, _, rfl⟩

theorem gate_summary {s s' : RSh} {t t' : Th} {evs : List Ev} (h : step_gate s t = some (s', t', evs)) :
    s'.gen = s.gen ∧ ∀ x, Ev.ret x ∈ evs → x = "recover skipped" := by
  unfold step_gate at h
  split at h
  · split at h
    · simp at h; obtain ⟨rfl, _, rfl⟩ := h; simp
    · simp at h; obtain ⟨rfl, _, rfl⟩ := h
      exact ⟨settle_gen _ _, by simp⟩
  · cases h

/-- what a step of the stand-alone system looks like from outside -/
theorem step_summary {s s' : RSh} {t t' : Th} {evs : List Ev} (h : step s t = some (s', t', evs)) :
    (∃ pc, t.pc = some pc ∧ s'.gen = (stepOp s pc).sh.gen ∧
      (((∃ pc', (stepOp s pc).next = .inl pc') ∧ evs = (stepOp s pc).evs) ∨
        ∃ r, (stepOp s pc).next = .inr r ∧ evs = (stepOp s pc).evs ++ [.ret (showRes r)])) ∨
    (s'.gen = s.gen ∧ ∀ x, Ev.ret x ∈ evs → x = "recover skipped") := by
  obtain ⟨_, hc⟩ := step_cases h
  rcases hc with ⟨pc, hpc, hr⟩ | ⟨_, hg⟩ | ⟨hpc, cmd, rest, _, _, hc⟩
  · left
    refine ⟨pc, hpc, ?_⟩
    rw [runPC_eq] at hr
    cases hn : (stepOp s pc).next with
    | inl pc' =>
      rw [hn] at hr; simp at hr
      exact ⟨by rw [hr.1], .inl ⟨⟨pc', rfl⟩, hr.2.2⟩⟩
    | inr r =>
      rw [hn] at hr; simp at hr
      exact ⟨by rw [hr.1, settle_gen], .inr ⟨r, rfl, hr.2.2⟩⟩
  · right; exact gate_summary hg
  · right
    rcases hc with ⟨pc, hpc0, hr⟩ | ⟨_, hg⟩
    · obtain ⟨h1, pc', h2⟩ := first_stepOp (s := s) (start_pc_first (by simpa using hpc) hpc0)
      rw [runPC_eq, h2] at hr; simp at hr
      refine ⟨by rw [hr.1, h1], ?_⟩
      intro x hx; rw [hr.2.2] at hx; exact absurd hx (stepOp_evs _ _ _)
    · exact gate_summary hg

/-! ### generation counter without assumptions on the owner ids -/
/-! ### the generation counter alone (no assumption on the owner ids) -/

def incOk (pc : PC) : Prop := ∀ k g, pc = .incCas k g → g ≠ LOCKG

structure GInv (c : Cfg RSh Th) : Prop where
  genLe : c.sh.gen ≤ LOCKG
  inc : ∀ (i : Nat) (t : Th) (pc : PC), c.th[i]? = some t → t.pc = some pc → incOk pc

theorem stepOp_incOk {s : RSh} {pc pc' : PC} (hn : (stepOp s pc).next = .inl pc') : incOk pc' := by
  have := stepOp_misc (cap := s.cap) rfl hn
  intro k g e; subst e; exact this

theorem stepOp_gen {s : RSh} {pc : PC} (hg : s.gen ≤ LOCKG) (hp : incOk pc) :
    s.gen ≤ (stepOp s pc).sh.gen ∧ (stepOp s pc).sh.gen ≤ LOCKG ∧ (s.gen = LOCKG → (stepOp s pc).sh.gen = LOCKG) := by
  by_cases h : (stepOp s pc).sh.gen = s.gen
  · rw [h]; exact ⟨Nat.le_refl _, hg, id⟩
  · rcases stepOp_gen_change h with ⟨k, g, rfl, h1, h2⟩ | ⟨kl, g, rfl, h1, h2⟩
    · have := hp k g rfl
      rw [h2]; omega
    · rw [h2]; exact ⟨hg, Nat.le_refl _, fun _ => rfl⟩

theorem step_pc_incOk {s s' : RSh} {t t' : Th} {evs : List Ev} (h : step s t = some (s', t', evs)) :
    ∀ pc, t'.pc = some pc → incOk pc := by
  have run : ∀ (t0 : Th) (pc0 : PC), (s', t', evs) = runPC s t0 pc0 → ∀ pc, t'.pc = some pc → incOk pc := by
    intro t0 pc0 hr pc hpc
    rw [runPC_eq] at hr
    cases hn : (stepOp s pc0).next with
    | inl pc' =>
      rw [hn] at hr; simp at hr
      rw [hr.2.1, afterOp_pc_inl hn] at hpc; cases hpc
      exact stepOp_incOk hn
    | inr r =>
      rw [hn] at hr; simp at hr
      rw [hr.2.1, settle_pc, afterOp_pc_inr hn] at hpc; cases hpc
  have gate : ∀ (t0 : Th), t0.pc = none → step_gate s t0 = some (s', t', evs) → ∀ pc, t'.pc = some pc → incOk pc := by
    intro t0 h0 hg pc hpc
    unfold step_gate at hg
    split at hg
    · split at hg
      · simp at hg; obtain ⟨_, rfl, _⟩ := hg
        simp at hpc; subst hpc; intro k g e; cases e
      · simp at hg; obtain ⟨_, rfl, _⟩ := hg
        rw [settle_pc] at hpc; simp [h0] at hpc
    · cases hg
  obtain ⟨_, hc⟩ := step_cases h
  rcases hc with ⟨pc, hpc, hr⟩ | ⟨h0, hg⟩ | ⟨hpc, cmd, rest, _, _, hc⟩
  · exact run t pc hr
  · exact gate t h0 hg
  · rcases hc with ⟨pc, hpc0, hr⟩ | ⟨h0, hg⟩
    · exact run _ pc hr
    · exact gate _ h0 hg

theorem step_gen {s s' : RSh} {t t' : Th} {evs : List Ev} (h : step s t = some (s', t', evs)) (hg : s.gen ≤ LOCKG)
    (hp : ∀ pc, t.pc = some pc → incOk pc) :
    s.gen ≤ s'.gen ∧ s'.gen ≤ LOCKG ∧ (s.gen = LOCKG → s'.gen = LOCKG) := by
  rcases step_summary h with ⟨pc, hpc, h1, _⟩ | ⟨h1, _⟩
  · rw [h1]; exact stepOp_gen hg (hp pc hpc)
  · rw [h1]; exact ⟨Nat.le_refl _, hg, id⟩

theorem GInv_step {c c' : Cfg RSh Th} {i : Nat} {evs : List Ev} (hI : GInv c) (h : sys.stepAt c i = some (c', evs)) :
    GInv c' := by
  obtain ⟨t, sh', t', hi, hst, rfl⟩ := stepAt_some h
  have hlt : i < c.th.length := lt_of_getElem? hi
  refine ⟨(step_gen hst hI.genLe (fun pc hpc => hI.inc i t pc hi hpc)).2.1, ?_⟩
  intro j u pc hj hpc
  by_cases hji : j = i
  · subst hji; simp [hlt] at hj; subst hj
    exact step_pc_incOk hst pc hpc
  · simp only [List.getElem?_set_ne (Ne.symm hji)] at hj
    exact hI.inc j u pc hj hpc

theorem GInv_fold (l : List Th) (hl : ∀ t ∈ l, t.pc = none) : ∀ c : Cfg RSh Th, GInv c → GInv (l.foldl pushTh c) := by
  induction l with
  | nil => intro c h; exact h
  | cons a l ih =>
    intro c h
    simp only [List.foldl_cons]
    apply ih (fun t ht => hl t (List.mem_cons_of_mem _ ht))
    refine ⟨by simp [pushTh, settle_gen]; exact h.genLe, ?_⟩
    intro j u pc hj hpc
    simp only [pushTh] at hj
    rw [List.getElem?_append] at hj
    split at hj
    · exact h.inc j u pc hj hpc
    · have := List.mem_of_getElem? hj
      simp at this; subst this
      rw [settle_pc, hl a (by simp)] at hpc; cases hpc

theorem GInv_reachable {cap : Nat} {owners : List Nat} {progs : List (List Cmd)} {c : Cfg RSh Th}
    (h : Reachable sys (initCfg cap owners progs) c) : GInv c := by
  refine Reachable.inv GInv ?_ (fun _ _ _ _ hI hs => GInv_step hI hs) c h
  have e : initCfg cap owners progs =
      ((owners.zip progs).map fun (o, p) => Th.init o p).foldl pushTh { sh := RSh.init cap, th := [] } := rfl
  rw [e]
  apply GInv_fold
  · intro t ht; simp at ht; obtain ⟨o, p, _, rfl⟩ := ht; rfl
  · exact ⟨by simp [RSh.init], by simp⟩

/-! ## The theorems -/

variable (cap : Nat) (owners : List Nat) (progs : List (List Cmd))

/-- an index a live thread holds (returned by `acquire`, not yet released) is in bounds and its
cell carries the thread's owner id -/
theorem ruis_held_valid (ho : OwnersOk owners) (c : Cfg RSh Th) (h : Reachable sys (initCfg cap owners progs) c)
    (i : Nat) (t : Th) (hi : c.th[i]? = some t) (hl : t.dead = false) (n : Nat) (hn : n ∈ t.held) :
    n < cap ∧ c.sh.cells[n]? = some t.owner :=
  ((Inv_reachable ho h).thOk i t hi).held hl n hn

/-- **exclusive**: two live threads never hold the same index; one thread never holds an index twice -/
theorem ruis_exclusive (ho : OwnersOk owners) (c : Cfg RSh Th) (h : Reachable sys (initCfg cap owners progs) c)
    (i j : Nat) (ti tj : Th) (hi : c.th[i]? = some ti) (hj : c.th[j]? = some tj)
    (hli : ti.dead = false) (hlj : tj.dead = false) (n : Nat) (hni : n ∈ ti.held) (hnj : n ∈ tj.held) :
    i = j ∧ ti.held.Nodup := by
  have hI := Inv_reachable ho h
  have h1 := ((hI.thOk i ti hi).held hli n hni).2
  have h2 := ((hI.thOk j tj hj).held hlj n hnj).2
  rw [h1] at h2
  exact ⟨owner_inj hI.ownersNodup hi hj (Option.some.inj h2), (hI.thOk i ti hi).nodup⟩

/-- the generation counter never decreases and, once it is the lock indicator, stays so -/
theorem ruis_gen_monotone (c c' : Cfg RSh Th) (i : Nat) (evs : List Ev)
    (h : Reachable sys (initCfg cap owners progs) c) (hs : sys.stepAt c i = some (c', evs)) :
    c.sh.gen ≤ c'.sh.gen ∧ (c.sh.gen = LOCKG → c'.sh.gen = LOCKG) := by
  have hG := GInv_reachable h
  obtain ⟨t, sh', t', hi, hst, rfl⟩ := stepAt_some hs
  have := step_gen hst hG.genLe (fun pc hpc => hG.inc i t pc hi hpc)
  exact ⟨this.1, this.2.2⟩

/-- **lock finality**: after the set is locked no acquire succeeds any more -/
theorem ruis_lock_final (ho : OwnersOk owners) (c c' : Cfg RSh Th) (i : Nat) (evs : List Ev)
    (h : Reachable sys (initCfg cap owners progs) c) (hs : sys.stepAt c i = some (c', evs))
    (hl : c.sh.gen = LOCKG) (n : Nat) : Ev.ret (showRes (.acquired n)) ∉ evs := by
  have hI := Inv_reachable ho h
  obtain ⟨t, sh', t', hi, hst, rfl⟩ := stepAt_some hs
  intro hm
  rcases step_summary hst with ⟨pc, hpc, _, ⟨_, he⟩ | ⟨r, hn, he⟩⟩ | ⟨_, h2⟩
  · rw [he] at hm; exact stepOp_evs _ _ _ hm
  · rw [he] at hm
    rcases List.mem_append.mp hm with hm | hm
    · exact stepOp_evs _ _ _ hm
    · simp at hm
      obtain ⟨n', rfl⟩ := showRes_acquired hm.symm
      exact (stepOp_acquired ((hI.thOk i t hi).pcOk pc hpc).misc hn).2.2 hl
  · exact skipped_ne_acquired n (h2 _ hm).symm

theorem pendAcq_ownCell {n : Nat} {pc : PC} (h : pendAcq n pc) : ownCell pc = some n := by
  pc_cases pc <;> simp [pendAcq] at h <;> simp [ownCell, h]

theorem incCas_evs (s : RSh) (k : K) (g a : Nat) : Ev.cas "gen" .rlx .rlx a LOCKG true ∉ (stepOp s (.incCas k g)).evs := by
  simp only [stepOp, apply_ite Out.evs, finishInc_evs]
  (repeat' split) <;> simp

/- **lock only when empty** — the statement below, as originally given, is FALSE (see
`ruis_lock_only_if_no_holder_false` further down for the machine-checked refutation): the
generation counter is a `u64` that is incremented after every cell change and whose value
`2^64 - 1` doubles as the lock indicator.  The increment from `2^64 - 2` therefore "locks" the set
by counting, whoever holds indices at that moment.  Concretely (capacity 2, one thread, owner id 1,
program `acquire; borrowed_indices × (2^64 - 3); acquire`, schedule `0, 0, 0, …`): the last step of
the second acquire is `incCas (.acq 1) (2^64 - 2)`, it makes `gen = LOCKG` while the thread holds
index 0.  The counterexample needs about `2^64` steps, so it cannot be replayed by `#eval`.

/-- **lock only when empty**: at the step that locks the set nobody holds an index returned by
`acquire` (threads whose cell CAS slipped in are told `IsLocked` by their pending increment) -/
theorem ruis_lock_only_if_no_holder (ho : OwnersOk owners) (c c' : Cfg RSh Th) (i : Nat) (evs : List Ev)
    (h : Reachable sys (initCfg cap owners progs) c) (hs : sys.stepAt c i = some (c', evs))
    (hu : c.sh.gen ≠ LOCKG) (hl : c'.sh.gen = LOCKG) :
    ∀ (j : Nat) (t : Th), c.th[j]? = some t → ∀ n ∈ t.held, c.sh.cells[n]? ≠ some t.owner
-/

/-- **lock only when empty** (`ruis_lock_only_if_no_holder` for every step except the one increment
of the generation counter that makes it reach `2^64 - 1` by counting): it suffices that the counter
is not `2^64 - 2` before the step, or that the step is the CAS of `lock()`.  At such a step nobody
holds an index returned by `acquire` (threads whose cell CAS slipped in are told `IsLocked` by
their pending increment) -/
theorem ruis_lock_only_if_no_holder_partial (ho : OwnersOk owners) (c c' : Cfg RSh Th) (i : Nat) (evs : List Ev)
    (h : Reachable sys (initCfg cap owners progs) c) (hs : sys.stepAt c i = some (c', evs))
    (hw : c.sh.gen + 1 ≠ LOCKG ∨ Ev.cas "gen" .rlx .rlx c.sh.gen LOCKG true ∈ evs)
    (hu : c.sh.gen ≠ LOCKG) (hl : c'.sh.gen = LOCKG) :
    ∀ (j : Nat) (t : Th), c.th[j]? = some t → ∀ n ∈ t.held, c.sh.cells[n]? ≠ some t.owner := by
  have hI := Inv_reachable ho h
  obtain ⟨t, sh', t', hi, hst, rfl⟩ := stepAt_some hs
  simp only [] at hl
  rcases step_summary hst with ⟨pc, hpc, h1, he⟩ | ⟨h1, _⟩
  · rw [h1] at hl
    have hne : (stepOp c.sh pc).sh.gen ≠ c.sh.gen := by rw [hl]; exact Ne.symm hu
    rcases stepOp_gen_change hne with ⟨k, g, rfl, h2, h3⟩ | ⟨kl, g, rfl, h2, h3⟩
    · rw [h3, ← h2] at hl
      rcases hw with hw | hw
      · exact absurd hl hw
      · exfalso
        rcases he with ⟨_, he⟩ | ⟨r, _, he⟩
        · rw [he] at hw; exact incCas_evs _ _ _ _ hw
        · rw [he] at hw
          rcases List.mem_append.mp hw with hw | hw
          · exact incCas_evs _ _ _ _ hw
          · simp at hw
    · have hg : g ≠ LOCKG := by rw [← h2]; exact hu
      have hs : scanL cap (.lkCas kl g) = some (g, cap) := by simp [scanL, hg]
      intro j u hj n hn hc
      have hnc : n < cap := by rw [← hI.len]; exact lt_of_getElem? hc
      rcases hI.scanL i t _ g cap hi hpc hs h2 n hnc hnc with h4 | ⟨w, uw, pcw, hw', hpcw, hp⟩
      · rw [hc] at h4; exact (hI.thOk j u hj).ownerNe (Option.some.inj h4)
      · obtain ⟨_, h5, h6⟩ := ((hI.thOk w uw hw').pcOk pcw hpcw).ownCell n (pendAcq_ownCell hp)
        rw [hc] at h5
        have := owner_inj hI.ownersNodup hj hw' (Option.some.inj h5)
        subst this
        rw [hj] at hw'; cases hw'
        exact h6 hn
  · rw [h1] at hl; exact absurd hl hu

theorem pendRel_cases {n : Nat} {pc : PC} (h : pendRel n pc) :
    (∃ m, pc = .incLd (.rel n m) ∨ ∃ g, pc = .incCas (.rel n m) g) ∨
    (∃ m d, pc = .incLd (.recov n m d) ∨ ∃ g, pc = .incCas (.recov n m d) g) := by
  pc_cases pc <;> simp [pendRel] at h <;> subst h <;> simp

/-- the intended (stronger) reading of `ruis_out_of_indices_only_if_full`: in the statement below
`∧` binds tighter than `∨`, so its last disjunct does not say that `t` is a thread of `c` (and is
therefore trivially satisfiable); here the pending release / recovery belongs to a thread of `c` -/
theorem ruis_out_of_indices_only_if_full_strong (ho : OwnersOk owners) (c c' : Cfg RSh Th) (i : Nat) (evs : List Ev)
    (h : Reachable sys (initCfg cap owners progs) c) (hs : sys.stepAt c i = some (c', evs))
    (hr : Ev.ret (showRes .errOut) ∈ evs) :
    ∀ n, n < cap → c.sh.cells[n]? ≠ some EMPTY ∨
      ∃ (j : Nat) (t : Th), c.th[j]? = some t ∧
        ((∃ m, t.pc = some (.incLd (.rel n m)) ∨ ∃ g, t.pc = some (.incCas (.rel n m) g)) ∨
        (∃ m d, t.pc = some (.incLd (.recov n m d)) ∨ ∃ g, t.pc = some (.incCas (.recov n m d) g))) := by
  have hI := Inv_reachable ho h
  obtain ⟨t, sh', t', hi, hst, rfl⟩ := stepAt_some hs
  rcases step_summary hst with ⟨pc, hpc, _, ⟨_, he⟩ | ⟨r, hn, he⟩⟩ | ⟨_, h2⟩
  · rw [he] at hr; exact absurd hr (stepOp_evs _ _ _)
  · rw [he] at hr
    rcases List.mem_append.mp hr with hr | hr
    · exact absurd hr (stepOp_evs _ _ _)
    · simp at hr
      have := showRes_errOut hr.symm
      subst this
      obtain ⟨o, g, rfl, hg⟩ := stepOp_errOut hn
      intro n hnc
      rcases hI.scanA i t _ g cap hi hpc rfl hg n hnc with h4 | ⟨w, uw, pcw, hw', hpcw, hp⟩
      · exact .inl h4
      · right
        refine ⟨w, uw, hw', ?_⟩
        rcases pendRel_cases hp with ⟨m, rfl | ⟨g', rfl⟩⟩ | ⟨m, d, rfl | ⟨g', rfl⟩⟩
        · exact .inl ⟨m, .inl hpcw⟩
        · exact .inl ⟨m, .inr ⟨g', hpcw⟩⟩
        · exact .inr ⟨m, d, .inl hpcw⟩
        · exact .inr ⟨m, d, .inr ⟨g', hpcw⟩⟩
  · exact absurd (h2 _ hr) (by decide)

/-- **acquire fails with OutOfIndices only if genuinely full**: at the validating CAS every cell
is taken, or was emptied by a release / recovery whose generation increment is still pending
(that operation has not returned yet) -/
theorem ruis_out_of_indices_only_if_full (ho : OwnersOk owners) (c c' : Cfg RSh Th) (i : Nat) (evs : List Ev)
    (h : Reachable sys (initCfg cap owners progs) c) (hs : sys.stepAt c i = some (c', evs))
    (hr : Ev.ret (showRes .errOut) ∈ evs) :
    ∀ n, n < cap → c.sh.cells[n]? ≠ some EMPTY ∨
      ∃ (j : Nat) (t : Th), c.th[j]? = some t ∧
        (∃ m, t.pc = some (.incLd (.rel n m)) ∨ ∃ g, t.pc = some (.incCas (.rel n m) g)) ∨
        (∃ m d, t.pc = some (.incLd (.recov n m d)) ∨ ∃ g, t.pc = some (.incCas (.recov n m d) g)) := by
  intro n hn
  rcases ruis_out_of_indices_only_if_full_strong cap owners progs ho c c' i evs h hs hr n hn with h1 | ⟨j, t, hj, h2 | h2⟩
  · exact .inl h1
  · exact .inr ⟨j, t, .inl ⟨hj, h2⟩⟩
  · exact .inr ⟨j, t, .inr h2⟩

/-- **recovery is exact**: `recover_success` is only reported for the requested (dead) owner, for
a cell that owner really occupied, and never twice for the same cell -/
theorem ruis_recover_exact (ho : OwnersOk owners) (c : Cfg RSh Th) (h : Reachable sys (initCfg cap owners progs) c) :
    (∀ (j : Nat) (t : Th), c.th[j]? = some t → ∀ p ∈ t.recoveredLog, p.1 ∈ c.sh.deadOwners ∧ p.2 < cap) ∧
    ((c.th.map (·.recoveredLog)).flatten).Nodup := by
  have hI := Inv_reachable ho h
  refine ⟨?_, hI.logNodup⟩
  intro j t hj p hp
  have := (hI.thOk j t hj).log p hp
  exact ⟨this.1, this.2.1⟩

/-- … and complete: when the scan of a recovery has reached its end, no cell carries the dead
owner's id any more -/
theorem ruis_recover_complete (ho : OwnersOk owners) (c : Cfg RSh Th) (h : Reachable sys (initCfg cap owners progs) c)
    (i : Nat) (t : Th) (hi : c.th[i]? = some t) (d : Nat) (hpc : t.pc = some (.rcFinal d)) :
    ∀ n : Nat, c.sh.cells[n]? ≠ some d := by
  have hI := Inv_reachable ho h
  intro n
  by_cases hn : n < cap
  · exact (((hI.thOk i t hi).pcOk _ hpc).rc d cap rfl).2 n hn
  · rw [List.getElem?_eq_none (by rw [hI.len]; omega)]; intro e; cases e

/-! ### refutation of the original `ruis_lock_only_if_no_holder` (counter overflow into the lock indicator) -/
section counterexample
theorem reach_trans {S : Sys RSh Th} {a b c : Cfg RSh Th} (h1 : Reachable S a b) (h2 : Reachable S b c) :
    Reachable S a c := by
  induction h2 with
  | init => exact h1
  | step _ hs ih => exact Reachable.step ih hs

theorem reach_one {c c' : Cfg RSh Th} (h : (sys.stepAt c 0).map Prod.fst = some c') : Reachable sys c c' := by
  cases hs : sys.stepAt c 0 with
  | none => rw [hs] at h; cases h
  | some r =>
    obtain ⟨c1, evs⟩ := r
    rw [hs] at h; simp at h; subst h
    exact Reachable.step Reachable.init hs

/-- the configurations of the counterexample: one thread (owner id 1), capacity 2 -/
def cx (g : Nat) (cells : List Nat) (pc : Option PC) (todo : List Cmd) (held : List Nat) : Cfg RSh Th :=
  { sh := { cap := 2, cells := cells, gen := g, deadOwners := [] },
    th := [{ owner := 1, pc := pc, gate := none, todo := todo, held := held, dead := false, recoveredLog := [] }] }

def cxRest (K : Nat) : List Cmd := List.replicate K .borrowed ++ [.acquire]

macro "cxstep" : tactic => `(tactic| (apply reach_one; simp [Sys.stepAt, sys, step, cx, cxRest, List.replicate_succ, nextCmd,
  enabled, start, runPC, stepOp, settle, finishInc, finishBg, bgAfterScan, EMPTY, *]))

theorem cxRest_nextCmd (s : RSh) (t : Th) (K : Nat) : ∃ cmd rest, nextCmd s t (cxRest K) = some (cmd, rest) ∧ cmd ≠ .die := by
  cases K with
  | zero => exact ⟨.acquire, [], by simp [cxRest, nextCmd, enabled], by simp⟩
  | succ K => exact ⟨.borrowed, cxRest K, by simp [cxRest, List.replicate_succ, nextCmd, enabled], by simp⟩

theorem cx_settle (s : RSh) (t : Th) (K : Nat) (ht : t.todo = cxRest K) : settle s t = (s, t) := by
  obtain ⟨cmd, rest, h1, h2⟩ := cxRest_nextCmd s t K
  unfold settle
  rw [ht, h1]
  cases cmd <;> simp at h2 ⊢

theorem cx_round (g K : Nat) (hg : g ≠ LOCKG) :
    Reachable sys (cx g [1, EMPTY] none (cxRest (K + 1)) [0]) (cx (g + 1) [1, EMPTY] none (cxRest K) [0]) := by
  have s1 : Reachable sys (cx g [1, EMPTY] none (cxRest (K + 1)) [0])
      (cx g [1, EMPTY] (some (.bgLdGen .borrowed)) (cxRest K) [0]) := by cxstep
  have s2 : Reachable sys (cx g [1, EMPTY] (some (.bgLdGen .borrowed)) (cxRest K) [0])
      (cx g [1, EMPTY] (some (.bgCell .borrowed g 0 0)) (cxRest K) [0]) := by cxstep
  have s3 : Reachable sys (cx g [1, EMPTY] (some (.bgCell .borrowed g 0 0)) (cxRest K) [0])
      (cx g [1, EMPTY] (some (.bgCell .borrowed g 1 1)) (cxRest K) [0]) := by cxstep
  have s4 : Reachable sys (cx g [1, EMPTY] (some (.bgCell .borrowed g 1 1)) (cxRest K) [0])
      (cx g [1, EMPTY] (some (.incLd (.bg g 1 .borrowed))) (cxRest K) [0]) := by cxstep
  have s5 : Reachable sys (cx g [1, EMPTY] (some (.incLd (.bg g 1 .borrowed))) (cxRest K) [0])
      (cx g [1, EMPTY] (some (.incCas (.bg g 1 .borrowed) g)) (cxRest K) [0]) := by cxstep
  have s6 : Reachable sys (cx g [1, EMPTY] (some (.incCas (.bg g 1 .borrowed) g)) (cxRest K) [0])
      (cx (g + 1) [1, EMPTY] none (cxRest K) [0]) := by
    apply reach_one
    simp only [Sys.stepAt, sys, step, cx, runPC, stepOp, finishInc, finishBg]
    simp [cx_settle _ _ K]
  exact reach_trans (reach_trans (reach_trans (reach_trans (reach_trans s1 s2) s3) s4) s5) s6

theorem cx_rounds : ∀ (K g : Nat), g + K ≤ LOCKG →
    Reachable sys (cx g [1, EMPTY] none (cxRest K) [0]) (cx (g + K) [1, EMPTY] none (cxRest 0) [0])
  | 0, g, _ => Reachable.init
  | K + 1, g, h => by
    have h1 := cx_round g K (by omega)
    have h2 := cx_rounds K (g + 1) (by omega)
    have e : g + 1 + K = g + (K + 1) := by omega
    rw [e] at h2
    exact reach_trans h1 h2

theorem cx_init (K : Nat) : initCfg 2 [1] [Cmd.acquire :: cxRest K] = cx 0 [EMPTY, EMPTY] none (.acquire :: cxRest K) [] := by
  simp [initCfg, settle, nextCmd, enabled, Th.init, RSh.init, cx, List.replicate]

theorem cx_first (K : Nat) :
    Reachable sys (cx 0 [EMPTY, EMPTY] none (.acquire :: cxRest K) []) (cx 1 [1, EMPTY] none (cxRest K) [0]) := by
  have h0 : (0 : Nat) ≠ LOCKG := by decide
  have s1 : Reachable sys (cx 0 [EMPTY, EMPTY] none (.acquire :: cxRest K) [])
      (cx 0 [EMPTY, EMPTY] (some (.acLdGen 1)) (cxRest K) []) := by cxstep
  have s2 : Reachable sys (cx 0 [EMPTY, EMPTY] (some (.acLdGen 1)) (cxRest K) [])
      (cx 0 [EMPTY, EMPTY] (some (.acCell 1 0 0)) (cxRest K) []) := by cxstep
  have s3 : Reachable sys (cx 0 [EMPTY, EMPTY] (some (.acCell 1 0 0)) (cxRest K) [])
      (cx 0 [1, EMPTY] (some (.incLd (.acq 0))) (cxRest K) []) := by cxstep
  have s4 : Reachable sys (cx 0 [1, EMPTY] (some (.incLd (.acq 0))) (cxRest K) [])
      (cx 0 [1, EMPTY] (some (.incCas (.acq 0) 0)) (cxRest K) []) := by cxstep
  have s5 : Reachable sys (cx 0 [1, EMPTY] (some (.incCas (.acq 0) 0)) (cxRest K) [])
      (cx 1 [1, EMPTY] none (cxRest K) [0]) := by
    apply reach_one
    have h1 : (1 : Nat) ≠ LOCKG := by decide
    simp only [Sys.stepAt, sys, step, cx, runPC, stepOp, finishInc]
    simp [cx_settle _ _ K, h1]
  exact reach_trans (reach_trans (reach_trans (reach_trans s1 s2) s3) s4) s5

theorem cx_last (g : Nat) (hg : g ≠ LOCKG) :
    Reachable sys (cx g [1, EMPTY] none (cxRest 0) [0]) (cx g [1, 1] (some (.incCas (.acq 1) g)) [] [0]) := by
  have s1 : Reachable sys (cx g [1, EMPTY] none (cxRest 0) [0]) (cx g [1, EMPTY] (some (.acLdGen 1)) [] [0]) := by cxstep
  have s2 : Reachable sys (cx g [1, EMPTY] (some (.acLdGen 1)) [] [0]) (cx g [1, EMPTY] (some (.acCell 1 g 0)) [] [0]) := by
    cxstep
  have s3 : Reachable sys (cx g [1, EMPTY] (some (.acCell 1 g 0)) [] [0]) (cx g [1, EMPTY] (some (.acCell 1 g 1)) [] [0]) := by
    cxstep
  have s4 : Reachable sys (cx g [1, EMPTY] (some (.acCell 1 g 1)) [] [0]) (cx g [1, 1] (some (.incLd (.acq 1))) [] [0]) := by
    cxstep
  have s5 : Reachable sys (cx g [1, 1] (some (.incLd (.acq 1))) [] [0]) (cx g [1, 1] (some (.incCas (.acq 1) g)) [] [0]) := by
    cxstep
  exact reach_trans (reach_trans (reach_trans (reach_trans s1 s2) s3) s4) s5

/-- **`ruis_lock_only_if_no_holder` as stated is false**: with capacity 2, one thread (owner id 1)
and the program `acquire; borrowed_indices × (2^64 - 3); acquire` the generation counter is
`2^64 - 2` when the second acquire increments it: the counter becomes `2^64 - 1`, the lock
indicator, although the thread holds index 0 (and nobody ever called `lock()`). -/
theorem ruis_lock_only_if_no_holder_false :
    ¬ (∀ (cap : Nat) (owners : List Nat) (progs : List (List Cmd)), OwnersOk owners →
        ∀ (c c' : Cfg RSh Th) (i : Nat) (evs : List Ev),
        Reachable sys (initCfg cap owners progs) c → sys.stepAt c i = some (c', evs) →
        c.sh.gen ≠ LOCKG → c'.sh.gen = LOCKG →
        ∀ (j : Nat) (t : Th), c.th[j]? = some t → ∀ n ∈ t.held, c.sh.cells[n]? ≠ some t.owner) := by
  intro H
  obtain ⟨K, hK⟩ : ∃ K : Nat, 1 + K + 1 = LOCKG := ⟨2^64 - 3, by decide⟩
  have hg : 1 + K ≠ LOCKG := by omega
  have r : Reachable sys (initCfg 2 [1] [Cmd.acquire :: cxRest K]) (cx (1 + K) [1, 1] (some (.incCas (.acq 1) (1 + K))) [] [0]) := by
    rw [cx_init]
    exact reach_trans (reach_trans (cx_first K) (cx_rounds K 1 (by omega))) (cx_last (1 + K) hg)
  have st : sys.stepAt (cx (1 + K) [1, 1] (some (.incCas (.acq 1) (1 + K))) [] [0]) 0 =
      some (cx LOCKG [1, 1] none [] [0], [.cas "gen" .rel .rlx (1 + K) (1 + K + 1) true, .ret (showRes .errLocked)]) := by
    simp [Sys.stepAt, sys, step, cx, runPC, stepOp, finishInc, settle, nextCmd, hK]
  have ok : OwnersOk [1] := ⟨by simp, by simp [EMPTY]⟩
  exact H 2 [1] [Cmd.acquire :: cxRest K] ok _ _ 0 _ r st (by simpa [cx] using hg) (by simp [cx]) 0
    { owner := 1, pc := some (.incCas (.acq 1) (1 + K)), todo := [], held := [0] } (by simp [cx]) 0 (by simp) (by simp [cx])
end counterexample

/-- non-vacuity: three threads, capacity 2: out of indices, death of an owner, recovery with lock-if-last -/
example :
    let progs := [[Cmd.acquire, .die], [Cmd.acquire, .acquire, .release 0 .default, .recover 100 .lockIfLast], [Cmd.acquire]]
    let c := (sys.run (initCfg 2 [100, 101, 102] progs) (List.replicate 5 0 ++ List.replicate 40 1 ++ List.replicate 10 2)).1
    c.sh.gen = LOCKG ∧ (c.th.map (·.recoveredLog)) = [[], [(100, 0)], []] := by
  decide


end Iox2.C09.RuisP
