/-
C05 (port level) — events: no lost wake-up, no phantom event.

Model: `Iox2/Model/EventPorts.lean` (validated against the real `Notifier` / `Listener` ports by the differential
run `eventports`).  The hand-shake inside one listener's event concept is covered at atomic-step level by
`Iox2/Props/C05.lean` over `Iox2/Model/EventProto.lean`; here a listener's concept is its set of pending ids and the
question is WHICH listeners a notification reaches.

All theorems quantify over every reachable world (`Reach c w`: any history of API calls on any number of nodes,
notifiers and listeners, including node deaths and cleanups).
-/
import Iox2.Proof.EventPortsStep
namespace Iox2.EventPorts

/-! ### no loss: a notification reaches exactly the listeners attached at that moment -/

/-- The complete effect of a notify (with an id inside the bounds) on the listeners: every listener that exists at that
moment gets the id added to its pending set — whatever the notifier had seen before: its connections are refreshed inside
the call —, and nothing else about any listener changes (no other listener record, no other id).
This holds whether the call returns `ok` or `MissedDeadline`. -/
theorem notify_reaches_exactly_the_attached {c : Cfg} {w : World} (r : Reach c w) {n : Nat} {N : Noti}
    (hN : w.nots n = some N) (hst : N.st = .alive) {id : Nat} (hid : id ≤ c.idMax) (l : Nat) :
    (step w (.notifyId n id)).1.liss l =
      match w.liss l with
      | some L => if L.st = .alive then some { L with pending := insertId id L.pending } else some L
      | none => none := by
  obtain ⟨inv, hc⟩ := r.inv
  rw [step_notifyId_alive hN hst]
  exact notifyCore_liss inv hN hst (by rw [hc]; exact hid) l

/-- every attached listener has the id pending afterwards -/
theorem notify_delivers_to_every_attached {c : Cfg} {w : World} (r : Reach c w) {n : Nat} {N : Noti}
    (hN : w.nots n = some N) (hst : N.st = .alive) {id : Nat} (hid : id ≤ c.idMax) {l : Nat} {L : Lis}
    (hL : w.liss l = some L) (hLst : L.st = .alive) :
    ∃ L', (step w (.notifyId n id)).1.liss l = some L' ∧ L'.st = .alive ∧ id ∈ L'.pending := by
  rw [notify_reaches_exactly_the_attached r hN hst hid l, hL]
  simp only [hLst, if_true]
  refine ⟨_, rfl, ?_, ?_⟩
  · rfl
  · exact mem_insertId.mpr (Or.inl rfl)

/-- the registered listeners are exactly the listeners that exist -/
theorem registered_iff_exists {c : Cfg} {w : World} (r : Reach c w) (l : Nat) :
    l ∈ w.lisReg.labels ↔ ∃ L, w.liss l = some L ∧ L.st ≠ .gone := by
  obtain ⟨inv, _⟩ := r.inv
  constructor
  · intro h
    obtain ⟨i, hi⟩ := Reg.mem_labels.mp h
    have := inv.lis.slot i l hi
    simp only [lisOwn] at this
    cases hL : w.liss l with
    | none => rw [hL] at this; simp at this
    | some L =>
      rw [hL] at this
      refine ⟨L, rfl, fun e => ?_⟩
      simp [e] at this
  · rintro ⟨L, hL, hst⟩
    have hown : lisOwn w l = some L.slot := by simp [lisOwn, hL, hst]
    exact Reg.mem_labels.mpr ⟨L.slot, inv.lis.owner l L.slot hown⟩

/-- The returned count: never more than the registered listeners; when no listener of a dead node awaits its cleanup it is
exactly the number of registered listeners, all of which live (and, by the theorem above, all of which got the id). -/
theorem notify_count {c : Cfg} {w : World} (r : Reach c w) {n : Nat} {N : Noti}
    (hN : w.nots n = some N) (hst : N.st = .alive) {id : Nat} (hid : id ≤ c.idMax) (hdl : c.deadline ≠ 2) :
    ∃ k, (step w (.notifyId n id)).2 = .okN k ∧ k ≤ w.lisReg.len ∧
      (NoDeadListener w → k = w.lisReg.len ∧ ∀ l ∈ w.lisReg.labels, isAlive w l) := by
  obtain ⟨inv, hc⟩ := r.inv
  rw [step_notifyId_alive hN hst]
  have hid' : id ≤ w.cfg.idMax := by rw [hc]; exact hid
  have hdl' : ¬ w.cfg.deadline = 2 := by rw [hc]; exact hdl
  rw [notifyCore_result w n N hid']
  simp only [hdl', if_false, outOfNotify]
  refine ⟨_, rfl, ?_, ?_⟩
  · exact Nat.le_trans (List.length_filter_le _ _) (targets_length_le inv hN hst)
  · intro hd
    have ht := targets_eq_labels inv hd hN hst
    have hal : ∀ l ∈ w.lisReg.labels, isAlive w l := by
      intro l hl
      obtain ⟨L, hL, hg⟩ := (registered_iff_exists r l).mp hl
      have := hd l L hL
      refine ⟨L, hL, ?_⟩
      cases hx : L.st with
      | alive => rfl
      | dead => exact absurd hx this
      | gone => exact absurd hx hg
    refine ⟨?_, hal⟩
    rw [ht]
    have : w.lisReg.labels.filter (reaches w) = w.lisReg.labels := by
      apply List.filter_eq_self.mpr
      intro l hl
      obtain ⟨L, hL, ha⟩ := hal l hl
      simp [reaches, hL, ha]
    rw [this]; rfl

/-- a missed deadline is reported after the delivery: the error does not mean "not delivered" -/
theorem missed_deadline_still_delivers {c : Cfg} {w : World} (r : Reach c w) {n : Nat} {N : Noti}
    (hN : w.nots n = some N) (hst : N.st = .alive) {id : Nat} (hid : id ≤ c.idMax) (hdl : c.deadline = 2) :
    (step w (.notifyId n id)).2 = .err .missedDeadline ∧
    ∀ l L, w.liss l = some L → L.st = .alive → ∃ L', (step w (.notifyId n id)).1.liss l = some L' ∧ id ∈ L'.pending := by
  obtain ⟨inv, hc⟩ := r.inv
  refine ⟨?_, fun l L hL hLst => ?_⟩
  · rw [step_notifyId_alive hN hst, notifyCore_result w n N (by rw [hc]; exact hid)]
    simp [hc, hdl, outOfNotify]
  · obtain ⟨L', h1, _, h2⟩ := notify_delivers_to_every_attached r hN hst hid hL hLst
    exact ⟨L', h1, h2⟩

/-- No loss: once a notify returned (ok or MissedDeadline), every listener that existed at that moment reports the id at its
next wait, whatever happens in between (other notifies, ports and nodes created, dropped, killed, cleaned up), as long as the
listener itself still exists then. -/
theorem notified_id_is_reported_at_next_wait {c : Cfg} {w : World} (r : Reach c w) {n : Nat} {N : Noti}
    (hN : w.nots n = some N) (hst : N.st = .alive) {id : Nat} (hid : id ≤ c.idMax) {l : Nat} {L : Lis}
    (hL : w.liss l = some L) (hLst : L.st = .alive) (ops : List Op) (hops : ∀ op ∈ ops, op ≠ .wait l) :
    ∃ L2, (run (step w (.notifyId n id)).1 ops).liss l = some L2 ∧
      (L2.st = .alive → ∃ ids, (step (run (step w (.notifyId n id)).1 ops) (.wait l)).2 = .ids ids ∧ id ∈ ids) := by
  obtain ⟨L1, hL1, _, hid1⟩ := notify_delivers_to_every_attached r hN hst hid hL hLst
  obtain ⟨L2, hL2, k⟩ := Keeps.run l ops _ hops L1 hL1
  refine ⟨L2, hL2, fun ha => ?_⟩
  rw [step_wait_alive hL2 ha]
  exact ⟨L2.pending, rfl, (k ha).2 id hid1⟩

/-- in particular the record of a listener never disappears and a listener that is alive later was alive all the time -/
theorem listener_keeps_pending {w : World} {l : Nat} {L : Lis} (hL : w.liss l = some L) (ops : List Op)
    (hops : ∀ op ∈ ops, op ≠ .wait l) :
    ∃ L2, (run w ops).liss l = some L2 ∧ (L2.st = .alive → L.st = .alive ∧ ∀ id ∈ L.pending, id ∈ L2.pending) :=
  Keeps.run l ops w hops L hL

/-- a listener created after a notification does not see it: it starts with nothing pending -/
theorem late_listener_starts_empty {w : World} {l k : Nat} (h : (step w (.clis l k)).2 = .ok) :
    w.liss l = none ∧ ∃ L, (step w (.clis l k)).1.liss l = some L ∧ L.st = .alive ∧ L.pending = [] ∧ L.mark = w.hist.length := by
  simp only [step] at h ⊢
  split at h
  · cases h
  · rename_i hl
    have hl : w.liss l = none := by
      cases hx : w.liss l with
      | none => rfl
      | some x => rw [hx] at hl; simp at hl
    refine ⟨hl, ?_⟩
    rw [if_neg (by simp [hl])]
    split at h
    · rename_i o ho
      have h : o = .ok := h
      rcases usable_error ho with e | e | e <;> rw [e] at h <;> cases h
    · split at h
      · cases h
      · rename_i reg slot e
        exact ⟨{ node := k, slot := slot, mark := w.hist.length }, by simp, rfl, rfl, rfl⟩

/-! ### merging -/

/-- Merging: an id notified twice (by any two notifiers) before the listener waits is still pending — reported at the next wait —
and it is held once. -/
theorem merged_not_dropped {c : Cfg} {w : World} (r : Reach c w) {n1 n2 : Nat} {N1 : Noti}
    (hN1 : w.nots n1 = some N1) (hst1 : N1.st = .alive) {id : Nat} (hid : id ≤ c.idMax) {l : Nat} {L : Lis}
    (hL : w.liss l = some L) (hLst : L.st = .alive)
    {N2 : Noti} (hN2 : (step w (.notifyId n1 id)).1.nots n2 = some N2) (hst2 : N2.st = .alive) :
    ∃ L', (step (step w (.notifyId n1 id)).1 (.notifyId n2 id)).1.liss l = some L' ∧ id ∈ L'.pending ∧
      L'.pending.Pairwise (· < ·) := by
  obtain ⟨L1, hL1, ha1, _⟩ := notify_delivers_to_every_attached r hN1 hst1 hid hL hLst
  have r1 : Reach c (step w (.notifyId n1 id)).1 := Reach.step _ r
  obtain ⟨L2, hL2, _, h2⟩ := notify_delivers_to_every_attached r1 hN2 hst2 hid hL1 ha1
  have r2 : Reach c (step (step w (.notifyId n1 id)).1 (.notifyId n2 id)).1 := Reach.step _ r1
  exact ⟨L2, hL2, h2, (r2.inv.1.pend l L2 hL2).2.2⟩

/-- a wait reports every id once (ascending) -/
theorem wait_reports_each_id_once {c : Cfg} {w : World} (r : Reach c w) {l : Nat} {ids : List Nat}
    (h : (step w (.wait l)).2 = .ids ids) : ids.Pairwise (· < ·) := by
  simp only [step] at h
  split at h
  · cases h
  · rename_i L hL
    split at h
    · cases h
    · cases h
      exact (r.inv.1.pend l L hL).2.2

/-! ### no phantom -/

/-- No phantom: whatever a listener holds was sent out by a notify call or a lifecycle emission (`hist`, see `hist_step`) after
the listener's creation / after its last wait (`mark`), and is inside the service's id bounds. -/
theorem no_phantom {c : Cfg} {w : World} (r : Reach c w) {l : Nat} {L : Lis} (hL : w.liss l = some L) :
    L.mark ≤ w.hist.length ∧ ∀ id ∈ L.pending, id ≤ c.idMax ∧ id ∈ w.hist.drop L.mark := by
  obtain ⟨inv, hc⟩ := r.inv
  obtain ⟨a, b, _⟩ := inv.pend l L hL
  exact ⟨a, fun id hid => by rw [← hc]; exact b id hid⟩

/-- what a wait reports was sent since the previous wait; the wait moves the mark to the present -/
theorem wait_reports_only_what_was_sent {c : Cfg} {w : World} (r : Reach c w) {l : Nat} {ids : List Nat}
    (h : (step w (.wait l)).2 = .ids ids) :
    ∃ L L', w.liss l = some L ∧ (∀ id ∈ ids, id ≤ c.idMax ∧ id ∈ w.hist.drop L.mark) ∧
      (step w (.wait l)).1.liss l = some L' ∧ L'.mark = w.hist.length ∧ L'.pending = [] ∧ (step w (.wait l)).1.hist = w.hist := by
  simp only [step] at h ⊢
  split at h
  · cases h
  · rename_i L hL
    split at h
    · cases h
    · rename_i hst
      cases h
      rw [hL]; simp only [hst, if_false]
      exact ⟨L, { L with pending := [], mark := w.hist.length }, rfl, (no_phantom r hL).2, by simp, rfl, rfl, rfl⟩

/-- the ids a call can send out -/
def Emits (w : World) : Op → Nat → Prop
  | .notifyId _ i, id => id = i
  | .notify n, id => ∃ N, w.nots n = some N ∧ id = N.defId
  | .notifyOne n _ _ i, id => ∃ N, w.nots n = some N ∧ id = i.getD N.defId
  | .cnot _ _ _, id => w.cfg.created = some id
  | .dnot _, id => w.cfg.dropped = some id
  | .cleanup _, id => w.cfg.dead = some id
  | _, _ => False

theorem deadSignal_hist (w : World) : ∃ e, (deadSignal w).hist = w.hist ++ e ∧ ∀ id ∈ e, w.cfg.dead = some id := by
  unfold deadSignal
  split
  · exact ⟨[], by simp, by simp⟩
  · split
    · exact ⟨[], by simp, by simp⟩
    · split
      · exact ⟨[], by simp, by simp⟩
      · rename_i id hid
        split
        · exact ⟨[], by simp, by simp⟩
        · split
          · exact ⟨[], by simp, by simp⟩
          · exact ⟨[id], rfl, by simp [hid]⟩

theorem cleanNode_hist (acc : World × Nat) (d : Nat) :
    ∃ e, (cleanNode acc d).1.hist = acc.1.hist ++ e ∧ ∀ id ∈ e, acc.1.cfg.dead = some id := by
  rw [cleanNode_eq]
  split
  · exact ⟨[], by simp, by simp⟩
  · split
    · exact ⟨[], by simp, by simp⟩
    · simp only []
      split
      · exact deadSignal_hist _
      · exact ⟨[], by simp [purge], by simp⟩

theorem foldl_cleanNode_hist (ks : List Nat) (acc : World × Nat) :
    ∃ e, (ks.foldl cleanNode acc).1.hist = acc.1.hist ++ e ∧ ∀ id ∈ e, acc.1.cfg.dead = some id := by
  induction ks generalizing acc with
  | nil => exact ⟨[], by simp, by simp⟩
  | cons k ks ih =>
    obtain ⟨e1, h1, p1⟩ := cleanNode_hist acc k
    obtain ⟨e2, h2, p2⟩ := ih (cleanNode acc k)
    refine ⟨e1 ++ e2, by rw [List.foldl_cons, h2, h1, List.append_assoc], ?_⟩
    intro id hid
    rcases List.mem_append.mp hid with h | h
    · exact p1 id h
    · have := p2 id h; rw [cleanNode_cfg] at this; exact this

/-- `hist` grows only by the id of a notify call or by a configured lifecycle id, emitted by the matching call -/
theorem hist_step (w : World) (op : Op) : ∃ e, (step w op).1.hist = w.hist ++ e ∧ ∀ id ∈ e, Emits w op id := by
  have nc : ∀ (w0 : World) (n : Nat) (N : Noti) (id : Nat),
      ∃ e, (notifyCore w0 n N id).1.hist = w0.hist ++ e ∧ ∀ x ∈ e, x = id := by
    intro w0 n N id
    rw [notifyCore_hist]
    split
    · exact ⟨[], by simp, by simp⟩
    · exact ⟨[id], rfl, by simp⟩
  cases op with
  | «open» k => simp only [step]; repeat' split
                all_goals exact ⟨[], by simp, by simp⟩
  | cnot n d k =>
    rcases step_cnot_cases w n k d with ⟨e, _⟩ | ⟨o, e, _, _⟩ | ⟨P, e, _⟩ | ⟨P, reg, slot, _, hn, hP, e⟩
    · rw [e]; exact ⟨[], by simp, by simp⟩
    · rw [e]; exact ⟨[], by simp, by simp⟩
    · rw [e]; exact ⟨[], by simp, by simp⟩
    · rw [step_cnot_ok hn hP e]
      cases hcr : w.cfg.created with
      | none => exact ⟨[], by simp [cnotBase], by simp⟩
      | some cid =>
        obtain ⟨e, h1, h2⟩ := nc (cnotBase w n k d reg slot) n (newNoti w k d slot) cid
        exact ⟨e, h1, fun x hx => by rw [h2 x hx]; exact hcr⟩
  | dnot n =>
    simp only [step]
    split
    · exact ⟨[], by simp, by simp⟩
    · split
      · exact ⟨[], by simp, by simp⟩
      · rw [(afterPortDrop_frame _ _ _).2.2.2.2.2.1]
        show ∃ e, (dropEmit w n _).hist = w.hist ++ e ∧ _
        unfold dropEmit
        split
        · rename_i cid hcid
          obtain ⟨e, h1, h2⟩ := nc w n _ cid
          exact ⟨e, h1, fun x hx => by rw [h2 x hx]; exact hcid⟩
        · exact ⟨[], by simp, by simp⟩
  | clis l k => simp only [step]; repeat' split
                all_goals exact ⟨[], by simp, by simp⟩
  | dlis l =>
    simp only [step]
    split
    · exact ⟨[], by simp, by simp⟩
    · split
      · exact ⟨[], by simp, by simp⟩
      · rw [(afterPortDrop_frame _ _ _).2.2.2.2.2.1]
        exact ⟨[], by simp, by simp⟩
  | notify n =>
    simp only [step]
    split
    · exact ⟨[], by simp, by simp⟩
    · rename_i N hN
      split
      · exact ⟨[], by simp, by simp⟩
      · obtain ⟨e, h1, h2⟩ := nc w n N N.defId
        exact ⟨e, h1, fun x hx => ⟨N, hN, h2 x hx⟩⟩
  | notifyId n id =>
    simp only [step]
    split
    · exact ⟨[], by simp, by simp⟩
    · split
      · exact ⟨[], by simp, by simp⟩
      · obtain ⟨e, h1, h2⟩ := nc w n _ id
        exact ⟨e, h1, fun x hx => h2 x hx⟩
  | wait l => simp only [step]; repeat' split
              all_goals exact ⟨[], by simp, by simp⟩
  | keys n => simp only [step]; repeat' split
              all_goals exact ⟨[], by simp, by simp⟩
  | notifyOne n slot l i =>
    simp only [step]
    split
    · exact ⟨[], by simp, by simp⟩
    · rename_i N hN
      split
      · exact ⟨[], by simp, by simp⟩
      · rw [notifyOneCore_eq]
        split
        · exact ⟨[], by simp, by simp⟩
        · split
          · exact ⟨[i.getD N.defId], rfl, fun x hx => ⟨N, hN, by simpa using hx⟩⟩
          · exact ⟨[], by simp, by simp⟩
  | count k => simp only [step]; repeat' split
               all_goals exact ⟨[], by simp, by simp⟩
  | dnode k => simp only [step]; repeat' split
               all_goals exact ⟨[], by simp, by simp⟩
  | dsvc k => simp only [step]; repeat' split
              all_goals exact ⟨[], by simp, by simp⟩
  | kill k => simp only [step]; repeat' split
              all_goals exact ⟨[], by simp [killPorts], by simp⟩
  | cleanup k =>
    simp only [step]
    split
    · exact ⟨[], by simp, by simp⟩
    · split
      · exact ⟨[], by simp, by simp⟩
      · split
        · exact ⟨[], by simp, by simp⟩
        · exact foldl_cleanNode_hist _ (w, 0)
  | ls => exact ⟨[], by simp [step], by simp⟩

/-! ### lifecycle events -/

/-- `notifier_created_event`: when a notifier is created, exactly the listeners that exist at that moment get the configured id
(if it is inside the id bounds; otherwise nobody gets anything: the failure is only logged) -/
theorem created_event_reaches_exactly_the_attached {c : Cfg} {w : World} (r : Reach c w) {n k : Nat} {d : Option Nat}
    (h : (step w (.cnot n d k)).2 = .ok) (l : Nat) :
    (step w (.cnot n d k)).1.liss l =
      match c.created with
      | some cid =>
        if cid ≤ c.idMax then
          match w.liss l with
          | some L => if L.st = .alive then some { L with pending := insertId cid L.pending } else some L
          | none => none
        else w.liss l
      | none => w.liss l := by
  obtain ⟨inv, hc⟩ := r.inv
  obtain ⟨P, reg, slot, hn, hP, e⟩ := step_cnot_of_ok h
  rw [step_cnot_ok hn hP e, ← hc]
  have inv1 : Inv (cnotBase w n k d reg slot) := inv.pres_cnotBase hn e
  cases hcr : w.cfg.created with
  | none => rfl
  | some cid =>
    simp only []
    by_cases hid : cid ≤ w.cfg.idMax
    · simp only [hid, if_true]
      exact notifyCore_liss inv1 (n := n) (by simp [cnotBase]) (newNoti_fields w k d slot).1 (id := cid) hid l
    · simp only [hid, if_false]
      rw [notifyCore_oob (cnotBase w n k d reg slot) _ _ (Nat.lt_of_not_le hid)]
      rfl

/-- `notifier_dropped_event`: likewise when a notifier is dropped -/
theorem dropped_event_reaches_exactly_the_attached {c : Cfg} {w : World} (r : Reach c w) {n : Nat} {N : Noti}
    (hN : w.nots n = some N) (hst : N.st = .alive) (l : Nat) :
    (step w (.dnot n)).2 = .ok ∧
    (step w (.dnot n)).1.liss l =
      match c.dropped with
      | some cid =>
        if cid ≤ c.idMax then
          match w.liss l with
          | some L => if L.st = .alive then some { L with pending := insertId cid L.pending } else some L
          | none => none
        else w.liss l
      | none => w.liss l := by
  obtain ⟨inv, hc⟩ := r.inv
  rw [step_dnot_alive hN hst]
  refine ⟨rfl, ?_⟩
  rw [(afterPortDrop_frame _ _ _).2.2.2.1]
  show (dropEmit w n N).liss l = _
  unfold dropEmit
  rw [← hc]
  cases hcr : w.cfg.dropped with
  | none => rfl
  | some cid =>
    simp only []
    by_cases hid : cid ≤ w.cfg.idMax
    · simp only [hid, if_true]
      exact notifyCore_liss inv hN hst hid l
    · simp only [hid, if_false]
      rw [notifyCore_oob _ _ _ (Nat.lt_of_not_le hid)]
      rfl

/-- `notifier_dead_event`: the emission performed by the cleanup of a dead node that owned a notifier (`deadSignal`, applied by
`cleanNode` when the service survives): in any world satisfying the invariant — all the intermediate worlds of a cleanup do —,
when the signal can be sent (a node slot and a notifier slot are free, a listener is registered, the id is configured and inside
the bounds), exactly the listeners that exist at that moment get the id. -/
theorem dead_event_reaches_exactly_the_attached {w : World} (inv : Inv w) {id : Nat} (hd : w.cfg.dead = some id)
    (hid : id ≤ w.cfg.idMax) (hn : nodeCount w < w.cfg.maxNodes) (hl : w.lisReg.len ≠ 0) (hf : w.notReg.free ≠ []) (l : Nat) :
    (deadSignal w).liss l =
      match w.liss l with
      | some L => if L.st = .alive then some { L with pending := insertId id L.pending } else some L
      | none => none := by
  unfold deadSignal
  rw [if_neg (by omega), if_neg hl, hd]
  simp only []
  cases hfr : w.notReg.free with
  | nil => exact absurd hfr hf
  | cons i rest =>
    simp only []
    rw [if_neg (by omega)]
    show (deliver _ w.lisReg.labels id).liss l = _
    rw [deliver_liss]
    cases hL : w.liss l with
    | none => rfl
    | some L =>
      simp only []
      by_cases ha : L.st = .alive
      · have hown : lisOwn w l = some L.slot := by simp [lisOwn, hL, ha]
        have : l ∈ w.lisReg.labels := Reg.mem_labels.mpr ⟨L.slot, inv.lis.owner l L.slot hown⟩
        simp [this, ha]
      · simp [ha]

/-- without a configured dead event, or with one outside the bounds, the cleanup's emission changes no listener -/
theorem dead_event_unconfigured_or_out_of_bounds {w : World} (h : w.cfg.dead = none ∨ ∃ id, w.cfg.dead = some id ∧ w.cfg.idMax < id) :
    (deadSignal w).liss = w.liss := by
  unfold deadSignal
  split
  · rfl
  · split
    · rfl
    · split
      · rfl
      · rename_i id hid
        split
        · rfl
        · split
          · rfl
          · rename_i hlt
            rcases h with h | ⟨id', h, hid'⟩
            · rw [h] at hid; cases hid
            · rw [h] at hid; cases hid; exact absurd hid' hlt

/-- a refused creation emits no lifecycle event (and changes nothing at all) -/
theorem refused_creation_emits_nothing {w : World} {n k : Nat} {d : Option Nat} (h : (step w (.cnot n d k)).2 ≠ .ok) :
    (step w (.cnot n d k)).1 = w := by
  rcases step_cnot_cases w n k d with ⟨e, _⟩ | ⟨o, e, _, _⟩ | ⟨P, e, _⟩ | ⟨P, reg, slot, hk, _⟩
  · rw [e]
  · rw [e]
  · rw [e]
  · exact absurd hk h

/-! ### the single-listener API (`for_each_listener`, `notify_single_listener…`) -/

theorem mem_keysOf {N : Noti} {i l : Nat} : (i, l) ∈ keysOf N ↔ N.conns[i]? = some (some l) := by
  simp only [keysOf, List.mem_filterMap]
  constructor
  · rintro ⟨⟨c, j⟩, hm, he⟩
    have hm := List.mem_zipIdx_iff_getElem?.mp hm
    cases c with
    | none => simp at he
    | some a =>
      simp at he
      obtain ⟨rfl, rfl⟩ := he
      exact hm
  · intro h
    exact ⟨(some l, i), List.mem_zipIdx_iff_getElem?.mpr h, rfl⟩

/-- `for_each_listener` hands out one key per connection of the refreshed notifier; every listener that exists then gets a key,
and a key always names the listener that holds the key's registry slot at that moment. -/
theorem keys_cover_the_attached {c : Cfg} {w : World} (r : Reach c w) {n : Nat} {N : Noti}
    (hN : w.nots n = some N) (hst : N.st = .alive) :
    (step w (.keys n)).2 = .keys (keysOf (updateConns w N)) ∧
    (∀ l L, w.liss l = some L → L.st = .alive → (L.slot, l) ∈ keysOf (updateConns w N)) ∧
    (∀ i l, (i, l) ∈ keysOf (updateConns w N) → w.lisReg.slots[i]? = some (some l)) := by
  obtain ⟨inv, _⟩ := r.inv
  have s := updateConns_synced w N (inv.sync n N hN hst).2
  refine ⟨by simp [step, hN, hst], ?_, ?_⟩
  · intro l L hL hLst
    have hown : lisOwn w l = some L.slot := by simp [lisOwn, hL, hLst]
    exact mem_keysOf.mpr (s.all L.slot l (inv.lis.owner l L.slot hown) ⟨L, hL, hLst⟩)
  · intro i l h
    exact s.only i l (mem_keysOf.mp h)

theorem step_notifyOne_alive {w : World} {n : Nat} {N : Noti} (hN : w.nots n = some N) (hst : N.st = .alive) (slot l : Nat) (id : Option Nat) :
    step w (.notifyOne n slot l id) =
      ((notifyOneCore w n N slot l (id.getD N.defId)).1, outOfUnit (notifyOneCore w n N slot l (id.getD N.defId)).2) := by
  simp [step, hN, hst]

/-- A key is valid iff the registry slot it names holds that very listener (for a listener that exists). -/
theorem key_valid_iff_slot_holds_listener {c : Cfg} {w : World} (r : Reach c w) {n : Nat} {N : Noti}
    (hN : w.nots n = some N) (hst : N.st = .alive) {slot l : Nat} {L : Lis} (hL : w.liss l = some L) (hLst : L.st = .alive) :
    (updateConns w N).conns[slot]? = some (some l) ↔ w.lisReg.slots[slot]? = some (some l) := by
  obtain ⟨inv, _⟩ := r.inv
  have s := updateConns_synced w N (inv.sync n N hN hst).2
  exact ⟨s.only slot l, fun h => s.all slot l h ⟨L, hL, hLst⟩⟩

/-- The single-listener notification with a valid key (one that `for_each_listener` would hand out now) reaches exactly the keyed
listener: it gets the id added, no other listener changes in any way; the call reports `ok` (or `MissedDeadline`, after the
delivery). -/
theorem notify_single_reaches_exactly_the_keyed_listener {c : Cfg} {w : World} (r : Reach c w) {n : Nat} {N : Noti}
    (hN : w.nots n = some N) (hst : N.st = .alive) {slot l id : Nat} (hid : id ≤ c.idMax)
    (hkey : (slot, l) ∈ keysOf (updateConns w N)) :
    (step w (.notifyOne n slot l (some id))).2 = (if c.deadline = 2 then .err .missedDeadline else .ok) ∧
    ∀ a, (step w (.notifyOne n slot l (some id))).1.liss a =
      match w.liss a with
      | some L => if a = l ∧ L.st = .alive then some { L with pending := insertId id L.pending } else some L
      | none => none := by
  obtain ⟨_, hc⟩ := r.inv
  subst hc
  have hk := mem_keysOf.mp hkey
  have h1 : ¬ w.cfg.idMax < id := by omega
  rw [step_notifyOne_alive hN hst]
  refine ⟨?_, fun a => ?_⟩
  · simp only [Option.getD_some, notifyOneCore_eq, h1, hk, if_false, if_true]
    by_cases hd : w.cfg.deadline = 2 <;> simp [hd, outOfUnit]
  · rw [notifyOneCore_liss]
    simp only [Option.getD_some, h1, hk, false_or, ne_eq, not_true_eq_false, if_false]
    cases w.liss a <;> rfl

/-- A stale key — the slot it names does not hold its listener any more: the listener was dropped, whether or not ANOTHER
listener has taken the slot since — is refused with `InvalidListenerKey` and delivers nothing: no listener, not the ghost
history changes; in particular the listener that re-used the slot gets no phantom event. -/
theorem stale_key_is_refused_and_delivers_nothing {c : Cfg} {w : World} (r : Reach c w) {n : Nat} {N : Noti}
    (hN : w.nots n = some N) (hst : N.st = .alive) {slot l id : Nat} (hid : id ≤ c.idMax)
    (hstale : w.lisReg.slots[slot]? ≠ some (some l)) :
    (step w (.notifyOne n slot l (some id))).2 = .err .invalidKey ∧
    (step w (.notifyOne n slot l (some id))).1.liss = w.liss ∧
    (step w (.notifyOne n slot l (some id))).1.hist = w.hist := by
  obtain ⟨inv, hc⟩ := r.inv
  have s := updateConns_synced w N (inv.sync n N hN hst).2
  have hk : ¬ (updateConns w N).conns[slot]? = some (some l) := fun h => hstale (s.only slot l h)
  have h1 : ¬ w.cfg.idMax < id := by rw [hc]; omega
  rw [step_notifyOne_alive hN hst]
  simp only [Option.getD_some, notifyOneCore_eq, h1, hk, if_false]
  exact ⟨rfl, rfl, rfl⟩

/-- the key of a listener that was dropped is stale for ever, whoever holds its slot now -/
theorem key_of_dropped_listener_is_stale {c : Cfg} {w : World} (r : Reach c w) {slot l : Nat} {L : Lis}
    (hL : w.liss l = some L) (hg : L.st = .gone) : w.lisReg.slots[slot]? ≠ some (some l) := by
  obtain ⟨inv, _⟩ := r.inv
  intro h
  have := inv.lis.slot slot l h
  simp [lisOwn, hL, hg] at this

/-! ### non-vacuity -/

def cfgA : Cfg := { maxNot := 2, maxLis := 2, maxNodes := 2, idMax := 5, created := some 1, dropped := some 2, dead := some 3 }

-- a listener created before the notifier gets created event 1, the notification 4 twice (merged), dropped event 2;
-- the listener created later gets only what was sent after its creation
example : (step (run (World.init cfgA) [.clis 0 0, .cnot 0 (some 4) 0, .notify 0, .notify 0, .clis 1 0, .dnot 0]) (.wait 0)).2 = .ids [1, 2, 4] := by
  decide
example : (step (run (World.init cfgA) [.clis 0 0, .cnot 0 (some 4) 0, .notify 0, .notify 0, .clis 1 0, .dnot 0]) (.wait 1)).2 = .ids [2] := by
  decide
-- the notify count is the number of attached listeners; a notifier learns of a new listener inside notify
example : (step (run (World.init cfgA) [.cnot 0 (some 4) 0, .clis 0 0]) (.notify 0)).2 = .okN 1 := by decide
example : (step (run (World.init cfgA) [.cnot 0 (some 4) 0, .clis 0 0, .notify 0, .clis 1 0]) (.notify 0)).2 = .okN 2 := by decide
-- several notifiers, one listener; a second wait reports nothing
example : (step (run (World.init cfgA) [.clis 0 0, .cnot 0 (some 4) 0, .cnot 1 (some 5) 0, .notify 0, .notify 1]) (.wait 0)).2 = .ids [1, 4, 5] := by
  decide
example : (step (run (World.init cfgA) [.clis 0 0, .cnot 0 (some 4) 0, .notify 0, .wait 0]) (.wait 0)).2 = .ids [] := by decide
-- the notifier of a node that died: the cleanup emits dead event 3 to the listeners of the surviving node
example : (step (run (World.init cfgA) [.open 1, .clis 0 0, .cnot 0 (some 4) 1, .wait 0, .kill 1, .cleanup 0]) (.wait 0)).2 = .ids [3] := by
  decide
-- a missed deadline is an error result, the id is delivered nevertheless
example : (step (run (World.init { cfgA with deadline := 2 }) [.clis 0 0, .cnot 0 (some 4) 0]) (.notify 0)).2 = .err .missedDeadline := by
  decide
example : (step (run (World.init { cfgA with deadline := 2 }) [.clis 0 0, .cnot 0 (some 4) 0, .notify 0]) (.wait 0)).2 = .ids [1, 4] := by
  decide

-- single-listener API with slot re-use: listener 0 gets a key (slot 0), is dropped, listener 1 takes slot 0; the old key is refused
-- and listener 1 reports nothing; a fresh key reaches listener 1 only
example : (step (run (World.init cfgA) [.cnot 0 (some 4) 0, .clis 0 0, .keys 0]) (.notifyOne 0 0 0 (some 5))).2 = .ok := by decide
example : (step (run (World.init cfgA) [.cnot 0 (some 4) 0, .clis 0 0, .keys 0, .dlis 0, .clis 1 0]) (.notifyOne 0 0 0 (some 5))).2 = .err .invalidKey := by
  decide
example : (step (run (World.init cfgA) [.cnot 0 (some 4) 0, .clis 0 0, .keys 0, .dlis 0, .clis 1 0, .notifyOne 0 0 0 (some 5)]) (.wait 1)).2 = .ids [] := by
  decide
example : (step (run (World.init cfgA) [.cnot 0 (some 4) 0, .clis 0 0, .dlis 0, .clis 1 0, .clis 2 0]) (.keys 0)).2 = .keys [(0, 1), (1, 2)] := by
  decide
example : (step (run (World.init cfgA) [.cnot 0 (some 4) 0, .clis 0 0, .dlis 0, .clis 1 0, .clis 2 0, .notifyOne 0 0 1 (some 5)]) (.wait 1)).2 = .ids [5] := by
  decide
example : (step (run (World.init cfgA) [.cnot 0 (some 4) 0, .clis 0 0, .dlis 0, .clis 1 0, .clis 2 0, .notifyOne 0 0 1 (some 5)]) (.wait 2)).2 = .ids [] := by
  decide

end Iox2.EventPorts
