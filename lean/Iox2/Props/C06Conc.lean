/-
C06 Part B — creation is atomic under concurrency.

Model: Iox2/Model/ServiceLifeConc.lean — any number of concurrent `create` and `open` calls on one
service, one step per externally visible action in code order, interleaved arbitrarily
(`Iox2.Sched.Sys` / `Reachable`); timeouts = arbitrary wait budgets.  Invariant and termination measure:
Iox2/Proof/ServiceLifeConcInv*.lean.  Every theorem holds for ANY number of calls, ANY assignment of
calls to nodes, ANY budgets and EVERY schedule (`Initial c0`, `Reachable sys c0 c`).

  at_most_one_creator_succeeds     two successful creators are the same call
  creator_success_complete         the winner leaves a complete static config and a final dynamic config with its node registered
  opener_sees_complete_service     a successful opener has read the complete, unlocked static config of the winner and found
                                   the winner's dynamic config fully initialised (sized, initialised, versioned, final); it is registered
  never_half_initialised           whoever holds the service (creator or opener): both configs are complete
  corrupted_state_unreachable      the "This should never happen" branch of create is never taken
  results_documented               every call that returned: created / opened / one of the documented errors of its kind
  every_step_decreases_measure, runs_are_bounded, quiescent_all_returned, not_returned_can_step
                                   every schedule is finite (≤ measure of the start), nobody blocks anybody, and when nothing can
                                   move every call has returned
  user_has_tag_partial, failed_call_leaves_no_tag
                                   calls on pairwise distinct nodes: a call that holds the service has its node's service tag, a call
                                   that failed left none
  FALSE as naturally stated (refuted):
  user_has_tag_false               two calls of ONE node: the loser of the O_EXCL race removes the tag the winner relies on
                                   (replayed on the real code: finding same-node-concurrent-create-removes-service-tag)
-/
import Iox2.Proof.ServiceLifeConcInv
import Iox2.Proof.ServiceLifeConcTags

namespace Iox2.C06Conc
open Iox2.Sched Iox2.ServiceLifeConc

/-! ## at most one creator, complete service -/

theorem stage_created {t : Local} (hr : t.role = .creator) (hpc : t.pc = 99) (h : t.res = some .created) : stage t = 11 := by
  simp [stage, hr, hpc, h]

theorem created_facts {c0 c : Cfg Shared Local} (h0 : Initial c0) (hr : Reachable sys c0 c)
    {i : Nat} {t : Local} (ht : c.th[i]? = some t) (hres : t.res = some .created) :
    t.role = .creator ∧ stage t = 11 := by
  have hi := reachable_inv h0 hr
  obtain ⟨-, hpc, -, hop⟩ := hi.pcs i t ht
  have hrole : t.role = .creator := by
    cases hro : t.role with
    | creator => rfl
    | opener => exact absurd hres (hop hro)
  have h99 : t.pc = 99 := by
    have : ¬ t.res = none := by rw [hres]; simp
    have := mt hpc.2 this
    omega
  exact ⟨hrole, stage_created hrole h99 hres⟩

/-- at most one `create` succeeds -/
theorem at_most_one_creator_succeeds {c0 c : Cfg Shared Local} (h0 : Initial c0) (hr : Reachable sys c0 c)
    {i j : Nat} {ti tj : Local} (hi : c.th[i]? = some ti) (hj : c.th[j]? = some tj)
    (hci : ti.res = some .created) (hcj : tj.res = some .created) : i = j := by
  have hinv := reachable_inv h0 hr
  have si := (created_facts h0 hr hi hci).2
  have sj := (created_facts h0 hr hj hcj).2
  exact hinv.unique hj (by omega) hi (by omega)

/-- the successful creator leaves a complete service behind -/
theorem creator_success_complete {c0 c : Cfg Shared Local} (h0 : Initial c0) (hr : Reachable sys c0 c)
    {i : Nat} {t : Local} (ht : c.th[i]? = some t) (hres : t.res = some .created) :
    ∃ s d, c.sh.static = some s ∧ s.owner = i ∧ s.written = true ∧ s.unlocked = true ∧
      c.sh.dyn = some d ∧ d.owner = i ∧ d.sized = true ∧ d.inited = true ∧ d.versioned = true ∧ d.final = true ∧
      t.node ∈ d.regs := by
  have hinv := reachable_inv h0 hr
  have hs := (created_facts h0 hr ht hres).2
  obtain ⟨s, h1, h2, h3, h4⟩ := hinv.ownerView ht (by omega)
  obtain ⟨d, g1, g2, g3, g4, g5, g6, g7⟩ := hinv.dynView ht (by omega)
  refine ⟨s, d, h1, h2, ?_, ?_, g1, g2, ?_, ?_, ?_, ?_, g7 (by omega)⟩ <;> simp_all

/-- a successful opener has read the complete static config of the winning creator and found that
creator's dynamic config fully initialised; it never obtains a half-initialised service -/
theorem opener_sees_complete_service {c0 c : Cfg Shared Local} (h0 : Initial c0) (hr : Reachable sys c0 c)
    {i o : Nat} {t : Local} (ht : c.th[i]? = some t) (hres : t.res = some (.opened o)) :
    ∃ s d tc, c.sh.static = some s ∧ s.owner = o ∧ s.written = true ∧ s.unlocked = true ∧
      c.sh.dyn = some d ∧ d.owner = o ∧ d.sized = true ∧ d.inited = true ∧ d.versioned = true ∧ d.final = true ∧
      t.node ∈ d.regs ∧
      c.th[o]? = some tc ∧ tc.role = .creator ∧ 10 ≤ stage tc ∧ tc.node ∈ d.regs := by
  have hinv := reachable_inv h0 hr
  obtain ⟨-, -, hcr, -⟩ := hinv.pcs i t ht
  have hrole : t.role = .opener := by
    cases hro : t.role with
    | opener => rfl
    | creator => exact absurd hres (hcr hro o)
  obtain ⟨h1, -, h3, h4, h5⟩ := hinv.seen i t ht hrole
  have hseen := h3 o hres
  obtain ⟨s, hs, hso, hsw, hsu⟩ := h1 o hseen
  have hready := h4 (Or.inr ⟨o, hres⟩)
  rw [hseen] at hready
  simp only [Option.getD_some] at hready
  obtain ⟨d, hd, hreg⟩ := h5 (Or.inr ⟨o, hres⟩)
  have hdo : d.owner = o ∧ d.final = true := by
    simpa [dynReady, hd] using hready
  obtain ⟨s2, tc, hs2, -, htc, h6, g3, g4, g5, g6, g7⟩ := hinv.dynOwner d hd
  rw [hdo.1] at htc
  have h10 : 10 ≤ stage tc := by
    have := hdo.2
    rw [g6] at this
    simpa using this
  have hcrole : tc.role = .creator := by
    cases hro : tc.role with
    | creator => rfl
    | opener => simp [stage, hro] at h10
  refine ⟨s, d, tc, hs, hso, hsw, hsu, hd, hdo.1, ?_, ?_, ?_, hdo.2, hreg, htc, hcrole, h10, g7 (by omega)⟩
  · rw [g3]; simp; omega
  · rw [g4]; simp; omega
  · rw [g5]; simp; omega

/-- nobody ever holds a half-initialised service -/
theorem never_half_initialised {c0 c : Cfg Shared Local} (h0 : Initial c0) (hr : Reachable sys c0 c)
    {i : Nat} {t : Local} (ht : c.th[i]? = some t)
    (hres : t.res = some .created ∨ ∃ o, t.res = some (.opened o)) :
    ∃ s d, c.sh.static = some s ∧ s.written = true ∧ s.unlocked = true ∧ c.sh.dyn = some d ∧ d.owner = s.owner ∧
      d.inited = true ∧ d.versioned = true ∧ d.final = true ∧ t.node ∈ d.regs := by
  rcases hres with hres | ⟨o, hres⟩
  · obtain ⟨s, d, h1, h2, h3, h4, h5, h6, -, h8, h9, h10, h11⟩ := creator_success_complete h0 hr ht hres
    exact ⟨s, d, h1, h3, h4, h5, by rw [h6, h2], h8, h9, h10, h11⟩
  · obtain ⟨s, d, tc, h1, h2, h3, h4, h5, h6, -, h8, h9, h10, h11, -⟩ := opener_sees_complete_service h0 hr ht hres
    exact ⟨s, d, h1, h3, h4, h5, by rw [h6, h2], h8, h9, h10, h11⟩

/-- the `ServiceInCorruptedState` branch of create ("This should never happen") is never reached -/
theorem corrupted_state_unreachable {c0 c : Cfg Shared Local} (h0 : Initial c0) (hr : Reachable sys c0 c)
    {i : Nat} {t : Local} (ht : c.th[i]? = some t) : t.pc ≠ 21 := by
  have hv := ((reachable_inv h0 hr).pcs i t ht).1
  unfold validPc at hv
  cases hro : t.role <;> simp only [hro] at hv <;> omega

/-! ## termination -/

/-- every step of every call strictly decreases the measure -/
theorem every_step_decreases_measure {c0 c c' : Cfg Shared Local} (h0 : Initial c0) (hr : Reachable sys c0 c)
    {i : Nat} {evs : List Ev} (hs : sys.stepAt c i = some (c', evs)) : measure c' < measure c :=
  step_measure (reachable_inv h0 hr) hs

/-- number of steps a schedule actually executes -/
def stepsTaken (c : Cfg Shared Local) : List Nat → Nat
  | [] => 0
  | i :: is =>
    match sys.stepAt c i with
    | none => 0
    | some (c', _) => 1 + stepsTaken c' is

/-- no schedule, however long, executes more steps than the measure of the configuration it starts from:
every call returns after boundedly many steps, whatever the others do -/
theorem runs_are_bounded {c0 c : Cfg Shared Local} (h0 : Initial c0) (hr : Reachable sys c0 c) (sched : List Nat) :
    stepsTaken c sched ≤ measure c := by
  induction sched generalizing c with
  | nil => simp [stepsTaken]
  | cons i is ih =>
    unfold stepsTaken
    cases hs : sys.stepAt c i with
    | none => simp
    | some x =>
      obtain ⟨c', evs⟩ := x
      have hlt := step_measure (reachable_inv h0 hr) hs
      have := ih (Reachable.step hr hs)
      simp only
      omega

/-- a call that has not returned can always take its next step: nobody blocks anybody -/
theorem not_returned_can_step {c0 c : Cfg Shared Local} (h0 : Initial c0) (hr : Reachable sys c0 c)
    {i : Nat} {t : Local} (ht : c.th[i]? = some t) (hres : t.res = none) : ∃ c' evs, sys.stepAt c i = some (c', evs) :=
  step_enabled (reachable_inv h0 hr) i t ht hres

/-- when no call can move any more, every call has returned -/
theorem quiescent_all_returned {c0 c : Cfg Shared Local} (h0 : Initial c0) (hr : Reachable sys c0 c)
    (hq : ∀ i, sys.stepAt c i = none) {i : Nat} {t : Local} (ht : c.th[i]? = some t) : t.res.isSome = true := by
  cases hres : t.res with
  | some r => rfl
  | none =>
    obtain ⟨c', evs, hs⟩ := not_returned_can_step h0 hr ht hres
    rw [hq i] at hs
    cases hs

/-! ## documented results; service tags -/

/-- every call that returned ended with the service or a documented error of its kind -/
theorem results_documented {c0 c : Cfg Shared Local} (h0 : Initial c0)
    (hr : Reachable sys c0 c) {i : Nat} {t : Local} (ht : c.th[i]? = some t) :
    match t.res with
    | none => True
    | some .created => t.role = .creator
    | some (.opened _) => t.role = .opener
    | some (.err e) =>
      match t.role with
      | .creator => e = "AlreadyExists"
      | .opener => e = "DoesNotExist" ∨ e = "HangsInCreation" ∨ e = "Incompatible" ∨ e = "ExceedsMaxNumberOfNodes" :=
  reachable_doc h0 hr i t ht

/-- calls on pairwise distinct nodes: whoever holds the service has the service tag of its node -/
theorem user_has_tag_partial {c0 c : Cfg Shared Local} (h0 : Initial c0) (hd : DistinctNodes c0)
    (hr : Reachable sys c0 c) {i : Nat} {t : Local} (ht : c.th[i]? = some t)
    (hres : t.res = some .created ∨ ∃ o, t.res = some (.opened o)) : t.node ∈ c.sh.tags :=
  ((reachable_taginv h0 hd hr).ok i t ht).tag.2 (Or.inr hres)

/-- calls on pairwise distinct nodes: a call that failed leaves no service tag behind -/
theorem failed_call_leaves_no_tag {c0 c : Cfg Shared Local} (h0 : Initial c0) (hd : DistinctNodes c0)
    (hr : Reachable sys c0 c) {i : Nat} {t : Local} {e : String} (ht : c.th[i]? = some t)
    (hres : t.res = some (.err e)) : t.node ∉ c.sh.tags := by
  have hinv := reachable_inv h0 hr
  obtain ⟨-, hown, htag⟩ := (reachable_taginv h0 hd hr).ok i t ht
  have h99 : t.pc = 99 := by
    have hpc := (hinv.pcs i t ht).2.1
    have : ¬ t.res = none := by rw [hres]; simp
    have := mt hpc.2 this
    omega
  have hno : ¬ t.tagOwned = true := by
    rw [hown]; unfold window; cases t.role <;> simp [h99]
  rw [htag]
  rintro (h | h | ⟨o, h⟩)
  · exact hno h
  · rw [hres] at h; cases h
  · rw [hres] at h; cases h

/-- FALSE as naturally stated ("whoever holds the service has the service tag of its node") when two calls run
on ONE node: call 1 (create, node 0) makes the tag, call 0 (create, node 1) wins the O_EXCL and completes,
call 2 (open, node 0) finds the tag present (`AlreadyExists` → not owned) and completes, then call 1 loses the
O_EXCL and removes the tag on rollback.  Call 2 holds the service, node 0 is registered, the tag is gone. -/
def tagRaceStart : Cfg Shared Local :=
  { sh := Shared.init 2,
    th := [Local.start 0 1 .creator true 2, Local.start 1 0 .creator true 2, Local.start 2 0 .opener true 2] }

def tagRaceSchedule : List Nat := [1, 1, 0, 0, 0, 0, 0, 0, 0, 0, 0, 0, 0, 2, 2, 2, 2, 2, 2, 2, 1, 1]

theorem tagRaceStart_initial : Initial tagRaceStart := by
  refine ⟨⟨2, rfl⟩, ?_⟩
  intro i t ht
  match i, ht with
  | 0, ht => cases ht; simp [Local.start]
  | 1, ht => cases ht; simp [Local.start]
  | 2, ht => cases ht; simp [Local.start]
  | n + 3, ht => simp [tagRaceStart] at ht

theorem user_has_tag_false :
    ∃ (c0 c : Cfg Shared Local), Initial c0 ∧ Reachable sys c0 c ∧ ∃ (i : Nat) (t : Local) (o : Nat),
      c.th[i]? = some t ∧ t.res = some (Res.opened o) ∧
      t.node ∉ c.sh.tags ∧ ∃ d, c.sh.dyn = some d ∧ t.node ∈ d.regs := by
  refine ⟨tagRaceStart, (sys.run tagRaceStart tagRaceSchedule).1, tagRaceStart_initial,
    Sys.run_reachable sys _ _ Reachable.init _, 2, ?_⟩
  have hrun : (sys.run tagRaceStart tagRaceSchedule).1 =
      { sh := { static := some ⟨0, true, true⟩, dyn := some ⟨0, true, true, true, true, [0, 1]⟩, tags := [1],
                refs := [(0, 1), (1, 1)], maxNodes := 2 },
        th := [{ id := 0, node := 1, role := .creator, compatible := true, pc := 99, budget := 2, tagOwned := false, seen := none, res := some .created },
               { id := 1, node := 0, role := .creator, compatible := true, pc := 99, budget := 2, tagOwned := false, seen := none, res := some (.err "AlreadyExists") },
               { id := 2, node := 0, role := .opener, compatible := true, pc := 99, budget := 2, tagOwned := false, seen := some 0, res := some (.opened 0) }] } := by
    rfl
  rw [hrun]
  exact ⟨_, 0, rfl, rfl, by simp, _, rfl, by simp⟩

end Iox2.C06Conc
