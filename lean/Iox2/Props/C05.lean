/-
C05 — events: no lost wake-up, no phantom event (model Iox2/Model/EventProto.lean) —
statements to be proved.
DO NOT change the model or weaken a statement; if a statement is false, report the counterexample.

Setting: one listener thread (issuing `tryWait` / `blockingWait`) and ANY number of notifier
threads issuing `notify id` for arbitrary ids `< nids`, both event states (bit set / counting),
any trigger bound with either full-buffer policy, all interleavings (`Reachable`).
-/
import Iox2.Model.EventProto

namespace Iox2.C05
open Iox2.Sched Iox2.EventProto

def initCfg (counting : Bool) (nids bound : Nat) (fail : Bool) (progs : List (List Cmd)) : Cfg Sh Th :=
  { sh := Sh.init counting nids bound fail, th := progs.map Th.init }

def isWait : Cmd → Bool
  | .tryWait | .blockingWait => true
  | _ => false

/-- thread `l` is the listener, every other thread only notifies ids in range -/
def Roles (nids l : Nat) (progs : List (List Cmd)) : Prop :=
  l < progs.length ∧
  ∀ j p, progs[j]? = some p → ∀ c ∈ p, if j = l then isWait c = true else ∃ id, c = .notify id ∧ id < nids

/-- a notifier that has stored its id and has not yet posted the trigger (or learnt that it need not) -/
def beforeTrigger (t : Th) : Bool :=
  match t.pc with
  | .nCasIdlePending _ | .nTrigLoad _ | .nTrigCas _ _ => true
  | _ => false

/-- the listener is past its wait and its drain has not yet passed the storage unit of `id` -/
def willDrain (s : Sh) (t : Th) (id : Nat) : Bool :=
  let u := if s.counting then id else id / 8
  match t.pc with
  | .lStoreIdle | .lEmpty => true
  | .lDrainDist i _ | .lDrainSwap i _ => decide (i ≤ u)
  | _ => false

/-!
# Proofs

Structure: `PStep` is the step relation of `stepPC` without events; `Str` is the structural invariant
(constants, lengths, roles of the threads); `step_rule` is the proof rule for invariants on top of `Str`.
Invariants: `WInv` (wake-up), `JInv` (signal, only on paths without a lossy `empty_buffer`, see
`ReachableNL`), `CInv` (completed + in-flight ≤ activations), `KSh` (counting conservation), `BSh` (bit set).

FINDING: `event_no_lost_wakeup` and `event_notified_implies_signal` are FALSE as stated — see
`event_lost_wakeup_reachable` (a reachable deadlock with an active id) and the `_refuted` / `_partial` theorems.
-/

section Proofs
variable {counting : Bool} {nids bound : Nat} {fail : Bool} {l : Nat} {progs : List (List Cmd)}

theorem stepAt_some {c c' : Cfg Sh Th} {i : Nat} {evs : List Ev} (h : sys.stepAt c i = some (c', evs)) :
    ∃ t sh' t', c.th[i]? = some t ∧ step c.sh t = some (sh', t', evs) ∧ c' = { sh := sh', th := c.th.set i t' } := by
  unfold Sys.stepAt at h
  split at h
  · simp at h
  · rename_i t ht
    split at h
    · simp at h
    · rename_i sh' t' evs' hs
      simp only [Option.some.injEq, Prod.mk.injEq] at h
      obtain ⟨h1, h2⟩ := h
      subst h2
      exact ⟨t, sh', t', ht, hs, h1.symm⟩

theorem step_cases {s : Sh} {t : Th} {r : Sh × Th × List Ev} (h : step s t = some r) :
    (t.pc ≠ .idle ∧ stepPC s t = some r) ∨
    (t.pc = .idle ∧ ∃ c rest, t.todo = c :: rest ∧ stepPC s { pc := start c, todo := rest } = some r) := by
  unfold step at h
  split at h
  · rename_i hpc
    split at h
    · simp at h
    · rename_i c rest htodo
      exact Or.inr ⟨hpc, c, rest, htodo, h⟩
  · rename_i hpc
    exact Or.inl ⟨by intro h'; exact hpc h', h⟩

theorem getD_bump (l : List Nat) (i k j : Nat) :
    (bump l i k)[j]?.getD 0 = if j = i ∧ j < l.length then l[j]?.getD 0 + k else l[j]?.getD 0 := by
  simp only [bump, List.getElem?_modify]
  by_cases hj : j < l.length
  · simp [hj]
    by_cases hij : i = j
    · simp [hij]
    · simp [hij, Ne.symm hij]
  · simp [hj]

theorem getD_set (l : List Nat) (i v j : Nat) :
    (l.set i v)[j]?.getD 0 = if j = i ∧ j < l.length then v else l[j]?.getD 0 := by
  simp only [List.getElem?_set]
  by_cases hij : i = j
  · subst hij
    by_cases hj : i < l.length
    · simp [hj]
    · simp [hj]
  · simp [hij, Ne.symm hij]

theorem bump_length (l : List Nat) (i k : Nat) : (bump l i k).length = l.length := by simp [bump]

theorem reportAll_cons (s : Sh) (p : Nat × Nat) (ids : List (Nat × Nat)) :
    reportAll s (p :: ids) = reportAll { s with reported := bump s.reported p.1 p.2, reports := bump s.reports p.1 1, lastReport := s.lastReport.set p.1 (s.now + 1) } ids := by
  simp [reportAll]


theorem reportAll_frame (ids : List (Nat × Nat)) : ∀ s : Sh,
    (reportAll s ids).counting = s.counting ∧ (reportAll s ids).nids = s.nids ∧ (reportAll s ids).ns = s.ns ∧
    (reportAll s ids).words = s.words ∧ (reportAll s ids).counts = s.counts ∧ (reportAll s ids).trigger = s.trigger ∧
    (reportAll s ids).bound = s.bound ∧ (reportAll s ids).failWhenFull = s.failWhenFull ∧ (reportAll s ids).now = s.now ∧
    (reportAll s ids).activations = s.activations ∧ (reportAll s ids).lastActivate = s.lastActivate ∧
    (reportAll s ids).completed = s.completed ∧ (reportAll s ids).reported.length = s.reported.length ∧
    (reportAll s ids).reports.length = s.reports.length ∧ (reportAll s ids).lastReport.length = s.lastReport.length := by
  induction ids with
  | nil => intro s; simp [reportAll]
  | cons p ids ih =>
    intro s
    rw [reportAll_cons]
    have := ih { s with reported := bump s.reported p.1 p.2, reports := bump s.reports p.1 1, lastReport := s.lastReport.set p.1 (s.now + 1) }
    simpa [bump_length] using this

@[simp] theorem reportAll_counting (s ids) : (reportAll s ids).counting = s.counting := (reportAll_frame ids s).1
@[simp] theorem reportAll_nids (s ids) : (reportAll s ids).nids = s.nids := (reportAll_frame ids s).2.1
@[simp] theorem reportAll_ns (s ids) : (reportAll s ids).ns = s.ns := (reportAll_frame ids s).2.2.1
@[simp] theorem reportAll_words (s ids) : (reportAll s ids).words = s.words := (reportAll_frame ids s).2.2.2.1
@[simp] theorem reportAll_counts (s ids) : (reportAll s ids).counts = s.counts := (reportAll_frame ids s).2.2.2.2.1
@[simp] theorem reportAll_trigger (s ids) : (reportAll s ids).trigger = s.trigger := (reportAll_frame ids s).2.2.2.2.2.1
@[simp] theorem reportAll_bound (s ids) : (reportAll s ids).bound = s.bound := (reportAll_frame ids s).2.2.2.2.2.2.1
@[simp] theorem reportAll_fail (s ids) : (reportAll s ids).failWhenFull = s.failWhenFull := (reportAll_frame ids s).2.2.2.2.2.2.2.1
@[simp] theorem reportAll_now (s ids) : (reportAll s ids).now = s.now := (reportAll_frame ids s).2.2.2.2.2.2.2.2.1
@[simp] theorem reportAll_activations (s ids) : (reportAll s ids).activations = s.activations := (reportAll_frame ids s).2.2.2.2.2.2.2.2.2.1
@[simp] theorem reportAll_lastActivate (s ids) : (reportAll s ids).lastActivate = s.lastActivate := (reportAll_frame ids s).2.2.2.2.2.2.2.2.2.2.1
@[simp] theorem reportAll_completed (s ids) : (reportAll s ids).completed = s.completed := (reportAll_frame ids s).2.2.2.2.2.2.2.2.2.2.2.1
@[simp] theorem reportAll_reported_length (s ids) : (reportAll s ids).reported.length = s.reported.length := (reportAll_frame ids s).2.2.2.2.2.2.2.2.2.2.2.2.1
@[simp] theorem reportAll_reports_length (s ids) : (reportAll s ids).reports.length = s.reports.length := (reportAll_frame ids s).2.2.2.2.2.2.2.2.2.2.2.2.2.1
@[simp] theorem reportAll_lastReport_length (s ids) : (reportAll s ids).lastReport.length = s.lastReport.length := (reportAll_frame ids s).2.2.2.2.2.2.2.2.2.2.2.2.2.2


/-- shared state after the drain swap of unit `i` -/
def drainSh (s : Sh) (i : Nat) : Sh :=
  tick (reportAll (if s.counting then { s with counts := s.counts.set i 0 } else { s with words := s.words.set i 0 })
    (unitIds s i (if s.counting then s.counts.getD i 0 else s.words.getD i 0)))

def full (s : Sh) : Prop := s.bound ≠ 0 ∧ s.trigger ≥ s.bound

/-- the step relation of `stepPC` without events (`todo` never changes) -/
inductive PStep : Sh → PC → Sh → PC → Prop
  | nDist (s id) : PStep s (.nDist id) (tick s) (if s.counting then .nFadd id else .nLoad id)
  | nLoadSet (s id) : bitSet (s.words.getD (id / 8) 0) id = true → PStep s (.nLoad id) (tick (activated s id)) (.nCasIdlePending id)
  | nLoadClr (s id) : bitSet (s.words.getD (id / 8) 0) id = false → PStep s (.nLoad id) (tick s) (.nBitCas id (s.words.getD (id / 8) 0))
  | nBitCasOk (s id cur) : s.words.getD (id / 8) 0 = cur →
      PStep s (.nBitCas id cur) (tick (activated { s with words := s.words.set (id / 8) (cur + mask id) } id)) (.nCasIdlePending id)
  | nBitCasSet (s id cur) : bitSet (s.words.getD (id / 8) 0) id = true → PStep s (.nBitCas id cur) (tick (activated s id)) (.nCasIdlePending id)
  | nBitCasRetry (s id cur) : bitSet (s.words.getD (id / 8) 0) id = false → PStep s (.nBitCas id cur) (tick s) (.nBitCas id (s.words.getD (id / 8) 0))
  | nFadd (s id) : PStep s (.nFadd id) (tick (activated { s with counts := s.counts.set id (s.counts.getD id 0 + 1) } id)) (.nCasIdlePending id)
  | cipIdle (s id) : s.ns = IDLE → PStep s (.nCasIdlePending id) (tick { s with ns := PENDING }) (.nTrigLoad id)
  | cipNotified (s id) : s.ns = NOTIFIED → PStep s (.nCasIdlePending id) (tick { s with completed := bump s.completed id 1 }) .idle
  | cipPending (s id) : s.ns ≠ IDLE → s.ns ≠ NOTIFIED → PStep s (.nCasIdlePending id) (tick s) (.nTrigLoad id)
  | trigLoadFullFail (s id) : full s → PStep s (.nTrigLoad id) (tick s) .idle
  | trigLoadFullSkip (s id) : full s → PStep s (.nTrigLoad id) (tick s) (.nCasPendingNotified id)
  | trigLoad (s id) : ¬ full s → PStep s (.nTrigLoad id) (tick s) (.nTrigCas id s.trigger)
  | trigCasOk (s id k) : s.trigger = k → PStep s (.nTrigCas id k) (tick { s with trigger := k + 1 }) (.nCasPendingNotified id)
  | trigCasFullFail (s id k) : full s → PStep s (.nTrigCas id k) (tick s) .idle
  | trigCasFullSkip (s id k) : full s → PStep s (.nTrigCas id k) (tick s) (.nCasPendingNotified id)
  | trigCasRetry (s id k) : ¬ full s → PStep s (.nTrigCas id k) (tick s) (.nTrigCas id s.trigger)
  | cpnOk (s id) : s.ns = PENDING → PStep s (.nCasPendingNotified id) (tick { s with completed := bump s.completed id 1, ns := NOTIFIED }) .idle
  | cpnFail (s id) : s.ns ≠ PENDING → PStep s (.nCasPendingNotified id) (tick { s with completed := bump s.completed id 1 }) .idle
  | lCasOk (s b) : s.ns = NOTIFIED → PStep s (.lCasNotifiedIdle b) (tick { s with ns := IDLE }) .lEmpty
  | lCasFail (s b) : s.ns ≠ NOTIFIED → PStep s (.lCasNotifiedIdle b) (tick s) (.lWait b)
  | lWait (s b) : ¬ (b = true ∧ s.trigger = 0) → PStep s (.lWait b) (tick { s with trigger := 0 }) .lStoreIdle
  | lStoreIdle (s) : PStep s .lStoreIdle (tick { s with ns := IDLE }) .lEmpty
  | lEmptyGo (s) : 0 < s.units → PStep s .lEmpty (tick { s with trigger := 0 }) (.lDrainDist 0 [])
  | lEmptyDone (s) : ¬ 0 < s.units → PStep s .lEmpty (tick { s with trigger := 0 }) .idle
  | lDrainDist (s i got) : PStep s (.lDrainDist i got) (tick s) (.lDrainSwap i got)
  | lDrainSwapGo (s i got got') : i + 1 < s.units → PStep s (.lDrainSwap i got) (drainSh s i) (.lDrainDist (i + 1) got')
  | lDrainSwapDone (s i got) : ¬ i + 1 < s.units → PStep s (.lDrainSwap i got) (drainSh s i) .idle

theorem stepPC_PStep {s s' : Sh} {t t' : Th} {evs : List Ev} (h : stepPC s t = some (s', t', evs)) :
    t'.todo = t.todo ∧ PStep s t.pc s' t'.pc := by
  obtain ⟨pc, todo⟩ := t
  cases pc <;> simp only [stepPC] at h
  case idle => simp at h
  case nDist id =>
    simp only [Option.some.injEq, Prod.mk.injEq] at h
    obtain ⟨rfl, rfl, -⟩ := h
    exact ⟨rfl, PStep.nDist _ _⟩
  case nLoad id =>
    split at h <;> (rename_i hb; simp only [Option.some.injEq, Prod.mk.injEq] at h; obtain ⟨rfl, rfl, -⟩ := h)
    · exact ⟨rfl, PStep.nLoadSet _ _ hb⟩
    · exact ⟨rfl, PStep.nLoadClr _ _ (by simpa using hb)⟩
  case nBitCas id cur =>
    split at h
    · rename_i hb; simp only [Option.some.injEq, Prod.mk.injEq] at h; obtain ⟨rfl, rfl, -⟩ := h
      exact ⟨rfl, PStep.nBitCasOk _ _ _ hb⟩
    · split at h <;> (rename_i hb; simp only [Option.some.injEq, Prod.mk.injEq] at h; obtain ⟨rfl, rfl, -⟩ := h)
      · exact ⟨rfl, PStep.nBitCasSet _ _ _ hb⟩
      · exact ⟨rfl, PStep.nBitCasRetry _ _ _ (by simpa using hb)⟩
  case nFadd id =>
    simp only [Option.some.injEq, Prod.mk.injEq] at h
    obtain ⟨rfl, rfl, -⟩ := h
    exact ⟨rfl, PStep.nFadd _ _⟩
  case nCasIdlePending id =>
    split at h
    · rename_i hb; simp only [Option.some.injEq, Prod.mk.injEq] at h; obtain ⟨rfl, rfl, -⟩ := h
      exact ⟨rfl, PStep.cipIdle _ _ hb⟩
    · rename_i hb0
      split at h <;> (rename_i hb; simp only [Option.some.injEq, Prod.mk.injEq] at h; obtain ⟨rfl, rfl, -⟩ := h)
      · exact ⟨rfl, PStep.cipNotified _ _ hb⟩
      · exact ⟨rfl, PStep.cipPending _ _ hb0 hb⟩
  case nTrigLoad id =>
    split at h
    · rename_i hf
      split at h <;> (simp only [Option.some.injEq, Prod.mk.injEq] at h; obtain ⟨rfl, rfl, -⟩ := h)
      · exact ⟨rfl, PStep.trigLoadFullFail _ _ hf⟩
      · exact ⟨rfl, PStep.trigLoadFullSkip _ _ hf⟩
    · rename_i hf; simp only [Option.some.injEq, Prod.mk.injEq] at h; obtain ⟨rfl, rfl, -⟩ := h
      exact ⟨rfl, PStep.trigLoad _ _ hf⟩
  case nTrigCas id k =>
    split at h
    · rename_i hb; simp only [Option.some.injEq, Prod.mk.injEq] at h; obtain ⟨rfl, rfl, -⟩ := h
      exact ⟨rfl, PStep.trigCasOk _ _ _ hb⟩
    · split at h
      · rename_i hf
        split at h <;> (simp only [Option.some.injEq, Prod.mk.injEq] at h; obtain ⟨rfl, rfl, -⟩ := h)
        · exact ⟨rfl, PStep.trigCasFullFail _ _ _ hf⟩
        · exact ⟨rfl, PStep.trigCasFullSkip _ _ _ hf⟩
      · rename_i hf; simp only [Option.some.injEq, Prod.mk.injEq] at h; obtain ⟨rfl, rfl, -⟩ := h
        exact ⟨rfl, PStep.trigCasRetry _ _ _ hf⟩
  case nCasPendingNotified id =>
    split at h <;> (rename_i hb; simp only [Option.some.injEq, Prod.mk.injEq] at h; obtain ⟨rfl, rfl, -⟩ := h)
    · exact ⟨rfl, PStep.cpnOk _ _ hb⟩
    · exact ⟨rfl, PStep.cpnFail _ _ hb⟩
  case lCasNotifiedIdle b =>
    split at h <;> (rename_i hb; simp only [Option.some.injEq, Prod.mk.injEq] at h; obtain ⟨rfl, rfl, -⟩ := h)
    · exact ⟨rfl, PStep.lCasOk _ _ hb⟩
    · exact ⟨rfl, PStep.lCasFail _ _ hb⟩
  case lWait b =>
    split at h
    · simp at h
    · rename_i hb; simp only [Option.some.injEq, Prod.mk.injEq] at h; obtain ⟨rfl, rfl, -⟩ := h
      exact ⟨rfl, PStep.lWait _ _ hb⟩
  case lStoreIdle =>
    simp only [Option.some.injEq, Prod.mk.injEq] at h
    obtain ⟨rfl, rfl, -⟩ := h
    exact ⟨rfl, PStep.lStoreIdle _⟩
  case lEmpty =>
    split at h
    · rename_i hb; simp only [Option.some.injEq, Prod.mk.injEq] at h; obtain ⟨rfl, rfl, -⟩ := h
      exact ⟨rfl, PStep.lEmptyGo _ hb⟩
    · rename_i hb; simp only [drainDone, Option.some.injEq, Prod.mk.injEq] at h; obtain ⟨rfl, rfl, -⟩ := h
      exact ⟨rfl, PStep.lEmptyDone _ hb⟩
  case lDrainDist i got =>
    simp only [Option.some.injEq, Prod.mk.injEq] at h
    obtain ⟨rfl, rfl, -⟩ := h
    exact ⟨rfl, PStep.lDrainDist _ _ _⟩
  case lDrainSwap i got =>
    split at h
    · rename_i hb; simp only [Option.some.injEq, Prod.mk.injEq] at h; obtain ⟨rfl, rfl, -⟩ := h
      exact ⟨rfl, PStep.lDrainSwapGo _ _ _ _ hb⟩
    · rename_i hb; simp only [drainDone, Option.some.injEq, Prod.mk.injEq] at h; obtain ⟨rfl, rfl, -⟩ := h
      exact ⟨rfl, PStep.lDrainSwapDone _ _ _ hb⟩


/-! ## roles and structural invariant -/

/-- what a thread may be doing: `L` = "is the listener thread" -/
def pcOK (counting : Bool) (nids : Nat) (L : Prop) : PC → Prop
  | .idle => True
  | .nDist id => ¬ L ∧ id < nids
  | .nLoad id => ¬ L ∧ id < nids ∧ counting = false
  | .nBitCas id cur => ¬ L ∧ id < nids ∧ counting = false ∧ bitSet cur id = false
  | .nFadd id => ¬ L ∧ id < nids ∧ counting = true
  | .nCasIdlePending id => ¬ L ∧ id < nids
  | .nTrigLoad id => ¬ L ∧ id < nids
  | .nTrigCas id _ => ¬ L ∧ id < nids
  | .nCasPendingNotified id => ¬ L ∧ id < nids
  | .lCasNotifiedIdle _ => L
  | .lWait _ => L
  | .lStoreIdle => L
  | .lEmpty => L
  | .lDrainDist _ _ => L
  | .lDrainSwap _ _ => L

def cmdOK (nids : Nat) (L : Prop) (c : Cmd) : Prop :=
  (L → isWait c = true) ∧ (¬ L → ∃ id, c = .notify id ∧ id < nids)

def thOK (counting : Bool) (nids l j : Nat) (t : Th) : Prop :=
  pcOK counting nids (j = l) t.pc ∧ ∀ c ∈ t.todo, cmdOK nids (j = l) c

theorem start_pcOK {counting : Bool} {nids : Nat} {L : Prop} {c : Cmd} (h : cmdOK nids L c) :
    pcOK counting nids L (start c) := by
  by_cases hL : L
  · have := h.1 hL
    cases c <;> simp_all [isWait, start, pcOK]
  · obtain ⟨id, rfl, hid⟩ := h.2 hL
    simp [start, pcOK, hL, hid]

theorem PStep_pcOK {counting : Bool} {nids : Nat} {L : Prop} {s s' : Sh} {pc pc' : PC} (h : PStep s pc s' pc')
    (hc : s.counting = counting) (hp : pcOK counting nids L pc) : pcOK counting nids L pc' := by
  cases h
  case nDist id => cases counting <;> simp_all [pcOK]
  all_goals simp_all [pcOK]


/-- constants and lengths of the shared state never change -/
def ShFrame (s s' : Sh) : Prop :=
  s'.counting = s.counting ∧ s'.nids = s.nids ∧ s'.words.length = s.words.length ∧ s'.counts.length = s.counts.length ∧
  s'.activations.length = s.activations.length ∧ s'.lastActivate.length = s.lastActivate.length ∧
  s'.reported.length = s.reported.length ∧ s'.reports.length = s.reports.length ∧
  s'.lastReport.length = s.lastReport.length ∧ s'.completed.length = s.completed.length

theorem ShFrame.refl (s : Sh) : ShFrame s s := by simp [ShFrame]

theorem drainSh_frame (s : Sh) (i : Nat) : ShFrame s (drainSh s i) := by
  cases hc : s.counting <;> simp [ShFrame, drainSh, hc, tick]

theorem PStep_frame {s s' : Sh} {pc pc' : PC} (h : PStep s pc s' pc') : ShFrame s s' := by
  cases h
  case lDrainSwapGo => exact drainSh_frame _ _
  case lDrainSwapDone => exact drainSh_frame _ _
  all_goals simp [ShFrame, tick, activated, bump_length]

structure Str (counting : Bool) (nids l : Nat) (c : Cfg Sh Th) : Prop where
  hcnt : c.sh.counting = counting
  hnids : c.sh.nids = nids
  hw : c.sh.words.length = (nids + 7) / 8
  hc : c.sh.counts.length = nids
  ha : c.sh.activations.length = nids
  hla : c.sh.lastActivate.length = nids
  hrd : c.sh.reported.length = nids
  hrs : c.sh.reports.length = nids
  hlr : c.sh.lastReport.length = nids
  hcp : c.sh.completed.length = nids
  hl : l < c.th.length
  hth : ∀ j t, c.th[j]? = some t → thOK counting nids l j t

theorem set_cases {α : Type} {l : List α} {i j : Nat} {a b : α} (h : (l.set i a)[j]? = some b) :
    (j = i ∧ b = a) ∨ (j ≠ i ∧ l[j]? = some b) := by
  rw [List.getElem?_set] at h
  by_cases hij : i = j
  · subst hij
    simp only [if_true] at h
    split at h
    · left; simp_all
    · simp at h
  · right
    simp only [hij, if_false] at h
    exact ⟨Ne.symm hij, h⟩

theorem Str_set {counting : Bool} {nids l : Nat} {c : Cfg Sh Th} (hs : Str counting nids l c) {i : Nat} {s' : Sh} {t' : Th}
    (hf : ShFrame c.sh s') (ht : thOK counting nids l i t') : Str counting nids l { sh := s', th := c.th.set i t' } := by
  obtain ⟨h1, h2, h3, h4, h5, h6, h7, h8, h9, h10⟩ := hf
  refine ⟨?_, ?_, ?_, ?_, ?_, ?_, ?_, ?_, ?_, ?_, ?_, ?_⟩ <;> simp only
  · rw [h1]; exact hs.hcnt
  · rw [h2]; exact hs.hnids
  · rw [h3]; exact hs.hw
  · rw [h4]; exact hs.hc
  · rw [h5]; exact hs.ha
  · rw [h6]; exact hs.hla
  · rw [h7]; exact hs.hrd
  · rw [h8]; exact hs.hrs
  · rw [h9]; exact hs.hlr
  · rw [h10]; exact hs.hcp
  · simpa using hs.hl
  · intro j t hj
    rcases set_cases hj with ⟨rfl, rfl⟩ | ⟨_, hj'⟩
    · exact ht
    · exact hs.hth j t hj'

/-- a `Reachable.inv`-style rule for invariants on top of the structural one: `step` is split into
the pick-up of the next command (`idle → start`) and the `PStep` of the program counter; `G` is an
optional side condition on the step taken -/
theorem step_rule {counting : Bool} {nids l : Nat} (P : Cfg Sh Th → Prop) (G : Cfg Sh Th → Nat → Prop)
    (hG : ∀ (c : Cfg Sh Th) i t cmd rest, c.th[i]? = some t → t.pc = .idle → G c i →
      G { c with th := c.th.set i ⟨start cmd, rest⟩ } i)
    (hstart : ∀ (c : Cfg Sh Th) i t cmd rest, Str counting nids l c → P c → c.th[i]? = some t → t.pc = .idle →
      t.todo = cmd :: rest → P { c with th := c.th.set i ⟨start cmd, rest⟩ })
    (hpc : ∀ (c : Cfg Sh Th) i pc todo s' pc', Str counting nids l c → P c → c.th[i]? = some ⟨pc, todo⟩ → G c i →
      PStep c.sh pc s' pc' → P { sh := s', th := c.th.set i ⟨pc', todo⟩ })
    (c c' : Cfg Sh Th) (i : Nat) (evs : List Ev) (hinv : Str counting nids l c ∧ P c) (hg : G c i)
    (h : sys.stepAt c i = some (c', evs)) : Str counting nids l c' ∧ P c' := by
  obtain ⟨hs, hp⟩ := hinv
  obtain ⟨t, sh', t', hi, hstep, rfl⟩ := stepAt_some h
  have key : ∀ (c : Cfg Sh Th) (t : Th), Str counting nids l c → P c → G c i → c.th[i]? = some t →
      stepPC c.sh t = some (sh', t', evs) →
      Str counting nids l { sh := sh', th := c.th.set i t' } ∧ P { sh := sh', th := c.th.set i t' } := by
    intro c t hs hp hg hi hst
    obtain ⟨htodo, hps⟩ := stepPC_PStep hst
    have hth := hs.hth i t hi
    have ht' : t' = ⟨t'.pc, t.todo⟩ := by cases t'; simp_all
    rw [ht']
    refine ⟨Str_set hs (PStep_frame hps) ⟨PStep_pcOK hps hs.hcnt hth.1, hth.2⟩, ?_⟩
    exact hpc c i t.pc t.todo sh' t'.pc hs hp (by cases t; exact hi) hg hps
  rcases step_cases hstep with ⟨_, hst⟩ | ⟨hidle, cmd, rest, htodo, hst⟩
  · exact key c t hs hp hg hi hst
  · have hth := hs.hth i t hi
    have hs0 : Str counting nids l { c with th := c.th.set i ⟨start cmd, rest⟩ } :=
      Str_set hs (ShFrame.refl _) ⟨start_pcOK (hth.2 cmd (by simp [htodo])), fun x hx => hth.2 x (by simp [htodo, hx])⟩
    have hp0 := hstart c i t cmd rest hs hp hi hidle htodo
    have hi0 : ({ c with th := c.th.set i ⟨start cmd, rest⟩ } : Cfg Sh Th).th[i]? = some ⟨start cmd, rest⟩ := by
      have : i < c.th.length := (List.getElem?_eq_some_iff.mp hi).1
      simp [this]
    have := key _ _ hs0 hp0 (hG c i t cmd rest hi hidle hg) hi0 hst
    simpa [List.set_set] using this


theorem Str_init (hr : Roles nids l progs) : Str counting nids l (initCfg counting nids bound fail progs) := by
  refine ⟨rfl, rfl, ?_, ?_, ?_, ?_, ?_, ?_, ?_, ?_, ?_, ?_⟩ <;> simp [initCfg, Sh.init]
  · exact hr.1
  · intro j t hj
    cases hp : progs[j]? with
    | none => simp [hp] at hj
    | some p =>
      simp [hp] at hj
      subst hj
      refine ⟨by simp [Th.init, pcOK], ?_⟩
      intro c hc
      have := hr.2 j p hp c hc
      by_cases hjl : j = l <;> simp_all [cmdOK, Th.init]

theorem ex_set_keep {p : Th → Bool} {th : List Th} {i : Nat} {t0 t' : Th} (hi : th[i]? = some t0)
    (h : ∃ (j : Nat) (t : Th), th[j]? = some t ∧ p t = true) (hk : p t0 = true → p t' = true) :
    ∃ (j : Nat) (t : Th), (th.set i t')[j]? = some t ∧ p t = true := by
  obtain ⟨j, t, hj, hp⟩ := h
  have hlt : i < th.length := (List.getElem?_eq_some_iff.mp hi).1
  by_cases hji : j = i
  · subst hji
    rw [hi] at hj; cases hj
    exact ⟨j, t', by simp [hlt], hk hp⟩
  · exact ⟨j, t, by rw [List.getElem?_set_ne (Ne.symm hji)]; exact hj, hp⟩

theorem ex_set_new {p : Th → Bool} {th : List Th} {i : Nat} {t0 t' : Th} (hi : th[i]? = some t0) (hp : p t' = true) :
    ∃ (j : Nat) (t : Th), (th.set i t')[j]? = some t ∧ p t = true := by
  have hlt : i < th.length := (List.getElem?_eq_some_iff.mp hi).1
  exact ⟨i, t', by simp [hlt], hp⟩

theorem set_self {th : List Th} {i : Nat} {t0 t' : Th} (hi : th[i]? = some t0) : (th.set i t')[i]? = some t' := by
  have hlt : i < th.length := (List.getElem?_eq_some_iff.mp hi).1
  simp [hlt]

@[simp] theorem drainSh_ns (s : Sh) (i : Nat) : (drainSh s i).ns = s.ns := by
  cases hc : s.counting <;> simp [drainSh, hc, tick]
@[simp] theorem drainSh_trigger (s : Sh) (i : Nat) : (drainSh s i).trigger = s.trigger := by
  cases hc : s.counting <;> simp [drainSh, hc, tick]
@[simp] theorem drainSh_counting (s : Sh) (i : Nat) : (drainSh s i).counting = s.counting := by
  cases hc : s.counting <;> simp [drainSh, hc, tick]

theorem drainSh_active {s : Sh} {i id : Nat} (h : (drainSh s i).active id = true) :
    s.active id = true ∧ (if s.counting then id else id / 8) ≠ i := by
  cases hc : s.counting
  · simp [drainSh, hc, Sh.active, tick, getD_set] at h ⊢
    split at h
    · simp at h
    · rename_i hne
      refine ⟨h, ?_⟩
      intro he
      apply hne
      refine ⟨he, ?_⟩
      subst he
      cases hw : s.words[id / 8]? with
      | none => simp [hw] at h
      | some w => exact (List.getElem?_eq_some_iff.mp hw).1
  · simp [drainSh, hc, Sh.active, tick, getD_set] at h ⊢
    split at h
    · simp at h
    · rename_i hne
      refine ⟨h, ?_⟩
      intro he
      apply hne
      refine ⟨he, ?_⟩
      subst he
      cases hw : s.counts[id]? with
      | none => simp [hw] at h
      | some w => exact (List.getElem?_eq_some_iff.mp hw).1

/-! ## the wake-up invariant -/

def Cover (l : Nat) (c : Cfg Sh Th) (id : Nat) : Prop :=
  0 < c.sh.trigger ∨ c.sh.ns = NOTIFIED ∨ (∃ (j : Nat) (t : Th), c.th[j]? = some t ∧ beforeTrigger t = true) ∨
  (∃ t, c.th[l]? = some t ∧ (willDrain c.sh t id = true ∨ t.pc = .lWait false))

def WInv (nids l : Nat) (c : Cfg Sh Th) : Prop :=
  ∀ id, id < nids → c.sh.active id = true → Cover l c id

theorem active_congr {s s' : Sh} (h1 : s'.counting = s.counting) (h2 : s'.words = s.words) (h3 : s'.counts = s.counts)
    (id : Nat) : s'.active id = s.active id := by
  simp [Sh.active, h1, h2, h3]

theorem full_pos {s : Sh} (h : full s) : 0 < s.trigger := by
  unfold full at h; omega

/-- effect of a notifier step on what the wake-up invariant looks at -/
theorem PStep_notifier {s s' : Sh} {pc pc' : PC} (h : PStep s pc s' pc') (hn : pcOK counting nids False pc) :
    s'.counting = s.counting ∧
    (beforeTrigger ⟨pc', []⟩ = true ∨
      ((∀ id, s'.active id = s.active id) ∧ s.trigger ≤ s'.trigger ∧ (s.ns = NOTIFIED → s'.ns = NOTIFIED) ∧
       (beforeTrigger ⟨pc, []⟩ = true → 0 < s'.trigger ∨ s'.ns = NOTIFIED))) := by
  cases h
  all_goals (try (simp [pcOK] at hn; done))
  all_goals (refine ⟨by simp [tick, activated], ?_⟩)
  all_goals (try (left; simp [beforeTrigger]; done))
  all_goals right
  all_goals (refine ⟨fun id => active_congr rfl rfl rfl id, by simp [tick] <;> omega, by simp [tick], ?_⟩)
  all_goals (try (simp [beforeTrigger]; done))
  all_goals (try (intro _; left; exact full_pos ‹_›))
  all_goals (try (simp_all [tick]; done))


/-- effect of a listener step on what the wake-up invariant looks at -/
theorem PStep_listener {s s' : Sh} {pc pc' : PC} (h : PStep s pc s' pc') (hn : pcOK counting nids True pc) :
    s'.counting = s.counting ∧ beforeTrigger ⟨pc, []⟩ = false ∧
    ((∀ id, willDrain s' ⟨pc', []⟩ id = true) ∨ ¬ 0 < s.units ∨
     (s'.trigger = s.trigger ∧ (s.ns = NOTIFIED → s'.ns = NOTIFIED) ∧ pc ≠ .lWait false ∧
      ∀ id, s'.active id = true → s.active id = true ∧
        (willDrain s ⟨pc, []⟩ id = true → (if s.counting then id else id / 8) < s.units → willDrain s' ⟨pc', []⟩ id = true))) := by
  cases h
  all_goals (try (simp [pcOK] at hn; done))
  case lCasOk => exact ⟨rfl, rfl, Or.inl (fun id => rfl)⟩
  case lWait => exact ⟨rfl, rfl, Or.inl (fun id => rfl)⟩
  case lStoreIdle => exact ⟨rfl, rfl, Or.inl (fun id => rfl)⟩
  case lEmptyGo => exact ⟨rfl, rfl, Or.inl (fun id => by simp [willDrain])⟩
  case lEmptyDone hu => exact ⟨rfl, rfl, Or.inr (Or.inl hu)⟩
  case lCasFail b hb =>
    refine ⟨rfl, rfl, Or.inr (Or.inr ⟨rfl, fun h => absurd h hb, by simp, ?_⟩)⟩
    intro id ha
    rw [active_congr rfl rfl rfl] at ha
    exact ⟨ha, by simp [willDrain]⟩
  case lDrainDist i got =>
    refine ⟨rfl, rfl, Or.inr (Or.inr ⟨rfl, fun h => h, by simp, ?_⟩)⟩
    intro id ha
    rw [active_congr rfl rfl rfl] at ha
    exact ⟨ha, fun h _ => h⟩
  case lDrainSwapGo i got got' hu =>
    refine ⟨by simp, rfl, Or.inr (Or.inr ⟨by simp, by simp, by simp, ?_⟩)⟩
    intro id ha
    obtain ⟨h1, h2⟩ := drainSh_active ha
    refine ⟨h1, fun h _ => ?_⟩
    simp [willDrain] at h ⊢
    omega
  case lDrainSwapDone i got hu =>
    refine ⟨by simp, rfl, Or.inr (Or.inr ⟨by simp, by simp, by simp, ?_⟩)⟩
    intro id ha
    obtain ⟨h1, h2⟩ := drainSh_active ha
    refine ⟨h1, fun h h3 => ?_⟩
    simp [willDrain] at h
    omega

theorem units_pos {c : Cfg Sh Th} (hs : Str counting nids l c) {id : Nat} (hid : id < nids) :
    (if c.sh.counting then id else id / 8) < c.sh.units := by
  unfold Sh.units
  cases hc : c.sh.counting
  · simp only [Bool.false_eq_true, if_false]; rw [hs.hw]; omega
  · simp only [if_true]; rw [hs.hnids]; exact hid

theorem WInv_start (c : Cfg Sh Th) (i : Nat) (t : Th) (cmd : Cmd) (rest : List Cmd) (_hs : Str counting nids l c)
    (hw : WInv nids l c) (hi : c.th[i]? = some t) (hidle : t.pc = .idle) (_ : t.todo = cmd :: rest) :
    WInv nids l { c with th := c.th.set i ⟨start cmd, rest⟩ } := by
  intro id hid ha
  rcases hw id hid ha with h | h | h | ⟨t1, h1, h2⟩
  · exact Or.inl h
  · exact Or.inr (Or.inl h)
  · refine Or.inr (Or.inr (Or.inl (ex_set_keep hi h ?_)))
    simp [beforeTrigger, hidle]
  · by_cases hil : i = l
    · subst hil
      rw [hi] at h1; cases h1
      simp [willDrain, hidle] at h2
    · refine Or.inr (Or.inr (Or.inr ⟨t1, ?_, h2⟩))
      simp only
      rw [List.getElem?_set_ne hil]; exact h1

theorem WInv_pstep (c : Cfg Sh Th) (i : Nat) (pc : PC) (todo : List Cmd) (s' : Sh) (pc' : PC)
    (hs : Str counting nids l c) (hw : WInv nids l c) (hi : c.th[i]? = some ⟨pc, todo⟩) (_ : True)
    (h : PStep c.sh pc s' pc') : WInv nids l { sh := s', th := c.th.set i ⟨pc', todo⟩ } := by
  have hth := (hs.hth i _ hi).1
  simp only at hth
  by_cases hil : i = l
  · subst hil
    have hth' : pcOK counting nids True pc := by simpa using hth
    obtain ⟨hcnt, hnb, hcase⟩ := PStep_listener h hth'
    have hset : (c.th.set i ⟨pc', todo⟩)[i]? = some ⟨pc', todo⟩ := set_self hi
    intro id hid ha
    rcases hcase with hA | hB | ⟨htr, hns, hnw, hG⟩
    · exact Or.inr (Or.inr (Or.inr ⟨_, hset, Or.inl (hA id)⟩))
    · exact absurd (Nat.zero_lt_of_lt (units_pos hs hid)) hB
    · obtain ⟨ha0, hwd⟩ := hG id ha
      rcases hw id hid ha0 with h1 | h1 | h1 | ⟨t1, h1, h2⟩
      · exact Or.inl (by simp only; omega)
      · exact Or.inr (Or.inl (hns h1))
      · refine Or.inr (Or.inr (Or.inl (ex_set_keep hi h1 ?_)))
        intro hb
        have : beforeTrigger ⟨pc, todo⟩ = beforeTrigger ⟨pc, []⟩ := rfl
        rw [this, hnb] at hb; cases hb
      · rw [hi] at h1; cases h1
        rcases h2 with h2 | h2
        · exact Or.inr (Or.inr (Or.inr ⟨_, hset, Or.inl (hwd h2 (units_pos hs hid))⟩))
        · exact absurd h2 hnw
  · simp only [hil] at hth
    obtain ⟨hcnt, hcase⟩ := PStep_notifier h hth
    intro id hid ha
    rcases hcase with hb | ⟨hact, htr, hns, hbt⟩
    · exact Or.inr (Or.inr (Or.inl (ex_set_new (p := beforeTrigger) hi hb)))
    · simp only at ha
      rw [hact] at ha
      rcases hw id hid ha with h1 | h1 | ⟨j, t, hj, hb⟩ | ⟨t1, h1, h2⟩
      · exact Or.inl (by simp only; omega)
      · exact Or.inr (Or.inl (hns h1))
      · by_cases hji : j = i
        · subst hji
          rw [hi] at hj; cases hj
          rcases hbt hb with h3 | h3
          · exact Or.inl h3
          · exact Or.inr (Or.inl h3)
        · refine Or.inr (Or.inr (Or.inl ⟨j, t, ?_, hb⟩))
          simp only
          rw [List.getElem?_set_ne (Ne.symm hji)]; exact hj
      · refine Or.inr (Or.inr (Or.inr ⟨t1, ?_, ?_⟩))
        · simp only
          rw [List.getElem?_set_ne hil]; exact h1
        · simpa [willDrain, hcnt] using h2


theorem init_not_active (id : Nat) : (Sh.init counting nids bound fail).active id = false := by
  cases counting
  · simp only [Sh.active, Sh.init, Bool.false_eq_true, if_false, List.getD_eq_getElem?_getD, List.getElem?_replicate]
    split <;> simp
  · simp only [Sh.active, Sh.init, if_true, List.getD_eq_getElem?_getD, List.getElem?_replicate]
    split <;> simp

theorem WInv_init : WInv nids l (initCfg counting nids bound fail progs) := by
  intro id _ ha
  simp [initCfg, init_not_active] at ha

theorem WInv_reach (hr : Roles nids l progs) (c : Cfg Sh Th)
    (h : Reachable sys (initCfg counting nids bound fail progs) c) : Str counting nids l c ∧ WInv nids l c :=
  Reachable.inv (fun c => Str counting nids l c ∧ WInv nids l c) ⟨Str_init hr, WInv_init⟩
    (fun c c' i evs hinv hst =>
      step_rule (WInv nids l) (fun _ _ => True) (by intros; trivial) WInv_start WInv_pstep c c' i evs hinv trivial hst) c h

/-! ## the signal invariant, on paths without a lossy `empty_buffer` -/

/-- thread `i` is about to execute `empty_buffer` (`lEmpty`) while a trigger signal is stored and the
notification state is not `IDLE`: the signal of a notifier that has not finished its hand-shake is
thrown away *after* the state was reset -/
def lossyEmpty (c : Cfg Sh Th) (i : Nat) : Prop :=
  ∃ t, c.th[i]? = some t ∧ t.pc = .lEmpty ∧ 0 < c.sh.trigger ∧ c.sh.ns ≠ IDLE

/-- reachable without any lossy `empty_buffer` step -/
inductive ReachableNL (c₀ : Cfg Sh Th) : Cfg Sh Th → Prop where
  | init : ReachableNL c₀ c₀
  | step {c c' : Cfg Sh Th} {i : Nat} {evs : List Ev} :
      ReachableNL c₀ c → sys.stepAt c i = some (c', evs) → ¬ lossyEmpty c i → ReachableNL c₀ c'

theorem ReachableNL.reachable {c₀ c : Cfg Sh Th} (h : ReachableNL c₀ c) : Reachable sys c₀ c := by
  induction h with
  | init => exact Reachable.init
  | step _ hst _ ih => exact Reachable.step ih hst

theorem ReachableNL.inv {c₀ : Cfg Sh Th} (Inv : Cfg Sh Th → Prop) (h0 : Inv c₀)
    (hs : ∀ c c' i evs, Inv c → ¬ lossyEmpty c i → sys.stepAt c i = some (c', evs) → Inv c') :
    ∀ c, ReachableNL c₀ c → Inv c := by
  intro c hr
  induction hr with
  | init => exact h0
  | step _ hstep hnl ih => exact hs _ _ _ _ ih hnl hstep

def atTrig (t : Th) : Bool :=
  match t.pc with
  | .nTrigLoad _ | .nTrigCas _ _ => true
  | _ => false

def JInv (l : Nat) (c : Cfg Sh Th) : Prop :=
  (∃ t, c.th[l]? = some t ∧ t.pc = .lStoreIdle) ∨ c.sh.ns = IDLE ∨ 0 < c.sh.trigger ∨
  (∃ (j : Nat) (t : Th), c.th[j]? = some t ∧ atTrig t = true)

theorem PStep_notifierJ {s s' : Sh} {pc pc' : PC} (h : PStep s pc s' pc') (hn : pcOK counting nids False pc) :
    pc ≠ .lStoreIdle ∧ pc' ≠ .lStoreIdle ∧
    (atTrig ⟨pc', []⟩ = true ∨ 0 < s'.trigger ∨
     (atTrig ⟨pc, []⟩ = false ∧ (s.ns = IDLE → s'.ns = IDLE) ∧ s'.trigger = s.trigger)) := by
  cases h
  all_goals (try (simp [pcOK] at hn; done))
  all_goals (refine ⟨by simp, by (try split) <;> simp, ?_⟩)
  all_goals (try (left; simp [atTrig]; done))
  all_goals (try (right; left; exact full_pos ‹_›))
  all_goals (try (right; left; simp [tick]; done))
  all_goals (right; right; refine ⟨by simp [atTrig], ?_, rfl⟩)
  all_goals (try (simp [tick]; done))
  all_goals (try (simp [tick, activated]; done))
  all_goals (intro h0; simp_all [IDLE, PENDING])

theorem PStep_listenerJ {s s' : Sh} {pc pc' : PC} (h : PStep s pc s' pc') (hn : pcOK counting nids True pc) :
    atTrig ⟨pc, []⟩ = false ∧
    (pc' = .lStoreIdle ∨ s'.ns = IDLE ∨ (pc = .lEmpty ∧ s'.ns = s.ns ∧ s'.trigger = 0) ∨
     (s'.ns = s.ns ∧ s'.trigger = s.trigger ∧ pc ≠ .lStoreIdle ∧ pc' ≠ .lStoreIdle)) := by
  cases h
  all_goals (try (simp [pcOK] at hn; done))
  all_goals (refine ⟨rfl, ?_⟩)
  case lCasOk => exact Or.inr (Or.inl rfl)
  case lWait => exact Or.inl rfl
  case lStoreIdle => exact Or.inr (Or.inl rfl)
  case lEmptyGo => exact Or.inr (Or.inr (Or.inl ⟨rfl, rfl, rfl⟩))
  case lEmptyDone => exact Or.inr (Or.inr (Or.inl ⟨rfl, rfl, rfl⟩))
  all_goals (refine Or.inr (Or.inr (Or.inr ⟨by simp [tick], by simp [tick], by simp, by simp⟩)))

theorem JInv_start (c : Cfg Sh Th) (i : Nat) (t : Th) (cmd : Cmd) (rest : List Cmd) (_hs : Str counting nids l c)
    (hw : JInv l c) (hi : c.th[i]? = some t) (hidle : t.pc = .idle) (_ : t.todo = cmd :: rest) :
    JInv l { c with th := c.th.set i ⟨start cmd, rest⟩ } := by
  rcases hw with ⟨t1, h1, h2⟩ | h | h | h
  · by_cases hil : i = l
    · subst hil
      rw [hi] at h1; cases h1
      rw [hidle] at h2; cases h2
    · refine Or.inl ⟨t1, ?_, h2⟩
      simp only
      rw [List.getElem?_set_ne hil]; exact h1
  · exact Or.inr (Or.inl h)
  · exact Or.inr (Or.inr (Or.inl h))
  · refine Or.inr (Or.inr (Or.inr (ex_set_keep hi h ?_)))
    simp [atTrig, hidle]

theorem lossyEmpty_start (c : Cfg Sh Th) (i : Nat) (t : Th) (cmd : Cmd) (rest : List Cmd) (hi : c.th[i]? = some t)
    (_ : t.pc = .idle) (_ : ¬ lossyEmpty c i) : ¬ lossyEmpty { c with th := c.th.set i ⟨start cmd, rest⟩ } i := by
  rintro ⟨t1, h1, h2, -⟩
  simp only at h1
  rw [set_self hi] at h1
  cases h1
  cases cmd <;> simp [start] at h2

theorem JInv_pstep (c : Cfg Sh Th) (i : Nat) (pc : PC) (todo : List Cmd) (s' : Sh) (pc' : PC)
    (hs : Str counting nids l c) (hw : JInv l c) (hi : c.th[i]? = some ⟨pc, todo⟩) (hnl : ¬ lossyEmpty c i)
    (h : PStep c.sh pc s' pc') : JInv l { sh := s', th := c.th.set i ⟨pc', todo⟩ } := by
  have hth := (hs.hth i _ hi).1
  simp only at hth
  have hset : (c.th.set i ⟨pc', todo⟩)[i]? = some ⟨pc', todo⟩ := set_self hi
  by_cases hil : i = l
  · subst hil
    have hth' : pcOK counting nids True pc := by simpa using hth
    obtain ⟨hnat, hcase⟩ := PStep_listenerJ h hth'
    have keep : (∃ (j : Nat) (t : Th), c.th[j]? = some t ∧ atTrig t = true) →
        ∃ (j : Nat) (t : Th), (c.th.set i ⟨pc', todo⟩)[j]? = some t ∧ atTrig t = true := by
      intro hex
      refine ex_set_keep hi hex ?_
      intro hb
      have : atTrig ⟨pc, todo⟩ = atTrig ⟨pc, []⟩ := rfl
      rw [this, hnat] at hb; cases hb
    rcases hcase with h1 | h1 | ⟨h1, h2, h3⟩ | ⟨h1, h2, h3, h4⟩
    · exact Or.inl ⟨_, hset, h1⟩
    · exact Or.inr (Or.inl h1)
    · by_cases hidle : c.sh.ns = IDLE
      · exact Or.inr (Or.inl (by simp only; rw [h2]; exact hidle))
      · have htr : ¬ 0 < c.sh.trigger := fun htr => hnl ⟨_, hi, h1, htr, hidle⟩
        rcases hw with ⟨t1, h5, h6⟩ | h5 | h5 | h5
        · rw [hi] at h5; cases h5
          rw [h1] at h6; cases h6
        · exact absurd h5 hidle
        · exact absurd h5 htr
        · exact Or.inr (Or.inr (Or.inr (keep h5)))
    · rcases hw with ⟨t1, h5, h6⟩ | h5 | h5 | h5
      · rw [hi] at h5; cases h5
        exact absurd h6 h3
      · exact Or.inr (Or.inl (by simp only; rw [h1]; exact h5))
      · exact Or.inr (Or.inr (Or.inl (by simp only; rw [h2]; exact h5)))
      · exact Or.inr (Or.inr (Or.inr (keep h5)))
  · simp only [hil] at hth
    obtain ⟨hne, hne', hcase⟩ := PStep_notifierJ h hth
    rcases hcase with h1 | h1 | ⟨h1, h2, h3⟩
    · exact Or.inr (Or.inr (Or.inr (ex_set_new (p := atTrig) hi h1)))
    · exact Or.inr (Or.inr (Or.inl h1))
    · rcases hw with ⟨t1, h5, h6⟩ | h5 | h5 | h5
      · refine Or.inl ⟨t1, ?_, h6⟩
        simp only
        rw [List.getElem?_set_ne hil]; exact h5
      · exact Or.inr (Or.inl (h2 h5))
      · exact Or.inr (Or.inr (Or.inl (by simp only; rw [h3]; exact h5)))
      · refine Or.inr (Or.inr (Or.inr (ex_set_keep hi h5 ?_)))
        intro hb
        have : atTrig ⟨pc, todo⟩ = atTrig ⟨pc, []⟩ := rfl
        rw [this, h1] at hb; cases hb

theorem JInv_reach (hr : Roles nids l progs) (c : Cfg Sh Th)
    (h : ReachableNL (initCfg counting nids bound fail progs) c) : Str counting nids l c ∧ JInv l c :=
  ReachableNL.inv (fun c => Str counting nids l c ∧ JInv l c) ⟨Str_init hr, Or.inr (Or.inl rfl)⟩
    (fun c c' i evs hinv hnl hst =>
      step_rule (JInv l) (fun c i => ¬ lossyEmpty c i) lossyEmpty_start JInv_start JInv_pstep c c' i evs hinv hnl hst) c h

/-! ## ghost bookkeeping: reports, bits -/

theorem reportAll_notin (ids : List (Nat × Nat)) : ∀ (s : Sh) (j : Nat), (∀ p ∈ ids, p.1 ≠ j) →
    (reportAll s ids).reported[j]?.getD 0 = s.reported[j]?.getD 0 ∧
    (reportAll s ids).reports[j]?.getD 0 = s.reports[j]?.getD 0 ∧
    (reportAll s ids).lastReport[j]?.getD 0 = s.lastReport[j]?.getD 0 := by
  induction ids with
  | nil => intro s j _; simp [reportAll]
  | cons p ids ih =>
    intro s j h
    rw [reportAll_cons]
    have hp : j ≠ p.1 := fun e => h p (by simp) e.symm
    have := ih { s with reported := bump s.reported p.1 p.2, reports := bump s.reports p.1 1, lastReport := s.lastReport.set p.1 (s.now + 1) } j
      (fun q hq => h q (by simp [hq]))
    simpa [getD_bump, getD_set, hp] using this

theorem reportAll_in (ids : List (Nat × Nat)) : ∀ (s : Sh) (j k : Nat), ids.Pairwise (fun p q => p.1 ≠ q.1) → (j, k) ∈ ids →
    j < s.reported.length → j < s.reports.length → j < s.lastReport.length →
    (reportAll s ids).reported[j]?.getD 0 = s.reported[j]?.getD 0 + k ∧
    (reportAll s ids).reports[j]?.getD 0 = s.reports[j]?.getD 0 + 1 ∧
    (reportAll s ids).lastReport[j]?.getD 0 = s.now + 1 := by
  induction ids with
  | nil => intro s j k _ hm; simp at hm
  | cons p ids ih =>
    intro s j k hpw hm h1 h2 h3
    rw [reportAll_cons]
    rw [List.pairwise_cons] at hpw
    rcases List.mem_cons.mp hm with rfl | hm
    · have := reportAll_notin ids { s with reported := bump s.reported j k, reports := bump s.reports j 1, lastReport := s.lastReport.set j (s.now + 1) } j
        (fun q hq e => hpw.1 q hq e.symm)
      simpa [getD_bump, getD_set, h1, h2, h3] using this
    · have hp : j ≠ p.1 := fun e => hpw.1 _ hm e.symm
      have := ih { s with reported := bump s.reported p.1 p.2, reports := bump s.reports p.1 1, lastReport := s.lastReport.set p.1 (s.now + 1) } j k
        hpw.2 hm (by simpa [bump_length] using h1) (by simpa [bump_length] using h2) (by simpa using h3)
      simpa [getD_bump, getD_set, hp] using this

theorem unitIds_bit_mem {s : Sh} {i v : Nat} {p : Nat × Nat} (hc : s.counting = false) :
    p ∈ unitIds s i v ↔ ∃ b, b < 8 ∧ v.testBit b = true ∧ p = (8 * i + b, 1) := by
  simp only [unitIds, hc, Bool.false_eq_true, if_false, List.mem_filterMap, List.mem_range, Nat.testBit_eq_decide_div_mod_eq,
    decide_eq_true_eq]
  constructor
  · rintro ⟨b, hb, h⟩
    split at h
    · rename_i hbit
      exact ⟨b, hb, hbit, by simpa using h.symm⟩
    · cases h
  · rintro ⟨b, hb, hbit, rfl⟩
    exact ⟨b, hb, by simp [hbit]⟩

theorem unitIds_bit_pairwise {s : Sh} {i v : Nat} (hc : s.counting = false) :
    (unitIds s i v).Pairwise (fun p q => p.1 ≠ q.1) := by
  simp only [unitIds, hc, Bool.false_eq_true, if_false]
  refine List.Pairwise.filterMap _ ?_ List.pairwise_lt_range
  intro a a' hlt b hb b' hb'
  split at hb <;> simp at hb
  split at hb' <;> simp at hb'
  subst hb hb'
  simp; omega

theorem testBit_add_pow (w k j : Nat) (h : w.testBit k = false) :
    (w + 2 ^ k).testBit j = (decide (j = k) || w.testBit j) := by
  rcases Nat.lt_trichotomy j k with hlt | heq | hgt
  · rw [Nat.add_comm, Nat.testBit_two_pow_add_gt hlt]
    simp [Nat.ne_of_lt hlt]
  · subst heq
    rw [Nat.add_comm, Nat.testBit_two_pow_add_eq]
    simp [h]
  · obtain ⟨d, rfl⟩ : ∃ d, j = (d + 1) + k := ⟨j - k - 1, by omega⟩
    have hne : ¬ (d + 1 + k = k) := by omega
    rw [Nat.testBit_add (w + 2 ^ k) (d + 1) k, Nat.testBit_add w (d + 1) k, Nat.testBit_add_one, Nat.testBit_add_one]
    have hk : w / 2 ^ k % 2 = 0 := by
      rw [Nat.testBit_eq_decide_div_mod_eq] at h
      simp at h; omega
    have : (w + 2 ^ k) / 2 ^ k = w / 2 ^ k + 1 := Nat.add_div_right _ (Nat.two_pow_pos k)
    rw [this]
    have : (w / 2 ^ k + 1) / 2 = w / 2 ^ k / 2 := by omega
    rw [this]
    simp


theorem active_bit {s : Sh} (hc : s.counting = false) (id : Nat) :
    s.active id = (s.words[id / 8]?.getD 0).testBit (id % 8) := by
  simp [Sh.active, hc, Nat.testBit_eq_decide_div_mod_eq]

theorem bitSet_testBit (w id : Nat) : bitSet w id = w.testBit (id % 8) := by
  by_cases h : w / 2 ^ (id % 8) % 2 = 1 <;> simp [bitSet, mask, Nat.testBit_eq_decide_div_mod_eq, h]

theorem drainSh_bit {s : Sh} (hc : s.counting = false) (i : Nat) :
    drainSh s i = tick (reportAll { s with words := s.words.set i 0 } (unitIds s i (s.words[i]?.getD 0))) := by
  simp [drainSh, hc]

theorem drainSh_cnt {s : Sh} (hc : s.counting = true) (i : Nat) :
    drainSh s i = tick (reportAll { s with counts := s.counts.set i 0 } (unitIds s i (s.counts[i]?.getD 0))) := by
  simp [drainSh, hc]

@[simp] theorem drainSh_completed (s : Sh) (i : Nat) : (drainSh s i).completed = s.completed := by
  cases hc : s.counting <;> simp [drainSh, hc, tick]
@[simp] theorem drainSh_activations (s : Sh) (i : Nat) : (drainSh s i).activations = s.activations := by
  cases hc : s.counting <;> simp [drainSh, hc, tick]

/-! ## completed ≤ activations -/

def inflight (id : Nat) (t : Th) : Bool :=
  match t.pc with
  | .nCasIdlePending i | .nTrigLoad i | .nTrigCas i _ | .nCasPendingNotified i => i == id
  | _ => false

def CInv (nids : Nat) (c : Cfg Sh Th) : Prop :=
  ∀ id, id < nids → c.sh.completed[id]?.getD 0 + c.th.countP (inflight id) ≤ c.sh.activations[id]?.getD 0

theorem countP_set_add {p : Th → Bool} {th : List Th} {i : Nat} {t0 t' : Th} (hi : th[i]? = some t0) :
    (th.set i t').countP p + (if p t0 then 1 else 0) = th.countP p + (if p t' then 1 else 0) := by
  induction th generalizing i with
  | nil => simp at hi
  | cons x xs ih =>
    cases i with
    | zero =>
      simp at hi; subst hi
      simp [List.countP_cons]; omega
    | succ i =>
      simp at hi
      have := ih hi
      simp [List.countP_cons]; omega

theorem PStep_C {L : Prop} {s s' : Sh} {pc pc' : PC} (h : PStep s pc s' pc') (hn : pcOK counting nids L pc)
    (ha : s.activations.length = nids) (id : Nat) (hid : id < nids) :
    s'.completed[id]?.getD 0 + (if inflight id ⟨pc', []⟩ then 1 else 0) + s.activations[id]?.getD 0 ≤
    s.completed[id]?.getD 0 + (if inflight id ⟨pc, []⟩ then 1 else 0) + s'.activations[id]?.getD 0 := by
  cases h
  case nDist => cases s.counting <;> simp [tick, inflight]
  all_goals simp [tick, activated, inflight, getD_bump, pcOK] at hn ⊢
  all_goals (repeat' split) <;> omega


theorem CInv_start (c : Cfg Sh Th) (i : Nat) (t : Th) (cmd : Cmd) (rest : List Cmd) (_hs : Str counting nids l c)
    (hw : CInv nids c) (hi : c.th[i]? = some t) (hidle : t.pc = .idle) (_ : t.todo = cmd :: rest) :
    CInv nids { c with th := c.th.set i ⟨start cmd, rest⟩ } := by
  intro id hid
  have h1 := hw id hid
  have h2 := countP_set_add (p := inflight id) (t' := ⟨start cmd, rest⟩) hi
  have h3 : inflight id t = false := by simp [inflight, hidle]
  have h4 : inflight id ⟨start cmd, rest⟩ = false := by cases cmd <;> simp [inflight, start]
  simp only [h3, h4] at h2
  simp only
  simp at h2
  omega

theorem CInv_pstep (c : Cfg Sh Th) (i : Nat) (pc : PC) (todo : List Cmd) (s' : Sh) (pc' : PC)
    (hs : Str counting nids l c) (hw : CInv nids c) (hi : c.th[i]? = some ⟨pc, todo⟩) (_ : True)
    (h : PStep c.sh pc s' pc') : CInv nids { sh := s', th := c.th.set i ⟨pc', todo⟩ } := by
  intro id hid
  have h1 := hw id hid
  have h2 := countP_set_add (p := inflight id) (t' := ⟨pc', todo⟩) hi
  have h3 := PStep_C h (hs.hth i _ hi).1 hs.ha id hid
  have e1 : inflight id ⟨pc, todo⟩ = inflight id ⟨pc, []⟩ := rfl
  have e2 : inflight id ⟨pc', todo⟩ = inflight id ⟨pc', []⟩ := rfl
  rw [e1, e2] at h2
  simp only
  omega

theorem CInv_reach (hr : Roles nids l progs) (c : Cfg Sh Th)
    (h : Reachable sys (initCfg counting nids bound fail progs) c) : Str counting nids l c ∧ CInv nids c :=
  Reachable.inv (fun c => Str counting nids l c ∧ CInv nids c)
    ⟨Str_init hr, by
      intro id hid
      have : List.countP (inflight id) (List.map Th.init progs) = 0 := by
        rw [List.countP_eq_zero]
        intro t ht
        obtain ⟨p, _, rfl⟩ := List.mem_map.mp ht
        simp [inflight, Th.init]
      simp [initCfg, Sh.init, this]⟩
    (fun c c' i evs hinv hst =>
      step_rule (CInv nids) (fun _ _ => True) (by intros; trivial) CInv_start CInv_pstep c c' i evs hinv trivial hst) c h

/-! ## counting set: conservation -/

def KSh (nids : Nat) (s : Sh) : Prop :=
  ∀ id, id < nids → s.activations[id]?.getD 0 = s.reported[id]?.getD 0 + s.counts[id]?.getD 0 ∧
    s.reports[id]?.getD 0 ≤ s.reported[id]?.getD 0

theorem PStep_K {L : Prop} {s s' : Sh} {pc pc' : PC} (h : PStep s pc s' pc') (hn : pcOK true nids L pc)
    (hc : s.counting = true) (ha : s.activations.length = nids) (hcn : s.counts.length = nids)
    (hrd : s.reported.length = nids) (hrs : s.reports.length = nids)
    (hk : KSh nids s) : KSh nids s' := by
  have drain : ∀ i, KSh nids (drainSh s i) := by
    intro i id hid
    obtain ⟨h1, h2⟩ := hk id hid
    rw [drainSh_cnt hc]
    simp only [unitIds, hc, if_true]
    by_cases he : id = i
    · subst he
      by_cases hv : s.counts[id]?.getD 0 = 0
      · simp only [hv, if_true, reportAll, List.foldl_nil, tick, getD_set, hcn, hid, and_self]
        omega
      · simp only [hv, if_false, reportAll, List.foldl_cons, List.foldl_nil, tick, getD_set, getD_bump, hcn, hrd, hrs,
          hid, and_self, if_true]
        omega
    · by_cases hv : s.counts[i]?.getD 0 = 0
      · simp only [hv, if_true, reportAll, List.foldl_nil, tick, getD_set, he, false_and, if_false]
        exact ⟨h1, h2⟩
      · simp only [hv, if_false, reportAll, List.foldl_cons, List.foldl_nil, tick, getD_set, getD_bump, he, false_and]
        exact ⟨h1, h2⟩
  cases h
  case lDrainSwapGo => exact drain _
  case lDrainSwapDone => exact drain _
  case nFadd id0 =>
    intro id hid
    obtain ⟨h1, h2⟩ := hk id hid
    simp only [pcOK] at hn
    simp only [tick, activated, getD_bump, getD_set, List.getD_eq_getElem?_getD]
    by_cases he : id = id0
    · subst he
      simp only [ha, hcn, hid, and_self, if_true]
      omega
    · simp only [he, false_and, if_false]
      exact ⟨h1, h2⟩
  all_goals (try (simp [pcOK] at hn; done))
  all_goals exact hk


theorem KInv_reach (hr : Roles nids l progs) (hcnt : counting = true) (c : Cfg Sh Th)
    (h : Reachable sys (initCfg counting nids bound fail progs) c) : Str counting nids l c ∧ KSh nids c.sh := by
  subst hcnt
  refine Reachable.inv (fun c => Str true nids l c ∧ KSh nids c.sh) ⟨Str_init hr, ?_⟩
    (fun c c' i evs hinv hst =>
      step_rule (fun c => KSh nids c.sh) (fun _ _ => True) (by intros; trivial) ?_ ?_ c c' i evs hinv trivial hst) c h
  · intro id hid
    simp [initCfg, Sh.init, hid]
  · intro c i t cmd rest _ hk _ _ _
    exact hk
  · intro c i pc todo s' pc' hs hk hi _ hp
    exact PStep_K hp (hs.hth i _ hi).1 hs.hcnt hs.ha hs.hc hs.hrd hs.hrs hk

/-! ## bit set: merged, not dropped -/

def BSh (nids : Nat) (s : Sh) : Prop :=
  ∀ id, id < nids →
    (s.active id = false → s.lastActivate[id]?.getD 0 ≤ s.lastReport[id]?.getD 0) ∧
    s.reports[id]?.getD 0 + (if s.active id then 1 else 0) ≤ s.activations[id]?.getD 0 ∧
    s.reported[id]?.getD 0 = s.reports[id]?.getD 0 ∧
    s.lastActivate[id]?.getD 0 ≤ s.now ∧ s.lastReport[id]?.getD 0 ≤ s.now

theorem BSh_frame {s s' : Sh} (hb : BSh nids s) (h1 : s'.counting = s.counting) (h2 : s'.words = s.words)
    (h2' : s'.counts = s.counts) (h3 : s'.lastActivate = s.lastActivate) (h4 : s'.lastReport = s.lastReport)
    (h5 : s'.reports = s.reports) (h6 : s'.reported = s.reported) (h7 : s'.activations = s.activations)
    (h8 : s.now ≤ s'.now) : BSh nids s' := by
  intro id hid
  obtain ⟨b1, b2, b3, b4, b5⟩ := hb id hid
  rw [active_congr h1 h2 h2', h3, h4, h5, h6, h7]
  exact ⟨b1, b2, b3, by omega, by omega⟩

theorem BSh_act {s s1 : Sh} {id0 : Nat} (hb : BSh nids s) (hid0 : id0 < nids) (ha : s.activations.length = nids)
    (hla : s.lastActivate.length = nids)
    (hact : ∀ id, s1.active id = (decide (id = id0) || s.active id))
    (g1 : s1.lastActivate = s.lastActivate) (g2 : s1.lastReport = s.lastReport) (g3 : s1.reports = s.reports)
    (g4 : s1.reported = s.reported) (g5 : s1.activations = s.activations) (g6 : s1.now = s.now) :
    BSh nids (tick (activated s1 id0)) := by
  intro id hid
  obtain ⟨b1, b2, b3, b4, b5⟩ := hb id hid
  have hA : (tick (activated s1 id0)).active id = s1.active id := active_congr rfl rfl rfl id
  rw [hA, hact]
  simp only [tick, activated, g1, g2, g3, g4, g5, g6, getD_bump, getD_set]
  by_cases he : id = id0
  · subst he
    simp only [decide_true, Bool.true_or, ha, hla, hid, and_self, if_true]
    refine ⟨by simp, ?_, b3, by omega, by omega⟩
    split at b2 <;> omega
  · simp only [he, decide_false, Bool.false_or, false_and, if_false]
    exact ⟨b1, b2, b3, by omega, by omega⟩

theorem div_mod_eq {a b : Nat} (h1 : a / 8 = b / 8) (h2 : a % 8 = b % 8) : a = b := by omega

theorem active_setbit {s : Sh} {id0 : Nat} (hc : s.counting = false) (hlen : id0 / 8 < s.words.length)
    (hclr : s.active id0 = false) (id : Nat) :
    ({ s with words := s.words.set (id0 / 8) (s.words[id0 / 8]?.getD 0 + mask id0) } : Sh).active id =
      (decide (id = id0) || s.active id) := by
  rw [active_bit (s := { s with words := s.words.set (id0 / 8) (s.words[id0 / 8]?.getD 0 + mask id0) }) hc, active_bit hc]
  rw [active_bit hc] at hclr
  simp only [getD_set, mask]
  by_cases he : id / 8 = id0 / 8
  · rw [he]
    simp only [hlen, and_self, if_true]
    rw [testBit_add_pow _ _ _ hclr]
    by_cases h2 : id % 8 = id0 % 8
    · have : id = id0 := div_mod_eq he h2
      simp [this]
    · have : id ≠ id0 := fun e => h2 (by rw [e])
      simp [h2, this]
  · have : id ≠ id0 := fun e => he (by rw [e])
    simp [he, this]

theorem BSh_drain {s : Sh} (hc : s.counting = false) (hb : BSh nids s) (hrd : s.reported.length = nids)
    (hrs : s.reports.length = nids) (hlr : s.lastReport.length = nids) (i : Nat) : BSh nids (drainSh s i) := by
  intro id hid
  obtain ⟨b1, b2, b3, b4, b5⟩ := hb id hid
  rw [drainSh_bit hc]
  have hA : (tick (reportAll { s with words := s.words.set i 0 } (unitIds s i (s.words[i]?.getD 0)))).active id =
      ({ s with words := s.words.set i 0 } : Sh).active id :=
    active_congr (by simp [tick]) (by simp [tick]) (by simp [tick]) id
  have hA2 : ({ s with words := s.words.set i 0 } : Sh).active id = (if id / 8 = i then false else s.active id) := by
    rw [active_bit (s := { s with words := s.words.set i 0 }) hc, active_bit hc]
    simp only [getD_set]
    by_cases he : id / 8 = i
    · simp only [he, true_and, if_true]
      split
      · simp
      · rename_i hlt
        simp [List.getElem?_eq_none (Nat.le_of_not_lt hlt)]
    · simp [he]
  rw [hA, hA2]
  simp only [tick, reportAll_now, reportAll_activations, reportAll_lastActivate]
  by_cases hcase : id / 8 = i ∧ s.active id = true
  · obtain ⟨he, hact⟩ := hcase
    have hmem : (id, 1) ∈ unitIds s i (s.words[i]?.getD 0) := by
      rw [unitIds_bit_mem hc]
      refine ⟨id % 8, Nat.mod_lt _ (by decide), ?_, ?_⟩
      · rw [active_bit hc, he] at hact; exact hact
      · rw [← he]; congr 1; omega
    obtain ⟨r1, r2, r3⟩ := reportAll_in _ { s with words := s.words.set i 0 } id 1 (unitIds_bit_pairwise hc) hmem
      (by simp only; omega) (by simp only; omega) (by simp only; omega)
    simp only at r1 r2 r3
    rw [r1, r2, r3]
    simp only [he, if_true, hact] at b2 ⊢
    refine ⟨fun _ => by omega, by simp; omega, by omega, by omega, by omega⟩
  · have hnot : ∀ p ∈ unitIds s i (s.words[i]?.getD 0), p.1 ≠ id := by
      intro p hp e
      rw [unitIds_bit_mem hc] at hp
      obtain ⟨b, hb8, hbit, rfl⟩ := hp
      simp only at e
      apply hcase
      have h1 : id / 8 = i := by omega
      have h2 : id % 8 = b := by omega
      refine ⟨h1, ?_⟩
      rw [active_bit hc, h1, h2]; exact hbit
    obtain ⟨r1, r2, r3⟩ := reportAll_notin _ { s with words := s.words.set i 0 } id hnot
    simp only at r1 r2 r3
    rw [r1, r2, r3]
    by_cases he : id / 8 = i
    · have hact : s.active id = false := by
        cases h : s.active id
        · rfl
        · exact absurd ⟨he, h⟩ hcase
      simp only [he, if_true, hact] at b1 b2 ⊢
      exact ⟨fun _ => b1 trivial, by simpa using b2, b3, by omega, by omega⟩
    · simp only [he, if_false]
      exact ⟨b1, b2, b3, by omega, by omega⟩

theorem PStep_B {L : Prop} {s s' : Sh} {pc pc' : PC} (h : PStep s pc s' pc') (hn : pcOK false nids L pc)
    (hc : s.counting = false) (hw : s.words.length = (nids + 7) / 8) (ha : s.activations.length = nids)
    (hla : s.lastActivate.length = nids) (hrd : s.reported.length = nids) (hrs : s.reports.length = nids)
    (hlr : s.lastReport.length = nids) (hb : BSh nids s) : BSh nids s' := by
  cases h
  case lDrainSwapGo => exact BSh_drain hc hb hrd hrs hlr _
  case lDrainSwapDone => exact BSh_drain hc hb hrd hrs hlr _
  case nFadd => simp [pcOK] at hn
  case nLoadSet id0 hset =>
    simp only [pcOK] at hn
    refine BSh_act hb hn.2.1 ha hla ?_ rfl rfl rfl rfl rfl rfl
    intro id
    by_cases he : id = id0
    · subst he
      have : s.active id = true := by
        rw [active_bit hc, ← bitSet_testBit, ← List.getD_eq_getElem?_getD]; exact hset
      simp [this]
    · simp [he]
  case nBitCasSet id0 cur hset =>
    simp only [pcOK] at hn
    refine BSh_act hb hn.2.1 ha hla ?_ rfl rfl rfl rfl rfl rfl
    intro id
    by_cases he : id = id0
    · subst he
      have : s.active id = true := by
        rw [active_bit hc, ← bitSet_testBit, ← List.getD_eq_getElem?_getD]; exact hset
      simp [this]
    · simp [he]
  case nBitCasOk id0 cur hcur =>
    simp only [pcOK] at hn
    obtain ⟨-, hid0, -, hclr⟩ := hn
    have hclr' : s.active id0 = false := by
      rw [active_bit hc, ← bitSet_testBit, ← List.getD_eq_getElem?_getD, hcur]; exact hclr
    have hlen : id0 / 8 < s.words.length := by rw [hw]; omega
    rw [List.getD_eq_getElem?_getD] at hcur
    subst hcur
    exact BSh_act hb hid0 ha hla (active_setbit hc hlen hclr') rfl rfl rfl rfl rfl rfl
  all_goals exact BSh_frame hb rfl rfl rfl rfl rfl rfl rfl rfl (Nat.le_succ _)

theorem BInv_reach (hr : Roles nids l progs) (hcnt : counting = false) (c : Cfg Sh Th)
    (h : Reachable sys (initCfg counting nids bound fail progs) c) : Str counting nids l c ∧ BSh nids c.sh := by
  subst hcnt
  refine Reachable.inv (fun c => Str false nids l c ∧ BSh nids c.sh) ⟨Str_init hr, ?_⟩
    (fun c c' i evs hinv hst =>
      step_rule (fun c => BSh nids c.sh) (fun _ _ => True) (by intros; trivial) ?_ ?_ c c' i evs hinv trivial hst) c h
  · intro id hid
    have : (Sh.init false nids bound fail).active id = false := by
      simp only [Sh.active, Sh.init, Bool.false_eq_true, if_false, List.getD_eq_getElem?_getD, List.getElem?_replicate]
      split <;> simp
    simp only [initCfg, this]
    simp [Sh.init, hid]
  · intro c i t cmd rest _ hk _ _ _
    exact hk
  · intro c i pc todo s' pc' hs hk hi _ hp
    exact PStep_B hp (hs.hth i _ hi).1 hs.hcnt hs.hw hs.ha hs.hla hs.hrd hs.hrs hs.hlr hk

end Proofs

/-! # The theorems -/

variable (counting : Bool) (nids bound : Nat) (fail : Bool) (l : Nat) (progs : List (List Cmd))

/-- **wake-up invariant**: whenever an id is active, something guarantees that the listener will
collect it without further notifications: a trigger signal is pending, the state is `NOTIFIED`,
a notifier is on its way to the trigger, or the listener is about to drain that id.
(TRUE as stated; but note that the disjunct `ns = NOTIFIED` does NOT guarantee a wake-up, see
`event_lost_wakeup_reachable`.) -/
theorem event_wakeup_invariant (hr : Roles nids l progs) (c : Cfg Sh Th)
    (h : Reachable sys (initCfg counting nids bound fail progs) c) (id : Nat) (hid : id < nids)
    (ha : c.sh.active id = true) :
    0 < c.sh.trigger ∨ c.sh.ns = NOTIFIED ∨ (∃ t ∈ c.th, beforeTrigger t = true) ∨
    (∃ t, c.th[l]? = some t ∧ willDrain c.sh t id = true) ∨
    (∃ t, c.th[l]? = some t ∧ (t.pc = .lCasNotifiedIdle true ∨ t.pc = .lCasNotifiedIdle false ∨ t.pc = .lWait false)) := by
  rcases (WInv_reach hr c h).2 id hid ha with h1 | h1 | ⟨j, t, hj, hb⟩ | ⟨t, h1, h2 | h2⟩
  · exact Or.inl h1
  · exact Or.inr (Or.inl h1)
  · exact Or.inr (Or.inr (Or.inl ⟨t, List.mem_iff_getElem?.mpr ⟨j, hj⟩, hb⟩))
  · exact Or.inr (Or.inr (Or.inr (Or.inl ⟨t, h1, h2⟩)))
  · exact Or.inr (Or.inr (Or.inr (Or.inr ⟨t, h1, Or.inr (Or.inr h2)⟩)))

/-- `event_notified_implies_signal` holds on every path without a lossy `empty_buffer` step
(the statement for all reachable configurations is FALSE, see `event_notified_implies_signal_refuted`) -/
theorem event_notified_implies_signal_partial (hr : Roles nids l progs) (c : Cfg Sh Th)
    (h : ReachableNL (initCfg counting nids bound fail progs) c) (t : Th) (hl : c.th[l]? = some t)
    (hb : t.pc = .lWait true ∨ t.pc = .lWait false ∨ t.pc = .lCasNotifiedIdle true ∨ t.pc = .lCasNotifiedIdle false ∨ t.pc = .idle)
    (hn : c.sh.ns = NOTIFIED) :
    0 < c.sh.trigger ∨ ∃ u ∈ c.th, ∃ i, u.pc = .nTrigLoad i ∨ ∃ k, u.pc = .nTrigCas i k := by
  rcases (JInv_reach hr c h).2 with ⟨t1, h1, h2⟩ | h1 | h1 | ⟨j, u, hj, hu⟩
  · rw [hl] at h1; cases h1
    rcases hb with hb | hb | hb | hb | hb <;> (rw [hb] at h2; cases h2)
  · rw [hn] at h1; cases h1
  · exact Or.inl h1
  · refine Or.inr ⟨u, List.mem_iff_getElem?.mpr ⟨j, hj⟩, ?_⟩
    unfold atTrig at hu
    split at hu
    · rename_i i hpc; exact ⟨i, Or.inl hpc⟩
    · rename_i i k hpc; exact ⟨i, Or.inr ⟨k, hpc⟩⟩
    · cases hu

/-- what remains of `event_no_lost_wakeup` in EVERY reachable configuration: a blocked listener with
an active id and no signal is either about to be signalled — or the state is `NOTIFIED`: that is
the only way a wake-up is lost -/
theorem event_no_lost_wakeup_or_notified (hr : Roles nids l progs) (c : Cfg Sh Th)
    (h : Reachable sys (initCfg counting nids bound fail progs) c) (id : Nat) (hid : id < nids)
    (ha : c.sh.active id = true) (t : Th) (hl : c.th[l]? = some t) (hb : t.pc = .lWait true) (h0 : c.sh.trigger = 0) :
    (∃ u ∈ c.th, ∃ i, u.pc = .nTrigLoad i ∨ ∃ k, u.pc = .nTrigCas i k) ∨
    (c.sh.ns ≠ NOTIFIED ∧ ∃ u ∈ c.th, ∃ i, u.pc = .nCasIdlePending i) ∨ c.sh.ns = NOTIFIED := by
  by_cases hn : c.sh.ns = NOTIFIED
  · exact Or.inr (Or.inr hn)
  · rcases (WInv_reach hr c h).2 id hid ha with h1 | h1 | ⟨j, u, hj, hu⟩ | ⟨t1, h1, h2⟩
    · omega
    · exact absurd h1 hn
    · have hmem : u ∈ c.th := List.mem_iff_getElem?.mpr ⟨j, hj⟩
      unfold beforeTrigger at hu
      split at hu
      · rename_i i hpc; exact Or.inr (Or.inl ⟨hn, u, hmem, i, hpc⟩)
      · rename_i i hpc; exact Or.inl ⟨u, hmem, i, Or.inl hpc⟩
      · rename_i i k hpc; exact Or.inl ⟨u, hmem, i, Or.inr ⟨k, hpc⟩⟩
      · cases hu
    · rw [hl] at h1; cases h1
      rcases h2 with h2 | h2
      · simp [willDrain, hb] at h2
      · rw [hb] at h2; cases h2

/-- `event_no_lost_wakeup` holds on every path without a lossy `empty_buffer` step
(the statement for all reachable configurations is FALSE, see `event_no_lost_wakeup_refuted`) -/
theorem event_no_lost_wakeup_partial (hr : Roles nids l progs) (c : Cfg Sh Th)
    (h : ReachableNL (initCfg counting nids bound fail progs) c) (id : Nat) (hid : id < nids)
    (ha : c.sh.active id = true) (t : Th) (hl : c.th[l]? = some t) (hb : t.pc = .lWait true) (h0 : c.sh.trigger = 0) :
    (∃ u ∈ c.th, ∃ i, u.pc = .nTrigLoad i ∨ ∃ k, u.pc = .nTrigCas i k) ∨
    (c.sh.ns ≠ NOTIFIED ∧ ∃ u ∈ c.th, ∃ i, u.pc = .nCasIdlePending i) := by
  rcases event_no_lost_wakeup_or_notified counting nids bound fail l progs hr c h.reachable id hid ha t hl hb h0 with
    h1 | h1 | hn
  · exact Or.inl h1
  · exact Or.inr h1
  · rcases event_notified_implies_signal_partial counting nids bound fail l progs hr c h t hl (Or.inl hb) hn with h1 | h1
    · omega
    · exact Or.inl h1

/-- **never dropped, counting set**: every activation is either already reported (with its count)
or still stored: activations = reported + stored -/
theorem event_counting_conservation (hr : Roles nids l progs) (hc : counting = true) (c : Cfg Sh Th)
    (h : Reachable sys (initCfg counting nids bound fail progs) c) (id : Nat) (hid : id < nids) :
    c.sh.activations.getD id 0 = c.sh.reported.getD id 0 + c.sh.counts.getD id 0 := by
  simp only [List.getD_eq_getElem?_getD]
  exact ((KInv_reach hr hc c h).2 id hid).1

/-- **never dropped, bit set**: notifications of one id may be merged, but while the id is not
active every activation so far has been followed by a report of that id -/
theorem event_bitset_merged_not_dropped (hr : Roles nids l progs) (hc : counting = false) (c : Cfg Sh Th)
    (h : Reachable sys (initCfg counting nids bound fail progs) c) (id : Nat) (hid : id < nids)
    (hn : c.sh.active id = false) :
    c.sh.lastActivate.getD id 0 ≤ c.sh.lastReport.getD id 0 := by
  simp only [List.getD_eq_getElem?_getD]
  exact ((BInv_reach hr hc c h).2 id hid).1 hn

/-- **no phantom**: the listener never reports an id more often (counting set: with a larger total
count) than it was activated, and only ids in range -/
theorem event_no_phantom (hr : Roles nids l progs) (c : Cfg Sh Th)
    (h : Reachable sys (initCfg counting nids bound fail progs) c) (id : Nat) :
    c.sh.reported.getD id 0 ≤ c.sh.activations.getD id 0 ∧ c.sh.reports.getD id 0 ≤ c.sh.activations.getD id 0 ∧
    (nids ≤ id → c.sh.reports.getD id 0 = 0) := by
  simp only [List.getD_eq_getElem?_getD]
  by_cases hid : id < nids
  · cases hcnt : counting
    · obtain ⟨b1, b2, b3, b4, b5⟩ := (BInv_reach hr hcnt c h).2 id hid
      refine ⟨?_, ?_, fun hle => by omega⟩
      · rw [b3]; split at b2 <;> omega
      · split at b2 <;> omega
    · obtain ⟨k1, k2⟩ := (KInv_reach hr hcnt c h).2 id hid
      exact ⟨by omega, by omega, fun hle => by omega⟩
  · have hs := (CInv_reach hr c h).1
    have h1 : c.sh.reported[id]? = none := List.getElem?_eq_none (by rw [hs.hrd]; omega)
    have h2 : c.sh.reports[id]? = none := List.getElem?_eq_none (by rw [hs.hrs]; omega)
    simp [h1, h2]

/-- a completed `notify` has activated its id -/
theorem event_completed_le_activations (hr : Roles nids l progs) (c : Cfg Sh Th)
    (h : Reachable sys (initCfg counting nids bound fail progs) c) (id : Nat) :
    c.sh.completed.getD id 0 ≤ c.sh.activations.getD id 0 := by
  obtain ⟨hs, hc⟩ := CInv_reach hr c h
  simp only [List.getD_eq_getElem?_getD]
  by_cases hid : id < nids
  · have := hc id hid
    omega
  · have : c.sh.completed[id]? = none := List.getElem?_eq_none (by rw [hs.hcp]; omega)
    simp [this]

/-! ## the counterexample: a lost wake-up

`T2` (listener) runs a `try_wait` up to (not including) `empty_buffer`; `T0` runs `notify 0` up to
(not including) its `PENDING → NOTIFIED` CAS — it has posted the trigger; `T2` executes `empty_buffer`
(the signal is thrown away), drains id 0 and returns; `T2` starts a `blocking_wait`: the state is
`PENDING`, the CAS fails, it blocks on the (empty) trigger; `T0` finishes: `PENDING → NOTIFIED`;
`T1` runs `notify 1`: it sees `NOTIFIED` and returns `Ok` without posting the trigger.
Result: id 1 is active, every `notify` has returned `Ok`, the listener sleeps, nobody can step —
and every later `notify` would see `NOTIFIED` and skip the trigger as well. -/

def cexProgs : List (List Cmd) := [[.notify 0], [.notify 1], [.tryWait, .blockingWait]]
def cexSched : List Nat := [2, 2, 2, 0, 0, 0, 0, 0, 0, 2, 2, 2, 2, 0, 1, 1, 1, 1]
def cexFinal : Cfg Sh Th := (sys.run (initCfg false 3 0 false cexProgs) cexSched).1

theorem cex_roles : Roles 3 2 cexProgs := by
  refine ⟨by decide, ?_⟩
  intro j p hj c hc
  match j with
  | 0 => simp [cexProgs] at hj; subst hj; simp at hc; subst hc; simp
  | 1 => simp [cexProgs] at hj; subst hj; simp at hc; subst hc; simp
  | 2 => simp [cexProgs] at hj; subst hj; simp at hc; rcases hc with rfl | rfl <;> simp [isWait]
  | j + 3 => simp [cexProgs] at hj

theorem cex_reachable : Reachable sys (initCfg false 3 0 false cexProgs) cexFinal :=
  Sys.run_reachable _ _ _ Reachable.init _

theorem cex_th : cexFinal.th = [⟨.idle, []⟩, ⟨.idle, []⟩, ⟨.lWait true, []⟩] := by rfl
theorem cex_sh : cexFinal.sh.ns = NOTIFIED ∧ cexFinal.sh.trigger = 0 ∧ cexFinal.sh.active 1 = true ∧
    cexFinal.sh.completed = [1, 1, 0] ∧ cexFinal.sh.reports = [1, 0, 0] := by decide

/-- the lost wake-up is reachable: listener asleep in a blocking wait, no signal, id 1 active, state
`NOTIFIED`, both `notify` calls have returned `Ok`, and no thread can take a step (deadlock) -/
theorem event_lost_wakeup_reachable :
    ∃ c, Roles 3 2 cexProgs ∧ Reachable sys (initCfg false 3 0 false cexProgs) c ∧
      c.th = [⟨.idle, []⟩, ⟨.idle, []⟩, ⟨.lWait true, []⟩] ∧ c.sh.ns = NOTIFIED ∧ c.sh.trigger = 0 ∧
      c.sh.active 1 = true ∧ c.sh.completed = [1, 1, 0] ∧ ∀ i, sys.stepAt c i = none := by
  refine ⟨cexFinal, cex_roles, cex_reachable, cex_th, cex_sh.1, cex_sh.2.1, cex_sh.2.2.1, cex_sh.2.2.2.1, ?_⟩
  intro i
  match i with
  | 0 => decide
  | 1 => decide
  | 2 => decide
  | i + 3 => simp [Sys.stepAt, cex_th]

/-- `event_no_lost_wakeup` as stated is FALSE -/
theorem event_no_lost_wakeup_refuted :
    ¬ ∀ (counting : Bool) (nids bound : Nat) (fail : Bool) (l : Nat) (progs : List (List Cmd)),
      Roles nids l progs → ∀ (c : Cfg Sh Th), Reachable sys (initCfg counting nids bound fail progs) c →
      ∀ id, id < nids → c.sh.active id = true → ∀ t : Th, c.th[l]? = some t → t.pc = .lWait true → c.sh.trigger = 0 →
      (∃ u ∈ c.th, ∃ i, u.pc = .nTrigLoad i ∨ ∃ k, u.pc = .nTrigCas i k) ∨
      (c.sh.ns ≠ NOTIFIED ∧ ∃ u ∈ c.th, ∃ i, u.pc = .nCasIdlePending i) := by
  intro H
  have := H false 3 0 false 2 cexProgs cex_roles cexFinal cex_reachable 1 (by decide) cex_sh.2.2.1
    ⟨.lWait true, []⟩ (by rw [cex_th]; rfl) rfl cex_sh.2.1
  rcases this with ⟨u, hu, i, h⟩ | ⟨hne, -⟩
  · rw [cex_th] at hu
    simp at hu
    rcases hu with rfl | rfl <;> simp at h
  · exact hne cex_sh.1

/-- `event_notified_implies_signal` as stated is FALSE -/
theorem event_notified_implies_signal_refuted :
    ¬ ∀ (counting : Bool) (nids bound : Nat) (fail : Bool) (l : Nat) (progs : List (List Cmd)),
      Roles nids l progs → ∀ (c : Cfg Sh Th), Reachable sys (initCfg counting nids bound fail progs) c →
      ∀ t : Th, c.th[l]? = some t →
      (t.pc = .lWait true ∨ t.pc = .lWait false ∨ t.pc = .lCasNotifiedIdle true ∨ t.pc = .lCasNotifiedIdle false ∨ t.pc = .idle) →
      c.sh.ns = NOTIFIED →
      0 < c.sh.trigger ∨ ∃ u ∈ c.th, ∃ i, u.pc = .nTrigLoad i ∨ ∃ k, u.pc = .nTrigCas i k := by
  intro H
  have := H false 3 0 false 2 cexProgs cex_roles cexFinal cex_reachable
    ⟨.lWait true, []⟩ (by rw [cex_th]; rfl) (Or.inl rfl) cex_sh.1
  rcases this with h | ⟨u, hu, i, h⟩
  · rw [cex_sh.2.1] at h; cases h
  · rw [cex_th] at hu
    simp at hu
    rcases hu with rfl | rfl <;> simp at h

/-
FALSE AS STATED (refuted above by `event_no_lost_wakeup_refuted`, `event_notified_implies_signal_refuted`;
counterexample: `cexProgs`, `cexSched`, i.e. programs T0 = [notify 0], T1 = [notify 1],
T2 = [tryWait, blockingWait] on the bit set (nids = 3, bound = 0), listener l = 2, schedule
[2,2,2, 0,0,0,0,0,0, 2,2,2,2, 0, 1,1,1,1]); proved instead: `event_no_lost_wakeup_partial`,
`event_notified_implies_signal_partial` (all paths without a lossy `empty_buffer` step, `ReachableNL`) and
`event_no_lost_wakeup_or_notified` (all reachable configurations).  Original statements:

theorem event_no_lost_wakeup (hr : Roles nids l progs) (c : Cfg Sh Th)
    (h : Reachable sys (initCfg counting nids bound fail progs) c) (id : Nat) (hid : id < nids)
    (ha : c.sh.active id = true) (t : Th) (hl : c.th[l]? = some t) (hb : t.pc = .lWait true) (h0 : c.sh.trigger = 0) :
    (∃ u ∈ c.th, ∃ i, u.pc = .nTrigLoad i ∨ ∃ k, u.pc = .nTrigCas i k) ∨
    (c.sh.ns ≠ NOTIFIED ∧ ∃ u ∈ c.th, ∃ i, u.pc = .nCasIdlePending i)

theorem event_notified_implies_signal (hr : Roles nids l progs) (c : Cfg Sh Th)
    (h : Reachable sys (initCfg counting nids bound fail progs) c) (t : Th) (hl : c.th[l]? = some t)
    (hb : t.pc = .lWait true ∨ t.pc = .lWait false ∨ t.pc = .lCasNotifiedIdle true ∨ t.pc = .lCasNotifiedIdle false ∨ t.pc = .idle)
    (hn : c.sh.ns = NOTIFIED) :
    0 < c.sh.trigger ∨ ∃ u ∈ c.th, ∃ i, u.pc = .nTrigLoad i ∨ ∃ k, u.pc = .nTrigCas i k
-/

/-- non-vacuity: two notifiers and a listener on the bit set; the second notifier finds the state
`NOTIFIED` and skips the trigger, the listener still reports both ids -/
def exProgs : List (List Cmd) := [[Cmd.notify 0], [Cmd.notify 1], [Cmd.tryWait]]
def exFinal : Cfg Sh Th :=
  (sys.run (initCfg false 3 0 false exProgs) ([0, 0, 0, 0, 0, 0, 0] ++ [1, 1, 1, 1] ++ List.replicate 10 2)).1
example : exFinal.sh.reports = [1, 1, 0] ∧ exFinal.sh.completed = [1, 1, 0] ∧ exFinal.sh.trigger = 0 := by
  decide


end Iox2.C05
