/-
C08 — QoS limits suffice and are enforced: no out-of-memory inside the limits, clean errors beyond.
Theorems about the L1 publish-subscribe model `Iox2.PubSub` for every reachable state.
-/
import Iox2.Model.PubSub
import Iox2.Proof.PubSubC08OpE
namespace Iox2.PubSub.C08
open Iox2.PubSub

/-! ### vocabulary (definitions are part of the statements: do not change) -/

def liveCount {α : Type} (slots : List (Option α)) : Nat := (slots.filter Option.isSome).length

/-- the application never holds more than `subscriber_max_borrowed_samples` samples of one
subscriber at a time (the documented meaning of the limit) -/
def Disciplined (w : World) : Prop :=
  ∀ s S, getS w s = some S → S.held.length ≤ w.cfg.borrowMax

/-- reachable through states that are all disciplined -/
inductive ReachD (c : Cfg) : World → Prop
  | init : ReachD c (World.init c)
  | step {w : World} (op : Op) : ReachD c w → w.panicked = false → Disciplined (step w op).1 →
      ReachD c (step w op).1

/-! ### theorems -/

/-- The data segment formula suffices: whatever all participants do, a loan is never refused for
lack of memory. -/
theorem loan_never_out_of_memory (cfg : Cfg) (hc : cfg.Sane) (w : World) (h : Reach cfg w)
    (hnp : w.panicked = false) (p l : Nat) :
    (step w (.loan p l)).2 ≠ "err:OutOfMemory" := by
  exact (step_loan hc.2.2.2.2.2 (reach_inv hc h) p l).2.1

/-- … and the loan-to-exhaustion probe is always stopped by the loan limit, never by memory. -/
theorem probe_never_out_of_memory (cfg : Cfg) (hc : cfg.Sane) (w : World) (h : Reach cfg w)
    (hnp : w.panicked = false) (p : Nat) (P : Pub) (hp : getP w p = some P) (ha : P.alive = true) :
    (step w (.probe p)).2 = s!"{P.maxLoans - P.loans.length}:ExceedsMaxLoans" := by
  exact (step_probe hc.2.2.2.2.2 (reach_inv hc h) p).2.2 P hp ha

/-- A loan is decided by the loan limit alone: it succeeds iff fewer than `max_loaned_samples`
loans are out (so it succeeds again as soon as one loan is returned); a refused loan changes
nothing the application can observe about the publisher's loans. -/
theorem loan_ok_iff (cfg : Cfg) (hc : cfg.Sane) (w : World) (h : Reach cfg w) (hnp : w.panicked = false)
    (p l : Nat) (P : Pub) (hp : getP w p = some P) (ha : P.alive = true)
    (hfresh : ∀ c, (l, c) ∉ P.loans) :
    P.loanCnt = P.loans.length ∧
    ((step w (.loan p l)).2 = "ok" ↔ P.loans.length < P.maxLoans) ∧
    ((step w (.loan p l)).2 ≠ "ok" →
      (step w (.loan p l)).2 = "err:ExceedsMaxLoans" ∧
      ∃ P', getP (step w (.loan p l)).1 p = some P' ∧ P'.loans = P.loans ∧ P'.loanCnt = P.loanCnt) := by
  have hfresh' : ∀ lc ∈ P.loans, lc.1 ≠ l := by
    intro lc hlc e
    exact hfresh lc.2 (by rw [← e]; exact hlc)
  exact (step_loan hc.2.2.2.2.2 (reach_inv hc h) p l).2.2.2 P hp ha hfresh'

/-- A release never fails for lack of queue space: the completion queue of a connection never
holds more than `buffer + max borrowed` entries (its capacity is one more). -/
theorem completion_queue_never_full (cfg : Cfg) (hc : cfg.Sane) (w : World) (h : Reach cfg w)
    (cn : Conn) (hcn : cn ∈ w.conns) :
    cn.sub.length + cn.borrow + cn.comp.length ≤ cn.cap + cfg.borrowMax ∧
    cn.borrow ≤ cfg.borrowMax ∧ cn.sub.length ≤ cn.cap ∧ cn.cap ≤ cfg.bufMax := by
  have hI := reach_inv hc h
  have := (hI.c cn.pid cn.sid cn (getC_of_mem hI.u hcn)).ok
  exact ⟨this.tot, this.borLe, this.subLe, this.capM⟩

/-- … so dropping a sample whose connection still exists always returns the chunk. -/
theorem release_succeeds (cfg : Cfg) (hc : cfg.Sane) (w : World) (h : Reach cfg w)
    (s : Nat) (S : Sub) (hs : getS w s = some S) (hd : Held) (hh : hd ∈ S.held)
    (cn : Conn) (hk : smGet S.storage hd.key = some hd.pid) (hcn : getC w hd.pid s = some cn) :
    ∃ cn', getC (subRelease w s hd) hd.pid s = some cn' ∧ cn'.comp = cn.comp ++ [hd.chunk] ∧
      cn'.borrow + 1 = cn.borrow := by
  have hI := reach_inv hc h
  have hCI := hI.c hd.pid s cn hcn
  have hcnt := hCI.held S hs
  have hpos : 1 ≤ cn.borrow := by
    rw [hcnt]
    have : hd ∈ S.held.filter (·.pid = hd.pid) := List.mem_filter.mpr ⟨hh, by simp⟩
    exact List.length_pos_of_mem this
  have hcomp : cn.comp.length < cn.cap + w.cfg.borrowMax + 1 := by
    have := hCI.ok.tot; rw [hI.r.cfgEq]; omega
  have hkey := getC_key hcn
  have hk1 : ({ cn with comp := cn.comp ++ [hd.chunk], borrow := cn.borrow - 1 } : Conn).pid = hd.pid ∧
      ({ cn with comp := cn.comp ++ [hd.chunk], borrow := cn.borrow - 1 } : Conn).sid = s := hkey
  have hrel : subRelease w s hd = setC w { cn with comp := cn.comp ++ [hd.chunk], borrow := cn.borrow - 1 } := by
    unfold subRelease
    rw [hs]
    dsimp only
    rw [hk]
    dsimp only
    rw [if_neg (by simp), hcn]
    dsimp only
    exact if_pos hcomp
  rw [hrel, getC_setC_self hcn _ hk1]
  refine ⟨{ cn with comp := cn.comp ++ [hd.chunk], borrow := cn.borrow - 1 }, by simp, rfl, ?_⟩
  show cn.borrow - 1 + 1 = cn.borrow
  omega

/-- Port limits: creating a publisher succeeds iff a registry slot is free, and a refused
creation leaves the world as it was (and analogously for subscribers, given valid QoS requests). -/
theorem cpub_ok_iff (cfg : Cfg) (hc : cfg.Sane) (w : World) (h : Reach cfg w) (hnp : w.panicked = false)
    (p ml : Nat) (hfresh : getP w p = none) :
    ((step w (.cpub p ml)).2 = "ok" ↔ liveCount w.pubReg.slots < cfg.maxPubs) ∧
    ((step w (.cpub p ml)).2 ≠ "ok" →
      (step w (.cpub p ml)).2 = "err:ExceedsMaxSupportedPublishers" ∧
      (step w (.cpub p ml)).1.pubs = w.pubs ∧ (step w (.cpub p ml)).1.subs = w.subs ∧
      (step w (.cpub p ml)).1.conns = w.conns ∧
      (step w (.cpub p ml)).1.pubReg.slots = w.pubReg.slots) := by
  have hI := reach_inv hc h
  obtain ⟨a, b⟩ := (step_cpub hI p ml).2.2 hnp hfresh
  refine ⟨a, fun hne => ?_⟩
  obtain ⟨b1, b2⟩ := b hne
  rw [b2]
  exact ⟨b1, rfl, rfl, rfl, rfl⟩

theorem csub_ok_iff (cfg : Cfg) (hc : cfg.Sane) (w : World) (h : Reach cfg w) (hnp : w.panicked = false)
    (s : Nat) (hfresh : getS w s = none) :
    ((step w (.csub s none none)).2 = "ok" ↔ liveCount w.subReg.slots < cfg.maxSubs) ∧
    ((step w (.csub s none none)).2 ≠ "ok" →
      (step w (.csub s none none)).2 = "err:ExceedsMaxSupportedSubscribers" ∧
      (step w (.csub s none none)).1.pubs = w.pubs ∧ (step w (.csub s none none)).1.subs = w.subs ∧
      (step w (.csub s none none)).1.conns = w.conns ∧
      (step w (.csub s none none)).1.subReg.slots = w.subReg.slots) := by
  have hI := reach_inv hc h
  obtain ⟨a, b⟩ := step_csub_default hc hI s hfresh hnp
  refine ⟨a, fun hne => ?_⟩
  obtain ⟨b1, b2⟩ := b hne
  rw [b2]
  exact ⟨b1, rfl, rfl, rfl, rfl⟩

/-- The registries never hold more ports than the service supports. -/
theorem registry_within_limits (cfg : Cfg) (hc : cfg.Sane) (w : World) (h : Reach cfg w) :
    w.pubReg.slots.length = cfg.maxPubs ∧ w.subReg.slots.length = cfg.maxSubs ∧ w.cfg = cfg := by
  have hI := reach_inv hc h
  exact ⟨hI.r.pubLen, hI.r.subLen, hI.r.cfgEq⟩

/-- No API call panics as long as the application holds at most `max borrowed` samples per
subscriber. -/
theorem no_panic_disciplined (cfg : Cfg) (hc : cfg.Sane) (w : World) (h : ReachD cfg w) :
    w.panicked = false := by
  have key : Reach cfg w ∧ Disciplined w ∧ w.panicked = false := by
    induction h with
    | init => exact ⟨.init, fun s S hS => by simp [World.init, getS] at hS, rfl⟩
    | step op _ hnp hd ih =>
      obtain ⟨r, d, _⟩ := ih
      have hI := reach_inv hc r
      refine ⟨.step op r hnp, hd, ?_⟩
      apply step_no_panic hc hI hnp
      intro s S hS
      have := d s S hS
      rw [hI.r.cfgEq] at this
      exact this
  exact key.2.2

/-- concrete configuration and histories of the two findings -/
def cfgD : Cfg :=
  { maxPubs := 2, maxSubs := 1, bufMax := 1, hist := 0, borrowMax := 1, overflow := false, expired := 1 }

def opsBorrow : List Op :=
  [.csub 0 none none, .cpub 0 1, .cpub 1 1, .loan 0 0, .send 0 0 1, .loan 1 1, .send 1 1 2, .recv 0, .recv 0]

def opsPanic : List Op := opsBorrow ++ [.dpub 0, .updS 0, .dpub 1, .updS 0]

/-- no state before the end of the history has panicked -/
def allNP (w : World) : List Op → Bool
  | [] => true
  | op :: r => !w.panicked && allNP (step w op).1 r

theorem reach_run (c : Cfg) : ∀ (ops : List Op) (w : World), Reach c w → allNP w ops = true → Reach c (run w ops)
  | [], w, h, _ => h
  | op :: r, w, h, hnp => by
    simp only [allNP, Bool.and_eq_true, Bool.not_eq_true'] at hnp
    exact reach_run c r _ (.step op h hnp.1) hnp.2

set_option maxRecDepth 100000 in
/-- FALSE without discipline (findings D19/D20): the borrow limit is enforced per connection, so a
subscriber can hold samples of more dead publishers than the expired-connection buffer has room
for, and `update_connections` panics.  Prove with a concrete history. -/
theorem panic_reachable_undisciplined :
    ∃ (cfg : Cfg) (ops : List Op), cfg.Sane ∧ (run (World.init cfg) ops).panicked = true := by
  refine ⟨cfgD, opsPanic, by decide, ?_⟩
  decide

set_option maxRecDepth 100000 in
/-- … and the per-subscriber borrow limit can be exceeded (D19): concrete history in which a live
subscriber holds more than `borrowMax` samples and no call was refused. -/
theorem borrow_limit_is_per_connection :
    ∃ (cfg : Cfg) (w : World), cfg.Sane ∧ Reach cfg w ∧ w.panicked = false ∧
      ∃ s S, getS w s = some S ∧ S.alive = true ∧ cfg.borrowMax < S.held.length := by
  refine ⟨cfgD, run (World.init cfgD) opsBorrow, by decide, reach_run cfgD _ _ .init (by decide), by decide, 0, ?_⟩
  have hS : (getS (run (World.init cfgD) opsBorrow) 0).isSome = true := by decide
  obtain ⟨S, hS'⟩ := Option.isSome_iff_exists.mp hS
  refine ⟨S, hS', ?_, ?_⟩
  · have : ((getS (run (World.init cfgD) opsBorrow) 0).map (·.alive)) = some true := by decide
    rw [hS'] at this
    simpa using this
  · have : ((getS (run (World.init cfgD) opsBorrow) 0).map (·.held.length)) = some 2 := by decide
    rw [hS'] at this
    simp at this
    show 1 < S.held.length
    omega

end Iox2.PubSub.C08

