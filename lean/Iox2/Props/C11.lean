/-
C11 — Request-response: responses reach exactly the request they answer.

Theorems about ALL reachable states of the L1 model `Iox2.ReqRes` (every history of client / server
creation and drop, loan+send of requests, receive, loan+send of responses - in one call or as separate
loan / send / drop calls with any number of loans outstanding and sent in any order -, drop of pending
responses, active requests and responses, `update_connections`, hints; any number of clients, servers and
overlapping requests; every service configuration).  The model is tied to the real ports by the
differential run of `./check C11`.

Ghost data the statements use (written, never read by the transitions):
* `Msg.gClient`, `Msg.gSeq`, `Msg.gStale` of a response: the client whose request the sending active
  request stems from, the response's number within that active request, and whether that client was
  already gone when the response was sent;
* `Pending.gRecv`: the responses handed out by `PendingResponse::receive` of this object, in order;
* `Msg.gSeq` of a request: its send number - the client's count of requests sent before it (`Client.gSendCtr`).
  The request id, in contrast, is assigned when the request is LOANED; loans can be sent in any order;
* `Server.gRecvReq` / `Server.gRecvSeq`: `(client, request id)` / `(client, send number)` of every active
  request handed out by `Server::receive`, in hand-out order.

(a) routing.  The natural statement - a response received through a pending response of client `c` was
sent for a request of `c` - is FALSE in the model and in the implementation (candidate defect, see
`response_routed_refuted`): a server that still holds an active request of a client that is gone sends
its response into the connection slot the next client inherited.  Proved instead: `response_routed_partial`.
-/
import Iox2.Proof.ReqResDisc
namespace Iox2.C11
open Iox2.ReqRes

/-! ### running concrete histories -/

/-- no step of the history starts from a panicked state -/
def allOk (w : World) : List Op → Bool
  | [] => true
  | op :: r => !w.panicked && allOk (step w op).1 r

theorem reach_run {c : Cfg} {w : World} (h : Reach c w) (ops : List Op) (hok : allOk w ops = true) :
    Reach c (run w ops) := by
  induction ops generalizing w with
  | nil => exact h
  | cons op r ih =>
    simp only [allOk, Bool.and_eq_true, Bool.not_eq_true'] at hok
    exact ih (Reach.step op h hok.1) hok.2

/-! ### (a) routing -/

/-- (a, strongest true form) Every response received through a pending response carries the request id
of that pending response and was sent through an active request that stems from a request of this very
client - unless the client that had sent the answered request no longer existed when the response was
sent.  In particular (request ids of one client are never reused, `request_ids_unique`): never a
response to another request of the same client, and never a response to a request of another client
that is still alive. -/
theorem response_routed_partial {cfg : Cfg} {w : World} (h : Reach cfg w) {c : Nat} {C : Client} {P : Pending} {m : Msg}
    (hC : getCl w c = some C) (hP : P ∈ C.pendings) (hm : m ∈ P.gRecv) :
    m.rid = P.rid ∧ (m.gClient = c ∨ m.gStale = true) :=
  (inv_of_reach h).x.g1 c C P m hC hP hm

/-- the pending responses of a client have pairwise different request ids, all below the client's
counter: a request id is never used again, so "same request id" means "same request" -/
theorem request_ids_unique {cfg : Cfg} {w : World} (h : Reach cfg w) {c : Nat} {C : Client} (hC : getCl w c = some C) :
    C.pendings.Pairwise (fun a b => a.rid ≠ b.rid) ∧ ∀ P ∈ C.pendings, P.rid < C.ridCtr :=
  ⟨(inv_of_reach h).cl2 c C hC, fun P hP => (inv_of_reach h).cl1 c C P hC hP⟩

/-- the configuration and history of the counterexample (replayed on the real code by `./check C11`) -/
def cexCfg : Cfg :=
  { maxClients := 2, maxServers := 1, maxActive := 1, respBuf := 1, maxBorrow := 1, ovReq := false, ovResp := false,
    ff := false, maxLoans := 1, cExpired := 1, sExpired := 1 }

def cexOps : List Op :=
  [.cserver 0 none, .cclient 0 none, .send 0 0 1, .recvreq 0 0, .dpending 0 0, .dclient 0,
   .cclient 1 none, .send 1 1 2, .respond 0 0 100, .recvresp 1 1]

/-- (a, natural statement) FALSE: client 1 receives, through the pending response of its own request,
the response the server sent for the request of client 0 (which is gone; client 1 inherited its
registry slot, channel 0 and request id 0).
    theorem response_routed : Reach cfg w → getCl w c = some C → P ∈ C.pendings → m ∈ P.gRecv → m.gClient = c -/
theorem response_routed_refuted :
    ∃ (w : World) (C : Client) (P : Pending) (m : Msg), Reach cexCfg w ∧ getCl w 1 = some C ∧ P ∈ C.pendings ∧
      m ∈ P.gRecv ∧ m.gClient = 0 ∧ m.tag = 100 := by
  have hr : Reach cexCfg (run (World.init cexCfg) cexOps) := reach_run Reach.init cexOps (by decide)
  refine ⟨run (World.init cexCfg) cexOps, ?_⟩
  cases hC : getCl (run (World.init cexCfg) cexOps) 1 with
  | none => exact absurd hC (by decide)
  | some C =>
    have hp : ∃ P ∈ C.pendings, ∃ m ∈ P.gRecv, m.gClient = 0 ∧ m.tag = 100 := by
      have : (match getCl (run (World.init cexCfg) cexOps) 1 with
          | some C => C.pendings.any (fun P => P.gRecv.any (fun m => m.gClient == 0 && m.tag == 100))
          | none => false) = true := by decide
      rw [hC] at this
      simp only [List.any_eq_true, Bool.and_eq_true, beq_iff_eq] at this
      obtain ⟨P, hP, m, hm, h1, h2⟩ := this
      exact ⟨P, hP, m, hm, h1, h2⟩
    obtain ⟨P, hP, m, hm, h1, h2⟩ := hp
    exact ⟨C, P, m, hr, rfl, hP, hm, h1, h2⟩

/-- non-vacuity of (a): a history in which a response is received through the right pending response -/
example : ∃ (w : World) (C : Client) (P : Pending) (m : Msg), Reach cexCfg w ∧ getCl w 0 = some C ∧ P ∈ C.pendings ∧
    m ∈ P.gRecv ∧ m.gClient = 0 ∧ m.gStale = false := by
  let ops : List Op := [.cserver 0 none, .cclient 0 none, .send 0 0 1, .recvreq 0 0, .respond 0 0 7, .recvresp 0 0]
  have hr : Reach cexCfg (run (World.init cexCfg) ops) := reach_run Reach.init ops (by decide)
  refine ⟨run (World.init cexCfg) ops, ?_⟩
  cases hC : getCl (run (World.init cexCfg) ops) 0 with
  | none => exact absurd hC (by decide)
  | some C =>
    have : (match getCl (run (World.init cexCfg) ops) 0 with
        | some C => C.pendings.any (fun P => P.gRecv.any (fun m => m.gClient == 0 && m.gStale == false))
        | none => false) = true := by decide
    rw [hC] at this
    simp only [List.any_eq_true, Bool.and_eq_true, beq_iff_eq] at this
    obtain ⟨P, hP, m, hm, h1, h2⟩ := this
    exact ⟨C, P, m, hr, rfl, hP, hm, h1, h2⟩

/-! ### (b) per (request, server) stream: in send order, at most once -/

/-- (b) The responses one server sent for a request of one client, as handed out by a pending response, have
strictly increasing send numbers (`gSeq` = the response's number within its active request): they are
received in the order they were sent and none of them twice.  (Responses may be missing: a response
that meets a full buffer is dropped - without safe overflow - or evicts the oldest one - with safe
overflow; that is the documented rule, `try_send` in `zero_copy_connection/common.rs`.) -/
theorem responses_in_order_at_most_once {cfg : Cfg} {w : World} (h : Reach cfg w) {c : Nat} {C : Client} {P : Pending}
    (hC : getCl w c = some C) (hP : P ∈ C.pendings) (s c' : Nat) :
    (recvSeqs P.gRecv s c').Pairwise (· < ·) :=
  (inv_of_reach h).y.g3 c C P s c' hC hP

/-- (b) in the channel queue, too, the responses for one request are in send order -/
theorem response_queue_ordered {cfg : Cfg} {w : World} (h : Reach cfg w) {f : Pid} {c : Nat} {conn : Conn} {ch : Nat} {x : Chan}
    (hc : getConn w f (cid c) = some conn) (hx : conn.chans[ch]? = some x) (c' v : Nat) :
    (seqsOf x.sub c' v).Pairwise (· < ·) :=
  (inv_of_reach h).y.b1 f (cid c) conn ch x c' v hc hx rfl

/-- (b) a server never has two active requests that stem from the same request: each response stream has one source -/
theorem active_requests_distinct {cfg : Cfg} {w : World} (h : Reach cfg w) {s : Nat} {V : Server} (hV : getSv w s = some V) :
    V.actives.Pairwise (fun a b => ¬ (a.msg.client = b.msg.client ∧ a.msg.rid = b.msg.rid)) :=
  (inv_of_reach h).y.u1 s V hV

/-- non-vacuity of (b): two responses of one server received in order through one pending response -/
example : ∃ (w : World) (C : Client) (P : Pending), Reach { cexCfg with respBuf := 2, maxBorrow := 2 } w ∧
    getCl w 0 = some C ∧ P ∈ C.pendings ∧ recvSeqs P.gRecv 0 0 = [0, 1] := by
  let cfg : Cfg := { cexCfg with respBuf := 2, maxBorrow := 2 }
  let ops : List Op := [.cserver 0 none, .cclient 0 none, .send 0 0 1, .recvreq 0 0, .respond 0 0 7, .respond 0 0 8,
    .recvresp 0 0, .recvresp 0 0]
  have hr : Reach cfg (run (World.init cfg) ops) := reach_run Reach.init ops (by decide)
  refine ⟨run (World.init cfg) ops, ?_⟩
  cases hC : getCl (run (World.init cfg) ops) 0 with
  | none => exact absurd hC (by decide)
  | some C =>
    have : (match getCl (run (World.init cfg) ops) 0 with
        | some C => C.pendings.any (fun P => decide (recvSeqs P.gRecv 0 0 = [0, 1]))
        | none => false) = true := by decide
    rw [hC] at this
    simp only [List.any_eq_true, decide_eq_true_eq] at this
    obtain ⟨P, hP, h1⟩ := this
    exact ⟨C, P, hr, rfl, hP, h1⟩

/-! ### (c) requests: at most once per server, in send order -/

/-- (c) The requests of one client that a server handed out (`Server::receive` returned them as active
requests) have strictly increasing send numbers: each request is received at most once by each server
and in the order in which the requests were SENT (the order in which they were loaned does not matter). -/
theorem requests_once_in_order {cfg : Cfg} {w : World} (h : Reach cfg w) {s : Nat} {V : Server} (hV : getSv w s = some V)
    (c : Nat) : ((V.gRecvSeq.filter (fun e => e.1 = c)).map (·.2)).Pairwise (· < ·) :=
  (inv_of_reach h).x.cs.c1 s V c hV

/-- (c) ... and the request ids of the requests of one client a server handed out are pairwise different: no
request id comes twice -/
theorem requests_handed_out_distinct {cfg : Cfg} {w : World} (h : Reach cfg w) {s : Nat} {V : Server} (hV : getSv w s = some V)
    (c : Nat) : ((V.gRecvReq.filter (fun e => e.1 = c)).map (·.2)).Pairwise (· ≠ ·) :=
  (inv_of_reach h).x.cr.c1 s V c hV

/-- (c) ... and every request a server handed out was really issued by that client: its id was assigned by the
client's counter, its send number by the client's send counter -/
theorem requests_were_sent {cfg : Cfg} {w : World} (h : Reach cfg w) {s : Nat} {V : Server} (hV : getSv w s = some V) {c : Nat} :
    (∀ v, (c, v) ∈ V.gRecvReq → ∃ C, getCl w c = some C ∧ v < C.ridCtr) ∧
    (∀ q, (c, q) ∈ V.gRecvSeq → ∃ C, getCl w c = some C ∧ q < C.gSendCtr) :=
  ⟨fun v hv => (inv_of_reach h).x.c4 s V c v hV hv, fun q hq => (inv_of_reach h).x.c4s s V c q hV hq⟩

/-- (c) the request queue of every connection towards a server is strictly increasing in the send number
(nothing overtakes), its request ids are pairwise different (nothing is queued twice), and it holds only
requests written by the client at its sending end -/
theorem request_queue_ordered {cfg : Cfg} {w : World} (h : Reach cfg w) {f : Pid} {s : Nat} {conn : Conn} {ch : Nat} {x : Chan}
    (hc : getConn w f (sid s) = some conn) (hx : conn.chans[ch]? = some x) :
    (x.sub.map (·.msg.gSeq)).Pairwise (· < ·) ∧ (x.sub.map (·.msg.rid)).Pairwise (· ≠ ·) ∧
    ∀ e ∈ x.sub, f.srv = false ∧ e.msg.client = f.n :=
  ⟨(inv_of_reach h).x.cs.c2 f (sid s) conn ch x hc hx rfl, (inv_of_reach h).x.cr.c2 f (sid s) conn ch x hc hx rfl,
   fun e he => let r := (inv_of_reach h).e1 f (sid s) conn ch x e hc hx he rfl; ⟨r.1, r.2.1⟩⟩

/-- (c) a request id that is loaned and not yet sent is used by nothing else: by no other loan, no pending
response, no queued request and no request a server handed out.  (The id is assigned at loan time; this is what
makes "same request id = same request" survive loans that are kept, sent out of order or dropped.) -/
theorem loaned_request_ids_fresh {cfg : Cfg} {w : World} (h : Reach cfg w) {c : Nat} {C : Client} {q : QLoan}
    (hC : getCl w c = some C) (hq : q ∈ C.qloans) :
    q.rid < C.ridCtr ∧ C.qloans.Pairwise (fun a b => a.rid ≠ b.rid) ∧ (∀ P ∈ C.pendings, P.rid ≠ q.rid) ∧
    (∀ (t : Pid) (conn : Conn) (ch : Nat) (x : Chan) (e : Entry), getConn w (cid c) t = some conn → conn.chans[ch]? = some x →
      e ∈ x.sub → t.srv = true → e.msg.rid ≠ q.rid) ∧
    (∀ s V v, getSv w s = some V → (c, v) ∈ V.gRecvReq → v ≠ q.rid) :=
  let I := (inv_of_reach h).f
  ⟨I.f1 c C q hC hq, I.f2 c C hC, fun P hP => I.f3 c C q P hC hq hP,
   fun t conn ch x e => I.f4 c C q t conn ch x e hC hq, fun s V v => I.f5 c C q s V v hC hq⟩

/-- non-vacuity of (c): two requests of one client handed out by a server, in order -/
example : ∃ (w : World) (V : Server), Reach cexCfg w ∧ getSv w 0 = some V ∧ V.gRecvReq = [(0, 0), (0, 1)] ∧
    V.gRecvSeq = [(0, 0), (0, 1)] := by
  let ops : List Op := [.cserver 0 none, .cclient 0 none, .send 0 0 1, .recvreq 0 0, .dpending 0 0, .send 0 1 2,
    .dactive 0 0, .recvreq 0 1]
  have hr : Reach cexCfg (run (World.init cexCfg) ops) := reach_run Reach.init ops (by decide)
  refine ⟨run (World.init cexCfg) ops, ?_⟩
  cases hV : getSv (run (World.init cexCfg) ops) 0 with
  | none => exact absurd hV (by decide)
  | some V =>
    have : (match getSv (run (World.init cexCfg) ops) 0 with
        | some V => decide (V.gRecvReq = [(0, 0), (0, 1)] ∧ V.gRecvSeq = [(0, 0), (0, 1)])
        | none => false) = true := by decide
    rw [hV] at this
    exact ⟨V, hr, rfl, by simpa using this⟩

/-- non-vacuity of (c) with loans: two requests are loaned, the second loan (request id 1) is sent first - the
server hands them out in send order, request id 1 before request id 0 -/
example : ∃ (w : World) (V : Server), Reach { cexCfg with maxActive := 2, maxLoans := 2 } w ∧ getSv w 0 = some V ∧
    V.gRecvReq = [(0, 1), (0, 0)] ∧ V.gRecvSeq = [(0, 0), (0, 1)] := by
  let cfg : Cfg := { cexCfg with maxActive := 2, maxLoans := 2 }
  let ops : List Op := [.cserver 0 none, .cclient 0 none, .qloan 0 0, .qloan 0 1, .qsend 0 1 0 1, .qsend 0 0 1 2,
    .recvreq 0 0, .recvreq 0 1]
  have hr : Reach cfg (run (World.init cfg) ops) := reach_run Reach.init ops (by decide)
  refine ⟨run (World.init cfg) ops, ?_⟩
  cases hV : getSv (run (World.init cfg) ops) 0 with
  | none => exact absurd hV (by decide)
  | some V =>
    have : (match getSv (run (World.init cfg) ops) 0 with
        | some V => decide (V.gRecvReq = [(0, 1), (0, 0)] ∧ V.gRecvSeq = [(0, 0), (0, 1)])
        | none => false) = true := by decide
    rw [hV] at this
    exact ⟨V, hr, rfl, by simpa using this⟩

/-! ### (d) dropping either end closes the stream -/

/-- (d) After a pending response is dropped, the response channel of that request is closed on every
connection of the client's connection storage: no such connection carries the request id any more, and
an active request of such a server whose response slot leads to this client reports
`is_connected() == false`. -/
theorem dpending_disconnects (w : World) (c r : Nat) (C : Client) (P : Pending) (R : Rcv) (hC : getCl w c = some C)
    (hP : findPending C r = some P) (hR : getRcv w (cid c) = some R) (s k : Nat) (hk : (k, sid s) ∈ SlotMap.items R.storage) :
    (∀ (c' : Conn) (x' : Chan), getConn (opDPending w c r).1 (sid s) (cid c) = some c' → c'.chans[P.channel]? = some x' →
      x'.hasState P.rid = false) ∧
    (∀ connId, respondTarget (opDPending w c r).1 s connId = some (cid c) →
      activeConnected (opDPending w c r).1 s connId P.channel P.rid = false) :=
  ⟨fun c' x' hc hx => opDPending_closes w c r C P R hC hP hR s k hk c' x' hc hx,
   fun connId ht => opDPending_observed w c r C P R hC hP hR s k hk connId ht⟩

/-- (d) After an active request is dropped, the response channel of its request is closed on the
connection its response slot leads to: the pending response no longer sees this server as connected. -/
theorem dactive_disconnects (w : World) (s a : Nat) (V : Server) (A : Active) (hV : getSv w s = some V)
    (hA : findActive V a = some A) (t : Pid) (ht : respondTarget w s A.connId = some t)
    (c' : Conn) (x' : Chan) (hc : getConn (opDActive w s a).1 (sid s) t = some c')
    (hx : c'.chans[A.msg.channel]? = some x') : x'.hasState A.msg.rid = false :=
  opDActive_closes w s a V A hV hA t ht c' x' hc hx

/-- (d) `PendingResponse::is_connected` answers `true` only while some connection of the client's storage
still carries the request id on the request's channel -/
theorem connected_sound (w : World) (c r : Nat) (h : (opConnected w c r).2 = "true") :
    ∃ C P R k f conn x, getCl w c = some C ∧ findPending C r = some P ∧ getRcv w (cid c) = some R ∧
      (k, f) ∈ SlotMap.items R.storage ∧ getConn w f (cid c) = some conn ∧ conn.chans[P.channel]? = some x ∧
      x.hasState P.rid = true := by
  unfold opConnected at h
  split at h
  · simp at h
  · next C hC =>
    split at h
    · next P R hP hR =>
      simp only [] at h
      split at h
      · next hany =>
        obtain ⟨k, f, conn, x, hm, hc, hx, hg⟩ := rcvAnyChan_true _ _ _ _ _ hany
        exact ⟨C, P, R, k, f, conn, x, hC, hP, hR, hm, hc, hx, hg⟩
      · simp at h
    · simp at h

/-- non-vacuity of (d): the server sees the request connected, the client drops the pending response, the
server sees it disconnected; and the other way round -/
example :
    let w := run (World.init cexCfg) [.cserver 0 none, .cclient 0 none, .send 0 0 1, .recvreq 0 0]
    (step w (.aconnected 0 0)).2 = "true" ∧ (step (step w (.dpending 0 0)).1 (.aconnected 0 0)).2 = "false" ∧
    (step w (.connected 0 0)).2 = "true" ∧ (step (step w (.dactive 0 0)).1 (.connected 0 0)).2 = "false" := by decide

/-- (d) nothing sent later is delivered into a reused channel: whatever a (later) pending response
hands out carries its own request id - and the request id of an earlier request of this client is a
different one (`request_ids_unique`); a response sent for the earlier request after its pending response
was dropped stays in the channel until `PendingResponse::receive` of the next owner discards it. -/
theorem no_stale_delivery {cfg : Cfg} {w : World} (h : Reach cfg w) {c : Nat} {C : Client} {P : Pending} {m : Msg}
    (hC : getCl w c = some C) (hP : P ∈ C.pendings) (hm : m ∈ P.gRecv) : m.rid = P.rid :=
  (response_routed_partial h hC hP hm).1

/-! ### (e) limits -/

/-- (e) a client never has more pending responses than its active-request counter says, and that
counter never exceeds the client's `max_active_requests` -/
theorem active_requests_within_limit {cfg : Cfg} {w : World} (h : Reach cfg w) {c : Nat} {C : Client}
    (hC : getCl w c = some C) : C.pendings.length ≤ C.activeCnt ∧ C.activeCnt ≤ C.maxActive :=
  (inv_of_reach h).x.cl3 c C hC

/-- (e) the loans a client keeps are counted by its loan counter, which never exceeds `max_loaned_requests` -/
theorem loaned_requests_within_limit {cfg : Cfg} {w : World} (h : Reach cfg w) {c : Nat} {C : Client}
    (hC : getCl w c = some C) : C.qloans.length ≤ C.loanCnt ∧ C.loanCnt ≤ w.cfg.maxLoans :=
  (inv_of_reach h).f.f6 c C hC

/-- (e) at the limit a loan of a request is refused (`ExceedsMaxLoans`) without any side effect -/
theorem qloan_beyond_limit_refused (w : World) (c l : Nat) (C : Client) (hC : getCl w c = some C) (ha : C.alive = true)
    (hl : C.usedLoanLabels.contains l = false) (hlim : C.loanCnt = w.cfg.maxLoans) :
    step w (.qloan c l) = (w, "err:loan:ExceedsMaxLoans") := by
  show opQLoan w c l = _
  unfold opQLoan
  rw [hC]
  simp only [ha, hl]
  unfold clientLoan
  rw [hC]
  simp only [hlim]
  rfl

/-- (e) at `max_loaned_responses_per_request` a loan of a response is refused (`ExceedsMaxLoans`) without any side effect -/
theorem rloan_beyond_limit_refused (w : World) (s a l : Nat) (V : Server) (A : Active) (hV : getSv w s = some V)
    (hA : findActive V a = some A) (hl : V.usedLoanLabels.contains l = false) (hlim : V.loanPerReq ≤ A.loans) :
    step w (.rloan s a l) = (w, "err:loan:ExceedsMaxLoans") := by
  show opRLoan w s a l = _
  unfold opRLoan
  rw [hV]
  simp only [hA, hl]
  unfold activeLoan
  rw [if_pos hlim]
  rfl

/-- (e) a request sent beyond the limit is refused (`ExceedsMaxActiveRequests`, or an earlier loan error)
without side effects on requests: no pending response comes into being, no counter moves, and no queue of
any connection grows (the only thing that happens is that returned chunks are collected) -/
theorem send_beyond_limit_refused (w : World) (c r tag : Nat) (C : Client) (hC : getCl w c = some C)
    (hlim : C.maxActive ≤ C.activeCnt) :
    ConnsLe w (step w (.send c r tag)).1 ∧
    (∀ c' C', getCl (step w (.send c r tag)).1 c' = some C' → ∃ C0, getCl w c' = some C0 ∧ C'.pendings = C0.pendings ∧
      C'.activeCnt = C0.activeCnt) ∧
    ((step w (.send c r tag)).2 = "none" ∨ (step w (.send c r tag)).2 = "dup" ∨ (step w (.send c r tag)).2 = "PANIC" ∨
     (step w (.send c r tag)).2 = "err:loan:ExceedsMaxLoans" ∨ (step w (.send c r tag)).2 = "err:loan:OutOfMemory" ∨
     (step w (.send c r tag)).2 = "err:send:ExceedsMaxActiveRequests") :=
  opSend_at_limit w c r tag C hC hlim

/-- (e) no queue of any connection - request or response - ever holds more than the buffer size its
connection was created with (`max_response_buffer_size` for response channels: `clientRcv` /
`serverForceUpdate` pass `cfg.respBuf`; `max_active_requests_per_client` for request connections) -/
theorem buffer_size_respected {cfg : Cfg} {w : World} (h : Reach cfg w) {f t : Pid} {conn : Conn} {ch : Nat} {x : Chan}
    (hc : getConn w f t = some conn) (hx : conn.chans[ch]? = some x) : x.sub.length ≤ max conn.cap 1 :=
  (inv_of_reach h).y.q1 f t conn ch x hc hx

/-- (b / e) the documented buffer rule of `try_send`: below the buffer size the element is appended; at the
buffer size it is refused without safe overflow and replaces the oldest element with safe overflow - nothing
else is ever lost -/
theorem try_send_rule (x : Chan) (cap : Nat) (ov : Bool) (e : Entry) (hcap : 1 ≤ cap) :
    (x.sub.length < cap → (x.trySend cap ov e).1.sub = x.sub ++ [e]) ∧
    (x.sub.length = cap → ov = false → (x.trySend cap ov e).1.sub = x.sub ∧ (x.trySend cap ov e).2 = .full) ∧
    (x.sub.length = cap → ov = true → (x.trySend cap ov e).1.sub = x.sub.tail ++ [e]) := by
  refine ⟨fun hlt => ?_, fun heq hov => ?_, fun heq hov => ?_⟩
  · unfold Chan.trySend
    have h1 : ¬ ((!ov && decide (x.sub.length ≥ cap)) = true) := by simp; intro _; omega
    rw [if_neg h1]
    simp only []
    have h2 : ¬ (x.sub.length ≥ cap) := by omega
    rw [if_neg h2]
  · unfold Chan.trySend
    have h1 : (!ov && decide (x.sub.length ≥ cap)) = true := by simp [hov]; omega
    rw [if_pos h1]
    exact ⟨rfl, rfl⟩
  · unfold Chan.trySend
    have h1 : ¬ ((!ov && decide (x.sub.length ≥ cap)) = true) := by simp [hov]
    rw [if_neg h1]
    simp only []
    have h2 : x.sub.length ≥ cap := by omega
    rw [if_pos h2]
    cases hs : x.sub with
    | nil => rw [hs] at heq; simp at heq; omega
    | cons old rest =>
      simp only [List.tail_cons]
      split <;> rfl

/-- (e) the borrow limit is enforced per connection and channel: at the limit `receive_from_connection`
hands out nothing and changes nothing -/
theorem borrow_limit_enforced_per_connection (w : World) (me : Pid) (R : Rcv) (key ch : Nat) (f : Pid) (conn : Conn) (x : Chan)
    (hk : smGet R.storage key = some f) (hc : getConn w f me = some conn) (hx : conn.chans[ch]? = some x)
    (hlim : conn.maxBorrow ≤ x.borrow) : recvFromConn w me R key ch = (w, .maxBorrow) := by
  unfold recvFromConn
  rw [hk]
  simp only [hc, Conn.chan, hx]
  rw [if_pos hlim]

/-- (e, natural statement) FALSE: `max_borrowed_responses_per_pending_response` is not a limit per pending
response - with two servers a client holds two responses received through one pending response although
the limit is 1 (the counter is per connection).
    theorem borrow_limit_per_pending : Reach cfg w → getCl w c = some C → C.pendings = [P] → C.held.length ≤ cfg.maxBorrow -/
theorem borrow_limit_per_pending_refuted :
    ∃ (w : World) (C : Client) (P : Pending), Reach { cexCfg with maxServers := 2 } w ∧ getCl w 0 = some C ∧ C.pendings = [P] ∧
      C.held.length = 2 ∧ w.cfg.maxBorrow = 1 := by
  let cfg : Cfg := { cexCfg with maxServers := 2 }
  let ops : List Op := [.cserver 0 none, .cserver 1 none, .cclient 0 none, .send 0 0 1, .recvreq 0 0, .recvreq 1 1,
    .respond 0 0 7, .respond 1 1 8, .recvresp 0 0, .recvresp 0 0]
  have hr : Reach cfg (run (World.init cfg) ops) := reach_run Reach.init ops (by decide)
  refine ⟨run (World.init cfg) ops, ?_⟩
  cases hC : getCl (run (World.init cfg) ops) 0 with
  | none => exact absurd hC (by decide)
  | some C =>
    have : (match getCl (run (World.init cfg) ops) 0 with
        | some C => decide (C.pendings.length = 1 ∧ C.held.length = 2)
        | none => false) = true := by decide
    rw [hC] at this
    simp only [decide_eq_true_eq] at this
    obtain ⟨P, hP⟩ := List.length_eq_one_iff.mp this.1
    exact ⟨C, P, hr, rfl, hP, this.2, by decide⟩

/-- non-vacuity of (e): the documented error, reached -/
example : (step (run (World.init cexCfg) [.cserver 0 none, .cclient 0 none, .send 0 0 1]) (.send 0 1 2)).2
    = "err:send:ExceedsMaxActiveRequests" := by decide

/-! ### the two repaired defects (901028c, 1fb407e): positive statements -/

/-- (e, 1fb407e) a failed loan of a response - `ExceedsMaxLoans` or `OutOfMemory` - leaves every active
request of the server, in particular its loan counter, unchanged: the request can be answered as soon as
memory is available again -/
theorem failed_loan_leaves_loan_counter (w : World) (s a tag : Nat) (V : Server) (hV : getSv w s = some V)
    (hout : (step w (.respond s a tag)).2 = "err:loan:OutOfMemory" ∨ (step w (.respond s a tag)).2 = "err:loan:ExceedsMaxLoans") :
    ∃ V', getSv (step w (.respond s a tag)).1 s = some V' ∧ V'.actives = V.actives :=
  opRespond_failed_loan w s a tag V hV hout

/-- (e, 1fb407e) the same for a response that is loaned to be sent later -/
theorem failed_rloan_leaves_loan_counter (w : World) (s a l : Nat) (V : Server) (hV : getSv w s = some V)
    (hout : (step w (.rloan s a l)).2 = "err:loan:OutOfMemory" ∨ (step w (.rloan s a l)).2 = "err:loan:ExceedsMaxLoans") :
    ∃ V', getSv (step w (.rloan s a l)).1 s = some V' ∧ V'.actives = V.actives :=
  opRLoan_failed_loan w s a l V hV hout

/-- (901028c) a received chunk that is given back - what `Server::receive` now does with every request it
skips, also the one of a vanished client - restores the borrow counter of its channel; the chunk travels
home through the completion queue -/
theorem skipped_request_released (w : World) (me : Pid) (R : Rcv) (key ch : Nat) (f : Pid) (c : Conn) (x : Chan) (e : Entry)
    (rest : List Entry) (hR : getRcv w me = some R) (hk : smGet R.storage key = some f) (hc : getConn w f me = some c)
    (hx : c.chans[ch]? = some x) (hb : x.borrow < c.maxBorrow) (hs : x.sub = e :: rest)
    (hroom : x.comp.length < c.cap + c.maxBorrow + 1) :
    ∃ h m, (recvFromConn w me R key ch).2 = .some h m ∧ m = e.msg ∧
      ∃ c' x', getConn (rcvRelease (recvFromConn w me R key ch).1 me h) f me = some c' ∧ c'.chans[ch]? = some x' ∧
        x'.borrow = x.borrow ∧ x'.comp = x.comp ++ [e.chunk] ∧ x'.sub = rest :=
  recv_then_release w me R key ch f c x e rest hR hk hc hx hb hs hroom

/-- regression of 901028c (history `CEX_LEAK` of the check): a server without fire-and-forget skips the request
of a vanished client, later holds one request of another vanished client with an expired-connection buffer
of 1 - and `update_connections` no longer ends in the fatal panic -/
example :
    let ops : List Op := [.cserver 0 none, .cclient 0 none, .send 0 0 1, .updS 0, .dpending 0 0, .dclient 0, .recvreq 0 0,
      .cclient 1 none, .send 1 1 2, .recvreq 0 1, .dpending 1 1, .dclient 1]
    allOk (World.init cexCfg) ops = true ∧ (step (run (World.init cexCfg) ops) (.updS 0)).2 = "ok" := by decide

/-- configuration and history of the regression case of 1fb407e: four answered requests whose responses are
never fetched use up the server's 8 chunks -/
def loanCfg : Cfg :=
  { maxClients := 1, maxServers := 2, maxActive := 1, respBuf := 2, maxBorrow := 1, ovReq := false, ovResp := true,
    ff := false, maxLoans := 1, cExpired := 2, sExpired := 1 }

def loanRound (r a t : Nat) : List Op :=
  [.send 0 r t, .recvreq 0 a, .respond 0 a (t + 1), .respond 0 a (t + 2), .dpending 0 r, .dactive 0 a]

def loanOps : List Op :=
  [.cserver 0 (some 1), .cclient 0 none] ++ loanRound 1 1 10 ++ loanRound 2 2 20 ++ loanRound 3 3 30 ++ loanRound 4 4 40 ++
    [.send 0 5 50, .recvreq 0 5]

/-- regression of 1fb407e: after a loan that failed for lack of memory the active request is not stuck - the
next loan fails for the same reason, not with `ExceedsMaxLoans` -/
example :
    (step (run (World.init loanCfg) loanOps) (.respond 0 5 51)).2 = "err:loan:OutOfMemory" ∧
    (step (step (run (World.init loanCfg) loanOps) (.respond 0 5 51)).1 (.respond 0 5 52)).2 = "err:loan:OutOfMemory" := by
  decide

/-! ### history classes the differential run reaches through dedicated generators (`wrap`, `preloan`) -/

/-- channel-id wrap-around: the server still holds the active request of the client's first request (channel 0)
when, three requests later, the client's channel ids have wrapped and a new request reuses channel 0.  The new
request is connected, and dropping the OLD active request (same channel, other request id) does not disconnect it. -/
example :
    let cfg : Cfg := { cexCfg with maxClients := 1 }
    let w := run (World.init cfg) [.cserver 0 none, .cclient 0 none, .send 0 0 1, .recvreq 0 0, .dpending 0 0,
      .send 0 1 2, .dpending 0 1, .send 0 2 3, .dpending 0 2, .send 0 3 4]
    (step w (.connected 0 3)).2 = "true" ∧ (step (step w (.dactive 0 0)).1 (.connected 0 3)).2 = "true" ∧
    (step (step (step w (.respond 0 0 9)).1 (.dactive 0 0)).1 (.recvresp 0 3)).2 = "none" := by decide

/-- responses loaned up front: four responses are loaned for one request (response buffer 1, max borrowed 1), then
sent one by one while the client receives and releases each; the fifth response still arrives (every returned
chunk was taken back before the next delivery) -/
example :
    let cfg : Cfg := { cexCfg with maxClients := 1 }
    let round (l t : Nat) : List Op := [.rsend 0 l t, .recvresp 0 0, .dresp 0 0]
    let w := run (World.init cfg) ([.cserver 0 (some 4), .cclient 0 none, .send 0 0 1, .recvreq 0 0,
      .rloan 0 0 0, .rloan 0 0 1, .rloan 0 0 2, .rloan 0 0 3] ++ round 0 10 ++ round 1 11 ++ round 2 12 ++ round 3 13)
    (step w (.recvresp 0 0)).2 = "none" ∧ (step (step w (.respond 0 0 99)).1 (.recvresp 0 0)).2 = "some:0:99" := by decide

end Iox2.C11
