import Iox2.Model.ConnState
import Driver.Trace
namespace Driver.ConnT
open Iox2.ConnState Iox2.Sched Driver Driver.TraceD

def parseRole (s : String) : Role := if s = "sender" then .sender else .receiver

def parseCmd : List String → Option Cmd
  | [op, p] =>
      if op = "create_sender" then some (.create .sender (nat! p))
      else if op = "create_receiver" then some (.create .receiver (nat! p))
      else none
  | [op] =>
      match op.splitOn "_" with
      | ["drop", r] => some (.drop (parseRole r))
      | ["abandon", r] => some (.abandon (parseRole r))
      | ["remove", r] => some (.remove (parseRole r))
      | ["removeunchecked", r] => some (.removeUnchecked (parseRole r))
      | _ => none
  | _ => none

def tcomp : TComp :=
  { σ := Sh, τ := Th, sys := sys
    load := fun p => { sh := {}, th := p.threads.map fun ops => Th.init (ops.filterMap parseCmd) }
    final := fun c => s!"destroyed={c.sh.destroyed.length} stateAtDestroy={c.sh.stateAtDestroy}" }

/-- `crit` records are printed by the model as `ret crit …` events; bring them into the trace's form -/
def fixCrit (s : String) : String :=
  joinWith "\n" ((s.splitOn "\n").map fun l => l.replace " ret crit " " crit ")

/-- the model compares one parameter that stands for all compared settings; each program uses one alternative
setting (`alt=k` in the header) next to the base, so a mismatch is always about that setting -/
def errName (alt : Nat) : String :=
  match alt with
  | 4 => "IncompatibleMaxBorrowedSamplesPerChannelSetting"
  | 5 => "IncompatibleOverflowSetting"
  | 6 => "IncompatibleNumberOfSamples"
  | 7 => "IncompatibleNumberOfSegments"
  | 8 => "IncompatibleNumberOfChannels"
  | _ => "IncompatibleBufferSize"

def comp : Comp :=
  let c := mkComp tcomp
  { σ := c.σ × Nat, init := (c.init, 3),
    step := fun st t =>
      let alt := match t with
        | "prog" :: _ => hget ((parseProg (joinWith " " t)).header) "alt"
        | _ => st.2
      let alt := if alt = 0 then 3 else alt
      let (st', out) := c.step st.1 t
      ((st', alt), (fixCrit out).replace "err:IncompatibleBufferSize" ("err:" ++ errName alt)) }
end Driver.ConnT
