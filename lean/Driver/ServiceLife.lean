import Iox2.Model.ServiceLife
import Driver.Util
namespace Driver.ServiceLifeD
open Driver

def stepLine (s : Unit) (_t : List String) : Unit × String := (s, "unimplemented")

def comp : Comp := { σ := Unit, init := (), step := stepLine }
end Driver.ServiceLifeD
