import Iox2.Model.ServiceLife
import Iox2.Model.ServiceLifeConc
import Driver.Util
/- line protocol of the `svclife` component (harness: harness/src/svc/world.rs) -/
namespace Driver.ServiceLifeD
open Driver Iox2.ServiceLife

def patOf (s : String) : Pat :=
  if s = "ps" then .ps else if s = "ev" then .ev else if s = "rr" then .rr else .bb

def patName : Pat → String
  | .ps => "ps" | .ev => "ev" | .rr => "rr" | .bb => "bb"

/-- value of `key=` among the tokens -/
def kvGet (toks : List String) (key : String) : Option String :=
  (toks.filterMap (fun t => match t.splitOn "=" with
    | [k, v] => if k = key then some v else none
    | _ => none)).head?

def kvAll (toks : List String) (key : String) : List String :=
  toks.filterMap (fun t => match t.splitOn "=" with
    | [k, v] => if k = key then some v else none
    | _ => none)

def isOptField (p : Pat) (i : Nat) : Bool := p == .ev && i ≥ 4

def parseVal (p : Pat) (i : Nat) (v : String) : Nat :=
  if isOptField p i then (if v = "-" then 0 else nat! v + 1) else nat! v

def typeOfTok (t : String) : TypeDetail :=
  if t = "u64" then ⟨0, "u64", 8, 8⟩
  else if t = "u32" then ⟨0, "u32", 4, 4⟩
  else if t = "su8" then ⟨1, "u8", 1, 1⟩
  else if t = "unit" then ⟨0, "()", 0, 1⟩
  else match ((t.drop 1).toString.splitOn "_") with
    | [nm, sz, al] => ⟨0, nm, nat! sz, nat! al⟩
    | [nm, sz, al, _] => ⟨1, nm, nat! sz, nat! al⟩
    | _ => ⟨0, t, 0, 1⟩

def withAlign (t : TypeDetail) (a : Option String) : TypeDetail :=
  match a with
  | some v => { t with align := max t.align (nat! v) }
  | none => t

def parseReq (p : Pat) (toks : List String) : Req :=
  let fs := fieldsOf p
  let vals := (List.range fs.length).map (fun i =>
    match fs[i]? with
    | some f => (kvGet toks f.key).map (parseVal p i)
    | none => none)
  let ty (k dflt : String) : TypeDetail := typeOfTok ((kvGet toks k).getD dflt)
  let types := match p with
    | .ps => [withAlign (ty "t" "u64") (kvGet toks "al"), ty "uh" "unit"]
    | .rr => [withAlign (ty "qt" "u64") (kvGet toks "qal"), withAlign (ty "pt" "u64") (kvGet toks "pal")]
    | .bb => [ty "kt" "u64"]
    | .ev => []
  let attrs := (kvAll toks "ad").filterMap (fun kv => match kv.splitOn ":" with
    | [k, v] => some (nat! k, nat! v)
    | _ => none)
  { vals := vals, types := types, attrs := attrs, keys := (kvAll toks "ak").map nat!,
    -- blackboard: `e` entries with keys 0..e-1, `dup=1` adds key 0 once more (a duplicate only if it is there already)
    entries := ((kvGet toks "e").map nat!).getD 1 + (if (kvGet toks "dup") == some "1" then 1 else 0),
    lateFail := (match p with
      | .bb => (kvGet toks "dup") == some "1" && ((kvGet toks "e").map nat!).getD 1 ≥ 1
      | .ev => false
      | _ => types.any (fun t => t.name == "iox2::Flatbuffer") && (p == .rr || (types.head?.map (·.name)) == some "iox2::Flatbuffer")) }

def showType (t : TypeDetail) : String :=
  (if t.variant = 0 then "F" else "D") ++ ":" ++ t.name ++ ":" ++ toString t.size ++ ":" ++ toString t.align

def showVal (p : Pat) (i v : Nat) : String :=
  if isOptField p i then (if v = 0 then "-" else toString (v - 1)) else toString v

def showSettings (p : Pat) (c : Settings) : String :=
  let fs := fieldsOf p
  let vs := (List.range fs.length).map (fun i => ((fs[i]?.map (·.key)).getD "?") ++ "=" ++ showVal p i (c.vals.getD i 0))
  let tk : List String := match p with
    | .ps => ["t", "uh"] | .rr => ["qt", "pt"] | .bb => ["kt"] | .ev => []
  let ts := (List.range tk.length).map (fun i => (tk.getD i "?") ++ "=" ++ showType (c.types.getD i default))
  let ats := "a=[" ++ joinWith "+" (c.attrs.map (fun a => "k" ++ toString a.1 ++ "=v" ++ toString a.2)) ++ "]"
  joinWith "," (vs ++ ts ++ [ats])

def insertStr (x : String) : List String → List String
  | [] => [x]
  | y :: ys => if x ≤ y then x :: y :: ys else y :: insertStr x ys

def sortStr (xs : List String) : List String := xs.foldl (fun acc x => insertStr x acc) []

def wrapName : Pat → String
  | .ps => "PublishSubscribe" | .ev => "Event" | .rr => "RequestResponse" | .bb => "Blackboard"

def showOut (p : Pat) : Out → String
  | .ok => "ok"
  | .okCfg q c => "ok:" ++ showSettings q c
  | .err 0 e => "err:" ++ e
  | .err 1 e => "err:" ++ wrapName p ++ "OpenError(" ++ e ++ ")"
  | .err _ e => "err:" ++ wrapName p ++ "CreateError(" ++ e ++ ")"
  | .dup => "dup" | .none => "none" | .noNode => "no-node" | .noOoc => "err:no-open-or-create"
  | .badKind => "err:bad-kind" | .panic => "PANIC"
  | .bool b => if b then "true" else "false"
  | .regs l => "[" ++ joinWith "," ((sortNat l).map toString) ++ "]"
  | .cfg q c => showSettings q c
  | .list l =>
    if l.isEmpty then "-" else
    joinWith "|" (sortStr (l.map (fun (k, n, c) => "s" ++ toString k.s ++ ":" ++ patName k.p ++ ":n" ++ toString n ++ ":" ++ showSettings k.p c)))
  | .files svc tags bb =>
    let es := [("blackboard_data", bb), ("blackboard_mgmt", bb), ("dynamic", svc), ("service", svc), ("service_tag", tags)]
    let v := (es.filter (fun e => e.2 ≠ 0)).map (fun e => e.1 ++ "=" ++ toString e.2)
    if v.isEmpty then "-" else joinWith "," v

def kindCode (s : String) : Nat :=
  if s = "pub" then 0 else if s = "sub" then 1 else if s = "not" then 2 else if s = "lis" then 3
  else if s = "cli" then 4 else if s = "srv" then 5 else if s = "rd" then 6 else if s = "wr" then 7 else 99

def parse (t : List String) : Option (Op × Pat) :=
  match t with
  | ["node", n] => some (.node (nat! n), .ps)
  | ["dnode", n] => some (.dnode (nat! n), .ps)
  | "create" :: n :: s :: h :: p :: kv => some (.create (nat! n) (nat! s) (nat! h) (patOf p) (parseReq (patOf p) kv), patOf p)
  | "open" :: n :: s :: h :: p :: kv => some (.open_ (nat! n) (nat! s) (nat! h) (patOf p) (parseReq (patOf p) kv), patOf p)
  | "ooc" :: n :: s :: h :: p :: kv => some (.ooc (nat! n) (nat! s) (nat! h) (patOf p) (parseReq (patOf p) kv), patOf p)
  | ["drop", h] => some (.drop (nat! h), .ps)
  | ["port", h, pl, k] => some (.port (nat! h) (nat! pl) (kindCode k), .ps)
  | ["dport", pl] => some (.dport (nat! pl), .ps)
  | ["settings", h] => some (.settings (nat! h), .ps)
  | ["nodes", h] => some (.regs (nat! h), .ps)
  | ["exists", s, p] => some (.exists_ (nat! s) (patOf p), .ps)
  | ["list"] => some (.list, .ps)
  | ["ls"] => some (.ls, .ps)
  | ["end"] => some (.end_, .ps)
  | _ => none

def stepLine (w : Option World) (t : List String) : Option World × String :=
  match t with
  | "new" :: _ => (some World.init, "ok")
  | ["inv"] => (w, match w with | some w => (if invB w then "inv-ok" else "inv-VIOLATED") | none => "no-world")
  | "conc" :: rest => (w, Iox2.ServiceLifeConc.driverLine rest)
  | _ =>
    match w with
    | none => (none, "no-world")
    | some w =>
      match parse t with
      | none => (some w, "bad-op")
      | some (op, p) => let (w', out) := step w op; (some w', showOut p out)

def comp : Comp := { σ := Option World, init := none, step := stepLine }
end Driver.ServiceLifeD
