/- line-protocol helpers shared by all component drivers (core only) -/
namespace Driver

def tokens (line : String) : List String :=
  (line.trimAscii.toString.splitOn " ").filter (· ≠ "")

def insertSorted (x : Nat) : List Nat → List Nat
  | [] => [x]
  | y :: ys => if x ≤ y then x :: y :: ys else y :: insertSorted x ys

def sortNat (xs : List Nat) : List Nat := xs.foldl (fun acc x => insertSorted x acc) []

def joinWith (sep : String) : List String → String
  | [] => ""
  | [x] => x
  | x :: xs => x ++ sep ++ joinWith sep xs

def showDrops (ids : List Nat) : String :=
  "d=[" ++ joinWith "," ((sortNat ids).map toString) ++ "]"

def nat! (s : String) : Nat := s.toNat?.getD 0

structure Comp where
  σ : Type
  init : σ
  step : σ → List String → σ × String

end Driver
