import Iox2.Model.EventProto
import Driver.Util
/-
The step-level event model run sequentially: each call is executed to completion by its thread
(thread 0 = notifier, thread 1 = listener); the answers must equal those of the real event back-ends.
-/
namespace Driver.EventSeqD
open Iox2.EventProto Iox2.Sched Driver

/-- run thread `i` until it is idle again; returns the text of its `ret` event -/
def runOp (c : Cfg Sh Th) (i : Nat) : Nat → Cfg Sh Th × String → Cfg Sh Th × String
  | 0, r => (r.1, r.2)
  | fuel + 1, (c', out) =>
    match sys.stepAt c' i with
    | none => (c', out)
    | some (c'', evs) =>
      let out' := evs.foldl (fun o e => match e with | .ret t => t | _ => o) out
      runOp c i fuel (c'', out')

def setTodo (c : Cfg Sh Th) (i : Nat) (cmd : Cmd) : Cfg Sh Th :=
  { c with th := c.th.modify i fun t => { t with todo := [cmd] } }

def stepLine (st : Option (Cfg Sh Th × Nat)) (t : List String) : Option (Cfg Sh Th × Nat) × String :=
  match t with
  | ["new", _backend, counting, nids] =>
      let n := nat! nids
      (some ({ sh := Sh.init (counting ≠ "0") n 0 false, th := [Th.init [], Th.init []] }, n), "ok")
  | _ =>
    match st with
    | none => (none, "no-event")
    | some (c, n) =>
      match t with
      | ["notify", id] =>
          if nat! id ≥ n then (st, "err:EventIdOutOfBounds") else
          let (c', out) := runOp c 0 10000 (setTodo c 0 (.notify (nat! id)), "")
          (some (c', n), (out.drop 7).toString)        -- "notify ok"
      | ["try_wait"] =>
          let (c', out) := runOp c 1 10000 (setTodo c 1 .tryWait, "")
          let r := (out.drop 5).toString               -- "wait 0:1,2:1"
          (some (c', n), if r.isEmpty then "-" else r)
      | _ => (st, "bad-op")

def comp : Comp := { σ := Option (Cfg Sh Th × Nat), init := none, step := stepLine }
end Driver.EventSeqD
