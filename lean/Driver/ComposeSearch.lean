/-
Failing-schedule search for the composition models, run with `lake env lean --run Driver/ComposeSearch.lean`.
For every program built from the GENERATED step lists (`Iox2/Gen/ApiOrder.lean`) it enumerates all
schedules up to a fixed depth and prints the first one that violates the property (support for the
replay only: the theorems of `Props/C12Compose.lean` / `Props/C11Compose.lean` decide).
Output: one line per program, `<name> <program> ok <schedules>` or `<name> <program> FAIL <schedule> => <observation>`.
-/
import Iox2.Gen.ApiOrder
import Iox2.Proof.ComposePS
open Iox2.Compose Iox2.Gen.ApiOrder

namespace BBSearch
open Iox2.Compose.BB

/-- schedules over {writer, reader 0, reader 1}; depth-first, first violation -/
partial def dfs (prog : List WOp) (depth : Nat) (s : St) (sched : List String) (count : IO.Ref Nat) : IO (Option (List String × String)) := do
  count.modify (· + 1)
  for i in [0, 1] do
    if badGot (s.rd i).got then
      return some (sched.reverse, s!"reader {i} returned {repr (s.rd i).got}")
  if depth = 0 then return none
  let moves : List (String × St) := [("w", wstep prog s), ("r0", rstep s 0), ("r1", rstep s 1)]
  for (n, t) in moves do
    match ← dfs prog (depth - 1) t (n :: sched) count with
    | some r => return some r
    | none => pure ()
  return none

def run (name : String) (prog : List WOp) (depth : Nat) : IO Bool := do
  let count ← IO.mkRef 0
  match ← dfs prog depth St.init [] count with
  | some (sched, obs) =>
      IO.println s!"{name} {repr prog} FAIL {String.intercalate " " sched} => {obs}"
      return false
  | none =>
      IO.println s!"{name} {repr prog} ok {← count.get}"
      return true
end BBSearch

namespace RRSearch
open Iox2.Compose.RR

def bad (s : St) : Option Nat := s.discarded.find? (fun r => !s.dropped.contains r)

partial def dfs (prog : List COp) (depth : Nat) (s : St) (sched : List String) (count : IO.Ref Nat) : IO (Option (List String × String)) := do
  count.modify (· + 1)
  match bad s with
  | some r => return some (sched.reverse, s!"request {r} dropped silently by the server while its pending response is alive (discarded {s.discarded}, dropped by the client {s.dropped})")
  | none => pure ()
  if depth = 0 then return none
  let moves : List (String × St) :=
    [("begin0", cbegin prog s 0), ("begin1", cbegin prog s 1), ("cstep", cstep s), ("drop0", cdrop s 0), ("drop1", cdrop s 1), ("pop", spop s), ("judge", sjudge s)]
  for (n, t) in moves do
    match ← dfs prog (depth - 1) t (n :: sched) count with
    | some r => return some r
    | none => pure ()
  return none

def run (name : String) (prog : List COp) (depth : Nat) : IO Bool := do
  let count ← IO.mkRef 0
  match ← dfs prog depth St.init [] count with
  | some (sched, obs) =>
      IO.println s!"{name} {repr prog} FAIL {String.intercalate " " sched} => {obs}"
      return false
  | none =>
      IO.println s!"{name} {repr prog} ok {← count.get}"
      return true
end RRSearch

namespace PSSearch
open Iox2.Compose.PS

/-- a sample received twice or out of order -/
def bad : List Nat → Bool
  | a :: b :: r => decide (b ≤ a) || bad (b :: r)
  | _ => false

partial def dfs (prog : List POp) (depth : Nat) (s : St) (sched : List String) (count : IO.Ref Nat) : IO (Option (List String × String)) := do
  count.modify (· + 1)
  if bad s.queue then return some (sched.reverse, s!"the subscriber received {s.queue}")
  if depth = 0 then return none
  let moves : List (String × St) := [("begin", pbegin prog s), ("pstep", pstep s), ("register", sregister s)]
  for (n, t) in moves do
    match ← dfs prog (depth - 1) t (n :: sched) count with
    | some r => return some r
    | none => pure ()
  return none

def run (name : String) (prog : List POp) (depth : Nat) : IO Bool := do
  let count ← IO.mkRef 0
  match ← dfs prog depth {} [] count with
  | some (sched, obs) =>
      IO.println s!"{name} {repr prog} FAIL {String.intercalate " " sched} => {obs}"
      return false
  | none =>
      IO.println s!"{name} {repr prog} ok {← count.get}"
      return true
end PSSearch

def main (args : List String) : IO UInt32 := do
  let d1 := (args[0]? >>= String.toNat?).getD 10
  let d2 := (args[1]? >>= String.toNat?).getD 7
  let mut ok := true
  let a ← BBSearch.run "bb.update_with_copy" (BB.updateProg entryValueUninit_new entryValueUninit_updateWithCopy) d1
  let b ← BBSearch.run "bb.assume_init_and_update" (BB.updateProg entryValueUninit_new (.writeValue :: entryValueUninit_assumeInitAndUpdate)) d1
  let c ← BBSearch.run "bb.internal_update" (BB.updateProg internalEntryValueUninit_new (.writeValue :: internalEntryValueUninit_update)) d1
  let d ← RRSearch.run "rr.send_request" (RR.expand client_sendRequest) d2
  let e ← PSSearch.run "ps.send_sample" (PS.expand publisher_sendSample) d1
  ok := a && b && c && d && e
  return if ok then 0 else 1
