import Iox2.Base.Crash
import Iox2.Model.RobustIndexSet
import Iox2.Model.Container
import Driver.RuisT
import Driver.ContainerT
/-
C04 (shared-memory level): the index set and the registry container with processes that die at an
arbitrary atomic step.  Thread programs may start with `die_in k`: the thread dies after k more
visible steps.
-/
namespace Driver.CrashT
open Iox2.Sched Driver Driver.TraceD

def fuseOf (ops : List (List String)) : Option Nat :=
  match ops with
  | ["die_in", k] :: _ => some (nat! k)
  | _ => none

def ruisSys : Sys Iox2.RUIS.RSh (CTh Iox2.RUIS.Th) :=
  Iox2.RUIS.sys.withCrash fun s t => { s with deadOwners := t.owner :: s.deadOwners }

def ruisX : TComp :=
  { σ := Iox2.RUIS.RSh, τ := CTh Iox2.RUIS.Th, sys := ruisSys
    load := fun p =>
      let c := RuisT.tcomp.load p
      { sh := c.sh, th := (c.th.zip p.threads).map fun (t, ops) => { inner := t, fuse := fuseOf ops } }
    final := fun c => RuisT.tcomp.final { sh := c.sh, th := c.th.map (·.inner) } }

def contSys : Sys Iox2.Container.Sh (CTh Iox2.Container.Th) :=
  Iox2.Container.sys.withCrash fun s t => { s with r := { s.r with deadOwners := t.owner :: s.r.deadOwners } }

def contX : TComp :=
  { σ := Iox2.Container.Sh, τ := CTh Iox2.Container.Th, sys := contSys
    load := fun p =>
      let c := ContainerT.tcomp.load p
      { sh := c.sh, th := (c.th.zip p.threads).map fun (t, ops) => { inner := t, fuse := fuseOf ops } }
    final := fun c => ContainerT.tcomp.final { sh := c.sh, th := c.th.map (·.inner) } }

def ruisComp : Comp := mkComp ruisX
def contComp : Comp := mkComp contX
end Driver.CrashT
