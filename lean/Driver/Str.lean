import Iox2.Model.Str
import Driver.Util
namespace Driver.StrD
open Iox2.Str Driver

def hexDigit (n : Nat) : Char := if n < 10 then Char.ofNat (48 + n) else Char.ofNat (87 + n)
def hexByte (b : Nat) : String := String.ofList [hexDigit (b / 16), hexDigit (b % 16)]
def hex (bs : List Nat) : String := if bs.isEmpty then "-" else String.join (bs.map hexByte)
def unhexDigit (c : Char) : Nat :=
  if c.isDigit then c.toNat - 48 else c.toNat - 87
def unhexList : List Char → List Nat
  | a :: b :: rest => (unhexDigit a * 16 + unhexDigit b) :: unhexList rest
  | _ => []
def unhex (s : String) : List Nat := if s = "-" then [] else unhexList s.toList

def showOut : Out → String
  | .ok => "ok"
  | .errCap => "err:cap"
  | .errChar => "err:char"
  | .tt => "true"
  | .ff => "false"
  | .some n => s!"some:{n}"
  | .none => "none"
  | .panic => "PANIC"
  | .contents bs cap =>
      let n := bs.length
      hex bs ++ s!" len={n} cap={cap} full={decide (n = cap)} empty={decide (n = 0)}"

def parse (t : List String) : Option Op :=
  match t with
  | ["push", b] => some (.push (nat! b))
  | ["push_bytes", bs] => some (.pushBytes (unhex bs))
  | ["insert", i, b] => some (.insert (nat! i) (nat! b))
  | ["insert_bytes", i, bs] => some (.insertBytes (nat! i) (unhex bs))
  | ["pop"] => some .pop
  | ["remove", i] => some (.remove (nat! i))
  | ["remove_range", i, n] => some (.removeRange (nat! i) (nat! n))
  | ["retain", b] => some (.retain (nat! b))
  | ["find", bs] => some (.find (unhex bs))
  | ["rfind", bs] => some (.rfind (unhex bs))
  | ["strip_prefix", bs] => some (.stripPrefix (unhex bs))
  | ["strip_suffix", bs] => some (.stripSuffix (unhex bs))
  | ["truncate", n] => some (.truncate (nat! n))
  | ["clear"] => some .clear
  | ["dump"] => some .dump
  | _ => none

def stepLine (s : St) (t : List String) : St × String :=
  match t with
  | ["reloc"] =>
      -- C14: relocating the memory block is invisible: the model state has no addresses
      (s, "ok")
  | ["new", _, cap] => (init (nat! cap), "ok")
  | _ =>
    match parse t with
    | none => (s, "bad-op")
    | some op => let (s', out) := step s op; (s', showOut out)

def comp : Comp := { σ := St, init := init 0, step := stepLine }
end Driver.StrD
