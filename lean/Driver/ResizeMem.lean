import Iox2.Model.ResizeMem
import Driver.Util
namespace Driver.ResizeMemD
open Iox2.Alloc Iox2.ResizeMem Driver

def showErr : Err → String
  | .oom => "err:oom"
  | .size => "err:size"
  | .align => "err:align"
  | .shrink => "err:shrink"
  | .internal => "err:internal"
  | .doesNotExist => "err:DoesNotExist"

def showOut : Out → String
  | .ok => "ok"
  | .okAt seg off => s!"ok:{seg}:{off}"
  | .okByte b => s!"ok:{b}"
  | .num n => toString n
  | .err e => showErr e
  | .dup => "dup"
  | .none => "none"
  | .tainted => "tainted"

def parseOp : List String → Option Op
  | ["alloc", l, size, align] => some (.alloc (nat! l) (nat! size) (nat! align))
  | ["write", l, b] => some (.write (nat! l) (nat! b))
  | ["dealloc", l] => some (.dealloc (nat! l))
  | ["grow", l, size, align, pl] =>
      some (.grow (nat! l) (nat! size) (nat! align) (if pl = "back" then .back else .front))
  | ["view_register", v, l] => some (.vreg (nat! v) (nat! l))
  | ["view_read", v, l] => some (.vread (nat! v) (nat! l))
  | ["view_unregister", v, l] => some (.vunreg (nat! v) (nat! l))
  | ["segments"] => some .segments
  | ["view_segments", v] => some (.vsegments (nat! v))
  | _ => none

def stepLine (d : Option St) (t : List String) : Option St × String :=
  match t with
  | "new" :: st :: size :: align :: chunks :: _ =>
      let strat := if st = "static" then Strategy.static else if st = "bestfit" then .bestFit else .powerOfTwo
      let cfg : Cfg := { strategy := strat }
      match create cfg (nat! size) (nat! align) (nat! chunks) 2 with
      | .ok s => (some s, s!"ok base={cfg.base}")
      | .error .sizeIsZero => (none, "err:alloc:SizeIsZero")
      | .error .internalError => (none, "err:alloc:InternalError")
  | _ =>
    match d, parseOp t with
    | some s, some op => let (s', o) := step s op; (some s', showOut o)
    | _, _ => (d, "bad-op")

def comp : Comp := { σ := Option St, init := none, step := stepLine }
end Driver.ResizeMemD
