import Iox2.Model.ResizeMem
import Driver.Util
namespace Driver.ResizeMemD
open Driver

def stepLine (s : Unit) (_t : List String) : Unit × String := (s, "unimplemented")

def comp : Comp := { σ := Unit, init := (), step := stepLine }
end Driver.ResizeMemD
