import Iox2.Model.Blackboard
import Driver.Util
namespace Driver.BlackboardD
open Iox2.Blackboard Driver

def tyTag (s : String) : Nat :=
  if s = "a" then 0 else if s = "b" then 1 else if s = "c" then 2 else 3

def parse (t : List String) : Option Op :=
  match t with
  | ["cwriter", w] => some (.cwriter (nat! w))
  | ["dwriter", w] => some (.dwriter (nat! w))
  | ["creader", r] => some (.creader (nat! r))
  | ["dreader", r] => some (.dreader (nat! r))
  | ["hmut", w, k, h, ty] => some (.hmut (nat! w) (nat! k) (nat! h) (tyTag ty))
  -- custom-key path of the language bindings (`Writer::__internal_entry`): the same model call
  | ["hmutx", w, k, h, ty] => some (.hmut (nat! w) (nat! k) (nat! h) (tyTag ty))
  | ["dhmut", h] => some (.dhmut (nat! h))
  | ["update", h, v] => some (.update (nat! h) (nat! v))
  | ["loan", h, l] => some (.loan (nat! h) (nat! l))
  | ["lwrite", l, v] => some (.lwrite (nat! l) (nat! v))
  | ["lcommit", l] => some (.lcommit (nat! l))
  | ["commit", l, v] => some (.commit (nat! l) (nat! v))
  | ["discard", l] => some (.discard (nat! l))
  | ["dloan", l] => some (.dloan (nat! l))
  | ["hget", r, k, g, ty] => some (.hget (nat! r) (nat! k) (nat! g) (tyTag ty))
  -- `Reader::__internal_entry`
  | ["hx", r, k, g, ty] => some (.hget (nat! r) (nat! k) (nat! g) (tyTag ty))
  | ["dhget", g] => some (.dhget (nat! g))
  | ["get", g] => some (.get (nat! g))
  | ["fresh", g] => some (.fresh (nat! g))
  | ["dsvc"] => some .dsvc
  | ["count"] => some .count
  | _ => none

def showErr : Err → String
  | .ExceedsMaxSupportedWriters => "ExceedsMaxSupportedWriters"
  | .ExceedsMaxSupportedReaders => "ExceedsMaxSupportedReaders"
  | .EntryDoesNotExist => "EntryDoesNotExist"
  | .HandleAlreadyExists => "HandleAlreadyExists"

def showOut : Out → String
  | .ok => "ok"
  | .err e => "err:" ++ showErr e
  | .dup => "dup"
  | .none => "none"
  | .moved => "moved"
  | .noService => "no-service"
  | .unwritten => "unwritten"
  | .noval => "noval"
  | .val v => toString v
  | .bool b => if b then "true" else "false"
  | .count w r => "w=" ++ toString w ++ ",r=" ++ toString r

def stepLine (w : Option World) (t : List String) : Option World × String :=
  match t with
  | "new" :: _variant :: mr :: tys =>
      -- `Creator::create` without entries is refused
      if tys.isEmpty then (none, "err:service:NoEntriesProvided")
      else (some (World.init (nat! mr) (tys.map tyTag)), "ok")
  | _ =>
    match w with
    | none => (none, "no-world")
    | some w =>
      match parse t with
      | none => (some w, "bad-op")
      | some op => let (w', out) := step w op; (some w', showOut out)

def comp : Comp := { σ := Option World, init := none, step := stepLine }
end Driver.BlackboardD
