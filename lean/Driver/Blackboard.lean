import Iox2.Model.Blackboard
import Driver.Util
namespace Driver.BlackboardD
open Driver

def stepLine (s : Unit) (_t : List String) : Unit × String := (s, "unimplemented")

def comp : Comp := { σ := Unit, init := (), step := stepLine }
end Driver.BlackboardD
