import Iox2.Model.Container
import Driver.Trace
namespace Driver.ContainerT
open Iox2.Container Iox2.Sched Driver Driver.TraceD
open Iox2.RUIS (Mode)

def words (w v : Nat) : List Nat := (List.range w).map fun k => 100 * v + k

def parseCmd (w : Nat) : List String → Option Cmd
  | ["add", v] => some (.add (words w (nat! v)))
  | ["remove", p] => some (.remove (nat! p) .default)
  | ["remove_lock", p] => some (.remove (nat! p) .lockIfLast)
  | ["update"] => some .update
  | ["recover", d] => some (.recover (nat! d) .default)
  | ["recover_lock", d] => some (.recover (nat! d) .lockIfLast)
  | ["die"] => some .die
  | _ => none

def tcomp : TComp :=
  { σ := Sh, τ := Th, sys := sys
    load := fun p =>
      let cap := hget p.header "cap"
      let w := hget p.header "width"
      let ths := (p.threads.zip (List.range p.threads.length)).map fun (ops, i) => Th.init (100 + i) cap w (ops.filterMap (parseCmd w))
      initCfg cap w ths
    final := fun c => s!"change={c.sh.change} egc={c.sh.egc}" }

def comp : Comp := mkComp tcomp
end Driver.ContainerT
