import Iox2.Model.Vec
import Driver.Util
namespace Driver.VecD
open Iox2.Vec Driver

def showElem (e : Elem) : String := s!"{e.id}:{e.val}"

def showOut : Out → String
  | .ok => "ok"
  | .errCap => "err:cap"
  | .errOob => "err:oob"
  | .some e => "some:" ++ showElem e
  | .none => "none"
  | .contents items cap =>
      let n := items.length
      "[" ++ joinWith "," (items.map showElem) ++ s!"] len={n} cap={cap} full={decide (n = cap)} empty={decide (n = 0)}"

def parse (t : List String) : Option Op :=
  match t with
  | ["push", i, v] => some (.push ⟨nat! i, nat! v⟩)
  | ["pop"] => some .pop
  | ["insert", k, i, v] => some (.insert (nat! k) ⟨nat! i, nat! v⟩)
  | ["remove", k] => some (.remove (nat! k))
  | ["clear"] => some .clear
  | ["truncate", k] => some (.truncate (nat! k))
  | ["resize", k, i, v] => some (.resize (nat! k) ⟨nat! i, nat! v⟩)
  | ["extend", k, i, v] =>
      some (.extend ((List.range (nat! k)).map fun j => ⟨nat! i + j, nat! v + j⟩))
  | ["dump"] => some .dump
  | ["drop"] => some .dropAll
  | _ => none

def stepLine (s : St) (t : List String) : St × String :=
  match t with
  | ["reloc"] =>
      -- C14: relocating the memory block is invisible: the model state has no addresses
      (s, "ok d=[]")
  | ["new", fl, cap] =>
      -- PolymorphicVec / RelocatableVec with capacity 0: the zero-sized allocation is refused
      -- (AllocationError), no container exists; StaticVec<T, 0> is fine
      if nat! cap = 0 ∧ fl ≠ "static" then (s, "err:alloc") else (init (nat! cap), "ok d=[]")
  | _ =>
    match parse t with
    | none => (s, "bad-op")
    | some op =>
      let (s', out, drops) := step s op
      (s', showOut out ++ " " ++ showDrops drops)

def comp : Comp := { σ := St, init := init 0, step := stepLine }
end Driver.VecD
