import Iox2.Model.ServiceCrash
import Driver.Util
/-
Driver of the service-level crash model (C04 service part).  One command per line, one output line per command:

  reset [held]                           empty domain; held: a living holder's complete service exists
  spawn <n> creator <who>                process <n>: `create` of the service (who 0 = the victim on node 0, 1 = the re-creator)
  spawn <n> opener                       process <n>: `open` by the victim (node 0)
  spawn <n> cleaner <pid>                process <n>: Node::list + try_remove_stale_resources of the victim's node
  trace <n>                              step names of <n> running alone to its end (state unchanged; at most `fuel` steps)
  step <n> [<k>]                         <n> takes k (default 1) steps: their names
  run <n>                                <n> runs until it finishes (at most `fuel` steps): step names
  kill <n>                               <n> dies
  show <n>                               pc and results of <n>
  holderdrop                             the living holder drops its service in an orderly way
  ls                                     files by kind
  scenario creator|opener <fuseV|-> <fuseC|->     the whole experiment (Iox2.ServiceCrash.scenario)
-/
namespace Driver.ServiceCrashD
open Driver Iox2.ServiceCrash

structure St where
  sh : Shared := {}
  th : List (String × Th) := []

def sresName : SRes → String
  | .ok => "ok" | .alreadyExists => "err:AlreadyExists" | .corrupted => "err:ServiceInCorruptedState"
  | .doesNotExist => "err:DoesNotExist" | .hangsInCreation => "err:HangsInCreation"
def cresName : CRes → String
  | .ok => "ok" | .notDead => "none" | .anotherInstance => "err:AnotherInstanceIsCleaningUpTheNode" | .internalError => "err:InternalError"
def optS {α} (f : α → String) (d : String) : Option α → String
  | none => d | some a => f a

def staticName : StaticSt → String | .absent => "absent" | .locked => "locked" | .final => "final"
def dynName : DynSt → String | .absent => "absent" | .created => "created" | .sized => "sized" | .final => "final"
def tagName : TagSt → String | .absent => "absent" | .init => "init" | .final => "final"

def lsS (sh : Shared) : String :=
  let xs := (if sh.static ≠ .absent then ["static=" ++ staticName sh.static] else []) ++
    ([sh.dyn0, sh.dyn1, sh.dyn2].filter (·.st ≠ .absent)).map (fun d => "dyn=" ++ dynName d.st) ++
    ([sh.tag0, sh.tag1].filter (· ≠ .absent)).map (fun t => "stag=" ++ tagName t) ++
    (if sh.node.present then ["node"] else []) ++ (if sh.node.dir then ["nodedir"] else [])
  if xs.isEmpty then "-" else joinWith " " xs

def leftS (l : Left) : String :=
  let xs := (if l.static ≠ .absent then ["static=" ++ staticName l.static] else []) ++
    (if l.dyn ≠ .absent then ["dyn=" ++ dynName l.dyn] else []) ++ (if l.tag ≠ .absent then ["stag=" ++ tagName l.tag] else []) ++
    (if l.node then ["node"] else []) ++ (if l.dir then ["nodedir"] else []) ++
    (if l.held ≠ .absent then ["held=" ++ dynName l.held] else []) ++ (if l.reg then ["registered"] else [])
  if xs.isEmpty then "-" else joinWith "," xs

def stepsOf (k : Nat) (sh : Shared) (t : Th) : Shared × Th × List String :=
  match k with
  | 0 => (sh, t, [])
  | k + 1 => match stepL sh t with
    | none => (sh, t, [])
    | some (sh', t', s) => let r := stepsOf k sh' t'; (r.1, r.2.1, s :: r.2.2)

def setTh (th : List (String × Th)) (n : String) (t : Th) : List (String × Th) :=
  (th.filter (·.1 ≠ n)) ++ [(n, t)]

def fuseOf (s : String) : Option Nat := if s == "-" then none else some (nat! s)

def stepLine (s : St) (t : List String) : St × String :=
  match t with
  | "reset" :: opts =>
    let sh : Shared := if opts.contains "held" then heldService else {}
    ({ sh := sh, th := [] }, "ok")
  | ["spawn", n, "creator", w] => ({ s with th := setTh s.th n (mkCreator (nat! w)) }, "ok")
  | ["spawn", n, "opener"] => ({ s with th := setTh s.th n mkOpener }, "ok")
  | ["spawn", n, "cleaner", p] => ({ s with th := setTh s.th n (mkCleaner (nat! p)) }, "ok")
  | ["trace", n] =>
    match s.th.lookup n with
    | none => (s, "err:no-such-process")
    | some th => (s, joinWith ";" (traceSolo fuel s.sh th))
  | "step" :: n :: rest =>
    match s.th.lookup n with
    | none => (s, "err:no-such-process")
    | some th =>
      let k := match rest with | [k] => nat! k | _ => 1
      let r := stepsOf k s.sh th
      ({ sh := r.1, th := setTh s.th n r.2.1 }, if r.2.2.isEmpty then "-" else joinWith ";" r.2.2)
  | ["run", n] =>
    match s.th.lookup n with
    | none => (s, "err:no-such-process")
    | some th =>
      let r := stepsOf fuel s.sh th
      ({ sh := r.1, th := setTh s.th n r.2.1 }, if r.2.2.isEmpty then "-" else joinWith ";" r.2.2)
  | ["kill", n] =>
    match s.th.lookup n with
    | none => (s, "err:no-such-process")
    | some th => ({ sh := onDeath s.sh th, th := s.th.filter (·.1 ≠ n) }, "ok")
  | ["show", n] =>
    match s.th.lookup n with
    | none => (s, "err:no-such-process")
    | some th => (s, s!"pc={th.pc} result={optS sresName "-" th.sres} clean={optS cresName "hang" th.cres}")
  | ["holderdrop"] => ({ s with sh := holderDrop s.sh }, "ok")
  | ["ls"] => (s, lsS s.sh)
  | ["scenario", kind, fv, fc] =>
    let sh0 : Shared := if kind == "opener" then heldService else {}
    let o := scenario sh0 (if kind == "opener" then mkOpener else mkCreator 0) (fuseOf fv) (fuseOf fc) (kind == "opener")
    (s, s!"victim={optS sresName "-" o.victim} dead={if o.dead then 1 else 0} before={leftS o.before} clean1={optS cresName "hang" o.clean1} " ++
        s!"clean2={optS cresName "hang" o.clean2} after={leftS o.after} afterdrop={leftS o.afterDrop} recreate={optS sresName "-" o.recreate}")
  | _ => (s, "err:bad-command")

def comp : Comp := { σ := St, init := {}, step := stepLine }
end Driver.ServiceCrashD
