import Iox2.Model.ShmSets
import Driver.Util
namespace Driver.ShmSetsD
open Iox2.ShmSets Driver

def parse : List String → Option Op
  | ["set", i] => some (.set (nat! i))
  | ["reset_next"] => some .resetNext
  | ["reset_all"] => some .resetAll
  | ["insert", i] => some (.insert (nat! i))
  | ["remove", i] => some (.remove (nat! i))
  | ["remove_all"] => some .removeAll
  | ["reloc"] => some .reloc
  | _ => none

def stepLine (s : Option St) (t : List String) : Option St × String :=
  match t with
  | ["new", kind, cap] =>
      let k := if kind = "bitset" then 0 else if kind = "counting" then 1 else 2
      (some (St.init k (nat! cap)), "ok")
  | _ =>
    match s, parse t with
    | none, _ => (none, "no-set")
    | _, none => (s, "bad-op")
    | some s, some op => let (s', out) := step s op; (some s', out)

def comp : Comp := { σ := Option St, init := none, step := stepLine }
end Driver.ShmSetsD
