import Iox2.Model.Names
import Driver.Util
import Driver.Str
namespace Driver.NamesD
open Iox2.Names Driver
open Driver.StrD (hex unhex)

def showRes : Res → String
  | .ok => "ok"
  | .errContent => "err:content"
  | .errLen => "err:len"
  | .panic => "PANIC"
  | .some n => s!"some:{n}"
  | .none => "none"
  | .tt => "true"
  | .ff => "false"

def parseTy (s : String) : Ty :=
  if s = "filename" then .fileName else if s = "path" then .path else if s = "filepath" then .filePath else .rfn8

def parseOp (t : List String) : Option Op :=
  match t with
  | ["push", b] => some (.push (nat! b))
  | ["push_bytes", bs] => some (.pushBytes (unhex bs))
  | ["insert", i, b] => some (.insert (nat! i) (nat! b))
  | ["insert_bytes", i, bs] => some (.insertBytes (nat! i) (unhex bs))
  | ["pop"] => some .pop
  | ["remove", i] => some (.remove (nat! i))
  | ["remove_range", i, n] => some (.removeRange (nat! i) (nat! n))
  | ["retain", b] => some (.retain (nat! b))
  | ["strip_prefix", bs] => some (.stripPrefix (unhex bs))
  | ["strip_suffix", bs] => some (.stripSuffix (unhex bs))
  | ["truncate", n] => some (.truncate (nat! n))
  | ["find", bs] => some (.find (unhex bs))
  | ["rfind", bs] => some (.rfind (unhex bs))
  | ["dump"] => some .dump
  | _ => none

def mkCfg (hint pre suf : String) : Option Cfg :=
  let h := unhex hint; let p := unhex pre; let s := unhex suf
  if Ty.path.valid h && Ty.fileName.valid p && Ty.fileName.valid s then some ⟨h, p, s⟩ else none

def showExtract : Extract → String
  | .name n => "some:" ++ hex n
  | .none => "none"
  | .panic => "PANIC"

/-- is the byte list valid UTF-8? (the harness cannot build a `&str` otherwise) -/
def utf8Ok : List Nat → Bool
  | [] => true
  | b :: rest =>
    if b < 128 then utf8Ok rest
    else if 194 ≤ b && b ≤ 223 then
      match rest with
      | c :: r => 128 ≤ c && c ≤ 191 && utf8Ok r
      | _ => false
    else if 224 ≤ b && b ≤ 239 then
      match rest with
      | c :: d :: r =>
        (if b = 224 then 160 ≤ c && c ≤ 191 else if b = 237 then 128 ≤ c && c ≤ 159 else 128 ≤ c && c ≤ 191) &&
          128 ≤ d && d ≤ 191 && utf8Ok r
      | _ => false
    else if 240 ≤ b && b ≤ 244 then
      match rest with
      | c :: d :: e :: r =>
        (if b = 240 then 144 ≤ c && c ≤ 191 else if b = 244 then 128 ≤ c && c ≤ 143 else 128 ≤ c && c ≤ 191) &&
          128 ≤ d && d ≤ 191 && 128 ≤ e && e ≤ 191 && utf8Ok r
      | _ => false
    else false

def stepLine (v : Option SemStr) (t : List String) : Option SemStr × String :=
  match t with
  | ["new", ty, b] =>
      match SemStr.new (parseTy ty) (unhex b) with
      | (some x, _) => (some x, "ok v=" ++ hex x.s.bytes)
      | (none, r) => (none, showRes r)
  | ["svcname", b] => (v, if utf8Ok (unhex b) then showRes (serviceName (unhex b)) else "skip:utf8")
  | ["nodename", b] => (v, if utf8Ok (unhex b) then showRes (nodeName (unhex b)) else "skip:utf8")
  | ["frompf", p, f] =>
      if Ty.path.valid (unhex p) && Ty.fileName.valid (unhex f) then
        match fromPathAndFile (unhex p) (unhex f) with
        | some fp => (v, s!"ok v={hex fp} file={hex (fileNameOf fp)} path={hex (parentOf fp)}")
        | none => (v, "err:len")
      else (v, "bad-arg")
  | ["pathfor", h, p, s, n] =>
      match mkCfg h p s with
      | none => (v, "bad-arg")
      | some c =>
        if !(Ty.fileName.valid (unhex n)) then (v, "bad-arg") else
        match pathFor c (unhex n) with
        | none => (v, "PANIC")
        | some fp =>
          match extractFromPath c fp with
          | .panic => (v, "PANIC")
          | .none => (v, s!"ok v={hex fp} back=none")
          | .name b => (v, s!"ok v={hex fp} back={hex b}")
  | ["extractp", h, p, s, f] =>
      match mkCfg h p s with
      | none => (v, "bad-arg")
      | some c => if !(Ty.filePath.valid (unhex f)) then (v, "bad-arg") else (v, showExtract (extractFromPath c (unhex f)))
  | ["extract", h, p, s, f] =>
      match mkCfg h p s with
      | none => (v, "bad-arg")
      | some c => if !(Ty.fileName.valid (unhex f)) then (v, "bad-arg") else (v, showExtract (extractName c (unhex f)))
  | _ =>
    match v with
    | none => (v, "no-value")
    | some x =>
      match t with
      | ["file_name"] => if x.ty = .filePath then (v, "v=" ++ hex (fileNameOf x.s.bytes)) else (v, "bad-op")
      | ["parent"] => if x.ty = .filePath then (v, "v=" ++ hex (parentOf x.s.bytes)) else (v, "bad-op")
      | ["add_entry", e] =>
          if x.ty ≠ .path then (v, "bad-op")
          else if !(Ty.path.valid (unhex e)) then (v, "bad-arg")
          else let (x', r) := addPathEntry x (unhex e); (some x', showRes r ++ " v=" ++ hex x'.s.bytes)
      | ["normalize"] => (v, "v=" ++ hex (normalizePath x.s.bytes))
      | ["is_absolute"] => (v, toString (decide (x.s.bytes.head? = some SEP)))
      | ["entries"] => (v, "[" ++ joinWith "," ((pathEntries x.s.bytes).map hex) ++ "]")
      | _ =>
        match parseOp t with
        | none => (v, "bad-op")
        | some op =>
          let (x', r) := x.step op
          match r with
          | .panic => (some x', "PANIC")
          | _ => (some x', showRes r ++ " v=" ++ hex x'.s.bytes)

def comp : Comp := { σ := Option SemStr, init := none, step := stepLine }
end Driver.NamesD
