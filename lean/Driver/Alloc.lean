import Iox2.Model.Alloc
import Driver.Util
namespace Driver.AllocD
open Iox2.Alloc Driver

inductive K where
  | none
  | pool (shm : Bool) (s : PoolSt) (used : Nat)
  | bump (b : Bump)

structure DSt where
  k : K
  live : List Nat

def showErr : AllocErr → String
  | .sizeTooLarge => "err:size"
  | .alignmentFailure => "err:align"
  | .outOfMemory => "err:oom"
  | .sizeIsZero => "err:zero"

def stepLine (d : DSt) (t : List String) : DSt × String :=
  match t with
  | ["new", "bump", shift, size] =>
      ({ k := .bump { start := nat! shift, total := nat! size, cur := 0 }, live := [] }, "ok")
  | ["new", kind, shift, size, bs, ba] =>
      let p : Pool := { ptr := nat! shift, size := nat! size, bucketSize := nat! bs, bucketAlign := nat! ba }
      let shm := kind = "shm"
      ({ k := .pool shm (PoolSt.init p) 0, live := [] },
        s!"ok n={p.nBuckets} bucket={p.stride} maxalign={p.bucketAlign}" ++
          (if shm then s!" relstart={p.start - p.ptr}" else ""))
  | ["alloc", size, align] =>
      match d.k with
      | .none => (d, "bad-op")
      | .pool shm s used =>
          -- the shm wrapper checks the alignment before delegating
          if shm && nat! align > s.p.bucketAlign then (d, "err:align") else
          match s.allocate (nat! size) (nat! align) with
          | (s', .ok a) => ({ k := .pool shm s' (used + 1), live := a :: d.live }, s!"ok:{a}")
          | (_, .error e) => (d, showErr e)
      | .bump b =>
          match b.allocate (nat! size) (nat! align) with
          | (b', .ok a) => ({ k := .bump b', live := a :: d.live }, s!"ok:{a}")
          | (_, .error e) => (d, showErr e)
  | ["dealloc", k] =>
      match d.k, d.live[nat! k]? with
      | .pool shm s used, some a =>
          ({ k := .pool shm (s.deallocate a) (used - 1), live := d.live.eraseIdx (nat! k) }, "ok")
      | _, _ => (d, "none")
  | ["hint", size, align, st] =>
      match d.k with
      | .pool _ s used =>
          let strat := if st = "static" then Strategy.static else if st = "bestfit" then .bestFit else .powerOfTwo
          let h := resizeHint s.p.stride s.p.bucketAlign s.p.nBuckets used (nat! size) (nat! align) strat
          (d, s!"hint size={h.bucketSize} align={h.bucketAlign} payload={h.bucketSize * h.nBuckets}")
      | _ => (d, "bad-op")
  | ["uacell", size, al, p] =>
      let c (i : Nat) := alignUp (nat! p + nat! size * (i % 2)) (nat! al)
      (d, s!"c0={c 0} c1={c 1} c7={c 7}")
  | ["mk", off, seg] =>
      let v := mkOffset (nat! off) (nat! seg)
      (d, s!"v={v} off={offsetOf v} seg={segmentOf v}")
  | ["setseg", v, seg] =>
      let v' := setSegment (nat! v) (nat! seg)
      (d, s!"v={v'} off={offsetOf v'} seg={segmentOf v'}")
  | _ => (d, "bad-op")

def comp : Comp := { σ := DSt, init := { k := .none, live := [] }, step := stepLine }
end Driver.AllocD
