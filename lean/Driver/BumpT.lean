import Iox2.Model.BumpConc
import Driver.Trace
namespace Driver.BumpT
open Iox2.BumpConc Iox2.Sched Driver Driver.TraceD

def parseCmd : List String → Option (Nat × Nat)
  | ["alloc", s, a] => some (nat! s, nat! a)
  | _ => none

def tcomp : TComp :=
  { σ := Sh, τ := Th, sys := sys
    load := fun p => initCfg (hget p.header "start") (hget p.header "size") (p.threads.map fun ops => ops.filterMap parseCmd)
    final := fun c => s!"pos={c.sh.pos}" }

def comp : Comp := mkComp tcomp
end Driver.BumpT
