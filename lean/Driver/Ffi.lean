import Driver.Util
/-!
Component `ffi` (C18) has no Lean-side behavioural model: the reference of the differential run is the
Rust API executed on the same line by the harness (`harness/src/c18_ffi.rs` prints the outcome of every
world, `checklib/pC18.py` compares them).  The Lean part of C18 is about the error tables
(`Iox2/Gen/FfiErrors.lean`, `Iox2/Props/C18.lean`).  This driver only keeps the component registered: it
answers every line with `-`.  (`Iox2.Model.Ffi` is deliberately not imported: it pulls in the `Lean`
elaborator for the `n!` literal syntax, which the driver executable does not need.)
-/
namespace Driver.FfiD
open Driver

def stepLine (s : Unit) (_t : List String) : Unit × String := (s, "-")

def comp : Comp := { σ := Unit, init := (), step := stepLine }
end Driver.FfiD
