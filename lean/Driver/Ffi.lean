import Iox2.Model.Ffi
import Driver.Util
namespace Driver.FfiD
open Driver

def stepLine (s : Unit) (_t : List String) : Unit × String := (s, "unimplemented")

def comp : Comp := { σ := Unit, init := (), step := stepLine }
end Driver.FfiD
