import Iox2.Model.FlatMap
import Driver.Util
namespace Driver.FlatMapD
open Iox2.FlatMap Driver
open Iox2.Vec (Elem)

def showElem (e : Elem) : String := s!"{e.id}:{e.val}"

def showOut : Out → String
  | .ok => "ok"
  | .errExists => "err:exists"
  | .errFull => "err:full"
  | .tt => "true"
  | .ff => "false"
  | .some e => "some:" ++ showElem e
  | .none => "none"
  | .panic => "PANIC"
  | .contents items n cap =>
      "[" ++ joinWith "," (items.map fun (k, e) => s!"{k}=" ++ showElem e) ++
        s!"] len={n} full={decide (n = cap)} empty={decide (n = 0)}"

def parse (t : List String) : Option Op :=
  match t with
  | ["insert", k, i, v] => some (.insert (nat! k) ⟨nat! i, nat! v⟩)
  | ["get", k] => some (.get (nat! k))
  | ["get_ref", k] => some (.getRef (nat! k))
  | ["remove", k] => some (.remove (nat! k))
  | ["contains", k] => some (.contains (nat! k))
  | ["dump"] => some .dump
  | ["drop"] => some .dropAll
  | _ => none

def stepLine (s : FSt) (t : List String) : FSt × String :=
  match t with
  | ["reloc"] =>
      -- C14: relocating the memory block is invisible: the model state has no addresses
      (s, "ok d=[]")
  | ["new", fl, cap] =>
      if nat! cap = 0 ∧ fl ≠ "heap" then (s, "err:alloc") else (init (nat! cap), "ok d=[]")
  | _ =>
    match parse t with
    | none => (s, "bad-op")
    | some op =>
      let (s', out, drops) := step s op
      match out with
      | .panic => (s', "PANIC")
      | _ => (s', showOut out ++ " " ++ showDrops drops)

def comp : Comp := { σ := FSt, init := init 0, step := stepLine }
end Driver.FlatMapD
