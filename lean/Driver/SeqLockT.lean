import Iox2.Model.SeqLock
import Driver.Trace
namespace Driver.SeqLockT
open Iox2.SeqLock Iox2.Sched Driver Driver.TraceD

/-- value `v` of width `w` is the word list `[100 v, 100 v + 1, …]` (a torn value is recognisable) -/
def words (w v : Nat) : List Nat := (List.range w).map fun k => 100 * v + k

def parseCmd (w : Nat) : List String → Option Cmd
  | ["store", v] => some (.store (words w (nat! v)))
  | ["store2", v] => some (.store (words w (nat! v)))     -- loan-style two-step update: same steps
  | ["load"] => some .load
  | ["acquire_producer"] => some .acquireProducer
  | ["release_producer"] => some .releaseProducer
  | _ => none

def tcomp : TComp :=
  { σ := Sh, τ := Th, sys := sys
    load := fun p =>
      let w := hget p.header "width"
      { sh := Sh.init w (words w 0), th := p.threads.map fun ops => Th.init (ops.filterMap (parseCmd w)) }
    final := fun c => s!"wc={c.sh.wc}" }

def comp : Comp := mkComp tcomp
end Driver.SeqLockT
