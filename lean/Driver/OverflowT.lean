import Iox2.Model.OverflowQueue
import Driver.Trace
namespace Driver.OverflowT
open Iox2.OverflowQueue Iox2.Sched Driver Driver.TraceD

def parseCmd : List String → Option Cmd
  | ["push", v] => some (.push (nat! v))
  | ["pop"] => some .pop
  | ["len"] => some .len
  | ["is_full"] => some .isFull
  | ["is_empty"] => some .isEmpty
  | ["acquire_producer"] => some .acquireProducer
  | ["release_producer"] => some .releaseProducer
  | ["acquire_consumer"] => some .acquireConsumer
  | ["release_consumer"] => some .releaseConsumer
  | _ => none

def tcomp : TComp :=
  { σ := Sh, τ := Th, sys := sys
    load := fun p => { sh := Sh.init (hget p.header "cap"), th := p.threads.map fun ops => Th.init (ops.filterMap parseCmd) }
    final := fun c => s!"wp={c.sh.wp} rp={c.sh.rp}" }

def comp : Comp := mkComp tcomp
end Driver.OverflowT
