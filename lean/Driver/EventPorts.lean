import Iox2.Model.EventPorts
import Driver.Util
namespace Driver.EventPortsD
open Driver

def stepLine (s : Unit) (_t : List String) : Unit × String := (s, "unimplemented")

def comp : Comp := { σ := Unit, init := (), step := stepLine }
end Driver.EventPortsD
