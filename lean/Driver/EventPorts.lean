import Iox2.Model.EventPorts
import Driver.Util
namespace Driver.EventPortsD
open Iox2.EventPorts Driver

def optNat (s : String) : Option Nat := if s = "-" then none else some (nat! s)
def clamp1 (n : Nat) : Nat := if n = 0 then 1 else n

def parse (t : List String) : Option Op :=
  match t with
  | ["open", k] => some (.open (nat! k))
  | ["cnot", n, d, k] => some (.cnot (nat! n) (optNat d) (nat! k))
  | ["dnot", n] => some (.dnot (nat! n))
  | ["clis", l, k] => some (.clis (nat! l) (nat! k))
  | ["dlis", l] => some (.dlis (nat! l))
  | ["notify", n] => some (.notify (nat! n))
  | ["notifyid", n, i] => some (.notifyId (nat! n) (nat! i))
  | ["wait", l] => some (.wait (nat! l))
  | ["twait", l] => some (.wait (nat! l))
  | ["count", k] => some (.count (nat! k))
  | ["dnode", k] => some (.dnode (nat! k))
  | ["dsvc", k] => some (.dsvc (nat! k))
  | ["kill", k] => some (.kill (nat! k))
  | ["cleanup", k] => some (.cleanup (nat! k))
  | ["ls"] => some .ls
  | _ => none

def stepLine (w : Option World) (t : List String) : Option World × String :=
  match t with
  | ["new", variant, mn, ml, idmax, c, d, x, nodes, dl] =>
      -- the service builder adjusts zero limits to one
      let cfg : Cfg := { maxNot := clamp1 (nat! mn), maxLis := clamp1 (nat! ml), maxNodes := clamp1 (nat! nodes), idMax := nat! idmax,
                         created := optNat c, dropped := optNat d, dead := optNat x,
                         deadline := if dl = "long" then 1 else if dl = "short" then 2 else 0, ipc := variant == "ipc" }
      (some (World.init cfg), "ok")
  | _ =>
    match w with
    | none => (none, "no-world")
    | some w =>
      match parse t with
      | none => (some w, "bad-op")
      | some op => let (w', out) := step w op; (some w', out.render)

def comp : Comp := { σ := Option World, init := none, step := stepLine }
end Driver.EventPortsD
