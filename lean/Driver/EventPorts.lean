import Iox2.Model.EventPorts
import Driver.Util
namespace Driver.EventPortsD
open Iox2.EventPorts Driver

def optNat (s : String) : Option Nat := if s = "-" then none else some (nat! s)
def clamp1 (n : Nat) : Nat := if n = 0 then 1 else n

def parse (t : List String) : Option Op :=
  match t with
  | ["open", k] => some (.open (nat! k))
  | ["cnot", n, d, k] => some (.cnot (nat! n) (optNat d) (nat! k))
  | ["dnot", n] => some (.dnot (nat! n))
  | ["clis", l, k] => some (.clis (nat! l) (nat! k))
  | ["dlis", l] => some (.dlis (nat! l))
  | ["notify", n] => some (.notify (nat! n))
  | ["notifyid", n, i] => some (.notifyId (nat! n) (nat! i))
  | ["wait", l] => some (.wait (nat! l))
  | ["twait", l] => some (.wait (nat! l))
  | ["count", k] => some (.count (nat! k))
  | ["dnode", k] => some (.dnode (nat! k))
  | ["dsvc", k] => some (.dsvc (nat! k))
  | ["kill", k] => some (.kill (nat! k))
  | ["cleanup", k] => some (.cleanup (nat! k))
  | ["ls"] => some .ls
  | _ => none

/-- driver state: the model world and the listener keys the application remembered: (notifier, listener) ↦ connection index -/
structure DSt where
  w : Option World := none
  keys : List ((Nat × Nat) × Nat) := []

def stepLine (d : DSt) (t : List String) : DSt × String :=
  match t with
  | ["new", variant, mn, ml, idmax, c, dd, x, nodes, dl] =>
      -- the service builder adjusts zero limits to one
      let cfg : Cfg := { maxNot := clamp1 (nat! mn), maxLis := clamp1 (nat! ml), maxNodes := clamp1 (nat! nodes), idMax := nat! idmax,
                         created := optNat c, dropped := optNat dd, dead := optNat x,
                         deadline := if dl = "long" then 1 else if dl = "short" then 2 else 0, ipc := variant == "ipc" }
      ({ w := some (World.init cfg) }, "ok")
  | _ =>
    match d.w with
    | none => (d, "no-world")
    | some w =>
      match t with
      | ["keys", n] =>
        let (w', out) := step w (.keys (nat! n))
        let ks := match out with
          | .keys k => (d.keys.filter fun e => !(e.1.1 = nat! n && k.any fun x => x.2 = e.1.2)) ++ k.map fun x => ((nat! n, x.2), x.1)
          | _ => d.keys
        ({ w := some w', keys := ks }, out.render)
      | ["notifyone", n, l, i] =>
        match d.keys.find? fun e => e.1 = (nat! n, nat! l) with
        | none =>
          let live : Bool := match w.nots (nat! n) with | some N => decide (N.st = .alive) | none => false
          (d, if live then "no-key" else "none")
        | some e =>
          let (w', out) := step w (.notifyOne (nat! n) e.2 (nat! l) (optNat i))
          ({ d with w := some w' }, out.render)
      | _ =>
        match parse t with
        | none => (d, "bad-op")
        | some op => let (w', out) := step w op; ({ d with w := some w' }, out.render)

def comp : Comp := { σ := DSt, init := {}, step := stepLine }
end Driver.EventPortsD
