import Iox2.Model.ReqRes
import Driver.Util
namespace Driver.ReqResD
open Iox2.ReqRes Driver
open Iox2.PubSub (clamp1)

def optNat (s : String) : Option Nat := if s = "-" then none else some (nat! s)

def parse (t : List String) : Option Op :=
  match t with
  | ["cclient", c, m] => some (.cclient (nat! c) (optNat m))
  | ["dclient", c] => some (.dclient (nat! c))
  | ["cserver", s, m] => some (.cserver (nat! s) (optNat m))
  | ["dserver", s] => some (.dserver (nat! s))
  | ["send", c, r, tag] => some (.send (nat! c) (nat! r) (nat! tag))
  | ["qloan", c, l] => some (.qloan (nat! c) (nat! l))
  | ["qsend", c, l, r, tag] => some (.qsend (nat! c) (nat! l) (nat! r) (nat! tag))
  | ["qdrop", c, l] => some (.qdrop (nat! c) (nat! l))
  | ["rloan", s, a, l] => some (.rloan (nat! s) (nat! a) (nat! l))
  | ["rsend", s, l, tag] => some (.rsend (nat! s) (nat! l) (nat! tag))
  | ["rdrop", s, l] => some (.rdrop (nat! s) (nat! l))
  | ["recvreq", s, a] => some (.recvreq (nat! s) (nat! a))
  | ["respond", s, a, tag] => some (.respond (nat! s) (nat! a) (nat! tag))
  | ["dactive", s, a] => some (.dactive (nat! s) (nat! a))
  | ["recvresp", c, r] => some (.recvresp (nat! c) (nat! r))
  | ["dresp", c, k] => some (.dresp (nat! c) (nat! k))
  | ["dpending", c, r] => some (.dpending (nat! c) (nat! r))
  | ["connected", c, r] => some (.connected (nat! c) (nat! r))
  | ["aconnected", s, a] => some (.aconnected (nat! s) (nat! a))
  | ["hint", c, r] => some (.hint (nat! c) (nat! r))
  | ["ahint", s, a] => some (.ahint (nat! s) (nat! a))
  | ["has", c, r] => some (.has (nat! c) (nat! r))
  | ["hasreq", s] => some (.hasreq (nat! s))
  | ["upd", "c", c] => some (.updC (nat! c))
  | ["upd", "s", s] => some (.updS (nat! s))
  | _ => none

/-- NOT PROVED, checked on every model state the differential run reaches: a response channel carries a
request id only while a pending response of the receiving client owns that channel with that id
(so a channel closed by `drop(PendingResponse)` stays closed for every connection, also those the
client was not attached to at that moment) -/
def chanOwned (w : World) (c : Nat) : Nat → List Chan → Bool
  | _, [] => true
  | ch, x :: r =>
    (match x.state with
     | .closed => true
     | .id v _ =>
       match getCl w c with
       | some C => C.pendings.any fun P => P.rid == v && P.channel == ch
       | none => false) && chanOwned w c (ch + 1) r

def s1ok (w : World) : Bool :=
  w.conns.all fun e => !(e.1.1.srv && !e.1.2.srv) || chanOwned w e.1.2.n 0 e.2.chans

def stepLine (w : Option World) (t : List String) : Option World × String :=
  match t with
  | ["new", _variant, mc, ms, a, b, r, ovq, ovr, ff, l, ecb, scb] =>
      (some (World.init { maxClients := clamp1 (nat! mc), maxServers := clamp1 (nat! ms), maxActive := clamp1 (nat! a),
                          respBuf := clamp1 (nat! b), maxBorrow := clamp1 (nat! r), ovReq := ovq = "1", ovResp := ovr = "1",
                          ff := ff = "1", maxLoans := clamp1 (nat! l), cExpired := nat! ecb, sExpired := nat! scb }), "ok")
  | _ =>
    match w, parse t with
    | none, _ => (none, "no-world")
    | _, none => (w, "bad-op")
    | some w, some op =>
      let (w', out) := step w op
      (some w', if w'.panicked || s1ok w' then out else out ++ " !S1")

def comp : Comp := { σ := Option World, init := none, step := stepLine }
end Driver.ReqResD
