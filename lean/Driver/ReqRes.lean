import Iox2.Model.ReqRes
import Driver.Util
namespace Driver.ReqResD
open Driver

def stepLine (s : Unit) (_t : List String) : Unit × String := (s, "unimplemented")

def comp : Comp := { σ := Unit, init := (), step := stepLine }
end Driver.ReqResD
