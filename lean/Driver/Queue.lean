import Iox2.Model.Queue
import Driver.Util
namespace Driver.QueueD
open Iox2.Queue Driver
open Iox2.Vec (Elem)

structure DSt where
  s : St
  copy : Bool

def showElem (e : Elem) : String := s!"{e.id}:{e.val}"

def showOut (copy : Bool) (s : St) : Out → String
  | .tt => "true"
  | .ff => "false"
  | .some e => "some:" ++ showElem e
  | .none => "none"
  | .panic => "PANIC"
  | .contents items cap =>
      let n := s.len
      (if copy then "[" ++ joinWith "," (items.map showElem) ++ "] " else "") ++
        s!"len={n} cap={cap} full={decide (n = cap)} empty={decide (n = 0)}"

def parse (t : List String) : Option Op :=
  match t with
  | ["push", i, v] => some (.push ⟨nat! i, nat! v⟩)
  | ["pushov", i, v] => some (.pushOverflow ⟨nat! i, nat! v⟩)
  | ["pop"] => some .pop
  | ["peek"] => some .peek
  | ["clear"] => some .clear
  | ["get", i] => some (.get (nat! i))
  | ["dump"] => some .dump
  | ["drop"] => some .dropAll
  | _ => none

def stepLine (d : DSt) (t : List String) : DSt × String :=
  match t with
  | ["reloc"] =>
      -- C14: relocating the memory block is invisible: the model state has no addresses
      (d, "ok d=[]")
  | "new" :: fl :: cap :: rest =>
      -- FixedSizeQueue<T, 0> and RelocatableQueue with capacity 0 cannot be constructed
      -- (zero-sized allocation from the bump allocator is refused): reported as err:alloc, the case ends
      if nat! cap = 0 ∧ fl ≠ "heap" then (d, "err:alloc")
      else ({ s := init (nat! cap), copy := rest = ["copy"] }, "ok d=[]")
  | _ =>
    match parse t with
    | none => (d, "bad-op")
    | some op =>
      let (s', out, drops) := step d.s op
      match out with
      | .panic => ({ d with s := s' }, "PANIC")
      | _ => ({ d with s := s' }, showOut d.copy s' out ++ " " ++ showDrops (if d.copy then [] else drops))

def comp : Comp := { σ := DSt, init := { s := init 0, copy := false }, step := stepLine }
end Driver.QueueD
