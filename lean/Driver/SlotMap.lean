import Iox2.Model.SlotMap
import Driver.Util
namespace Driver.SlotMapD
open Iox2.SlotMap Driver
open Iox2.Vec (Elem)

def showElem (e : Elem) : String := s!"{e.id}:{e.val}"

def showOut : Out Elem → String
  | .tt => "true"
  | .ff => "false"
  | .key k => s!"key:{k}"
  | .some e => "some:" ++ showElem e
  | .none => "none"
  | .panic => "PANIC"
  | .contents items n cap =>
      "[" ++ joinWith "," (items.map fun (k, e) => s!"{k}=" ++ showElem e) ++
        s!"] len={n} cap={cap} full={decide (n = cap)} empty={decide (n = 0)}"

def parse (t : List String) : Option (Op Elem) :=
  match t with
  | ["insert", i, v] => some (.insert ⟨nat! i, nat! v⟩)
  | ["insert_at", k, i, v] => some (.insertAt (nat! k) ⟨nat! i, nat! v⟩)
  | ["remove", k] => some (.remove (nat! k))
  | ["get", k] => some (.get (nat! k))
  | ["contains", k] => some (.contains (nat! k))
  | ["next_free_key"] => some .nextFreeKey
  | ["dump"] => some .dump
  | ["drop"] => some .dropAll
  | _ => none

def stepLine (s : St Elem) (t : List String) : St Elem × String :=
  match t with
  | ["reloc"] =>
      -- C14: relocating the memory block is invisible: the model state has no addresses
      (s, "ok d=[]")
  | ["new", fl, cap] =>
      if nat! cap = 0 ∧ fl ≠ "heap" then (s, "err:alloc") else (init (nat! cap), "ok d=[]")
  | _ =>
    match parse t with
    | none => (s, "bad-op")
    | some op =>
      let (s', out, drops) := step s op
      match out with
      | .panic => (s', "PANIC")
      | _ => (s', showOut out ++ " " ++ showDrops (drops.map (·.id)))

def comp : Comp := { σ := St Elem, init := init 0, step := stepLine }
end Driver.SlotMapD
