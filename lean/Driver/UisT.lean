import Iox2.Model.UniqueIndexSet
import Driver.Trace
namespace Driver.UisT
open Iox2.UIS Iox2.Sched Driver Driver.TraceD

def parseCmd : List String → Option Cmd
  | ["acquire"] => some .acquire
  | ["release", p] => some (.release (nat! p) .default)
  | ["release_lock", p] => some (.release (nat! p) .lockIfLast)
  | ["borrowed"] => some .borrowed
  | _ => none

def tcomp : TComp :=
  { σ := Sh, τ := Th, sys := sys
    load := fun p => { sh := Sh.init (hget p.header "cap") 65536, th := p.threads.map fun ops => Th.init (ops.filterMap parseCmd) }
    final := fun c => s!"head={c.sh.hd.head} borrowed={c.sh.hd.borrowed}" }

def comp : Comp := mkComp tcomp
end Driver.UisT
