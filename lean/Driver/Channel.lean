import Iox2.Model.Channel
import Driver.Util
namespace Driver.ChannelD
open Iox2.Channel Driver

def parse : List String → Option Op
  | ["send", c] => some (.send (nat! c))
  | ["reclaim"] => some .reclaim
  | ["recv"] => some .recv
  | ["release", k] => some (.release (nat! k))
  | ["borrow_count"] => some .borrowCount
  | ["has_data"] => some .hasData
  | _ => none

def stepLine (s : Option St) (t : List String) : Option St × String :=
  match t with
  | ["new", b, r, ov] => (some (St.init (nat! b) (nat! r) (ov = "1")), "ok")
  | _ =>
    match s, parse t with
    | none, _ => (none, "no-conn")
    | _, none => (s, "bad-op")
    | some s, some op => let (s', out) := step s op; (some s', out)

def comp : Comp := { σ := Option St, init := none, step := stepLine }
end Driver.ChannelD
