import Iox2.Model.PortCrash
import Driver.Util
/-
Driver of the port-level crash model (C04 port part).  One command per line, one output line per command:

  reset pub|sub|sub2            scenario: A creates a publisher ∥ H holds one subscriber; A creates a subscriber ∥ H holds one / two publishers
  spawn <n> victim              process <n>: A's `create` of the port
  spawn <n> cleaner <pid>       process <n>: Node::list + try_remove_stale_resources of A's node
  trace <n> | step <n> [<k>] | run <n> | kill <n> | show <n>     as in the `svccrash` component
  ls                            files by kind (A's and H's)
  end                           files by kind after H dropped everything
  holder                        what H observes: `count pubs=<n> subs=<m> ports=<creatable ports of A's kind>`
  scenario pub|sub|sub2 <fuseV|-> <fuseC|->
-/
namespace Driver.PortCrashD
open Driver Iox2.PortCrash

structure St where
  sh : Shared := {}
  th : List (String × Th) := []

def cresName : CRes → String
  | .ok => "ok" | .notDead => "none" | .anotherInstance => "err:AnotherInstanceIsCleaningUpTheNode" | .internalError => "err:InternalError"
def optS {α} (f : α → String) (d : String) : Option α → String
  | none => d | some a => f a
def shmName : ShmSt → String | .absent => "absent" | .created => "created" | .sized => "sized" | .final => "final"
def tagName : TagSt → String | .absent => "absent" | .init => "init" | .final => "final"

def insertS (x : String) : List String → List String
  | [] => [x]
  | y :: ys => if x ≤ y then x :: y :: ys else y :: insertS x ys
def sortS (xs : List String) : List String := xs.foldl (fun acc x => insertS x acc) []

def lsS (sh : Shared) (held : Bool) : String :=
  let datas := (if held then List.replicate sh.hdata "data=final" else []) ++ (if sh.data ≠ .absent then ["data=" ++ shmName sh.data] else [])
  let conns := ([sh.conn0, sh.conn1].filter (·.st ≠ .absent)).map (fun c => "conn=" ++ shmName c.st)
  let xs := (if held then ["static=final", "dyn=final"] else []) ++ (if sh.stag then ["stag=final"] else []) ++
    (if sh.node.present then ["node"] else []) ++ (if sh.node.dir then ["nodedir"] else []) ++
    (if sh.ptag ≠ .absent then ["ptag=" ++ tagName sh.ptag] else []) ++ sortS datas ++ sortS conns
  if xs.isEmpty then "-" else joinWith " " xs

def holderS (sh : Shared) : String :=
  let r := if sh.reg then 1 else 0
  let pubs := sh.hdata + (if sh.isPub then r else 0)
  let subs := (if sh.isPub then 1 else 0) + (if sh.isPub then 0 else r)
  s!"count pubs={pubs} subs={subs} ports={2 - r}"

def leftS (l : Left) : String :=
  let xs := (if l.stag then ["stag"] else []) ++ (if l.node then ["node"] else []) ++ (if l.dir then ["nodedir"] else []) ++
    (if l.ptag ≠ .absent then ["ptag=" ++ tagName l.ptag] else []) ++ (if l.data ≠ .absent then ["data=" ++ shmName l.data] else []) ++
    (if l.conn0 ≠ .absent then ["conn=" ++ shmName l.conn0] else []) ++ (if l.conn1 ≠ .absent then ["conn=" ++ shmName l.conn1] else []) ++
    (if l.reg then ["slot"] else []) ++ (if l.nodeReg then ["nodereg"] else [])
  if xs.isEmpty then "-" else joinWith "," xs

def stepsOf (k : Nat) (sh : Shared) (t : Th) : Shared × Th × List String :=
  match k with
  | 0 => (sh, t, [])
  | k + 1 => match stepL sh t with
    | none => (sh, t, [])
    | some (sh', t', s) => let r := stepsOf k sh' t'; (r.1, r.2.1, s :: r.2.2)

def setTh (th : List (String × Th)) (n : String) (t : Th) : List (String × Th) :=
  (th.filter (·.1 ≠ n)) ++ [(n, t)]

def scnOf (s : String) : Scn := if s == "pub" then .pub else if s == "sub2" then .sub2 else .sub
def fuseOf (s : String) : Option Nat := if s == "-" then none else some (nat! s)

def stepLine (s : St) (t : List String) : St × String :=
  match t with
  | ["reset", k] => ({ sh := (scnOf k).init, th := [] }, "ok")
  | ["spawn", n, "victim"] => ({ s with th := setTh s.th n (mkVictim s.sh.isPub) }, "ok")
  | ["spawn", n, "cleaner", p] => ({ s with th := setTh s.th n (mkCleaner (nat! p)) }, "ok")
  | ["trace", n] =>
    match s.th.lookup n with
    | none => (s, "err:no-such-process")
    | some th => (s, joinWith ";" (traceSolo fuel s.sh th))
  | "step" :: n :: rest =>
    match s.th.lookup n with
    | none => (s, "err:no-such-process")
    | some th =>
      let k := match rest with | [k] => nat! k | _ => 1
      let r := stepsOf k s.sh th
      ({ sh := r.1, th := setTh s.th n r.2.1 }, if r.2.2.isEmpty then "-" else joinWith ";" r.2.2)
  | ["run", n] =>
    match s.th.lookup n with
    | none => (s, "err:no-such-process")
    | some th =>
      let r := stepsOf fuel s.sh th
      ({ sh := r.1, th := setTh s.th n r.2.1 }, if r.2.2.isEmpty then "-" else joinWith ";" r.2.2)
  | ["kill", n] =>
    match s.th.lookup n with
    | none => (s, "err:no-such-process")
    | some th => ({ sh := onDeath s.sh th, th := s.th.filter (·.1 ≠ n) }, "ok")
  | ["show", n] =>
    match s.th.lookup n with
    | none => (s, "err:no-such-process")
    | some th => (s, s!"pc={th.pc} done={if th.done then 1 else 0} clean={optS cresName "killed" th.cres}")
  | ["ls"] => (s, lsS s.sh true)
  | ["end"] => (s, lsS s.sh false)
  | ["holder"] => (s, holderS s.sh)
  | ["scenario", k, fv, fc] =>
    let o := scenario (scnOf k) (fuseOf fv) (fuseOf fc)
    (s, s!"done={if o.done then 1 else 0} dead={if o.dead then 1 else 0} before={leftS o.before} clean1={optS cresName "killed" o.clean1} " ++
        s!"clean2={optS cresName "killed" o.clean2} after={leftS o.after}")
  | _ => (s, "err:bad-command")

def comp : Comp := { σ := St, init := {}, step := stepLine }
end Driver.PortCrashD
