import Iox2.Base.Sched
import Driver.Util
/-
Trace driver: input is the implementation's trace (`prog …`, `T<tid> …` event lines, `end`);
for every non-`ret` event line the model's thread `tid` takes one step and the model's own
event lines are printed.  `check` compares the two streams modulo a bijection of variable names.
-/
namespace Driver.TraceD
open Iox2.Sched Driver

/-- parse `T<tid>` -/
def tidOf (s : String) : Option Nat :=
  if s.startsWith "T" then (s.drop 1).toString.toNat? else none

/-- header `name k=v k=v`, thread programs separated by ` | ` with ops separated by `,` -/
structure ProgText where
  header : List String
  threads : List (List (List String))

def parseProg (line : String) : ProgText :=
  let body := (line.drop 5).toString   -- "prog "
  let parts := body.splitOn " | "
  { header := tokens (parts.headD ""),
    threads := parts.tail.map fun t => ((t.splitOn ",").filter (· ≠ "")).map tokens }

def hget (h : List String) (key : String) : Nat :=
  match h.find? (·.startsWith (key ++ "=")) with
  | some kv => nat! (kv.drop (key.length + 1)).toString
  | none => 0

/-- generic trace component: `σ τ` system, program loader -/
structure TComp where
  σ : Type
  τ : Type
  sys : Sys σ τ
  load : ProgText → Cfg σ τ
  /-- printed at `end`: a canonical summary of the final shared state (optional cross-check) -/
  final : Cfg σ τ → String

/-- performs the steps of thread `i` that emit no event (they cannot be separated from the preceding
visible step in an execution of the instrumented implementation) -/
def silent {σ τ : Type} (S : Sys σ τ) (c : Cfg σ τ) (i : Nat) : Nat → Cfg σ τ
  | 0 => c
  | fuel + 1 =>
    match S.stepAt c i with
    | some (c', []) => silent S c' i fuel
    | _ => c

def mkComp (tc : TComp) : Comp :=
  { σ := Option (Cfg tc.σ tc.τ)
    init := none
    step := fun st t =>
      match t with
      | "prog" :: _ =>
          let p := parseProg (joinWith " " t)
          (some (tc.load p), joinWith " " t)
      | ["end"] =>
          match st with
          | some c => (none, "end " ++ tc.final c)
          | none => (none, "end")
      | tk :: kind :: _ =>
          if kind = "ret" then (st, "")      -- the model printed its own ret line already
          else if kind = "deadlock" then
            -- the implementation's thread sleeps for good: the model's thread must be disabled as well
            match st, tidOf tk with
            | some c, some i =>
              match tc.sys.stepAt c i with
              | none => (st, s!"T{i} deadlock")
              | some _ => (st, s!"T{i} <model thread can step>")
            | _, _ => (st, "bad-line")
          else
            match st, tidOf tk with
            | some c, some i =>
              match tc.sys.stepAt c i with
              | some (c', evs) =>
                  -- silent steps (plain word accesses between two hooks) of the same thread follow at once
                  let c'' := silent tc.sys c' i 4096
                  (some c'', joinWith "\n" (evs.map (Ev.show i)))
              | none => (st, s!"T{i} <model thread cannot step>")
            | _, _ => (st, "bad-line")
      | _ => (st, "bad-line") }

end Driver.TraceD
