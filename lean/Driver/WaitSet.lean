import Iox2.Model.WaitSet
import Driver.Util
namespace Driver.WaitSetD
open Iox2.WaitSet Driver

def parse (t : List String) : Option Op :=
  match t with
  | ["attach_n", g, l] => some (.attachN (nat! g) (nat! l))
  | ["attach_d", g, l, p] => some (.attachD (nat! g) (nat! l) (nat! p))
  | ["attach_i", g, p] => some (.attachI (nat! g) (nat! p))
  | ["drop_guard", g] => some (.dropGuard (nat! g))
  | ["notify", l, id] => some (.notify (nat! l) (nat! id))
  | ["notify_all", sv, id] => some (.notifyAll (nat! sv) (nat! id))
  | ["drain", l] => some (.drain (nat! l))
  | ["run_once"] => some .runOnce
  | ["advance", k] => some (.advance (nat! k))
  | ["len"] => some .len
  | ["capacity"] => some .capacity
  | ["is_empty"] => some .isEmpty
  | _ => none

def kindCode : Kind → Nat
  | .d => 0
  | .n => 1
  | .t => 2

def kindChar : Kind → String
  | .d => "d"
  | .n => "n"
  | .t => "t"

def leRep (a b : Nat × Kind) : Bool := a.1 < b.1 || (a.1 == b.1 && kindCode a.2 ≤ kindCode b.2)

def insertRep (x : Nat × Kind) : List (Nat × Kind) → List (Nat × Kind)
  | [] => [x]
  | y :: ys => if leRep x y then x :: y :: ys else y :: insertRep x ys

def showReports (r : List (Nat × Kind)) : String :=
  "[" ++ joinWith "," ((r.foldl (fun acc x => insertRep x acc) []).map (fun e => toString e.1 ++ ":" ++ kindChar e.2)) ++ "]"

def render : Out → String
  | .ok => "ok"
  | .dup => "dup"
  | .none => "none"
  | .attachErr .InsufficientCapacity => "err:InsufficientCapacity"
  | .attachErr .AlreadyAttached => "err:AlreadyAttached"
  | .noAttachments => "err:NoAttachments"
  | .reports r => "ok:AllEventsHandled:" ++ showReports r
  | .foreign ids r => "ok:AllEventsHandled:" ++ showReports r ++ "+foreign" ++ toString ids.length
  | .notified k => "ok:" ++ toString k
  | .eventIdOutOfBounds => "err:EventIdOutOfBounds"
  | .drained ids => "[" ++ joinWith "," (ids.map (fun e => toString e.1 ++ "*" ++ toString e.2)) ++ "]"
  | .nat k => toString k
  | .bool b => toString b

/-- `fill base n p`: interval attachments with labels base, base+1, …; stops at the first refusal -/
def fill (s : State) (base p : Nat) : Nat → Nat → State × String
  | 0, done => (s, toString done ++ ":ok")
  | fuel + 1, done =>
    let (s', out) := step s (.attachI (base + done) p)
    match out with
    | .ok => fill s' base p fuel (done + 1)
    | o => (s', toString done ++ ":" ++ render o)

def stepLine (w : Option State) (t : List String) : Option State × String :=
  match t with
  | ["new", variant, cap, nl, ns] =>
      (some (State.init (nat! cap) (variant != "ipc") (nat! nl) (nat! ns) 7), "ok")
  | ["fill", base, n, p] =>
    match w with
    | none => (none, "no-world")
    | some s => let (s', out) := fill s (nat! base) (nat! p) (nat! n) 0; (some s', out)
  | ["maps"] =>
    -- sizes of the two private maps (the harness reads them off the wait set's Debug output)
    match w with
    | none => (none, "no-world")
    | some s => (some s, "a2d=" ++ toString s.a2d.length ++ " d2a=" ++ toString s.d2a.length)
  | _ =>
    match w, parse t with
    | none, _ => (none, "no-world")
    | _, none => (w, "bad-op")
    | some s, some op => let (s', out) := step s op; (some s', render out)

def comp : Comp := { σ := Option State, init := none, step := stepLine }
end Driver.WaitSetD
