import Iox2.Model.WaitSet
import Driver.Util
namespace Driver.WaitSetD
open Driver

def stepLine (s : Unit) (_t : List String) : Unit × String := (s, "unimplemented")

def comp : Comp := { σ := Unit, init := (), step := stepLine }
end Driver.WaitSetD
