import Iox2.Model.Lifecycle
import Driver.Util
namespace Driver.LifecycleD
open Driver

def stepLine (s : Unit) (_t : List String) : Unit × String := (s, "unimplemented")

def comp : Comp := { σ := Unit, init := (), step := stepLine }
end Driver.LifecycleD
