import Iox2.Model.Lifecycle
import Driver.Util
/-
Driver of the lifecycle model (C07 / C04-fs).  One command per line, one output line per command:

  reset                                  empty file system, no processes
  spawn <n> owner <ntags> <drop 0|1>     process <n> (pid 0): creates the node, creates <ntags> tags, drops it if <drop>
  spawn <n> monitor <pid>                Node::list for the node
  spawn <n> cleaner <pid> [<pc>]         Node::list + remove_stale_resources (pc 11: starts at ProcessCleaner::new)
  spawn <n> cleaner <pid> svcfails       the same; removing the node from a service fails (cleanup_failure path)
  trace <n>                              step names of <n> running alone to its end (state unchanged)
  step <n> [<k>]                         <n> takes k (default 1) steps: their names
  run <n>                                <n> runs to its end: step names
  kill <n>                               <n> dies (its locks are released)
  show <n>                               pc and registers of <n>
  tag init|final                         a tag file appears in the node directory (left by a port)
  ls                                     files that exist, by role, with permission class and lock holder
  survey                                 survivors: Node::list verdict, raw state, clean-up result, what is left after it
-/
namespace Driver.LifecycleD
open Driver Iox2.Lifecycle

structure St where
  fs : FS := {}
  th : List (String × Th) := []

def listVName : ListV → String
  | .notListed => "notListed" | .skipped => "skipped" | .alive => "Alive" | .dead => "Dead" | .undefined => "Undefined"
def pstateName : PState → String
  | .alive => "Alive" | .dead => "Dead" | .doesNotExist => "DoesNotExist" | .starting => "Starting"
  | .cleaningUp => "CleaningUp" | .corrupted => "err:CorruptedState" | .ctxUnreadable => "err:ContextUnreadable"
def calName : Cal → String
  | .alive => "Alive" | .dead => "Dead" | .doesNotExist => "DoesNotExist" | .internalError => "err:InternalError"
def cresName : CRes → String
  | .ok => "ok" | .notDead => "none" | .alreadyCleanedUp => "err:ResourcesAlreadyCleanedUp"
  | .anotherInstance => "err:AnotherInstanceIsCleaningUpTheNode" | .internalError => "err:InternalError"
  | .panicStillAlive => "PANIC"

def optS {α} (f : α → String) : Option α → String
  | none => "-" | some a => f a

def permName : Perm → String | .init => "init" | .final => "final"
def fileS (n : String) (f : File) : List String :=
  if f.linked then [n ++ ":" ++ permName f.perm ++ (match f.lock with | some p => s!":L{p}" | none => "")]
  else match f.lock with | some p => [s!"({n}):L{p}"] | none => []

def lsS (fs : FS) : String :=
  let xs := fileS "ctx" fs.ctx ++ fileS "st" fs.st ++ fileS "ol" fs.ol ++ fileS "det" fs.det ++
    (if fs.dir then ["dir"] else []) ++ (if fs.tags > 0 then [s!"tag={fs.tags}"] else []) ++
    (if fs.tagsInit > 0 then [s!"taginit={fs.tagsInit}"] else [])
  if xs.isEmpty then "-" else joinWith " " xs

def stepsOf (k : Nat) (fs : FS) (t : Th) : FS × Th × List String :=
  match k with
  | 0 => (fs, t, [])
  | k + 1 => match stepL fs t with
    | none => (fs, t, [])
    | some (fs', t', s) => let r := stepsOf k fs' t'; (r.1, r.2.1, s :: r.2.2)

def setTh (th : List (String × Th)) (n : String) (t : Th) : List (String × Th) :=
  (th.filter (·.1 ≠ n)) ++ [(n, t)]

def stepLine (s : St) (t : List String) : St × String :=
  match t with
  | ["reset"] => ({}, "ok")
  | ["spawn", n, "owner", k, d] => ({ s with th := setTh s.th n (mkOwner (nat! k) (d == "1")) }, "ok")
  | ["spawn", n, "monitor", p] => ({ s with th := setTh s.th n (mkMonitor (nat! p)) }, "ok")
  | ["spawn", n, "cleaner", p] => ({ s with th := setTh s.th n (mkCleaner (nat! p)) }, "ok")
  | ["spawn", n, "cleaner", p, "svcfails"] => ({ s with th := setTh s.th n { mkCleaner (nat! p) with svcFails := true } }, "ok")
  | ["spawn", n, "cleaner", p, pc] => ({ s with th := setTh s.th n { mkCleaner (nat! p) with pc := nat! pc } }, "ok")
  | ["trace", n] =>
    match s.th.lookup n with
    | none => (s, "err:no-such-process")
    | some th => (s, joinWith ";" (traceSolo fuel s.fs th))
  | "step" :: n :: rest =>
    match s.th.lookup n with
    | none => (s, "err:no-such-process")
    | some th =>
      let k := match rest with | [k] => nat! k | _ => 1
      let r := stepsOf k s.fs th
      ({ fs := r.1, th := setTh s.th n r.2.1 }, if r.2.2.isEmpty then "-" else joinWith ";" r.2.2)
  | ["run", n] =>
    match s.th.lookup n with
    | none => (s, "err:no-such-process")
    | some th =>
      let r := stepsOf fuel s.fs th
      ({ fs := r.1, th := setTh s.th n r.2.1 }, if r.2.2.isEmpty then "-" else joinWith ";" r.2.2)
  | ["kill", n] =>
    match s.th.lookup n with
    | none => (s, "err:no-such-process")
    | some th => ({ fs := onDeath s.fs th, th := s.th.filter (·.1 ≠ n) }, "ok")
  | ["show", n] =>
    match s.th.lookup n with
    | none => (s, "err:no-such-process")
    | some th => (s, s!"pc={th.pc} list={optS listVName th.listed} raw={optS pstateName th.raw} cal={optS (calName ∘ calOf) th.raw} clean={optS cresName th.res}")
  | ["tag", "init"] => ({ s with fs := { s.fs with tagsInit := s.fs.tagsInit + 1 } }, "ok")
  | ["tag", "final"] => ({ s with fs := { s.fs with tags := s.fs.tags + 1 } }, "ok")
  | ["ls"] => (s, lsS s.fs)
  | ["survey"] =>
    let v := survey s.fs
    let lv := match v.listed with | some .alive => "Alive" | some .dead => "Dead" | some .undefined => "Undefined" | _ => "-"
    (s, s!"list={lv} raw={pstateName v.raw} clean={optS cresName v.clean} left={if v.left.isEmpty then "-" else joinWith "," v.left}")
  | _ => (s, "err:bad-command")

def comp : Comp := { σ := St, init := {}, step := stepLine }
end Driver.LifecycleD
