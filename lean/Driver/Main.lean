import Driver.Util
import Driver.Vec
import Driver.Queue
import Driver.PubSub
import Driver.ShmSets
import Driver.EventPorts
import Driver.Blackboard
import Driver.EventSeq
import Driver.ResizeMem
import Driver.Channel
import Driver.Lifecycle
import Driver.ServiceLife
import Driver.ServiceCrash
import Driver.PortCrash
import Driver.RelPtr
import Driver.ReqRes
import Driver.WaitSet
import Driver.Ffi
import Driver.SlotMap
import Driver.FlatMap
import Driver.Str
import Driver.Alloc
import Driver.Names
import Driver.SpscT
import Driver.OverflowT
import Driver.SeqLockT
import Driver.ConnT
import Driver.UisT
import Driver.RuisT
import Driver.ContainerT
import Driver.CrashT
import Driver.BumpT
import Driver.EventT
open Driver

partial def loop (c : Comp) (hin hout : IO.FS.Stream) (s : c.σ) (buf : String) (n : Nat) : IO Unit := do
  let line ← hin.getLine
  if line.isEmpty then
    hout.putStr buf
    hout.flush
    return ()
  let t := tokens line
  if t.isEmpty || (t.head?.map (·.startsWith "#")).getD false then
    loop c hin hout s buf n
  else
    let (s', out) := c.step s t
    let buf := if out.isEmpty then buf else buf ++ out ++ "\n"
    if n ≥ 2000 then
      hout.putStr buf
      loop c hin hout s' "" 0
    else
      loop c hin hout s' buf (n+1)

def components : List (String × Comp) := [
  ("vec", VecD.comp),
  ("queue", QueueD.comp),
  ("pubsub", PubSubD.comp),
  ("shmsets", ShmSetsD.comp),
  ("eventports", EventPortsD.comp),
  ("blackboard", BlackboardD.comp),
  ("eventseq", EventSeqD.comp),
  ("resize", ResizeMemD.comp),
  ("zcc", ChannelD.comp),
  ("lifecycle", LifecycleD.comp),
  ("svclife", ServiceLifeD.comp),
  ("svccrash", ServiceCrashD.comp),
  ("portcrash", PortCrashD.comp),
  ("relptr", RelPtrD.comp),
  ("reqres", ReqResD.comp),
  ("waitset", WaitSetD.comp),
  ("ffi", FfiD.comp),
  ("slotmap", SlotMapD.comp),
  ("flatmap", FlatMapD.comp),
  ("string", StrD.comp),
  ("alloc", AllocD.comp),
  ("names", NamesD.comp),
  ("spsc", SpscT.comp),
  ("overflow", OverflowT.comp),
  ("seqlock", SeqLockT.comp),
  ("conn", ConnT.comp),
  ("uis", UisT.comp),
  ("ruis", RuisT.comp),
  ("container", ContainerT.comp),
  ("bump", BumpT.comp),
  ("ruisx", CrashT.ruisComp),
  ("containerx", CrashT.contComp),
  ("event", EventT.comp)
]

def main (args : List String) : IO UInt32 := do
  match args with
  | [name] =>
    match components.lookup name with
    | some c =>
      loop c (← IO.getStdin) (← IO.getStdout) c.init "" 0
      return 0
    | none => IO.eprintln s!"unknown component {name}"; return 2
  | _ => IO.eprintln "usage: iox2driver <component> < ops"; return 2
