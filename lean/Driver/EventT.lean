import Iox2.Model.EventProto
import Driver.Trace
namespace Driver.EventT
open Iox2.EventProto Iox2.Sched Driver Driver.TraceD

def parseCmd : List String → Option Cmd
  | ["notify", id] => some (.notify (nat! id))
  | ["try_wait"] => some .tryWait
  | ["blocking_wait"] => some .blockingWait
  | _ => none

def tcomp : TComp :=
  { σ := Sh, τ := Th, sys := sys
    load := fun p =>
      { sh := Sh.init (hget p.header "counting" = 1) (hget p.header "nids") (hget p.header "bound") (hget p.header "fail" = 1)
        th := p.threads.map fun ops => Th.init (ops.filterMap parseCmd) }
    final := fun c => s!"ns={c.sh.ns} trigger={c.sh.trigger}" }

def comp : Comp := mkComp tcomp
end Driver.EventT
