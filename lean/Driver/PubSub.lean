import Iox2.Model.PubSub
import Iox2.Model.Shutdown
import Driver.Util
namespace Driver.PubSubD
open Iox2.PubSub Iox2.Shutdown Driver

def optNat (s : String) : Option Nat := if s = "-" then none else some (nat! s)

def parse (t : List String) : Option Op :=
  match t with
  | ["cpub", p, ml] => some (.cpub (nat! p) (nat! ml))
  | ["dpub", p] => some (.dpub (nat! p))
  | ["csub", s, b, h] => some (.csub (nat! s) (optNat b) (optNat h))
  | ["dsub", s] => some (.dsub (nat! s))
  | ["loan", p, l] => some (.loan (nat! p) (nat! l))
  | ["loans", p, l, _len] => some (.loan (nat! p) (nat! l))   -- slice payload: the length is not part of the model
  | ["loanf", p, l, _n] => some (.loan (nat! p) (nat! l))     -- flatbuffer payload: a (relocating) grow of the loan is invisible
  | ["loanf", p, l, _n, _late] => some (.loan (nat! p) (nat! l))
  | ["send", p, l, tag] => some (.send (nat! p) (nat! l) (nat! tag))
  | ["dloan", p, l] => some (.dloan (nat! p) (nat! l))
  | ["recv", s] => some (.recv (nat! s))
  | ["dsample", s, k] => some (.dsample (nat! s) (nat! k))
  | ["upd", "p", p] => some (.updP (nat! p))
  | ["upd", "s", s] => some (.updS (nat! s))
  | ["probe", p] => some (.probe (nat! p))
  | ["has", s] => some (.has (nat! s))
  | _ => none

def stepLine (w : Option SWorld) (t : List String) : Option SWorld × String :=
  match t with
  | ["new", variant, mp, ms, b, h, r, ov, e] =>
      -- service builder: without safe overflow the buffer must hold the whole history
      if ov ≠ "1" ∧ clamp1 (nat! b) < nat! h then (none, "err:service:SubscriberBufferMustBeLargerThanHistorySize") else
      let cfg : Cfg := { maxPubs := clamp1 (nat! mp), maxSubs := clamp1 (nat! ms), bufMax := clamp1 (nat! b),
                         hist := nat! h, borrowMax := clamp1 (nat! r), overflow := ov = "1", expired := nat! e }
      (some (SWorld.init cfg (variant == "ipc" || variant == "ipc-slice" || variant == "ipc-fb")), "ok")
  | ["new", variant, mp, ms, b, h, r, ov, e, pre] =>
      -- service builder: without safe overflow the buffer must hold the whole history
      if ov ≠ "1" ∧ clamp1 (nat! b) < nat! h then (none, "err:service:SubscriberBufferMustBeLargerThanHistorySize") else
      let cfg : Cfg := { maxPubs := clamp1 (nat! mp), maxSubs := clamp1 (nat! ms), bufMax := clamp1 (nat! b),
                         hist := nat! h, borrowMax := clamp1 (nat! r), overflow := ov = "1", expired := nat! e,
                         prealloc := some (nat! pre) }
      (some (SWorld.init cfg (variant == "ipc" || variant == "ipc-slice" || variant == "ipc-fb")), "ok")
  | _ =>
    match w with
    | none => (none, "no-world")
    | some w =>
      let sop : Option SOp :=
        match t with
        | ["dnode"] => some .dnode
        | ["dsvc"] => some .dsvc
        | ["ls"] => some .ls
        | _ => (parse t).map .ps
      match sop with
      | none => (some w, "bad-op")
      | some op => let (w', out) := Iox2.Shutdown.step w op; (some w', out)

def comp : Comp := { σ := Option SWorld, init := none, step := stepLine }
end Driver.PubSubD
