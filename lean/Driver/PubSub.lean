import Iox2.Model.PubSub
import Iox2.Model.Shutdown
import Driver.Util
namespace Driver.PubSubD
open Iox2.PubSub Iox2.Shutdown Driver

def optNat (s : String) : Option Nat := if s = "-" then none else some (nat! s)

def parse (t : List String) : Option Op :=
  match t with
  | ["cpub", p, ml] => some (.cpub (nat! p) (nat! ml))
  | ["dpub", p] => some (.dpub (nat! p))
  | ["csub", s, b, h] => some (.csub (nat! s) (optNat b) (optNat h))
  | ["dsub", s] => some (.dsub (nat! s))
  | ["loan", p, l] => some (.loan (nat! p) (nat! l))
  | ["loans", p, l, _len] => some (.loan (nat! p) (nat! l))   -- slice payload: the length is not part of the model
  | ["loanf", p, l, _n] => some (.loan (nat! p) (nat! l))     -- flatbuffer payload: a (relocating) grow of the loan is invisible
  | ["loanf", p, l, _n, _late] => some (.loan (nat! p) (nat! l))
  | ["send", p, l, tag] => some (.send (nat! p) (nat! l) (nat! tag))
  | ["dloan", p, l] => some (.dloan (nat! p) (nat! l))
  | ["recv", s] => some (.recv (nat! s))
  | ["dsample", s, k] => some (.dsample (nat! s) (nat! k))
  | ["upd", "p", p] => some (.updP (nat! p))
  | ["upd", "s", s] => some (.updS (nat! s))
  | ["probe", p] => some (.probe (nat! p))
  | ["has", s] => some (.has (nat! s))
  | _ => none

/-! ### several nodes, node death and cleanup (C04, API-call level) — driver only

The proved models know one node.  Further nodes (`open k`: same process, `spawn k`: a process of its own), `kill k` and
`cleanup k` are handled here: the driver remembers which node created which port; the death of a node changes nothing in the
model world (its ports keep their registry slots, connections and chunks: that is what the survivors see until the cleanup);
`cleanup` replays, for every dead node, the calls of an orderly drop of everything the node owned (`dsample`, `dsub`, `dloan`,
`dpub`) on the model.  The claim checked against the real code is exactly that equivalence. -/

structure NodeRec where
  handle : Bool := true
  svc : Bool := true
  dead : Bool := false
  dirLeft : Bool := false

structure DState where
  sw : SWorld
  multi : Bool := false
  nodes : List (Nat × NodeRec) := []
  pubNode : List (Nat × Nat) := []
  subNode : List (Nat × Nat) := []
  bph : Bool := false   -- publishers carry a backpressure handler that answers DiscardDataAndFail

def ownerOf (m : List (Nat × Nat)) (l : Nat) : Nat := ((m.find? (·.1 = l)).map (·.2)).getD 0
def getNode (d : DState) (k : Nat) : Option NodeRec := (d.nodes.find? (·.1 = k)).map (·.2)
def setNode (d : DState) (k : Nat) (r : NodeRec) : DState :=
  { d with nodes := d.nodes.map fun e => if e.1 = k then (k, r) else e }

/-- port cores (the shared state of a port: kept by the port object, its loans / its samples) of node `k` -/
def portCoresOf (d : DState) (k : Nat) : Nat :=
  (d.sw.w.pubs.filter fun e => e.2.ex && ownerOf d.pubNode e.1 = k).length +
  (d.sw.w.subs.filter fun e => e.2.ex && ownerOf d.subNode e.1 = k).length

def svcCoreOf (d : DState) (k : Nat) : Bool :=
  match getNode d k with
  | some r => r.svc || portCoresOf d k > 0
  | none => false

def nodeCoreOf (d : DState) (k : Nat) : Bool :=
  match getNode d k with
  | some r => r.handle || svcCoreOf d k
  | none => false

def resourcesMulti (d : DState) : List (String × Nat) :=
  if !d.sw.ipc then [] else
  let keys := d.nodes.map (·.1)
  let n := (keys.filter (nodeCoreOf d)).length
  let v := (keys.filter (svcCoreOf d)).length
  let dirs := (d.nodes.filter fun e => nodeCoreOf d e.1 || e.2.dirLeft).length
  let pubsEx := (d.sw.w.pubs.filter (·.2.ex)).length
  let all := [("connection", d.sw.w.conns.length), ("data", pubsEx), ("details", n), ("dynamic", if v > 0 then 1 else 0),
              ("node_monitor", n), ("node_monitor_context", n), ("node_monitor_owner_lock", n),
              ("nodedir", dirs), ("port_tag", portCores d.sw.w), ("service", if v > 0 then 1 else 0), ("service_tag", v)]
  all.filter (·.2 ≠ 0)

/-- one publish-subscribe call on the model world; a port core that was the last owner of its node leaves the node's
directory behind (as in `Iox2.Shutdown.step`) -/
def psStep (d : DState) (op : Op) (markDirs : Bool) : DState × String :=
  let (w', out) := Iox2.PubSub.step d.sw.w op
  let d' : DState := { d with sw := { d.sw with w := w' } }
  if !markDirs then (d', out) else
  ({ d' with nodes := d'.nodes.map fun e =>
      if nodeCoreOf d e.1 && !nodeCoreOf d' e.1 then (e.1, { e.2 with dirLeft := true }) else e }, out)

def repeatOp (d : DState) (op : Op) : Nat → DState
  | 0 => d
  | n + 1 => repeatOp (psStep d op false).1 op n

/-- the calls of an orderly drop of everything node `k` owned -/
def dropAllOf (d : DState) (k : Nat) : DState :=
  let subs := (d.sw.w.subs.filter fun e => ownerOf d.subNode e.1 = k).map fun e => (e.1, e.2.held.length)
  let d := subs.foldl (fun d (s, h) => (psStep (repeatOp d (.dsample s 0) h) (.dsub s) false).1) d
  let pubs := (d.sw.w.pubs.filter fun e => ownerOf d.pubNode e.1 = k).map fun e => (e.1, e.2.loans.map (·.1))
  pubs.foldl (fun d (p, ls) => (psStep (ls.foldl (fun d l => (psStep d (.dloan p l) false).1) d) (.dpub p) false).1) d

def stripAt (t : List String) : List String × Nat :=
  match t.getLast? with
  | some x => if x.startsWith "@" then (t.dropLast, nat! (x.drop 1).toString) else (t, 0)
  | none => (t, 0)

/-- the port a call addresses: (is publisher, label) -/
def addressed (t : List String) : Option (Bool × Nat) :=
  match t with
  | ["dpub", p] | ["probe", p] | ["upd", "p", p] => some (true, nat! p)
  | "loan" :: p :: _ | "send" :: p :: _ | "dloan" :: p :: _ => some (true, nat! p)
  | ["dsub", s] | ["recv", s] | ["has", s] | ["upd", "s", s] => some (false, nat! s)
  | "dsample" :: s :: _ => some (false, nat! s)
  | _ => none

def multiStep (d : DState) (t0 : List String) : DState × String :=
  let (t, k) := stripAt t0
  match t with
  | ["ls"] => (d, showResources (resourcesMulti d))
  | ["open", n] | ["spawn", n] =>
    if (getNode d (nat! n)).isSome then (d, "dup") else
    if !(d.nodes.any fun e => svcCoreOf d e.1) then (d, "err:open:DoesNotExist") else
    ({ d with nodes := d.nodes ++ [(nat! n, {})] }, "ok")
  | ["dnode", n] | ["dsvc", n] | ["kill", n] | ["cleanup", n] =>
    let n := nat! n
    match getNode d n with
    | none => (d, if t.head? = some "kill" then "no-node" else "none")
    | some r =>
      if r.dead then (d, if t.head? = some "kill" then "dead" else "none") else
      match t.head? with
      | some "dnode" => if r.handle then (setNode d n { r with handle := false }, "ok") else (d, "none")
      | some "dsvc" => if r.svc then (setNode d n { r with svc := false }, "ok") else (d, "none")
      | some "kill" => (setNode d n { r with dead := true }, "ok")
      | _ =>
        if !r.handle then (d, "none") else
        let deadOnes := (d.nodes.filter fun e => e.2.dead && nodeCoreOf d e.1).map (·.1)
        let d := deadOnes.foldl (fun d j =>
          let d := dropAllOf d j
          match getNode d j with
          | some r => setNode d j { r with handle := false, svc := false, dirLeft := false }
          | none => d) d
        (d, s!"c={deadOnes.length},f=0")
  | ["dnode"] => multiStep_dn d "dnode"
  | ["dsvc"] => multiStep_dn d "dsvc"
  | _ =>
    match parse t with
    | none => (d, "bad-op")
    | some op =>
      match op with
      | .cpub p _ | .csub p _ _ =>
        let isPub := match op with | .cpub _ _ => true | _ => false
        let fresh := if isPub then (getP d.sw.w p).isNone else (getS d.sw.w p).isNone
        let usable := match getNode d k with | some r => !r.dead && r.svc | none => false
        if fresh && !usable then (d, "no-service") else
        let (d', out) := psStep d op false
        if out == "ok" then
          (if isPub then { d' with pubNode := d'.pubNode ++ [(p, k)] } else { d' with subNode := d'.subNode ++ [(p, k)] }, out)
        else (d', out)
      | _ =>
        let deadOwner := match addressed t with
          | some (true, l) => (match getNode d (ownerOf d.pubNode l) with | some r => r.dead | none => false)
          | some (false, l) => (match getNode d (ownerOf d.subNode l) with | some r => r.dead | none => false)
          | none => false
        if deadOwner then (d, "none") else psStep d op true
where
  multiStep_dn (d : DState) (what : String) : DState × String :=
    match getNode d 0 with
    | none => (d, "none")
    | some r =>
      if r.dead then (d, "none") else
      if what == "dnode" then (if r.handle then (setNode d 0 { r with handle := false }, "ok") else (d, "none"))
      else (if r.svc then (setNode d 0 { r with svc := false }, "ok") else (d, "none"))

def stepLine0 (w : Option DState) (t : List String) : Option DState × String :=
  match t with
  | ["new", variant, mp, ms, b, h, r, ov, e] =>
      -- service builder: without safe overflow the buffer must hold the whole history
      if ov ≠ "1" ∧ clamp1 (nat! b) < nat! h then (none, "err:service:SubscriberBufferMustBeLargerThanHistorySize") else
      let cfg : Cfg := { maxPubs := clamp1 (nat! mp), maxSubs := clamp1 (nat! ms), bufMax := clamp1 (nat! b),
                         hist := nat! h, borrowMax := clamp1 (nat! r), overflow := ov = "1", expired := nat! e }
      (some { sw := SWorld.init cfg (variant == "ipc" || variant == "ipc-slice" || variant == "ipc-fb") }, "ok")
  | ["new", variant, mp, ms, b, h, r, ov, e, pre] =>
      -- service builder: without safe overflow the buffer must hold the whole history
      if ov ≠ "1" ∧ clamp1 (nat! b) < nat! h then (none, "err:service:SubscriberBufferMustBeLargerThanHistorySize") else
      let cfg : Cfg := { maxPubs := clamp1 (nat! mp), maxSubs := clamp1 (nat! ms), bufMax := clamp1 (nat! b),
                         hist := nat! h, borrowMax := clamp1 (nat! r), overflow := ov = "1", expired := nat! e,
                         prealloc := some (nat! pre) }
      (some { sw := SWorld.init cfg (variant == "ipc" || variant == "ipc-slice" || variant == "ipc-fb") }, "ok")
  | _ =>
    match w with
    | none => (none, "no-world")
    | some d =>
      -- the first `open` / `spawn` of a case switches to the several-nodes bookkeeping
      let d : DState :=
        if !d.multi && (t.head? = some "open" || t.head? = some "spawn" || t.head? = some "kill" || t.head? = some "cleanup") then
          { d with multi := true, nodes := [(0, { handle := d.sw.node, svc := d.sw.svc, dirLeft := d.sw.nodeDirLeft })] }
        else d
      if d.multi then
        let (d', out) := multiStep d t
        (some d', out)
      else
      let sop : Option SOp :=
        match t with
        | ["dnode"] => some .dnode
        | ["dsvc"] => some .dsvc
        | ["ls"] => some .ls
        | _ => (parse t).map .ps
      match sop with
      | none => (some d, "bad-op")
      | some op => let (w', out) := Iox2.Shutdown.step d.sw op; (some { d with sw := w' }, out)

/-- worlds with a backpressure handler (`bph`): the handler is asked when the buffer of a CONNECTED receiver is full and safe
overflow is off; it answers DiscardDataAndFail, so the sample is skipped for that receiver exactly as without a handler
(the proved `send` step) and the call reports `UnableToDeliver` instead of the number of recipients. The skipped
connections are read off the model's ghost log `gSkipped` (send number of this very send). -/
def stepLine (w : Option DState) (t : List String) : Option DState × String :=
  match w, t with
  | some d, ["bph"] => (some { d with bph := true }, "ok")
  | some d, "send" :: p :: _ =>
    let seq := (getP d.sw.w (nat! p)).map (·.seq)
    let (w', out) := stepLine0 w t
    if d.bph && out.startsWith "ok:" then
      match w', seq with
      | some d', some q =>
        if d'.sw.w.conns.any (fun c => c.pid == nat! p && c.rAtt && c.gSkipped.getLast? == some q) then (w', "err:UnableToDeliver")
        else (w', out)
      | _, _ => (w', out)
    else (w', out)
  | _, _ => stepLine0 w t

def comp : Comp := { σ := Option DState, init := none, step := stepLine }
end Driver.PubSubD
