import Iox2.Model.RelPtr
import Driver.Util
namespace Driver.RelPtrD
open Iox2.RelPtr Driver

/-- the model keeps a fictitious mapping address that changes at every `reloc`: the outputs must
not depend on it (`Iox2.C14.asPtr_relocate`) -/
structure DSt where
  blk : Block
  base : Int

def stepLine (d : DSt) (t : List String) : DSt × String :=
  match t with
  | ["new", _] => ({ blk := { cells := [] }, base := 4096 }, "ok")
  | ["init", s, tg] => ({ d with blk := d.blk.init d.base (nat! s) (nat! tg) }, "ok")
  | ["get", s] => (d, toString (d.blk.asPtr d.base (nat! s) - d.base))
  | ["copy", f, tt] => ({ d with blk := d.blk.copyCell (nat! f) (nat! tt) }, "ok")
  | ["reloc"] => ({ d with base := d.base * 3 + 8192 }, "ok")
  | _ => (d, "bad-op")

def comp : Comp := { σ := DSt, init := { blk := { cells := [] }, base := 0 }, step := stepLine }
end Driver.RelPtrD
