import Iox2.Model.RobustIndexSet
import Driver.Trace
namespace Driver.RuisT
open Iox2.RUIS Iox2.Sched Driver Driver.TraceD

def parseCmd : List String → Option Cmd
  | ["acquire"] => some .acquire
  | ["release", p] => some (.release (nat! p) .default)
  | ["release_lock", p] => some (.release (nat! p) .lockIfLast)
  | ["borrowed"] => some .borrowed
  | ["recover", d] => some (.recover (nat! d) .default)
  | ["recover_lock", d] => some (.recover (nat! d) .lockIfLast)
  | ["die"] => some .die
  | _ => none

def tcomp : TComp :=
  { σ := RSh, τ := Th, sys := sys
    load := fun p =>
      let ths := (p.threads.zip (List.range p.threads.length)).map fun (ops, i) => Th.init (100 + i) (ops.filterMap parseCmd)
      -- threads whose program starts with `die` are dead from the start
      ths.foldl (fun (c : Cfg RSh Th) t => let (sh, t') := settle c.sh t; { sh := sh, th := c.th ++ [t'] })
        { sh := RSh.init (hget p.header "cap"), th := [] }
    final := fun c => s!"gen={if c.sh.gen = LOCKG then "LOCK" else toString c.sh.gen} cells={c.sh.cells.map fun x => if x = EMPTY then 0 else x}" }

def comp : Comp := mkComp tcomp
end Driver.RuisT
