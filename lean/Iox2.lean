import Iox2.Model.Vec
