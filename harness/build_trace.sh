#!/bin/sh
# builds the steptrace binary against /repo with the generated instrumented drop-in
set -e
cd "$(dirname "$0")"
python3 ../extract/dropin_gen.py "$PWD/dropin/iceoryx2-pal-concurrency-sync" >/dev/null
CARGO_PROFILE_RELEASE_DEBUG_ASSERTIONS=false CARGO_NET_OFFLINE=true cargo build --release --offline --features trace --bin steptrace \
   --config "paths=[\"$PWD/dropin/iceoryx2-pal-concurrency-sync\"]" --target-dir "$PWD/target-trace" "$@"
