extern crate iceoryx2_bb_loggers;
mod common;
mod c01_pubsub;
mod c05_eventports;
mod c05_eventseq;
mod c08_zcc;
mod c11_reqres;
mod c12_blackboard;
mod c14_reloc;
mod c14_shmsets;
mod c18_ffi;
mod c20_waitset;
mod c15_alloc;
mod c15_resize;
mod c16_vec;
mod c19_names;
mod c16_queue;
mod c16_slotmap;
mod c16_string;
use common::*;

fn main() {
    let argv: Vec<String> = std::env::args().collect();
    if argv.len() < 3 {
        eprintln!("usage: seqdiff <component> gen|replay [--seed N --cases N --len N --exhaustive L]");
        std::process::exit(2);
    }
    struct Quiet;
    impl iceoryx2_log::Log for Quiet {
        fn log(&self, _l: iceoryx2_log::LogLevel, _o: core::fmt::Arguments, _m: core::fmt::Arguments) {}
    }
    static QUIET: Quiet = Quiet;
    if std::env::var("VERIF_LOG").is_err() {
        iceoryx2_log::set_logger(&QUIET);
    }
    iceoryx2_log::set_log_level(iceoryx2_log::LogLevel::Fatal);
    std::panic::set_hook(Box::new(|_| {}));
    let comp = argv[1].as_str();
    let args = parse_args(&argv[2..]);
    macro_rules! go {
        ($gen:path, $mk:expr) => {{
            let mut cases = if args.mode == "replay" { read_cases_from_stdin() } else { $gen(&args) };
            if args.mode != "replay" && args.rest.iter().any(|x| x == "reloc") {
                // C14: only the cases whose container lives in a relocatable block, with relocations of
                // the block at arbitrary points of the history (after every op in exhaustive mode)
                let mut rng = Rng::new(args.seed ^ 0x14);
                cases.retain(|c| c.first().map(|l| l.split(' ').nth(1) == Some("reloc")).unwrap_or(false));
                for c in cases.iter_mut() {
                    let mut out = vec![];
                    for (i, l) in c.iter().enumerate() {
                        out.push(l.clone());
                        if i > 0 && (args.exhaustive > 0 || rng.chance(30)) {
                            out.push("reloc".to_string());
                        }
                    }
                    *c = out;
                }
            }
            run_cases(&$mk, &cases);
        }};
    }
    match comp {
        "pubsub" => go!(c01_pubsub::generate, || c01_pubsub::PubSubComp::new()),
        "reqres" => go!(c11_reqres::generate, || c11_reqres::ReqResComp::new()),
        "waitset" => go!(c20_waitset::generate, || c20_waitset::WaitSetComp::new()),
        "ffi" => go!(c18_ffi::generate, || c18_ffi::FfiComp::new()),
        "relptr" => go!(c14_reloc::generate, || c14_reloc::RelPtrComp::new()),
        "zcc" => go!(c08_zcc::generate, || c08_zcc::ZccComp::new()),
        "resize" => go!(c15_resize::generate, || c15_resize::ResizeComp::new()),
        "eventseq" => go!(c05_eventseq::generate, || c05_eventseq::EventSeqComp::new()),
        "blackboard" => go!(c12_blackboard::generate, || c12_blackboard::BlackboardComp::new()),
        "eventports" => go!(c05_eventports::generate, || c05_eventports::EventPortsComp::new()),
        "shmsets" => go!(c14_shmsets::generate, || c14_shmsets::ShmSetsComp::new()),
        "alloc" => go!(c15_alloc::generate, || c15_alloc::AllocComp::new()),
        "names" => go!(c19_names::generate, || c19_names::NamesComp::new()),
        "vec" => go!(c16_vec::generate, || c16_vec::VecComp::new()),
        "queue" => go!(c16_queue::generate, || c16_queue::QueueComp::new()),
        "string" => go!(c16_string::generate, || c16_string::StrComp::new()),
        "slotmap" => go!(c16_slotmap::generate, || c16_slotmap::SlotMapComp::new()),
        "flatmap" => go!(c16_slotmap::generate_flatmap, || c16_slotmap::FlatMapComp::new()),
        _ => {
            eprintln!("unknown component {comp}");
            std::process::exit(2);
        }
    }
}
