//! steptrace: runs small concurrent programs over the real lock-free code under the
//! deterministic scheduler and prints, per execution, the program, every atomic / cell event in
//! schedule order and the return value of every operation.
extern crate iceoryx2_bb_loggers;
#[path = "../common.rs"]
#[allow(dead_code)]
mod common;
#[path = "../c16_vec.rs"]
#[allow(dead_code)]
mod c16_vec;
mod sched;
mod progs;
mod event;

use sched::*;

pub struct Prog {
    pub header: String,
    pub threads: Vec<Vec<String>>,
}
impl Prog {
    pub fn text(&self) -> String {
        let ts: Vec<String> = self.threads.iter().map(|t| t.join(",")).collect();
        format!("prog {} | {}", self.header, ts.join(" | "))
    }
}

fn run_one(component: &str, prog: &Prog, schedule: Vec<usize>, random: bool, seed: u64) -> Outcome {
    progs::run(component, prog, schedule, random, seed)
}

fn print_exec(prog: &Prog, o: &Outcome, out: &mut impl std::io::Write) {
    writeln!(out, "{}", prog.text()).unwrap();
    for l in &o.trace {
        writeln!(out, "{l}").unwrap();
    }
    let sc: Vec<String> = o.decisions.iter().map(|d| d.chosen.to_string()).collect();
    writeln!(out, "sched {}", sc.join(" ")).unwrap();
    writeln!(out, "end").unwrap();
}

fn main() {
    let argv: Vec<String> = std::env::args().collect();
    if argv.len() < 3 {
        eprintln!("usage: steptrace <component> random|exhaustive|replay [--seed N --runs N --preempt K --progs N]");
        std::process::exit(2);
    }
    struct Quiet;
    impl iceoryx2_log::Log for Quiet {
        fn log(&self, _l: iceoryx2_log::LogLevel, _o: core::fmt::Arguments, _m: core::fmt::Arguments) {}
    }
    static QUIET: Quiet = Quiet;
    if std::env::var("VERIF_LOG").is_err() {
        iceoryx2_log::set_logger(&QUIET);
    }
    std::panic::set_hook(Box::new(|_| {}));
    sched::load_image_ranges();
    let component = argv[1].as_str();
    let a = common::parse_args(&argv[2..]);
    let mut preempt = 2usize;
    let mut nprogs = 20usize;
    let mut i = 0;
    while i < a.rest.len() {
        match a.rest[i].as_str() {
            "--preempt" => { preempt = a.rest[i + 1].parse().unwrap(); i += 1 }
            "--progs" => { nprogs = a.rest[i + 1].parse().unwrap(); i += 1 }
            _ => {}
        }
        i += 1;
    }
    let stdout = std::io::stdout();
    let mut out = std::io::BufWriter::with_capacity(1 << 20, stdout.lock());
    let mut rng = common::Rng::new(a.seed);
    match a.mode.as_str() {
        "replay" => {
            // stdin: `prog ...` line followed by `sched t t t ...`
            use std::io::BufRead;
            let lines: Vec<String> = std::io::stdin().lock().lines().map(|l| l.unwrap()).collect();
            let prog = progs::parse(&lines[0]);
            let schedule: Vec<usize> = lines.get(1).map(|l| l.split_whitespace().skip(1).map(|x| x.parse().unwrap()).collect()).unwrap_or_default();
            let o = run_one(component, &prog, schedule, false, 0);
            print_exec(&prog, &o, &mut out);
        }
        "random" => {
            for _ in 0..nprogs {
                let prog = progs::generate(component, &mut rng);
                for _ in 0..a.cases {
                    let o = run_one(component, &prog, vec![], true, rng.next());
                    print_exec(&prog, &o, &mut out);
                }
            }
        }
        "exhaustive" => {
            // stateless exploration of all schedules with at most `preempt` preemptions
            for _ in 0..nprogs {
                let prog = progs::generate(component, &mut rng);
                let mut work: Vec<Vec<usize>> = vec![vec![]];
                let mut count = 0usize;
                while let Some(prefix) = work.pop() {
                    let o = run_one(component, &prog, prefix.clone(), false, 0);
                    count += 1;
                    for i in prefix.len()..o.decisions.len() {
                        let d = &o.decisions[i];
                        for &alt in &d.runnable {
                            if alt != d.chosen && preemptions(&o.decisions, i, alt) <= preempt {
                                let mut p: Vec<usize> = o.decisions[..i].iter().map(|d| d.chosen).collect();
                                p.push(alt);
                                work.push(p);
                            }
                        }
                    }
                    print_exec(&prog, &o, &mut out);
                    if count >= a.cases as usize {
                        break;
                    }
                }
            }
        }
        _ => panic!("bad mode"),
    }
    use std::io::Write;
    out.flush().unwrap();
}
