//! C05: the event hand-shake of `cal/event/common.rs` over the real bit sets, with a *trace
//! trigger*: a bounded counter built from the instrumented atomics, so that every trigger
//! operation is a visible atomic step (the real trigger back-ends — semaphore, socket pair,
//! datagram socket — are tied to the same counter model by the sequential `trigger` check).
use crate::common::Rng;
use crate::sched::{self, Outcome};
use crate::Prog;
use core::mem::MaybeUninit;
use core::ptr::NonNull;
use core::time::Duration;
use iceoryx2_bb_concurrency::atomic::{AtomicU64, Ordering};
use iceoryx2_bb_container::semantic_string::SemanticString;
use iceoryx2_bb_elementary_traits::testing::abandonable::Abandonable;
use iceoryx2_bb_elementary_traits::zero_copy_send::ZeroCopySend;
use iceoryx2_bb_lock_free::mpmc::bit_set::RelocatableBitSet;
use iceoryx2_bb_lock_free::mpmc::counting_bit_set::RelocatableCountingBitSet;
use iceoryx2_bb_system_types::file_name::FileName;
use iceoryx2_bb_system_types::path::Path;
use iceoryx2_cal::dynamic_storage::process_local::Storage;
use iceoryx2_cal::dynamic_storage::DynamicStorage;
use iceoryx2_cal::event::common::EventImpl;
use iceoryx2_cal::event::event_state::EventState;
use iceoryx2_cal::event::trigger::{Configuration, HandlerInterface, State, WaiterInterface};
use iceoryx2_cal::event::*;
use iceoryx2_cal::named_concept::NamedConceptRemoveError;

static BOUND: std::sync::atomic::AtomicU64 = std::sync::atomic::AtomicU64::new(0);

#[derive(Debug)]
#[repr(C)]
pub struct TraceMgmt {
    counter: AtomicU64,
}
unsafe impl ZeroCopySend for TraceMgmt {}

#[derive(Debug)]
pub struct TraceHandle(*const TraceMgmt);
unsafe impl Send for TraceHandle {}
unsafe impl Sync for TraceHandle {}
impl Abandonable for TraceHandle {
    unsafe fn abandon_in_place(_this: NonNull<Self>) {}
}
#[derive(Debug)]
pub struct TraceWaiter(*const TraceMgmt);
unsafe impl Send for TraceWaiter {}
unsafe impl Sync for TraceWaiter {}
impl Abandonable for TraceWaiter {
    unsafe fn abandon_in_place(_this: NonNull<Self>) {}
}

impl<E: EventState, S: DynamicStorage<State<E, TraceMgmt>>> HandlerInterface<E, TraceMgmt, S> for TraceHandle {
    fn open(_name: &FileName, _config: &Configuration, mgmt: &TraceMgmt) -> Result<Self, NotifierOpenError> {
        Ok(TraceHandle(mgmt as *const TraceMgmt))
    }
    fn notify(&self) -> Result<(), NotifierNotifyError> {
        let c = unsafe { &(*self.0).counter };
        let bound = BOUND.load(std::sync::atomic::Ordering::Relaxed);
        let mut cur = c.load(Ordering::SeqCst);
        loop {
            if bound != 0 && cur >= bound {
                return Err(NotifierNotifyError::BufferIsFull);
            }
            match c.compare_exchange(cur, cur + 1, Ordering::SeqCst, Ordering::SeqCst) {
                Ok(_) => return Ok(()),
                Err(v) => cur = v,
            }
        }
    }
}
impl<E: EventState, S: DynamicStorage<State<E, TraceMgmt>>> WaiterInterface<E, TraceMgmt, S> for TraceWaiter {
    const IS_FILE_DESCRIPTOR_BASED: bool = false;
    unsafe fn remove(_name: &FileName, _config: &Configuration) -> Result<bool, NamedConceptRemoveError> {
        Ok(true)
    }
    fn remove_path_hint(_value: &Path) -> Result<(), iceoryx2_cal::named_concept::NamedConceptPathHintRemoveError> {
        Ok(())
    }
    fn create(_name: &FileName, _config: &Configuration, mgmt: &mut MaybeUninit<TraceMgmt>) -> Result<Self, ListenerCreateError> {
        mgmt.write(TraceMgmt { counter: AtomicU64::new(0) });
        Ok(TraceWaiter(mgmt.as_ptr()))
    }
    /// a successful wait is followed by `empty_buffer` in every real back-end: one swap does both
    fn try_wait(&self) -> Result<(), ListenerWaitError> {
        unsafe { &(*self.0).counter }.swap(0, Ordering::SeqCst);
        Ok(())
    }
    fn timed_wait(&self, _timeout: Duration) -> Result<(), ListenerWaitError> {
        <Self as WaiterInterface<E, TraceMgmt, S>>::try_wait(self)
    }
    /// sleeps until the counter is positive (the scheduler does not select this thread before),
    /// then consumes like `try_wait`; if nobody can ever post again the scheduler reports a deadlock
    fn blocking_wait(&self) -> Result<(), ListenerWaitError> {
        let addr = unsafe { &(*self.0).counter } as *const AtomicU64 as usize;
        let tid = sched::current_tid().expect("logical thread");
        let awake = sched::block_until(tid, Box::new(move || unsafe { core::ptr::read_volatile(addr as *const u64) } > 0));
        if !awake {
            return Err(ListenerWaitError::InternalFailure);
        }
        unsafe { &(*self.0).counter }.swap(0, Ordering::SeqCst);
        Ok(())
    }
    fn empty_buffer(&self) -> Result<(), ListenerWaitError> {
        unsafe { &(*self.0).counter }.swap(0, Ordering::SeqCst);
        Ok(())
    }
}

type Ev<E> = EventImpl<E, TraceMgmt, Storage<State<E, TraceMgmt>>, TraceHandle, TraceWaiter>;

pub fn generate(rng: &mut Rng) -> Prog {
    let counting = rng.chance(50);
    let nids = *rng.pick(&[1usize, 3, 9]);
    let bound = *rng.pick(&[0usize, 0, 1, 2]);
    let fail = bound != 0 && rng.chance(50);
    let mut threads = vec![];
    for _ in 0..rng.range(1, 3) {
        let mut ops = vec![];
        for _ in 0..rng.range(1, 3) {
            ops.push(format!("notify {}", rng.below(nids as u64)));
        }
        threads.push(ops);
    }
    let mut l = vec![];
    for _ in 0..rng.range(1, 3) {
        l.push(if rng.chance(35) { "blocking_wait" } else { "try_wait" }.to_string());
    }
    threads.push(l);
    Prog { header: format!("event counting={} nids={nids} bound={bound} fail={}", counting as u8, fail as u8), threads }
}

static EVENT_COUNTER: std::sync::atomic::AtomicUsize = std::sync::atomic::AtomicUsize::new(0);

fn run_typed<E: EventState + 'static>(prog: &Prog, schedule: Vec<usize>, random: bool, seed: u64) -> Outcome
where
    Ev<E>: Event<E>,
{
    use iceoryx2_cal::named_concept::NamedConceptBuilder;
    let nids = crate::progs::hget(&prog.header, "nids");
    let fail = crate::progs::hget(&prog.header, "fail") == 1;
    BOUND.store(crate::progs::hget(&prog.header, "bound") as u64, std::sync::atomic::Ordering::Relaxed);
    let n = EVENT_COUNTER.fetch_add(1, std::sync::atomic::Ordering::Relaxed);
    let name = FileName::new(format!("ve{n}").as_bytes()).unwrap();
    // the listener creates the event, every notifier thread opens it — all before the traced run
    let listener = <<Ev<E> as Event<E>>::ListenerBuilder as NamedConceptBuilder<Ev<E>>>::new(&name)
        .event_id_max(EventId::new(nids.saturating_sub(1)))
        .create()
        .expect("listener");
    let listener = std::sync::Arc::new(crate::progs::Shared::new(listener));
    let mut bodies: Vec<Box<dyn FnOnce(usize) + Send>> = vec![];
    for ops in prog.threads.clone() {
        let listener = listener.clone();
        let is_listener = ops.iter().any(|o| o.starts_with("try_wait") || o.starts_with("blocking_wait"));
        let notifier = if is_listener { None } else {
            Some(<<Ev<E> as Event<E>>::NotifierBuilder as NamedConceptBuilder<Ev<E>>>::new(&name).fail_when_buffer_is_full(fail).open().expect("notifier"))
        };
        bodies.push(Box::new(move |tid| {
            for op in ops {
                let t: Vec<&str> = op.split(' ').collect();
                let r = match t[0] {
                    "notify" => match notifier.as_ref().unwrap().notify(EventId::new(t[1].parse().unwrap())) {
                        Ok(()) => "ok".to_string(),
                        Err(e) => format!("err:{e:?}"),
                    },
                    "try_wait" => {
                        let mut got = vec![];
                        listener.get().try_wait(|a| got.push(format!("{}:{}", a.id.as_value(), a.count))).expect("wait");
                        got.join(",")
                    }
                    "blocking_wait" => {
                        let mut got = vec![];
                        match listener.get().blocking_wait(|a| got.push(format!("{}:{}", a.id.as_value(), a.count))) {
                            Ok(_) => got.join(","),
                            // the scheduler found the thread asleep for good: its program ends here
                            Err(_) => break,
                        }
                    }
                    _ => panic!("bad op"),
                };
                let name = if t[0] == "try_wait" || t[0] == "blocking_wait" { "wait" } else { t[0] };
                sched::record(tid, format!("ret {} {}", name, r).trim_end().to_string());
            }
            // the port objects outlive the traced run (their destructors are not part of the model)
            std::mem::forget(notifier);
        }));
    }
    // one-byte notification state, 8-bit words of the bit set, 64-bit counters and trigger: everything
    // in the heap except the statics; pointer-distance loads are part of the model
    *sched::KEEP.lock().unwrap() = Some(|_kind, addr, _width| !sched::is_static(addr));
    let o = sched::execute(bodies, schedule, random, seed, vec![]);
    *sched::KEEP.lock().unwrap() = None;
    o
}

pub fn run(prog: &Prog, schedule: Vec<usize>, random: bool, seed: u64) -> Outcome {
    if crate::progs::hget(&prog.header, "counting") == 1 {
        run_typed::<RelocatableCountingBitSet>(prog, schedule, random, seed)
    } else {
        run_typed::<RelocatableBitSet>(prog, schedule, random, seed)
    }
}
