//! Deterministic scheduler for the instrumented atomics: logical threads are OS threads that
//! pass a baton; a thread parks at every hook (`before`) until the schedule selects it.  An
//! execution is therefore a sequentially consistent interleaving at atomic-operation
//! granularity, fully determined by (program, schedule).
use iceoryx2_pal_concurrency_sync::verif_hook::{self, Event};
use std::cell::Cell;
use std::sync::{Condvar, Mutex};

#[derive(Clone, Copy, PartialEq, Debug)]
pub enum Status {
    NotStarted,
    AtYield,
    Running,
    Finished,
    /// parked in `block_until`: schedulable only when its condition holds
    Blocked,
}
pub struct Decision {
    pub runnable: Vec<usize>,
    pub chosen: usize,
    pub prev: Option<usize>,
}
pub struct State {
    pub current: Option<usize>,
    pub status: Vec<Status>,
    pub schedule: Vec<usize>,
    pub pos: usize,
    pub decisions: Vec<Decision>,
    pub trace: Vec<String>,
    pub steps: usize,
    pub rng: u64,
    pub random: bool,
    pub objects: Vec<(usize, usize)>, // (base, size)
    pub exit_at_write: usize,          // crash injection: _exit at the n-th shared-memory write (0 = off)
    pub writes: usize,
    pub conds: Vec<Option<Box<dyn Fn() -> bool + Send>>>,
    pub deadlock: bool,
    /// crash injection at atomic-step granularity: the logical thread (a process of its own in the
    /// scenario) dies when it reaches its next yield point with a fuse of 0
    pub fuse: Vec<Option<usize>>,
    pub died: Vec<bool>,
}
/// panic payload of a logical thread that dies
pub struct Died;
pub static SCHED: Mutex<Option<State>> = Mutex::new(None);
/// component-specific: which events are traced (all are yield points), what a `crit` record reports
/// (kind, addr, width) -> is this access part of the traced model (yield point + trace line)?
pub static KEEP: Mutex<Option<fn(u8, usize, u8) -> bool>> = Mutex::new(None);
pub static CRIT_INFO: Mutex<Option<Box<dyn Fn() -> String + Send>>> = Mutex::new(None);
thread_local! { static IN_CRIT_INFO: Cell<bool> = const { Cell::new(false) }; }
/// address ranges of the executable image (statics such as LazyLock / Once state words)
pub static IMAGE: Mutex<Vec<(usize, usize)>> = Mutex::new(Vec::new());
pub fn load_image_ranges() {
    let exe = std::env::current_exe().map(|p| p.to_string_lossy().to_string()).unwrap_or_default();
    let maps = std::fs::read_to_string("/proc/self/maps").unwrap_or_default();
    let mut v = vec![];
    let mut last_exe_end = 0usize;
    for l in maps.lines() {
        let r: Vec<&str> = l.split(' ').next().unwrap().split('-').collect();
        let (a, b) = (usize::from_str_radix(r[0], 16).unwrap(), usize::from_str_radix(r[1], 16).unwrap());
        if l.ends_with(&exe) {
            v.push((a, b));
            last_exe_end = b;
        } else if a == last_exe_end && !l.contains('[') && l.trim_end().split(' ').filter(|x| !x.is_empty()).count() == 5 {
            // anonymous mapping directly behind the image: .bss
            v.push((a, b));
            last_exe_end = b;
        }
    }
    *IMAGE.lock().unwrap() = v;
}
pub fn is_static(addr: usize) -> bool {
    IMAGE.lock().unwrap().iter().any(|(a, b)| addr >= *a && addr < *b)
}
pub fn crit_info() -> String {
    if IN_CRIT_INFO.with(|c| c.get()) {
        return String::new();
    }
    IN_CRIT_INFO.with(|c| c.set(true));
    let r = match CRIT_INFO.lock().unwrap().as_ref() { Some(f) => f(), None => String::new() };
    IN_CRIT_INFO.with(|c| c.set(false));
    r
}
pub fn in_crit_info() -> bool {
    IN_CRIT_INFO.with(|c| c.get())
}
pub static CV: Condvar = Condvar::new();
thread_local! {
    pub static TID: Cell<Option<usize>> = const { Cell::new(None) };
    /// > 0 while the thread holds a pthread mutex (intercepted below): no yield, no trace inside
    pub static CRIT: Cell<usize> = const { Cell::new(0) };
}

// ---------------------------------------------------------------------------------------------
// pthread mutex interception.  iceoryx2's process-local storages guard a global map with a
// posix mutex; a logical thread parked inside such a critical section would deadlock the baton
// scheduler.  The calls below forward to libc and count the nesting depth, the hooks do not
// yield (and do not trace) while the depth is positive: the critical section is one atomic step,
// reported by a `crit` record when the outermost mutex is released.
mod interpose {
    use super::{CRIT, TID};
    use core::ffi::{c_char, c_int, c_void};
    unsafe extern "C" {
        fn dlsym(handle: *mut c_void, symbol: *const c_char) -> *mut c_void;
    }
    const RTLD_NEXT: *mut c_void = -1isize as *mut c_void;
    type F1 = unsafe extern "C" fn(*mut c_void) -> c_int;
    type F2 = unsafe extern "C" fn(*mut c_void, *const c_void) -> c_int;
    unsafe fn real(name: &'static [u8]) -> *mut c_void {
        unsafe { dlsym(RTLD_NEXT, name.as_ptr() as *const c_char) }
    }
    fn enter() {
        if TID.with(|t| t.get()).is_some() {
            CRIT.with(|c| c.set(c.get() + 1));
        }
    }
    fn leave() {
        if let Some(tid) = TID.with(|t| t.get()) {
            let d = CRIT.with(|c| { let v = c.get().saturating_sub(1); c.set(v); v });
            if d == 0 && !super::in_crit_info() {
                let info = super::crit_info();
                super::record(tid, format!("crit {info}").trim_end().to_string());
            }
        }
    }
    #[unsafe(no_mangle)]
    pub unsafe extern "C" fn pthread_mutex_lock(m: *mut c_void) -> c_int {
        let f: F1 = unsafe { core::mem::transmute(real(b"pthread_mutex_lock\0")) };
        let r = unsafe { f(m) };
        if r == 0 { enter(); }
        r
    }
    #[unsafe(no_mangle)]
    pub unsafe extern "C" fn pthread_mutex_trylock(m: *mut c_void) -> c_int {
        let f: F1 = unsafe { core::mem::transmute(real(b"pthread_mutex_trylock\0")) };
        let r = unsafe { f(m) };
        if r == 0 { enter(); }
        r
    }
    #[unsafe(no_mangle)]
    pub unsafe extern "C" fn pthread_mutex_timedlock(m: *mut c_void, t: *const c_void) -> c_int {
        let f: F2 = unsafe { core::mem::transmute(real(b"pthread_mutex_timedlock\0")) };
        let r = unsafe { f(m, t) };
        if r == 0 { enter(); }
        r
    }
    #[unsafe(no_mangle)]
    pub unsafe extern "C" fn pthread_mutex_unlock(m: *mut c_void) -> c_int {
        let f: F1 = unsafe { core::mem::transmute(real(b"pthread_mutex_unlock\0")) };
        let r = unsafe { f(m) };
        leave();
        r
    }
}
pub const MAX_STEPS: usize = 200_000;

fn next_rand(s: &mut State) -> u64 {
    s.rng = s.rng.wrapping_add(0x9E3779B97F4A7C15);
    let mut z = s.rng;
    z = (z ^ (z >> 30)).wrapping_mul(0xBF58476D1CE4E5B9);
    z = (z ^ (z >> 27)).wrapping_mul(0x94D049BB133111EB);
    z ^ (z >> 31)
}

/// called with the lock held by a thread that is itself parked (AtYield) or finished
fn pick(s: &mut State, me: Option<usize>) {
    let mut runnable: Vec<usize> = (0..s.status.len())
        .filter(|&i| s.status[i] == Status::AtYield || (s.status[i] == Status::Blocked && (s.deadlock || s.conds[i].as_ref().map(|c| c()).unwrap_or(true))))
        .collect();
    if runnable.is_empty() {
        if (0..s.status.len()).any(|i| s.status[i] == Status::Blocked) {
            // every unfinished thread sleeps on a condition nobody can make true any more
            s.deadlock = true;
            runnable = (0..s.status.len()).filter(|&i| s.status[i] == Status::Blocked).collect();
        } else {
            s.current = None;
            return;
        }
    }
    let prev = me.filter(|m| runnable.contains(m));
    let chosen = if s.pos < s.schedule.len() && runnable.contains(&s.schedule[s.pos]) {
        s.schedule[s.pos]
    } else if s.random {
        // bias towards continuing the running thread so that long uninterrupted stretches and
        // dense preemption both occur
        let r = next_rand(s);
        match prev {
            Some(p) if r % 100 < 55 => p,
            _ => runnable[(r >> 8) as usize % runnable.len()],
        }
    } else {
        prev.unwrap_or(runnable[0])
    };
    s.pos += 1;
    s.decisions.push(Decision { runnable, chosen, prev });
    s.current = Some(chosen);
}

/// the calling logical thread dies after `k` more visible steps (wherever that is: in the middle of an operation)
pub fn arm_fuse(tid: usize, k: usize) {
    SCHED.lock().unwrap().as_mut().unwrap().fuse[tid] = Some(k);
}
pub fn has_died(tid: usize) -> bool {
    SCHED.lock().unwrap().as_ref().map(|s| s.died.get(tid).copied().unwrap_or(false)).unwrap_or(false)
}
fn yield_point(tid: usize) {
    let mut g = SCHED.lock().unwrap();
    {
        let s = g.as_mut().unwrap();
        match s.fuse[tid] {
            Some(0) => {
                // the process dies here: nothing of it runs any more (no destructors with shared-memory effects
                // exist in the components that use the fuse)
                s.fuse[tid] = None;
                s.died[tid] = true;
                s.trace.push(format!("T{tid} cell died"));
                drop(g);
                std::panic::resume_unwind(Box::new(Died));
            }
            Some(k) => s.fuse[tid] = Some(k - 1),
            None => {}
        }
        s.steps += 1;
        if s.steps > MAX_STEPS {
            eprintln!("steptrace: step bound exceeded (livelock under this schedule?)");
            std::process::exit(3);
        }
        s.status[tid] = Status::AtYield;
        pick(s, Some(tid));
    }
    CV.notify_all();
    while g.as_ref().unwrap().current != Some(tid) {
        g = CV.wait(g).unwrap();
    }
    g.as_mut().unwrap().status[tid] = Status::Running;
}

/// A blocking primitive (semaphore wait, socket read) under the baton scheduler: the thread is not
/// schedulable until `cond` holds.  Returns false when every unfinished thread is blocked for good
/// (deadlock): a `deadlock` record is written and the caller gives up.
pub fn block_until(tid: usize, cond: Box<dyn Fn() -> bool + Send>) -> bool {
    let mut g = SCHED.lock().unwrap();
    {
        let s = g.as_mut().unwrap();
        s.steps += 1;
        s.status[tid] = Status::Blocked;
        s.conds[tid] = Some(cond);
        pick(s, Some(tid));
    }
    CV.notify_all();
    while g.as_ref().unwrap().current != Some(tid) {
        g = CV.wait(g).unwrap();
    }
    let s = g.as_mut().unwrap();
    s.status[tid] = Status::Running;
    s.conds[tid] = None;
    if s.deadlock {
        s.trace.push(format!("T{tid} deadlock"));
        return false;
    }
    true
}

fn keep(kind: u8, addr: usize, width: u8) -> bool {
    match *KEEP.lock().unwrap() {
        Some(k) => k(kind, addr, width),
        // default: statics of the executable image (log level, LazyLock / Once state words) are not modelled
        None => !is_static(addr),
    }
}
fn before(kind: u8, addr: usize, width: u8) {
    if let Some(tid) = TID.with(|t| t.get()) {
        if CRIT.with(|c| c.get()) == 0 && !in_crit_info() && keep(kind, addr, width) {
            yield_point(tid);
        }
    }
}
pub fn kind_name(k: u8) -> &'static str {
    ["load", "store", "swap", "cas", "casw", "fadd", "fsub", "fand", "for", "fxor", "fmax", "fmin", "fnand", "cell", "fence"][k as usize]
}
pub fn ord_name(o: u8) -> &'static str {
    match o { 0 => "rlx", 1 => "acq", 2 => "rel", 3 => "acqrel", 4 => "sc", _ => "?" }
}
fn after(ev: &Event) {
    if let Some(tid) = TID.with(|t| t.get()) {
        if CRIT.with(|c| c.get()) > 0 || in_crit_info() {
            return;
        }
        if !keep(ev.kind, ev.addr, ev.width) {
            return;
        }
        let mut g = SCHED.lock().unwrap();
        let s = g.as_mut().unwrap();
        // aliased block (object 0 mapped once per thread): the name is the offset inside the block; an access
        // through another thread's mapping means an absolute address was stored in the shared structure
        let alias = crate::c16_vec::ALIAS_RANGES.lock().unwrap().iter().find(|(b, sz, _)| ev.addr >= *b && ev.addr < b + sz).cloned();
        if let Some((_, _, k)) = alias {
            let n = crate::c16_vec::ALIAS_RANGES.lock().unwrap().len();
            if k != tid % n {
                s.trace.push(format!("T{tid} foreign-mapping alias{k}"));
            }
        }
        let loc = match s.objects.iter().enumerate().find(|(_, (b, sz))| ev.addr >= *b && ev.addr < b + sz) {
            _ if alias.is_some() => format!("o0+{}", ev.addr - alias.unwrap().0),
            Some((i, (b, _))) => format!("o{}+{}", i, ev.addr - b),
            None if ev.kind == 14 => "-".to_string(),
            None => format!("x{:x}", ev.addr),
        };
        let line = match ev.kind {
            0 => format!("T{tid} load {loc} {} v={}", ord_name(ev.ord), ev.old),
            1 => format!("T{tid} store {loc} {} v={}", ord_name(ev.ord), ev.new),
            3 | 4 => format!("T{tid} cas {loc} {}/{} found={} new={} ok={}", ord_name(ev.ord), ord_name(ev.ord_fail), ev.old, ev.new, ev.ok as u8),
            13 => format!("T{tid} cell {loc}"),
            14 => format!("T{tid} fence {}", ord_name(ev.ord)),
            k => format!("T{tid} {} {loc} {} old={} new={}", kind_name(k), ord_name(ev.ord), ev.old, ev.new),
        };
        s.trace.push(line);
        let is_write = matches!(ev.kind, 1 | 2 | 5..=12) || (matches!(ev.kind, 3 | 4) && ev.ok);
        if is_write {
            s.writes += 1;
            if s.exit_at_write != 0 && s.writes == s.exit_at_write {
                unsafe { libc_exit() };
            }
        }
    }
}
unsafe fn libc_exit() -> ! {
    unsafe extern "C" { fn _exit(code: i32) -> !; }
    unsafe { _exit(42) }
}
/// an explicit scheduling point of the harness itself (a decision that depends on what other
/// threads did must be a visible step): yields, then records `T<tid> cell gate`
pub fn current_tid() -> Option<usize> {
    TID.with(|t| t.get())
}
pub fn gate(tid: usize) {
    yield_point(tid);
    record(tid, "cell gate".to_string());
}
pub fn record(tid: usize, text: String) {
    let mut g = SCHED.lock().unwrap();
    g.as_mut().unwrap().trace.push(format!("T{tid} {text}"));
}

pub struct Outcome {
    pub trace: Vec<String>,
    pub decisions: Vec<Decision>,
}

/// Runs the logical threads `bodies` under the given schedule prefix.
pub fn execute(bodies: Vec<Box<dyn FnOnce(usize) + Send>>, schedule: Vec<usize>, random: bool, seed: u64, objects: Vec<(usize, usize)>) -> Outcome {
    verif_hook::install(before, after);
    let n = bodies.len();
    *SCHED.lock().unwrap() = Some(State {
        current: None, status: vec![Status::NotStarted; n], schedule, pos: 0, decisions: vec![], trace: vec![], steps: 0,
        rng: seed, random, objects, exit_at_write: std::env::var("VERIF_EXIT_AT_WRITE").ok().and_then(|v| v.parse().ok()).unwrap_or(0), writes: 0,
        conds: (0..n).map(|_| None).collect(), deadlock: false,
        fuse: vec![None; n], died: vec![false; n],
    });
    let mut handles = vec![];
    for (tid, body) in bodies.into_iter().enumerate() {
        handles.push(std::thread::spawn(move || {
            TID.with(|t| t.set(Some(tid)));
            // C14: every logical thread works through its own mapping of an aliased block
            crate::c16_vec::ALIAS.with(|a| a.set(tid));
            // initial parking: wait until selected for the first time
            {
                let mut g = SCHED.lock().unwrap();
                g.as_mut().unwrap().status[tid] = Status::AtYield;
                CV.notify_all();
                while g.as_ref().unwrap().current != Some(tid) {
                    g = CV.wait(g).unwrap();
                }
                g.as_mut().unwrap().status[tid] = Status::Running;
            }
            let r = std::panic::catch_unwind(std::panic::AssertUnwindSafe(|| body(tid)));
            if let Err(p) = r {
                if !p.is::<Died>() {
                    record(tid, "PANIC".to_string());
                }
            }
            TID.with(|t| t.set(None));
            let mut g = SCHED.lock().unwrap();
            let s = g.as_mut().unwrap();
            s.status[tid] = Status::Finished;
            pick(s, None);
            CV.notify_all();
        }));
    }
    // wait until every thread is parked, then hand out the baton for the first time
    {
        let mut g = SCHED.lock().unwrap();
        while g.as_ref().unwrap().status.iter().any(|s| *s == Status::NotStarted) {
            g = CV.wait(g).unwrap();
        }
        pick(g.as_mut().unwrap(), None);
        CV.notify_all();
    }
    for h in handles {
        h.join().unwrap();
    }
    let s = SCHED.lock().unwrap().take().unwrap();
    Outcome { trace: s.trace, decisions: s.decisions }
}

/// number of preemptions of a schedule prefix (switch away from a thread that was still runnable)
pub fn preemptions(decisions: &[Decision], upto: usize, alt: usize) -> usize {
    let mut c = 0;
    for (i, d) in decisions.iter().enumerate().take(upto + 1) {
        let chosen = if i == upto { alt } else { d.chosen };
        if let Some(p) = d.prev {
            if p != chosen {
                c += 1;
            }
        }
    }
    c
}
