//! The concurrent programs: per component, a generator of small programs and the code that
//! runs one logical thread's operations against the real implementation.
use crate::c16_vec::RelocBlock;
use crate::common::Rng;
use crate::sched::{self, Outcome};
use crate::Prog;
use iceoryx2_bb_lock_free::spsc::index_queue::RelocatableIndexQueue;
use std::sync::Arc;

pub fn parse(line: &str) -> Prog {
    let parts: Vec<&str> = line.trim().strip_prefix("prog ").unwrap().split(" | ").collect();
    Prog {
        header: parts[0].to_string(),
        threads: parts[1..].iter().map(|t| t.split(',').filter(|s| !s.is_empty()).map(|s| s.to_string()).collect()).collect(),
    }
}
fn hget(header: &str, key: &str) -> usize {
    header.split(' ').find_map(|kv| kv.strip_prefix(&format!("{key}="))).map(|v| v.parse().unwrap()).unwrap_or(0)
}

pub fn generate(component: &str, rng: &mut Rng) -> Prog {
    match component {
        "spsc" => {
            let cap = rng.range(1, 3);
            let np = rng.range(1, 4);
            let nc = rng.range(1, 4);
            let mut v = 10;
            let mut p = vec![];
            for _ in 0..np {
                p.push(if rng.chance(85) { v += 1; format!("push {v}") } else { (*rng.pick(&["len", "is_full", "is_empty"])).to_string() });
            }
            let mut c = vec![];
            for _ in 0..nc {
                c.push(if rng.chance(85) { "pop".to_string() } else { (*rng.pick(&["len", "is_full", "is_empty"])).to_string() });
            }
            Prog { header: format!("spsc cap={cap}"), threads: vec![p, c] }
        }
        _ => panic!("unknown component"),
    }
}

struct SendPtr<T>(*const T);
unsafe impl<T> Send for SendPtr<T> {}
unsafe impl<T> Sync for SendPtr<T> {}

pub fn run(component: &str, prog: &Prog, schedule: Vec<usize>, random: bool, seed: u64) -> Outcome {
    match component {
        "spsc" => {
            let cap = hget(&prog.header, "cap");
            let blk = Arc::new(SendPtr(Box::into_raw(Box::new(RelocBlock::<RelocatableIndexQueue>::new(cap, 0)))));
            let (base, size) = unsafe { (*blk.0).range() };
            let mut bodies: Vec<Box<dyn FnOnce(usize) + Send>> = vec![];
            for ops in prog.threads.clone() {
                let blk = blk.clone();
                bodies.push(Box::new(move |tid| {
                    let q = unsafe { (*blk.0).get() };
                    for op in ops {
                        let t: Vec<&str> = op.split(' ').collect();
                        let r = match t[0] {
                            "push" => format!("{}", unsafe { q.push(t[1].parse().unwrap()) }),
                            "pop" => match unsafe { q.pop() } { Some(v) => format!("some:{v}"), None => "none".into() },
                            "len" => format!("{}", q.len()),
                            "is_full" => format!("{}", q.is_full()),
                            "is_empty" => format!("{}", q.is_empty()),
                            _ => panic!("bad op"),
                        };
                        sched::record(tid, format!("ret {} {}", t[0], r));
                    }
                }));
            }
            let o = sched::execute(bodies, schedule, random, seed, vec![(base, size)]);
            unsafe { drop(Box::from_raw(blk.0 as *mut RelocBlock<RelocatableIndexQueue>)) };
            o
        }
        _ => panic!("unknown component"),
    }
}
