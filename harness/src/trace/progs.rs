//! The concurrent programs: per component, a generator of small programs and the code that
//! runs one logical thread's operations against the real implementation.
use crate::c16_vec::RelocBlock;
use crate::common::Rng;
use crate::sched::{self, Outcome};
use crate::Prog;
use iceoryx2_bb_lock_free::spsc::index_queue::RelocatableIndexQueue;
use iceoryx2_bb_lock_free::spsc::safely_overflowing_index_queue::RelocatableSafelyOverflowingIndexQueue;
use std::sync::Arc;

pub fn parse(line: &str) -> Prog {
    let parts: Vec<&str> = line.trim().strip_prefix("prog ").unwrap().split(" | ").collect();
    Prog {
        header: parts[0].to_string(),
        threads: parts[1..].iter().map(|t| t.split(',').filter(|s| !s.is_empty()).map(|s| s.to_string()).collect()).collect(),
    }
}
pub fn hget(header: &str, key: &str) -> usize {
    header.split(' ').find_map(|kv| kv.strip_prefix(&format!("{key}="))).map(|v| v.parse().unwrap()).unwrap_or(0)
}

pub struct Shared<T>(pub *mut T);
unsafe impl<T> Send for Shared<T> {}
unsafe impl<T> Sync for Shared<T> {}
impl<T> Shared<T> {
    pub fn new(v: T) -> Arc<Shared<T>> {
        Arc::new(Shared(Box::into_raw(Box::new(v))))
    }
    #[allow(clippy::mut_from_ref)]
    pub fn get(&self) -> &mut T {
        unsafe { &mut *self.0 }
    }
}
impl<T> Drop for Shared<T> {
    fn drop(&mut self) {
        unsafe { drop(Box::from_raw(self.0)) }
    }
}

/// runs every thread's op list through `f(obj, tid, tokens) -> return text`
pub fn run_threads<T: 'static>(
    prog: &Prog, obj: Arc<Shared<T>>, objects: Vec<(usize, usize)>, schedule: Vec<usize>, random: bool, seed: u64,
    f: fn(&mut T, usize, &[&str]) -> String,
) -> Outcome {
    let mut bodies: Vec<Box<dyn FnOnce(usize) + Send>> = vec![];
    for ops in prog.threads.clone() {
        let obj = obj.clone();
        bodies.push(Box::new(move |tid| {
            for op in ops {
                let t: Vec<&str> = op.split(' ').collect();
                let r = f(obj.get(), tid, &t);
                sched::record(tid, format!("ret {} {}", t[0], r));
            }
        }));
    }
    sched::execute(bodies, schedule, random, seed, objects)
}

fn opt(o: Option<u64>) -> String {
    match o {
        Some(v) => format!("some:{v}"),
        None => "none".into(),
    }
}

fn gen_queue_prog(name: &str, rng: &mut Rng, min_cap: u64) -> Prog {
    let lo = if rng.chance(15) { min_cap } else { 1 };
    let cap = rng.range(lo, 3);
    let np = rng.range(1, 5);
    let nc = rng.range(1, 4);
    let mut v = 10;
    let obs = ["len", "is_full", "is_empty"];
    let mut p = vec![];
    for _ in 0..np {
        p.push(if rng.chance(88) { v += 1; format!("push {v}") } else { (*rng.pick(&obs)).to_string() });
    }
    let mut c = vec![];
    for _ in 0..nc {
        c.push(if rng.chance(88) { "pop".to_string() } else { (*rng.pick(&obs)).to_string() });
    }
    // roles are acquired through the API; a third thread may compete for a role (hand-over)
    p.insert(0, "acquire_producer".into());
    c.insert(0, "acquire_consumer".into());
    let mut threads = vec![p, c];
    if rng.chance(40) {
        if rng.chance(50) { threads[0].push("release_producer".into()); } else { threads[1].push("release_consumer".into()); }
        let mut x = vec![];
        for _ in 0..rng.range(1, 4) {
            x.push(match rng.below(6) {
                0 => "acquire_producer".to_string(),
                1 => "acquire_consumer".to_string(),
                2 => { v += 1; format!("push {v}") }
                3 => "pop".to_string(),
                4 => (*rng.pick(&["release_producer", "release_consumer"])).to_string(),
                _ => (*rng.pick(&obs)).to_string(),
            });
        }
        threads.push(x);
    }
    Prog { header: format!("{name} cap={cap}"), threads }
}

/// runs queue programs through the safe role API (`acquire_producer` → `Producer::push`, …); an
/// operation the thread cannot issue (it does not own the role object) is skipped
macro_rules! run_queue {
    ($prog:expr, $blk:expr, $schedule:expr, $random:expr, $seed:expr, $push:expr) => {{
        let r = $blk.get().range();
        let mut bodies: Vec<Box<dyn FnOnce(usize) + Send>> = vec![];
        for ops in $prog.threads.clone() {
            let blk = $blk.clone();
            bodies.push(Box::new(move |tid| {
                let q = blk.get().get();
                let mut prod = None;
                let mut cons = None;
                for op in ops {
                    let t: Vec<&str> = op.split(' ').collect();
                    let r: Option<String> = match t[0] {
                        "acquire_producer" => if prod.is_none() { prod = q.acquire_producer(); Some(format!("{}", prod.is_some())) } else { None },
                        "acquire_consumer" => if cons.is_none() { cons = q.acquire_consumer(); Some(format!("{}", cons.is_some())) } else { None },
                        "release_producer" => if prod.is_some() { prod = None; Some(String::new()) } else { None },
                        "release_consumer" => if cons.is_some() { cons = None; Some(String::new()) } else { None },
                        "push" => prod.as_mut().map(|p| $push(p.push(t[1].parse().unwrap()))),
                        "pop" => cons.as_mut().map(|c| opt(c.pop())),
                        "len" => Some(format!("{}", q.len())),
                        "is_full" => Some(format!("{}", q.is_full())),
                        "is_empty" => Some(format!("{}", q.is_empty())),
                        _ => panic!("bad op"),
                    };
                    if let Some(r) = r {
                        sched::record(tid, format!("ret {} {}", t[0], r).trim_end().to_string());
                    }
                }
                // role objects still held are leaked: their release is not part of the program
                std::mem::forget(prod);
                std::mem::forget(cons);
            }));
        }
        sched::execute(bodies, $schedule, $random, $seed, vec![r])
    }};
}

fn gen_seqlock_prog(rng: &mut Rng) -> Prog {
    let width = *rng.pick(&[1usize, 2, 5]);
    let mut v = 0;
    let mut w = vec!["acquire_producer".to_string()];
    for _ in 0..rng.range(1, 4) {
        v += 1;
        w.push(if rng.chance(50) { format!("store {v}") } else { format!("store2 {v}") });
    }
    let mut threads = vec![w];
    for _ in 0..rng.range(1, 2) {
        let mut r = vec![];
        for _ in 0..rng.range(1, 3) {
            r.push("load".to_string());
        }
        threads.push(r);
    }
    if rng.chance(30) {
        threads[0].push("release_producer".into());
        v += 1;
        threads.push(vec!["acquire_producer".into(), format!("store {v}"), "load".into()]);
    }
    Prog { header: format!("seqlock width={width}"), threads }
}

fn run_seqlock<const W: usize>(prog: &Prog, schedule: Vec<usize>, random: bool, seed: u64) -> Outcome {
    use iceoryx2_bb_lock_free::spmc::unrestricted_atomic::UnrestrictedAtomic;
    let words = |v: u64| -> [u64; W] { core::array::from_fn(|k| 100 * v + k as u64) };
    let a = Shared::new(UnrestrictedAtomic::<[u64; W]>::new(words(0)));
    let range = (a.0 as usize, core::mem::size_of::<UnrestrictedAtomic<[u64; W]>>());
    let mut bodies: Vec<Box<dyn FnOnce(usize) + Send>> = vec![];
    for ops in prog.threads.clone() {
        let a = a.clone();
        bodies.push(Box::new(move |tid| {
            let at = a.get();
            let mut prod = None;
            for op in ops {
                let t: Vec<&str> = op.split(' ').collect();
                let r: Option<String> = match t[0] {
                    "acquire_producer" => if prod.is_none() { prod = at.acquire_producer(); Some(format!("{}", prod.is_some())) } else { None },
                    "release_producer" => if prod.is_some() { prod = None; Some(String::new()) } else { None },
                    "store" => prod.as_ref().map(|p| { p.store(words(t[1].parse().unwrap())); String::new() }),
                    "store2" => prod.as_ref().map(|p| unsafe {
                        let ptr = p.__internal_get_ptr_to_write_cell();
                        ptr.write(words(t[1].parse().unwrap()));
                        p.__internal_update_write_cell();
                        String::new()
                    }),
                    "load" => Some(at.load().iter().map(|x| x.to_string()).collect::<Vec<_>>().join(",")),
                    _ => panic!("bad op"),
                };
                if let Some(r) = r {
                    let name = if t[0] == "store2" { "store" } else { t[0] };
                    sched::record(tid, format!("ret {} {}", name, r).trim_end().to_string());
                }
            }
            std::mem::forget(prod);
        }));
    }
    sched::execute(bodies, schedule, random, seed, vec![range])
}

// ---------------------------------------------------------------------------------------------
// zero-copy connection lifecycle (C13): attach / detach / forced removal of the two roles
fn gen_conn_prog(rng: &mut Rng, misuse: bool) -> Prog {
    let nthreads = rng.range(2, 3);
    let mut threads = vec![];
    // one alternative setting per program: 3 buffer size, 4 max borrowed, 5 safe overflow, 6 number of samples,
    // 7 number of segments, 8 number of channels — each differs from the base (2) in exactly that setting
    let alt = rng.range(3, 8);
    for i in 0..nthreads {
        let role = if i == 0 { "sender" } else if i == 1 { "receiver" } else { *rng.pick(&["sender", "receiver"]) };
        let mut ops = vec![];
        for _ in 0..rng.range(1, 2) {
            let param = if rng.chance(75) { 2 } else { alt };
            ops.push(format!("create_{role} {param}"));
            match rng.below(10) {
                0..=6 => ops.push(format!("drop_{role}")),
                7..=8 => { ops.push(format!("abandon_{role}")); ops.push(format!("remove_{role}")); }
                _ => {}
            }
            if misuse && rng.chance(40) {
                ops.push(format!("removeunchecked_{role}"));
            }
        }
        threads.push(ops);
    }
    Prog { header: format!("conn alt={alt}"), threads }
}

static CONN_COUNTER: std::sync::atomic::AtomicUsize = std::sync::atomic::AtomicUsize::new(0);

fn run_conn(prog: &Prog, schedule: Vec<usize>, random: bool, seed: u64) -> Outcome {
    use iceoryx2_bb_container::semantic_string::SemanticString;
    use iceoryx2_bb_system_types::file_name::FileName;
    use iceoryx2_cal::named_concept::NamedConceptBuilder;
    use iceoryx2_cal::zero_copy_connection::process_local::Connection;
    use iceoryx2_cal::zero_copy_connection::{ZeroCopyConnection, ZeroCopyConnectionBuilder, ZeroCopyCreationError};
    type B = <Connection as ZeroCopyConnection>::Builder;
    let n = CONN_COUNTER.fetch_add(1, std::sync::atomic::Ordering::Relaxed);
    let name = FileName::new(format!("vc{n}").as_bytes()).unwrap();
    fn builder(name: &FileName, param: usize) -> B {
        B::new(name)
            .buffer_size(if param == 3 { 3 } else { 2 })
            .receiver_max_borrowed_chunks_per_channel(if param == 4 { 3 } else { 2 })
            .enable_safe_overflow(param == 5)
            .number_of_chunks_per_segment(if param == 6 { 9 } else { 8 })
            .max_supported_shared_memory_segments(if param == 7 { 2 } else { 1 })
            .number_of_channels(if param == 8 { 2 } else { 1 })
    }
    fn err(e: ZeroCopyCreationError) -> String {
        format!("err:{e:?}")
    }
    if n == 0 {
        // warm-up on the unscheduled main thread: lazy statics, global map
        let nm = FileName::new(b"vcwarm").unwrap();
        let s = builder(&nm, 2).create_sender();
        let r = builder(&nm, 2).create_receiver();
        drop(s);
        drop(r);
    }
    let mut bodies: Vec<Box<dyn FnOnce(usize) + Send>> = vec![];
    for ops in prog.threads.clone() {
        bodies.push(Box::new(move |tid| {
            let mut snd = None;
            let mut rcv = None;
            let (mut dead_s, mut dead_r) = (false, false);
            for op in ops {
                let t: Vec<&str> = op.split(' ').collect();
                let r: Option<String> = match t[0] {
                    "create_sender" => if snd.is_none() && !dead_s {
                        match builder(&name, t[1].parse().unwrap()).create_sender() { Ok(s) => { snd = Some(s); Some("ok".into()) } Err(e) => Some(err(e)) }
                    } else { None },
                    "create_receiver" => if rcv.is_none() && !dead_r {
                        match builder(&name, t[1].parse().unwrap()).create_receiver() { Ok(s) => { rcv = Some(s); Some("ok".into()) } Err(e) => Some(err(e)) }
                    } else { None },
                    "drop_sender" => snd.take().map(|s| { drop(s); String::new() }),
                    "drop_receiver" => rcv.take().map(|s| { drop(s); String::new() }),
                    // the port's owner dies: no destructor runs
                    "abandon_sender" => { if let Some(s) = snd.take() { std::mem::forget(s); dead_s = true; } None }
                    "abandon_receiver" => { if let Some(s) = rcv.take() { std::mem::forget(s); dead_r = true; } None }
                    // forced removal within the contract: only on behalf of a port that died while attached
                    "remove_sender" if !dead_s => None,
                    "remove_receiver" if !dead_r => None,
                    "remove_sender" | "removeunchecked_sender" => Some(match unsafe { Connection::remove_sender(&name, &Default::default()) } { Ok(()) => "ok".into(), Err(e) => format!("err:{e:?}") }),
                    "remove_receiver" | "removeunchecked_receiver" => Some(match unsafe { Connection::remove_receiver(&name, &Default::default()) } { Ok(()) => "ok".into(), Err(e) => format!("err:{e:?}") }),
                    _ => panic!("bad op"),
                };
                if t[0] == "remove_sender" && r.is_some() { dead_s = false; }
                if t[0] == "remove_receiver" && r.is_some() { dead_r = false; }
                if let Some(r) = r {
                    let name = t[0].replace("removeunchecked", "remove");
                    sched::record(tid, format!("ret {} {}", name, r).trim_end().to_string());
                }
            }
            // ports still held at the end of the program are abandoned (the thread "dies")
            std::mem::forget(snd);
            std::mem::forget(rcv);
        }));
    }
    // only the one-byte atomics are traced: the connection state byte and the ownership flags of
    // the storage handles (RelocatablePointer distance loads, channel-state stores of a forced
    // removal and the LazyLock cell are yield points but not part of the C13 model)
    sched::load_image_ranges();
    *sched::KEEP.lock().unwrap() = Some(|_kind, addr, width| width == 1 && !sched::is_static(addr));
    *sched::CRIT_INFO.lock().unwrap() = Some(Box::new(move || {
        use iceoryx2_cal::named_concept::NamedConceptMgmt;
        format!("exists={}", Connection::does_exist_cfg(&name, &Default::default()).unwrap_or(false) as u8)
    }));
    let o = sched::execute(bodies, schedule, random, seed, vec![]);
    *sched::KEEP.lock().unwrap() = None;
    *sched::CRIT_INFO.lock().unwrap() = None;
    // remove leftovers of abandoned ports
    unsafe {
        use iceoryx2_cal::named_concept::NamedConceptMgmt;
        let _ = Connection::remove_cfg(&name, &Default::default());
    }
    o
}

// ---------------------------------------------------------------------------------------------
// UniqueIndexSet (C09)
fn gen_uis_prog(rng: &mut Rng) -> Prog {
    let cap = rng.range(1, 3);
    let mut threads = vec![];
    for _ in 0..rng.range(2, 3) {
        let mut ops = vec![];
        let mut held = 0i32;
        for _ in 0..rng.range(1, 4) {
            match rng.below(10) {
                0..=4 => { ops.push("acquire".to_string()); held += 1; }
                5..=7 if held > 0 => { ops.push(format!("release {}", rng.below(held as u64))); held -= 1; }
                8 if held > 0 => { ops.push(format!("release_lock {}", rng.below(held as u64))); held -= 1; }
                _ => ops.push("borrowed".to_string()),
            }
        }
        threads.push(ops);
    }
    Prog { header: format!("uis cap={cap}"), threads }
}

fn run_uis(prog: &Prog, schedule: Vec<usize>, random: bool, seed: u64) -> Outcome {
    use iceoryx2_bb_lock_free::mpmc::unique_index_set::UniqueIndexSet;
    use iceoryx2_bb_lock_free::mpmc::unique_index_set_enums::{ReleaseMode, ReleaseState, UniqueIndexSetAcquireFailure};
    let cap = hget(&prog.header, "cap");
    let blk = Shared::new(RelocBlock::<UniqueIndexSet>::new_aliased(cap, 0, prog.threads.len()));
    let r = blk.get().range();
    let mut bodies: Vec<Box<dyn FnOnce(usize) + Send>> = vec![];
    for ops in prog.threads.clone() {
        let blk = blk.clone();
        bodies.push(Box::new(move |tid| {
            let s = blk.get().get();
            let mut held: Vec<u32> = vec![];
            for op in ops {
                let t: Vec<&str> = op.split(' ').collect();
                let r: Option<String> = match t[0] {
                    "acquire" => Some(match unsafe { s.acquire_raw_index() } {
                        Ok(i) => { held.push(i); format!("ok:{i}") }
                        Err(UniqueIndexSetAcquireFailure::OutOfIndices) => "err:OutOfIndices".into(),
                        Err(UniqueIndexSetAcquireFailure::IsLocked) => "err:IsLocked".into(),
                    }),
                    "release" | "release_lock" => {
                        let pos: usize = t[1].parse().unwrap();
                        if pos < held.len() {
                            let idx = held.remove(pos);
                            let mode = if t[0] == "release" { ReleaseMode::Default } else { ReleaseMode::LockIfLastIndex };
                            Some(match unsafe { s.release_raw_index(idx, mode) } { ReleaseState::Locked => "locked".into(), ReleaseState::Unlocked => "unlocked".into() })
                        } else { None }
                    }
                    "borrowed" => Some(format!("{}", s.borrowed_indices())),
                    _ => panic!("bad op"),
                };
                if let Some(r) = r {
                    let name = if t[0] == "release_lock" { "release" } else { t[0] };
                    sched::record(tid, format!("ret {} {}", name, r));
                }
            }
        }));
    }
    sched::execute(bodies, schedule, random, seed, vec![r])
}

// ---------------------------------------------------------------------------------------------
// RobustUniqueIndexSet (C09): owner id of thread i is 100 + i
// ---------------------------------------------------------------------------------------------
// BumpAllocator under concurrency (C15): 2..3 threads allocate from one allocator
fn gen_bump_prog(rng: &mut Rng) -> Prog {
    let size = *rng.pick(&[16usize, 32, 48, 64]);
    let shift = *rng.pick(&[0usize, 1, 4, 8]);
    let mut threads = vec![];
    for _ in 0..rng.range(2, 3) {
        let mut ops = vec![];
        for _ in 0..rng.range(1, 3) {
            ops.push(format!("alloc {} {}", rng.pick(&[1usize, 3, 8, 12, 16, 24, 32]), rng.pick(&[1usize, 2, 4, 8, 16])));
        }
        threads.push(ops);
    }
    Prog { header: format!("bump size={size} start={shift}"), threads }
}
fn run_bump(prog: &Prog, schedule: Vec<usize>, random: bool, seed: u64) -> Outcome {
    use iceoryx2_bb_elementary::bump_allocator::BumpAllocator;
    use iceoryx2_bb_elementary_traits::allocator::{Allocate, AllocationError};
    let size = hget(&prog.header, "size");
    let shift = hget(&prog.header, "start");
    // memory aligned to 64 so that `start` = shift exactly modulo every alignment used
    let layout = std::alloc::Layout::from_size_align(size + 128, 64).unwrap();
    let mem = unsafe { std::alloc::alloc(layout) };
    let start = unsafe { mem.add(shift) };
    let a = Arc::new(Shared::new(BumpAllocator::new(core::ptr::NonNull::new(start).unwrap(), size)));
    let r = (a.get() as *const BumpAllocator as usize, std::mem::size_of::<BumpAllocator>());
    let mut bodies: Vec<Box<dyn FnOnce(usize) + Send>> = vec![];
    for ops in prog.threads.clone() {
        let a = a.clone();
        let start = start as usize;
        bodies.push(Box::new(move |tid| {
            for op in ops {
                let t: Vec<&str> = op.split(' ').collect();
                let l = std::alloc::Layout::from_size_align(t[1].parse().unwrap(), t[2].parse().unwrap()).unwrap();
                let r = match a.get().allocate(l) {
                    Ok(p) => format!("ok:{}", p.as_ptr() as usize - start),
                    Err(AllocationError::OutOfMemory) => "err:OutOfMemory".into(),
                    Err(AllocationError::SizeIsZero) => "err:SizeIsZero".into(),
                    Err(e) => format!("err:{e:?}"),
                };
                sched::record(tid, format!("ret alloc {r}"));
            }
        }));
    }
    let o = sched::execute(bodies, schedule, random, seed, vec![r]);
    unsafe { std::alloc::dealloc(mem, layout) };
    o
}

/// C04: one thread (a process) dies after a random number of atomic steps, wherever that is; the others
/// get a recovery of its owner id appended (they skip it while the owner is alive)
fn with_fuse(mut p: Prog, rng: &mut Rng, name: &str) -> Prog {
    let old = p.header.split(' ').next().unwrap().to_string();
    p.header = p.header.replacen(&old, name, 1);
    for t in p.threads.iter_mut() {
        t.retain(|o| o != "die");
    }
    let writers: Vec<usize> = (0..p.threads.len()).filter(|&i| p.threads[i].iter().any(|o| o.starts_with("add") || o.starts_with("acquire"))).collect();
    if writers.is_empty() {
        return p;
    }
    let v = *rng.pick(&writers);
    p.threads[v].insert(0, format!("die_in {}", rng.below(45)));
    for i in 0..p.threads.len() {
        if i != v && !p.threads[i].iter().any(|o| o.starts_with("recover")) {
            let at = rng.below(p.threads[i].len() as u64 + 1) as usize;
            p.threads[i].insert(at, format!("recover {}", 100 + v));
        }
    }
    p
}
fn gen_ruis_prog(rng: &mut Rng) -> Prog {
    let cap = rng.range(1, 3);
    let n = rng.range(2, 3) as usize;
    let mut threads = vec![];
    let victim = if rng.chance(40) { Some(rng.below(n as u64) as usize) } else { None };
    for i in 0..n {
        let mut ops = vec![];
        let mut held = 0i32;
        for _ in 0..rng.range(1, 4) {
            match rng.below(12) {
                0..=4 => { ops.push("acquire".to_string()); held += 1; }
                5..=6 if held > 0 => { ops.push(format!("release {}", rng.below(held as u64))); held -= 1; }
                7..=8 if held > 0 => { ops.push(format!("release_lock {}", rng.below(held as u64))); held -= 1; }
                9 => ops.push("borrowed".to_string()),
                10..=11 if victim.is_some() && victim != Some(i) => {
                    ops.push(format!("{} {}", if rng.chance(50) { "recover" } else { "recover_lock" }, 100 + victim.unwrap()));
                }
                _ => ops.push("acquire".to_string()),
            }
        }
        if victim == Some(i) {
            ops.truncate(2);
            ops.push("die".to_string());
        }
        threads.push(ops);
    }
    Prog { header: format!("ruis cap={cap}"), threads }
}

fn run_ruis(prog: &Prog, schedule: Vec<usize>, random: bool, seed: u64) -> Outcome {
    use iceoryx2_bb_lock_free::mpmc::robust_unique_index_set::{OwnerId, RobustUniqueIndexSet};
    use iceoryx2_bb_lock_free::mpmc::unique_index_set_enums::{ReleaseMode, ReleaseState, UniqueIndexSetAcquireFailure};
    let cap = hget(&prog.header, "cap");
    let blk = Shared::new(RelocBlock::<RobustUniqueIndexSet>::new_aliased(cap, 0, prog.threads.len()));
    let r = blk.get().range();
    // which owners are dead (set by the dying thread right after its last operation)
    let dead_flags: Arc<Vec<std::sync::atomic::AtomicBool>> = Arc::new((0..prog.threads.len()).map(|_| std::sync::atomic::AtomicBool::new(false)).collect());
    for (i, ops) in prog.threads.iter().enumerate() {
        if ops.first().map(|s| s.as_str()) == Some("die") {
            dead_flags[i].store(true, std::sync::atomic::Ordering::SeqCst);
        }
    }
    let mut bodies: Vec<Box<dyn FnOnce(usize) + Send>> = vec![];
    for ops in prog.threads.clone() {
        let blk = blk.clone();
        let dead_flags = dead_flags.clone();
        bodies.push(Box::new(move |tid| {
            let s = blk.get().get();
            let me = OwnerId::new(100 + tid as u64).unwrap();
            let mut held: Vec<usize> = vec![];
            let rs = |r: ReleaseState| match r { ReleaseState::Locked => "locked", ReleaseState::Unlocked => "unlocked" };
            for op in ops {
                let t: Vec<&str> = op.split(' ').collect();
                let r: Option<String> = match t[0] {
                    "acquire" => Some(match unsafe { s.acquire(me) } {
                        Ok(i) => { held.push(i); format!("ok:{i}") }
                        Err(UniqueIndexSetAcquireFailure::OutOfIndices) => "err:OutOfIndices".into(),
                        Err(UniqueIndexSetAcquireFailure::IsLocked) => "err:IsLocked".into(),
                    }),
                    "release" | "release_lock" => {
                        let pos: usize = t[1].parse().unwrap();
                        if pos < held.len() {
                            let idx = held.remove(pos);
                            let mode = if t[0] == "release" { ReleaseMode::Default } else { ReleaseMode::LockIfLastIndex };
                            Some(match unsafe { s.release(idx, me, mode) } { Ok(st) => rs(st).into(), Err(_) => "err:NotOwned".into() })
                        } else { None }
                    }
                    "borrowed" => Some(format!("{}", s.borrowed_indices())),
                    "recover" | "recover_lock" if { sched::gate(tid); !(dead_flags[t[1].parse::<usize>().unwrap() - 100].load(std::sync::atomic::Ordering::SeqCst) || sched::has_died(t[1].parse::<usize>().unwrap() - 100)) } => Some("skipped".into()),
                    "recover" | "recover_lock" => {
                        let dead: u64 = t[1].parse().unwrap();
                        let mode = if t[0] == "recover" { ReleaseMode::Default } else { ReleaseMode::LockIfLastIndex };
                        Some(rs(unsafe { s.recover(mode, |o, _| o == OwnerId::new(dead).unwrap(), |_, _| {}) }).to_string())
                    }
                    "die" => { dead_flags[tid].store(true, std::sync::atomic::Ordering::SeqCst); return; }
                    "die_in" => { sched::arm_fuse(tid, t[1].parse().unwrap()); None }
                    _ => panic!("bad op"),
                };
                if let Some(r) = r {
                    let name = t[0].trim_end_matches("_lock");
                    sched::record(tid, format!("ret {} {}", name, r));
                }
            }
        }));
    }
    sched::execute(bodies, schedule, random, seed, vec![r])
}

// ---------------------------------------------------------------------------------------------
// Container (C10): the port registry; owner id of thread i is 100 + i, values are [u64; W] words 100 v + k
fn gen_container_prog(rng: &mut Rng) -> Prog {
    let cap = rng.range(1, 3);
    let width = *rng.pick(&[1usize, 2]);
    let nw = rng.range(1, 2) as usize;
    let victim = if rng.chance(35) { Some(rng.below(nw as u64) as usize) } else { None };
    let mut threads = vec![];
    let mut v = 0;
    for i in 0..nw {
        let mut ops = vec![];
        let mut mine = 0i32;
        for _ in 0..rng.range(1, 4) {
            match rng.below(12) {
                0..=5 => { v += 1; ops.push(format!("add {v}")); mine += 1; }
                6..=7 if mine > 0 => { ops.push(format!("remove {}", rng.below(mine as u64))); mine -= 1; }
                8 if mine > 0 => { ops.push(format!("remove_lock {}", rng.below(mine as u64))); mine -= 1; }
                9..=10 if victim.is_some() && victim != Some(i) => {
                    ops.push(format!("{} {}", if rng.chance(60) { "recover" } else { "recover_lock" }, 100 + victim.unwrap()));
                }
                _ => { v += 1; ops.push(format!("add {v}")); mine += 1; }
            }
        }
        if victim == Some(i) {
            ops.truncate(2);
            ops.push("die".to_string());
        }
        threads.push(ops);
    }
    // the refreshing reader (it may also recover the dead owner)
    let mut r = vec![];
    for _ in 0..rng.range(1, 3) {
        r.push("update".to_string());
    }
    if let Some(vi) = victim {
        if rng.chance(50) { r.insert(rng.below(r.len() as u64 + 1) as usize, format!("recover {}", 100 + vi)); }
    }
    threads.push(r);
    Prog { header: format!("container cap={cap} width={width}"), threads }
}

fn run_container<const W: usize>(prog: &Prog, schedule: Vec<usize>, random: bool, seed: u64) -> Outcome {
    use iceoryx2_bb_lock_free::mpmc::container::{Container, ContainerHandle};
    use iceoryx2_bb_lock_free::mpmc::robust_unique_index_set::OwnerId;
    use iceoryx2_bb_lock_free::mpmc::unique_index_set_enums::{ReleaseMode, ReleaseState};
    let cap = hget(&prog.header, "cap");
    let words = |v: u64| -> [u64; W] { core::array::from_fn(|k| 100 * v + k as u64) };
    let blk = Shared::new(RelocBlock::<Container<[u64; W]>>::new_aliased(cap, 0, prog.threads.len()));
    let r = blk.get().range();
    let dead_flags: Arc<Vec<std::sync::atomic::AtomicBool>> = Arc::new((0..prog.threads.len()).map(|_| std::sync::atomic::AtomicBool::new(false)).collect());
    for (i, ops) in prog.threads.iter().enumerate() {
        if ops.first().map(|s| s.as_str()) == Some("die") {
            dead_flags[i].store(true, std::sync::atomic::Ordering::SeqCst);
        }
    }
    let mut bodies: Vec<Box<dyn FnOnce(usize) + Send>> = vec![];
    for ops in prog.threads.clone() {
        let blk = blk.clone();
        let dead_flags = dead_flags.clone();
        // every thread's snapshot starts as the state of the untouched container (taken here, untraced)
        let mut state = unsafe { blk.get().get().get_state() };
        bodies.push(Box::new(move |tid| {
            let c = blk.get().get();
            let me = OwnerId::new(100 + tid as u64).unwrap();
            let mut mine: Vec<ContainerHandle> = vec![];
            let rs = |r: ReleaseState| match r { ReleaseState::Locked => "locked", ReleaseState::Unlocked => "unlocked" };
            for op in ops {
                let t: Vec<&str> = op.split(' ').collect();
                let r: Option<String> = match t[0] {
                    "add" => Some(match unsafe { c.add(words(t[1].parse().unwrap()), me) } {
                        Ok((_, h)) => { let s = format!("ok:{}", h.index()); mine.push(h); s }
                        Err(e) => format!("err:{e:?}"),
                    }),
                    "remove" | "remove_lock" => {
                        let pos: usize = t[1].parse().unwrap();
                        if pos < mine.len() {
                            let h = mine.remove(pos);
                            let mode = if t[0] == "remove" { ReleaseMode::Default } else { ReleaseMode::LockIfLastIndex };
                            Some(match unsafe { c.remove(h, mode) } { Ok(st) => rs(st).into(), Err(_) => "err:NotOwned".into() })
                        } else { None }
                    }
                    "update" => {
                        let st = &mut state;
                        let changed = unsafe { c.update_state(st) };
                        if changed {
                            let mut items = vec![];
                            st.for_each(|i, v: &[u64; W]| { items.push(format!("{}={}", i, v.iter().map(|x| x.to_string()).collect::<Vec<_>>().join(","))); iceoryx2_bb_elementary::CallbackProgression::Continue });
                            Some(format!("true {}", items.join(";")).trim_end().to_string())
                        } else { Some("false".into()) }
                    }
                    "recover" | "recover_lock" if { sched::gate(tid); !(dead_flags[t[1].parse::<usize>().unwrap() - 100].load(std::sync::atomic::Ordering::SeqCst) || sched::has_died(t[1].parse::<usize>().unwrap() - 100)) } => Some("skipped".into()),
                    "recover" | "recover_lock" => {
                        let dead: u64 = t[1].parse().unwrap();
                        let mode = if t[0] == "recover" { ReleaseMode::Default } else { ReleaseMode::LockIfLastIndex };
                        Some(rs(unsafe { c.recover(OwnerId::new(dead).unwrap(), |_| true, mode) }).to_string())
                    }
                    "die" => { dead_flags[tid].store(true, std::sync::atomic::Ordering::SeqCst); return; }
                    "die_in" => { sched::arm_fuse(tid, t[1].parse().unwrap()); None }
                    _ => panic!("bad op"),
                };
                if let Some(r) = r {
                    let name = t[0].trim_end_matches("_lock");
                    sched::record(tid, format!("ret {} {}", name, r));
                }
            }
        }));
    }
    sched::execute(bodies, schedule, random, seed, vec![r])
}

pub fn generate(component: &str, rng: &mut Rng) -> Prog {
    match component {
        "event" => crate::event::generate(rng),
        "container" => gen_container_prog(rng),
        "bump" => gen_bump_prog(rng),
        "containerx" => with_fuse(gen_container_prog(rng), rng, "containerx"),
        "ruisx" => with_fuse(gen_ruis_prog(rng), rng, "ruisx"),
        "ruis" => gen_ruis_prog(rng),
        "uis" => gen_uis_prog(rng),
        "conn" => gen_conn_prog(rng, false),
        "conn-misuse" => gen_conn_prog(rng, true),
        "seqlock" => gen_seqlock_prog(rng),
        "spsc" => gen_queue_prog("spsc", rng, 1),
        "overflow" => gen_queue_prog("overflow", rng, 0),
        _ => panic!("unknown component {component}"),
    }
}

pub fn run(component: &str, prog: &Prog, schedule: Vec<usize>, random: bool, seed: u64) -> Outcome {
    let cap = hget(&prog.header, "cap");
    match component {
        "event" => crate::event::run(prog, schedule, random, seed),
        "conn" | "conn-misuse" => run_conn(prog, schedule, random, seed),
        "uis" => run_uis(prog, schedule, random, seed),
        "ruis" | "ruisx" => run_ruis(prog, schedule, random, seed),
        "bump" => run_bump(prog, schedule, random, seed),
        "container" | "containerx" => match hget(&prog.header, "width") {
            1 => run_container::<1>(prog, schedule, random, seed),
            2 => run_container::<2>(prog, schedule, random, seed),
            _ => panic!("unsupported width"),
        },
        "seqlock" => match hget(&prog.header, "width") {
            1 => run_seqlock::<1>(prog, schedule, random, seed),
            2 => run_seqlock::<2>(prog, schedule, random, seed),
            5 => run_seqlock::<5>(prog, schedule, random, seed),
            _ => panic!("unsupported width"),
        },
        "spsc" => {
            let blk = Shared::new(RelocBlock::<RelocatableIndexQueue>::new_aliased(cap, 0, prog.threads.len()));
            run_queue!(prog, blk, schedule, random, seed, |b: bool| format!("{b}"))
        }
        "overflow" => {
            let blk = Shared::new(RelocBlock::<RelocatableSafelyOverflowingIndexQueue>::new_aliased(cap, 0, prog.threads.len()));
            run_queue!(prog, blk, schedule, random, seed, opt)
        }
        _ => panic!("unknown component {component}"),
    }
}
