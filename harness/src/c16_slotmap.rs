//! C16: SlotMap / FixedSizeSlotMap / RelocatableSlotMap and FlatMap flavours
use crate::c16_vec::RelocBlock;
use crate::common::*;
use iceoryx2_bb_container::flatmap::*;
use iceoryx2_bb_container::slotmap::*;

pub trait SmLike {
    fn relocate_block(&mut self);
    fn insert(&mut self, t: Tr) -> Option<SlotMapKey>;
    fn insert_at(&mut self, k: SlotMapKey, t: Tr) -> bool;
    fn remove(&mut self, k: SlotMapKey) -> Option<Tr>;
    fn get(&self, k: SlotMapKey) -> Option<String>;
    fn contains(&self, k: SlotMapKey) -> bool;
    fn next_free_key(&self) -> Option<SlotMapKey>;
    fn dump(&self) -> String;
}
macro_rules! sm_impl {
    ($ty:ty, [$($g:tt)*], $s:ident, $acc:expr, $rel:expr) => {
        impl<$($g)*> SmLike for $ty {
            fn relocate_block(&mut self) { let $s = self; let _ = &$s; $rel }
            fn insert(&mut self, t: Tr) -> Option<SlotMapKey> { let $s = self; #[allow(unused_unsafe)] unsafe { $acc.insert(t) } }
            fn insert_at(&mut self, k: SlotMapKey, t: Tr) -> bool { let $s = self; #[allow(unused_unsafe)] unsafe { $acc.insert_at(k, t) } }
            fn remove(&mut self, k: SlotMapKey) -> Option<Tr> { let $s = self; #[allow(unused_unsafe)] unsafe { $acc.remove(k) } }
            fn get(&self, k: SlotMapKey) -> Option<String> { let $s = self; #[allow(unused_unsafe)] unsafe { $acc.get(k).map(|t| t.show()) } }
            fn contains(&self, k: SlotMapKey) -> bool { let $s = self; #[allow(unused_unsafe)] unsafe { $acc.contains(k) } }
            fn next_free_key(&self) -> Option<SlotMapKey> { let $s = self; #[allow(unused_unsafe)] unsafe { $acc.next_free_key() } }
            fn dump(&self) -> String {
                let $s = self;
                #[allow(unused_unsafe)]
                let items: Vec<String> = unsafe { $acc.iter().map(|(k, v)| format!("{}={}", k.value(), v.show())).collect() };
                format!("[{}] len={} cap={} full={} empty={}", items.join(","), $acc.len(), $acc.capacity(), $acc.is_full(), $acc.is_empty())
            }
        }
    };
}
sm_impl!(SlotMap<Tr>, [], s, s, ());
sm_impl!(FixedSizeSlotMap<Tr, N>, [const N: usize], s, s, ());
sm_impl!(RelocBlock<RelocatableSlotMap<Tr>>, [], s, s.get(), s.relocate());

pub struct SlotMapComp {
    m: Option<Box<dyn SmLike>>,
}
impl SlotMapComp {
    pub fn new() -> Self {
        SlotMapComp { m: None }
    }
}
fn num(s: &str) -> usize {
    s.parse().unwrap()
}
fn mk(fl: &str, cap: usize) -> Box<dyn SmLike> {
    match (fl, cap) {
        ("heap", c) => Box::new(SlotMap::<Tr>::new(c)),
        ("reloc", c) => Box::new(RelocBlock::<RelocatableSlotMap<Tr>>::new(c, 0)),
        ("fixed", 0) => Box::new(FixedSizeSlotMap::<Tr, 0>::new()),
        ("fixed", 1) => Box::new(FixedSizeSlotMap::<Tr, 1>::new()),
        ("fixed", 2) => Box::new(FixedSizeSlotMap::<Tr, 2>::new()),
        ("fixed", 3) => Box::new(FixedSizeSlotMap::<Tr, 3>::new()),
        ("fixed", 4) => Box::new(FixedSizeSlotMap::<Tr, 4>::new()),
        ("fixed", 7) => Box::new(FixedSizeSlotMap::<Tr, 7>::new()),
        _ => panic!("bad new"),
    }
}
impl Comp for SlotMapComp {
    fn exec(&mut self, t: &[&str]) -> String {
        if t[0] == "reloc" {
            if let Some(m) = self.m.as_mut() { m.relocate_block(); }
            return format!("ok {}", take_drops());
        }
        if t[0] == "new" {
            self.m = None;
            let _ = take_drops();
            match std::panic::catch_unwind(|| mk(t[1], num(t[2]))) {
                Ok(m) => self.m = Some(m),
                Err(_) => return "err:alloc".into(),
            }
            return "ok d=[]".into();
        }
        let m = self.m.as_mut().expect("no map");
        let r = match t[0] {
            "insert" => match m.insert(Tr::new(num(t[1]) as u32, num(t[2]) as u32)) {
                Some(k) => format!("key:{}", k.value()),
                None => "none".into(),
            },
            "insert_at" => format!("{}", m.insert_at(SlotMapKey::new(num(t[1])), Tr::new(num(t[2]) as u32, num(t[3]) as u32))),
            "remove" => show_opt(m.remove(SlotMapKey::new(num(t[1])))),
            "get" => match m.get(SlotMapKey::new(num(t[1]))) { Some(s) => format!("some:{s}"), None => "none".into() },
            "contains" => format!("{}", m.contains(SlotMapKey::new(num(t[1])))),
            "next_free_key" => match m.next_free_key() { Some(k) => format!("key:{}", k.value()), None => "none".into() },
            "dump" => m.dump(),
            "drop" => { self.m = None; "true".into() }
            _ => panic!("bad op"),
        };
        format!("{} {}", r, take_drops())
    }
}

pub fn generate(a: &Args) -> Vec<Vec<String>> {
    let mut cases = Vec::new();
    let flavours = ["heap", "fixed", "reloc"];
    if a.exhaustive > 0 {
        let alpha: Vec<String> = ["insert", "insert_at 0", "insert_at 1", "insert_at 2", "remove 0", "remove 1", "remove 2", "get 1", "contains 0", "next_free_key"]
            .iter().map(|s| s.to_string()).collect();
        for fl in flavours {
            for cap in 1..=3usize {
                enumerate_seqs(&alpha, a.exhaustive as usize, &mut |seq| {
                    let mut lines = vec![format!("new {fl} {cap}")];
                    for (pos, &i) in seq.iter().enumerate() {
                        let id = (pos + 1) * 10;
                        let l = if alpha[i].starts_with("insert") { format!("{} {id} {}", alpha[i], pos % 3) } else { alpha[i].clone() };
                        lines.push(l);
                    }
                    lines.push("dump".into());
                    lines.push("drop".into());
                    cases.push(lines);
                });
            }
        }
        return cases;
    }
    let mut rng = Rng::new(a.seed);
    for _ in 0..a.cases {
        let fl = *rng.pick(&flavours);
        let cap = *rng.pick(&[0usize, 1, 2, 3, 4, 4, 7, 7]);
        let cap = if fl != "fixed" && rng.chance(15) { rng.range(5, 20) as usize } else { cap };
        let mut lines = vec![format!("new {fl} {cap}")];
        let mut id = 1;
        for _ in 0..rng.range(1, a.len) {
            let val = rng.below(5);
            // keys: mostly in range, sometimes == capacity or beyond (boundary)
            let k = if rng.chance(85) { rng.below(cap.max(1) as u64) } else { cap as u64 + rng.below(3) };
            let l = match rng.below(100) {
                0..=27 => format!("insert {id} {val}"),
                28..=42 => format!("insert_at {k} {id} {val}"),
                43..=64 => format!("remove {k}"),
                65..=72 => format!("get {k}"),
                73..=80 => format!("contains {k}"),
                81..=88 => "next_free_key".to_string(),
                _ => "dump".to_string(),
            };
            id += 1;
            lines.push(l);
        }
        lines.push("dump".into());
        lines.push("drop".into());
        cases.push(lines);
    }
    cases
}

// ---------------------------------------------------------------------------------------------
pub trait FmLike {
    fn relocate_block(&mut self);
    fn insert(&mut self, k: u32, t: Tr) -> Result<(), FlatMapError>;
    fn get(&self, k: u32) -> Option<Tr>;
    fn get_ref(&self, k: u32) -> Option<String>;
    fn remove(&mut self, k: u32) -> Option<Tr>;
    fn contains(&self, k: u32) -> bool;
    fn dump(&self) -> String;
}
macro_rules! fm_impl {
    ($ty:ty, [$($g:tt)*], $s:ident, $acc:expr, $rel:expr) => {
        impl<$($g)*> FmLike for $ty {
            fn relocate_block(&mut self) { let $s = self; let _ = &$s; $rel }
            fn insert(&mut self, k: u32, t: Tr) -> Result<(), FlatMapError> { let $s = self; #[allow(unused_unsafe)] unsafe { $acc.insert(k, t) } }
            fn get(&self, k: u32) -> Option<Tr> { let $s = self; #[allow(unused_unsafe)] unsafe { $acc.get(&k) } }
            fn get_ref(&self, k: u32) -> Option<String> { let $s = self; #[allow(unused_unsafe)] unsafe { $acc.get_ref(&k).map(|t| t.show()) } }
            fn remove(&mut self, k: u32) -> Option<Tr> { let $s = self; #[allow(unused_unsafe)] unsafe { $acc.remove(&k) } }
            fn contains(&self, k: u32) -> bool { let $s = self; #[allow(unused_unsafe)] unsafe { $acc.contains(&k) } }
            fn dump(&self) -> String {
                let $s = self;
                let mut keys = vec![];
                #[allow(unused_unsafe)]
                unsafe { $acc.list_keys(|k| { keys.push(*k); iceoryx2_bb_elementary::CallbackProgression::Continue }) };
                #[allow(unused_unsafe)]
                let items: Vec<String> = keys.iter().map(|k| format!("{}={}", k, unsafe { $acc.get_ref(k) }.map(|t| t.show()).unwrap_or("?".into()))).collect();
                format!("[{}] len={} full={} empty={}", items.join(","), $acc.len(), $acc.is_full(), $acc.is_empty())
            }
        }
    };
}
fm_impl!(FlatMap<u32, Tr>, [], s, s, ());
fm_impl!(FixedSizeFlatMap<u32, Tr, N>, [const N: usize], s, s, ());
fm_impl!(RelocBlock<RelocatableFlatMap<u32, Tr>>, [], s, s.get(), s.relocate());

pub struct FlatMapComp {
    m: Option<Box<dyn FmLike>>,
}
impl FlatMapComp {
    pub fn new() -> Self {
        FlatMapComp { m: None }
    }
}
fn mkf(fl: &str, cap: usize) -> Box<dyn FmLike> {
    match (fl, cap) {
        ("heap", c) => Box::new(FlatMap::<u32, Tr>::new(c)),
        ("reloc", c) => Box::new(RelocBlock::<RelocatableFlatMap<u32, Tr>>::new(c, 0)),
        ("fixed", 0) => Box::new(FixedSizeFlatMap::<u32, Tr, 0>::new()),
        ("fixed", 1) => Box::new(FixedSizeFlatMap::<u32, Tr, 1>::new()),
        ("fixed", 2) => Box::new(FixedSizeFlatMap::<u32, Tr, 2>::new()),
        ("fixed", 3) => Box::new(FixedSizeFlatMap::<u32, Tr, 3>::new()),
        ("fixed", 4) => Box::new(FixedSizeFlatMap::<u32, Tr, 4>::new()),
        ("fixed", 7) => Box::new(FixedSizeFlatMap::<u32, Tr, 7>::new()),
        _ => panic!("bad new"),
    }
}
impl Comp for FlatMapComp {
    fn exec(&mut self, t: &[&str]) -> String {
        if t[0] == "reloc" {
            if let Some(m) = self.m.as_mut() { m.relocate_block(); }
            return format!("ok {}", take_drops());
        }
        if t[0] == "new" {
            self.m = None;
            let _ = take_drops();
            match std::panic::catch_unwind(|| mkf(t[1], num(t[2]))) {
                Ok(m) => self.m = Some(m),
                Err(_) => return "err:alloc".into(),
            }
            return "ok d=[]".into();
        }
        let m = self.m.as_mut().expect("no map");
        let r = match t[0] {
            "insert" => match m.insert(num(t[1]) as u32, Tr::new(num(t[2]) as u32, num(t[3]) as u32)) {
                Ok(()) => "ok".into(),
                Err(FlatMapError::KeyAlreadyExists) => "err:exists".into(),
                Err(FlatMapError::IsFull) => "err:full".into(),
            },
            "get" => show_opt(m.get(num(t[1]) as u32)),
            "get_ref" => match m.get_ref(num(t[1]) as u32) { Some(s) => format!("some:{s}"), None => "none".into() },
            "remove" => show_opt(m.remove(num(t[1]) as u32)),
            "contains" => format!("{}", m.contains(num(t[1]) as u32)),
            "dump" => m.dump(),
            "drop" => { self.m = None; "true".into() }
            _ => panic!("bad op"),
        };
        format!("{} {}", r, take_drops())
    }
}
pub fn generate_flatmap(a: &Args) -> Vec<Vec<String>> {
    let mut cases = Vec::new();
    let flavours = ["heap", "fixed", "reloc"];
    if a.exhaustive > 0 {
        let alpha: Vec<String> = ["insert 0", "insert 1", "insert 2", "remove 0", "remove 1", "get 1", "get_ref 0", "contains 2"]
            .iter().map(|s| s.to_string()).collect();
        for fl in flavours {
            for cap in 1..=3usize {
                enumerate_seqs(&alpha, a.exhaustive as usize, &mut |seq| {
                    let mut lines = vec![format!("new {fl} {cap}")];
                    for (pos, &i) in seq.iter().enumerate() {
                        let id = (pos + 1) * 10;
                        let l = if alpha[i].starts_with("insert") { format!("{} {id} {}", alpha[i], pos % 3) } else { alpha[i].clone() };
                        lines.push(l);
                    }
                    lines.push("dump".into());
                    lines.push("drop".into());
                    cases.push(lines);
                });
            }
        }
        return cases;
    }
    let mut rng = Rng::new(a.seed);
    for _ in 0..a.cases {
        let fl = *rng.pick(&flavours);
        let cap = *rng.pick(&[0usize, 1, 2, 3, 4, 4, 7, 7]);
        let cap = if fl != "fixed" && rng.chance(15) { rng.range(5, 20) as usize } else { cap };
        let mut lines = vec![format!("new {fl} {cap}")];
        let mut id = 1;
        for _ in 0..rng.range(1, a.len) {
            let val = rng.below(5);
            let k = rng.below(cap as u64 + 3);
            let l = match rng.below(100) {
                0..=34 => format!("insert {k} {id} {val}"),
                35..=54 => format!("remove {k}"),
                55..=64 => format!("get {k}"),
                65..=74 => format!("get_ref {k}"),
                75..=84 => format!("contains {k}"),
                _ => "dump".to_string(),
            };
            id += 1;
            lines.push(l);
        }
        lines.push("dump".into());
        lines.push("drop".into());
        cases.push(lines);
    }
    cases
}
