//! C14: bit set, counting bit set and used-chunk list living in a relocatable block that is moved
//! (copied byte for byte, old block poisoned) at arbitrary points of the history.
use crate::c16_vec::RelocBlock;
use crate::common::*;
use iceoryx2_bb_lock_free::mpmc::bit_set::RelocatableBitSet;
use iceoryx2_bb_lock_free::mpmc::counting_bit_set::RelocatableCountingBitSet;
use iceoryx2_cal::zero_copy_connection::used_chunk_list::RelocatableUsedChunkList;

enum Any {
    None,
    B(RelocBlock<RelocatableBitSet>, usize),
    C(RelocBlock<RelocatableCountingBitSet>, usize),
    U(RelocBlock<RelocatableUsedChunkList>, usize),
}
pub struct ShmSetsComp {
    s: Any,
}
impl ShmSetsComp {
    pub fn new() -> Self {
        ShmSetsComp { s: Any::None }
    }
}
fn n(s: &str) -> usize {
    s.parse().unwrap()
}
fn ids(v: &[(usize, u64)], with_count: bool) -> String {
    if v.is_empty() { return "-".into(); }
    v.iter().map(|(i, c)| if with_count { format!("{i}:{c}") } else { format!("{i}") }).collect::<Vec<_>>().join(",")
}
impl Comp for ShmSetsComp {
    fn exec(&mut self, t: &[&str]) -> String {
        if t[0] == "new" {
            let cap = n(t[2]);
            self.s = match t[1] {
                "bitset" => Any::B(RelocBlock::new(cap, 0), cap),
                "counting" => Any::C(RelocBlock::new(cap, 0), cap),
                _ => Any::U(RelocBlock::new(cap, 0), cap),
            };
            return "ok".into();
        }
        match &mut self.s {
            Any::None => "no-set".into(),
            Any::B(b, cap) => match t[0] {
                "set" => if n(t[1]) >= *cap { "oob".into() } else { format!("{}", b.get().set(n(t[1]))) },
                "reset_next" => match b.get().reset_next() { Some(p) => format!("some:{p}"), None => "none".into() },
                "reset_all" => { let mut v = vec![]; b.get().reset_all(|i| v.push((i, 1))); ids(&v, false) }
                "reloc" => { b.relocate(); "ok".into() }
                _ => "bad-op".into(),
            },
            Any::C(b, cap) => match t[0] {
                "set" => if n(t[1]) >= *cap { "oob".into() } else { format!("{}", b.get().set(n(t[1]))) },
                "reset_all" => { let mut v = vec![]; b.get().reset_all(|s| v.push((s.bit(), s.count()))); v.sort(); ids(&v, true) }
                "reloc" => { b.relocate(); "ok".into() }
                _ => "bad-op".into(),
            },
            Any::U(b, cap) => match t[0] {
                "insert" => if n(t[1]) >= *cap { "oob".into() } else { format!("{}", b.get().insert(n(t[1]))) },
                "remove" => if n(t[1]) >= *cap { "oob".into() } else { format!("{}", b.get().remove(n(t[1]))) },
                "remove_all" => { let mut v = vec![]; b.get().remove_all(|i| v.push((i, 1))); v.sort(); ids(&v, false) }
                "reloc" => { b.relocate(); "ok".into() }
                _ => "bad-op".into(),
            },
        }
    }
}
pub fn generate(a: &Args) -> Vec<Vec<String>> {
    let mut rng = Rng::new(a.seed);
    let mut cases = vec![];
    for _ in 0..a.cases {
        let kind = *rng.pick(&["bitset", "counting", "used"]);
        let cap = *rng.pick(&[1usize, 3, 8, 9, 17, 40]);
        let mut lines = vec![format!("new {kind} {cap}")];
        for _ in 0..rng.range(3, a.len) {
            let i = rng.below(cap as u64 + 1);
            let l = match (kind, rng.below(10)) {
                (_, 0..=1) => "reloc".to_string(),
                ("bitset", 2..=5) => format!("set {i}"),
                ("bitset", 6..=8) => "reset_next".into(),
                ("bitset", _) => "reset_all".into(),
                ("counting", 2..=7) => format!("set {i}"),
                ("counting", _) => "reset_all".into(),
                (_, 2..=5) => format!("insert {i}"),
                (_, 6..=8) => format!("remove {i}"),
                (_, _) => "remove_all".into(),
            };
            lines.push(l);
        }
        cases.push(lines);
    }
    cases
}
