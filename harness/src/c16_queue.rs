//! C16: queue flavours (Queue, FixedSizeQueue, RelocatableQueue) x element kind (tracked / Copy)
use crate::c16_vec::RelocBlock;
use crate::common::*;
use iceoryx2_bb_container::queue::*;

pub trait QLike<T> {
    fn q_relocate(&mut self) {}
    fn q_push(&mut self, t: T) -> bool;
    fn q_push_overflow(&mut self, t: T) -> Option<T>;
    fn q_pop(&mut self) -> Option<T>;
    fn q_peek(&self) -> Option<&T>;
    fn q_clear(&mut self);
    fn q_meta(&self) -> (usize, usize, bool, bool);
}
macro_rules! safe_q {
    ($ty:ty, [$($g:tt)*]) => {
        impl<$($g)*> QLike<T> for $ty {
            fn q_push(&mut self, t: T) -> bool { self.push(t) }
            fn q_push_overflow(&mut self, t: T) -> Option<T> { self.push_with_overflow(t) }
            fn q_pop(&mut self) -> Option<T> { self.pop() }
            fn q_peek(&self) -> Option<&T> { self.peek() }
            fn q_clear(&mut self) { self.clear() }
            fn q_meta(&self) -> (usize, usize, bool, bool) { (self.len(), self.capacity(), self.is_full(), self.is_empty()) }
        }
    };
}
safe_q!(Queue<T>, [T]);
safe_q!(FixedSizeQueue<T, N>, [T, const N: usize]);
impl<T> QLike<T> for RelocBlock<RelocatableQueue<T>> {
    fn q_relocate(&mut self) { self.relocate() }
    fn q_push(&mut self, t: T) -> bool { unsafe { self.get().push(t) } }
    fn q_push_overflow(&mut self, t: T) -> Option<T> { unsafe { self.get().push_with_overflow(t) } }
    fn q_pop(&mut self) -> Option<T> { unsafe { self.get().pop() } }
    fn q_peek(&self) -> Option<&T> { self.get().peek() }
    fn q_clear(&mut self) { unsafe { self.get().clear() } }
    fn q_meta(&self) -> (usize, usize, bool, bool) { let q = self.get(); (q.len(), q.capacity(), q.is_full(), q.is_empty()) }
}

fn mk_tr(fl: &str, cap: usize) -> Box<dyn QLike<Tr>> {
    match (fl, cap) {
        ("heap", c) => Box::new(Queue::<Tr>::new(c)),
        ("reloc", c) => Box::new(RelocBlock::<RelocatableQueue<Tr>>::new(c, 0)),
        ("fixed", 0) => Box::new(FixedSizeQueue::<Tr, 0>::new()),
        ("fixed", 1) => Box::new(FixedSizeQueue::<Tr, 1>::new()),
        ("fixed", 2) => Box::new(FixedSizeQueue::<Tr, 2>::new()),
        ("fixed", 3) => Box::new(FixedSizeQueue::<Tr, 3>::new()),
        ("fixed", 4) => Box::new(FixedSizeQueue::<Tr, 4>::new()),
        ("fixed", 7) => Box::new(FixedSizeQueue::<Tr, 7>::new()),
        _ => panic!("bad new"),
    }
}
enum CopyQ {
    H(Queue<u64>),
    F3(FixedSizeQueue<u64, 3>),
    F7(FixedSizeQueue<u64, 7>),
}
pub struct QueueComp {
    q: Option<Box<dyn QLike<Tr>>>,
    c: Option<CopyQ>,
}
impl QueueComp {
    pub fn new() -> Self {
        QueueComp { q: None, c: None }
    }
}
fn num(s: &str) -> usize {
    s.parse().unwrap()
}
fn enc(id: usize, val: usize) -> u64 {
    ((id as u64) << 32) | val as u64
}
fn dec(x: u64) -> String {
    format!("{}:{}", x >> 32, x & 0xffff_ffff)
}
impl Comp for QueueComp {
    fn exec(&mut self, t: &[&str]) -> String {
        if t[0] == "reloc" {
            if let Some(q) = self.q.as_mut() { q.q_relocate(); }
            return format!("ok {}", take_drops());
        }
        if t[0] == "new" {
            self.q = None;
            self.c = None;
            let _ = take_drops();
            let cap = num(t[2]);
            if t.len() > 3 && t[3] == "copy" {
                self.c = Some(match (t[1], cap) {
                    ("fixed", 3) => CopyQ::F3(FixedSizeQueue::new()),
                    ("fixed", 7) => CopyQ::F7(FixedSizeQueue::new()),
                    ("heap", c) => CopyQ::H(Queue::new(c)),
                    _ => panic!("bad new"),
                });
            } else {
                match std::panic::catch_unwind(|| mk_tr(t[1], cap)) {
                    Ok(q) => self.q = Some(q),
                    Err(_) => return "err:alloc".into(),
                }
            }
            return "ok d=[]".into();
        }
        if let Some(c) = &mut self.c {
            macro_rules! on { ($q:ident, $e:expr) => { match c { CopyQ::H($q) => $e, CopyQ::F3($q) => $e, CopyQ::F7($q) => $e } } }
            let r = match t[0] {
                "push" => format!("{}", on!(q, q.push(enc(num(t[1]), num(t[2]))))),
                "pushov" => match on!(q, q.push_with_overflow(enc(num(t[1]), num(t[2])))) {
                    Some(x) => format!("some:{}", dec(x)),
                    None => "none".into(),
                },
                "pop" => match on!(q, q.pop()) { Some(x) => format!("some:{}", dec(x)), None => "none".into() },
                "peek" => match on!(q, q.peek().copied()) { Some(x) => format!("some:{}", dec(x)), None => "none".into() },
                "clear" | "drop" => { on!(q, q.clear()); "true".into() }
                "get" => format!("some:{}", dec(on!(q, q.get(num(t[1]))))),
                "dump" => {
                    let (len, cap, full, empty) = on!(q, (q.len(), q.capacity(), q.is_full(), q.is_empty()));
                    let items: Vec<String> = (0..len).map(|i| dec(on!(q, q.get(i)))).collect();
                    format!("[{}] len={} cap={} full={} empty={}", items.join(","), len, cap, full, empty)
                }
                _ => panic!("bad op"),
            };
            return format!("{r} d=[]");
        }
        let q = self.q.as_mut().expect("no queue");
        let r = match t[0] {
            "push" => format!("{}", q.q_push(Tr::new(num(t[1]) as u32, num(t[2]) as u32))),
            "pushov" => show_opt(q.q_push_overflow(Tr::new(num(t[1]) as u32, num(t[2]) as u32))),
            "pop" => show_opt(q.q_pop()),
            "peek" => match q.q_peek() { Some(x) => format!("some:{}", x.show()), None => "none".into() },
            "clear" => { q.q_clear(); "true".into() }
            "dump" => {
                let (len, cap, full, empty) = q.q_meta();
                format!("len={} cap={} full={} empty={}", len, cap, full, empty)
            }
            "drop" => { self.q = None; "true".into() }
            _ => panic!("bad op"),
        };
        format!("{} {}", r, take_drops())
    }
}

pub fn generate(a: &Args) -> Vec<Vec<String>> {
    let mut cases = Vec::new();
    let flavours = ["heap", "fixed", "reloc"];
    if a.exhaustive > 0 {
        let alpha: Vec<String> = ["push", "pushov", "pop", "peek", "clear"].iter().map(|s| s.to_string()).collect();
        for fl in flavours {
            for cap in 0..=4usize {
                enumerate_seqs(&alpha, a.exhaustive as usize, &mut |seq| {
                    let mut lines = vec![format!("new {fl} {cap}")];
                    for (pos, &i) in seq.iter().enumerate() {
                        let id = (pos + 1) * 10;
                        let l = match alpha[i].as_str() {
                            "push" | "pushov" => format!("{} {id} {}", alpha[i], pos % 3),
                            x => x.to_string(),
                        };
                        lines.push(l);
                    }
                    lines.push("dump".into());
                    lines.push("drop".into());
                    cases.push(lines);
                });
            }
        }
        return cases;
    }
    let mut rng = Rng::new(a.seed);
    for _ in 0..a.cases {
        let copy = rng.chance(30);
        let (fl, cap) = if copy {
            *rng.pick(&[("fixed", 3usize), ("fixed", 7), ("heap", 1), ("heap", 2), ("heap", 5), ("heap", 16)])
        } else {
            let fl = *rng.pick(&flavours);
            let cap = *rng.pick(&[0usize, 1, 2, 3, 4, 7, 7]);
            (fl, if fl != "fixed" && rng.chance(20) { rng.range(5, 30) as usize } else { cap })
        };
        let mut lines = vec![format!("new {fl} {cap}{}", if copy { " copy" } else { "" })];
        let mut id = 1;
        for _ in 0..rng.range(1, a.len) {
            let val = rng.below(5);
            let l = match rng.below(100) {
                0..=29 => format!("push {id} {val}"),
                30..=54 => format!("pushov {id} {val}"),
                55..=74 => "pop".to_string(),
                75..=82 => "peek".to_string(),
                83..=85 => "clear".to_string(),
                86..=92 if copy => format!("get {}", rng.below(cap as u64 + 1)),
                _ => "dump".to_string(),
            };
            id += 1;
            lines.push(l);
        }
        lines.push("dump".into());
        lines.push("drop".into());
        cases.push(lines);
    }
    cases
}
