//! C01 / C02 / C08: publish-subscribe through the real port API (local and ipc service variants),
//! one operation per line.  Payload = a u64 tag; every received sample is re-read after every
//! later operation (canary) to detect a chunk that was reused while referenced.
use crate::common::*;
use iceoryx2::port::publisher::Publisher;
use iceoryx2::port::update_connections::UpdateConnections;
use iceoryx2::port::subscriber::Subscriber;
use iceoryx2::prelude::*;
use iceoryx2::sample::Sample;
use iceoryx2::sample_mut_uninit::SampleMutUninit;
use iceoryx2::service::marker::Flatbuffer;
use std::collections::HashMap;
use std::mem::MaybeUninit;

// generated flatbuffer code of the example (follows /repo)
#[path = "/repo/examples/rust/flatbuffer_publish_subscribe/unbounded_data_generated.rs"]
#[allow(clippy::all, unused_imports, dead_code, mismatched_lifetime_syntaxes)]
#[rustfmt::skip]
mod unbounded_data_generated;
use unbounded_data_generated::example::{Entry, EntryArgs, UnboundedData, UnboundedDataArgs};
const FB_SCHEMA: &str = "/repo/examples/rust/flatbuffer_publish_subscribe/unbounded_data.fbs";
type Fb = Flatbuffer<UnboundedData<'static>>;

static SERVICE_COUNTER: std::sync::atomic::AtomicUsize = std::sync::atomic::AtomicUsize::new(0);

struct World<S: Service> {
    node: Option<Node<S>>,
    service: Option<iceoryx2::service::port_factory::publish_subscribe::PortFactory<S, u64, ()>>,
    prefix: String,
    node_dir: String,
    pubs: HashMap<usize, Publisher<S, u64, ()>>,
    subs: HashMap<usize, Subscriber<S, u64, ()>>,
    loans: HashMap<(usize, usize), SampleMutUninit<S, MaybeUninit<u64>, ()>>,
    samples: HashMap<usize, Vec<(Sample<S, u64, ()>, u64)>>,
    pub_ids: HashMap<u128, usize>,
    max_borrow: usize,
    pub_labels: std::collections::HashSet<usize>,
    sub_labels: std::collections::HashSet<usize>,
    /// `override_sample_preallocation` of every publisher of this world (10th token of `new`)
    prealloc: Option<usize>,
    /// op `bph`: publishers created afterwards get a backpressure handler that answers DiscardDataAndFail
    bph: bool,
    // C04 (generator word `death`): further nodes that open the same service, node death and cleanup by a survivor
    config: iceoryx2::config::Config,
    name: ServiceName,
    /// nodes 1.. (node 0 = `node` / `service` above): node handle, service handle
    extra: std::collections::BTreeMap<usize, (Option<Node<S>>, Option<iceoryx2::service::port_factory::publish_subscribe::PortFactory<S, u64, ()>>)>,
    extra_dirs: Vec<String>,
    /// nodes that live in a process of their own (`spawn k`): a real crash (SIGKILL) can hit them
    children: std::collections::BTreeMap<usize, ChildProc>,
    dead: std::collections::HashSet<usize>,
    /// which node created the port (absent: node 0)
    pub_node: HashMap<usize, usize>,
    sub_node: HashMap<usize, usize>,
}

struct SliceWorld<S: Service> {
    node: Option<Node<S>>,
    service: Option<iceoryx2::service::port_factory::publish_subscribe::PortFactory<S, [u64], ()>>,
    prefix: String,
    node_dir: String,
    pubs: HashMap<usize, Publisher<S, [u64], ()>>,
    subs: HashMap<usize, Subscriber<S, [u64], ()>>,
    loans: HashMap<(usize, usize), SampleMutUninit<S, [MaybeUninit<u64>], ()>>,
    samples: HashMap<usize, Vec<(Sample<S, [u64], ()>, u64)>>,
    pub_ids: HashMap<u128, usize>,
    max_borrow: usize,
    pub_labels: std::collections::HashSet<usize>,
    sub_labels: std::collections::HashSet<usize>,
}

// Flatbuffer payload mode (`new local-fb|ipc-fb …`, op `loanf <p> <l> <n> [fit|late]`).
//
// Restrictions of the default histories, each one because the unmodified implementation misbehaves outside of it
// (replay: `seqdiff pubsub replay`, the model agrees with every line before the marked one):
//  F1 no table field carries its default value (data_1 = i + 1, tags >= 1).  The flatbuffer builder omits such a field and
//     expects its vtable slot to be zero already; ResizableMemory (iceoryx2-bb/flatbuffers/src/resizable_memory.rs) hands out
//     the chunk as it is (bytes of the previous sample, stale copy of the header after a grow).  With VERIF_FB_DEFAULTS=1
//     (entry 0 gets data_1 = 0):  new local-fb 1 1 1 0 1 0 1; cpub 0 1; csub 0 - -; loanf 0 0 2; send 0 0 11; recv 0;
//     dsample 0 0; loanf 0 1 2  -> the second sample (same chunk again) is not a valid flatbuffer.
//  F2 the whole content is built inside `loanf` (default); `late` writes the entries at `send`.  DynamicMemory::grow
//     (iceoryx2-cal/src/resizable_shared_memory/dynamic.rs) asks the CURRENT segment to grow the chunk, whatever segment the
//     chunk lives in: a loan of an older segment whose new size fits the bucket of the newest segment is "grown in place" at
//     the same offset of the newest segment — a chunk it does not own.  new local-fb 1 1 3 0 3 1 1; cpub 0 2; csub 0 - -;
//     loanf 0 0 2 late; loanf 0 1 2 late; send 0 1 1; recv 0; send 0 0 2  -> the builder works on the chunk the subscriber
//     holds (here: panic inside the builder, the bytes are not its own).
//  F3 a loan that is still open when a later loan of its publisher is sent does not grow (`fit`, generator word `overtake`
//     lifts it).  ChunkMutSharedState::grow (iceoryx2/src/port/details/chunk_mut_shared_state.rs) stores the new layout size
//     INCLUDING the headers as payload size: a grown sample reports number_of_elements and chunk size too large by the header
//     length (payload_bytes() reads that many bytes past the payload area) and the connection, which derives the chunk index
//     from offset / size-of-the-last-sent-sample, sees two sizes in one segment.  new local-fb 1 1 2 0 2 1 1; cpub 0 2;
//     csub 0 - -; loanf 0 0 2; loanf 0 1 2; send 0 1 1; send 0 0 2; recv 0; dsample 0 0; loanf 0 2 1  -> debug assertion in
//     zero_copy_connection/common.rs reclaim (wrong chunk index without debug assertions).
//  (dpub: a dropped publisher's not yet mapped segments are lost, as in slice mode.)

/// a flatbuffer loan.
/// `Ready` (default): the whole content (title, k entries with a placeholder tag) is built and finished inside `loanf`, so
/// every grow of the loan happens while its chunk lies in the publisher's newest segment; `send` writes the tag in place.
/// `Late` (`loanf p l n late`): only the title is written at `loanf`, the entries at `send` — the loan grows again after
/// other loans of the publisher may have moved the publisher to a newer segment.
enum FbLoan<S: Service> {
    Ready { s: iceoryx2::sample_mut::SampleMut<S, Fb, ()>, tag_positions: Vec<usize> },
    Late { s: SampleMutUninit<S, Fb, ()>, title: flatbuffers::WIPOffset<&'static str>, k: usize },
}

/// what is remembered of a received flatbuffer sample: header values and all payload bytes
struct FbSnap {
    tag: u64,
    payload_offset: u64,
    number_of_elements: u64,
    bytes: Vec<u8>,
}

#[derive(Default)]
struct FbStat {
    // [no growth, growth inside the chunk, relocated into another chunk]
    loanf: [usize; 3],
    send: [usize; 3],
    fit: usize,
    max_capacity: usize,
}

struct FbWorld<S: Service> {
    node: Option<Node<S>>,
    service: Option<iceoryx2::service::port_factory::publish_subscribe::PortFactory<S, Fb, ()>>,
    prefix: String,
    node_dir: String,
    pubs: HashMap<usize, Publisher<S, Fb, ()>>,
    subs: HashMap<usize, Subscriber<S, Fb, ()>>,
    loans: HashMap<(usize, usize), FbLoan<S>>,
    samples: HashMap<usize, Vec<(Sample<S, Fb, ()>, FbSnap)>>,
    pub_ids: HashMap<u128, usize>,
    max_borrow: usize,
    pub_labels: std::collections::HashSet<usize>,
    sub_labels: std::collections::HashSet<usize>,
    /// largest number of entries a loan of this publisher was built with so far (a loan with at most that many never grows)
    kmax: HashMap<usize, usize>,
    stat: FbStat,
}

impl<S: Service> Drop for FbWorld<S> {
    fn drop(&mut self) {
        if std::env::var("VERIF_FBSTAT").is_ok() {
            let (a, b) = (&self.stat.loanf, &self.stat.send);
            eprintln!("# fbstat loanf none={} inplace={} reloc={} fit={} send none={} inplace={} reloc={} maxcap={}", a[0], a[1], a[2], self.stat.fit, b[0], b[1], b[2], self.stat.max_capacity);
        }
    }
}

pub enum AnyWorld {
    None,
    LocalFb(Box<FbWorld<local::Service>>),
    IpcFb(Box<FbWorld<ipc::Service>>),
    LocalSlice(Box<SliceWorld<local::Service>>),
    IpcSlice(Box<SliceWorld<ipc::Service>>),
    Local(Box<World<local::Service>>),
    Ipc(Box<World<ipc::Service>>),
}
pub struct PubSubComp {
    w: AnyWorld,
}
impl PubSubComp {
    pub fn new() -> Self {
        PubSubComp { w: AnyWorld::None }
    }
}
fn n(s: &str) -> usize {
    s.parse().unwrap()
}

fn mk<S: Service>(t: &[&str]) -> Result<World<S>, String> {
    let k = SERVICE_COUNTER.fetch_add(1, std::sync::atomic::Ordering::Relaxed);
    let mut config = iceoryx2::config::Config::global_config().clone();
    config.defaults.publish_subscribe.subscriber_expired_connection_buffer = n(t[8]);
    // own domain: nothing is shared with other iceoryx2 users of this machine (test suites, other checks)
    let prefix = format!("vf{}c{}_", std::process::id(), k);
    config.global.prefix = iceoryx2_bb_system_types::file_name::FileName::new(prefix.as_bytes()).unwrap();
    // dead nodes are cleaned up by the explicit `cleanup` call only (no difference without dead nodes)
    config.global.node.cleanup_dead_nodes_on_creation = false;
    config.global.node.cleanup_dead_nodes_on_destruction = false;
    config.global.service.cleanup_dead_nodes_on_open = false;
    let node = NodeBuilder::new().config(&config).create::<S>().map_err(|e| format!("err:node:{e:?}"))?;
    let name = ServiceName::new(&format!("verif/pubsub/{}/{k}", std::process::id())).unwrap();
    let service = node
        .service_builder(&name)
        .publish_subscribe::<u64>()
        .max_publishers(n(t[2]))
        .max_subscribers(n(t[3]))
        .subscriber_max_buffer_size(n(t[4]))
        .history_size(n(t[5]))
        .subscriber_max_borrowed_samples(n(t[6]))
        .enable_safe_overflow(n(t[7]) == 1)
        .create()
        .map_err(|e| format!("err:service:{e:?}"))?;
    let node_dir = format!("{}", node.id().value());
    Ok(World { node: Some(node), service: Some(service), prefix, node_dir, pubs: HashMap::new(), subs: HashMap::new(), loans: HashMap::new(), samples: HashMap::new(), pub_ids: HashMap::new(), max_borrow: n(t[6]).max(1), pub_labels: Default::default(), sub_labels: Default::default(), prealloc: t.get(9).map(|x| n(x)), bph: false,
        config, name, extra: Default::default(), extra_dirs: vec![], children: Default::default(), dead: Default::default(), pub_node: HashMap::new(), sub_node: HashMap::new() })
}

fn mk_slice<S: Service>(t: &[&str]) -> Result<SliceWorld<S>, String> {
    let k = SERVICE_COUNTER.fetch_add(1, std::sync::atomic::Ordering::Relaxed);
    let mut config = iceoryx2::config::Config::global_config().clone();
    config.defaults.publish_subscribe.subscriber_expired_connection_buffer = n(t[8]);
    // own domain: nothing is shared with other iceoryx2 users of this machine (test suites, other checks)
    let prefix = format!("vf{}c{}_", std::process::id(), k);
    config.global.prefix = iceoryx2_bb_system_types::file_name::FileName::new(prefix.as_bytes()).unwrap();
    let node = NodeBuilder::new().config(&config).create::<S>().map_err(|e| format!("err:node:{e:?}"))?;
    let name = ServiceName::new(&format!("verif/pubsub/{}/{k}", std::process::id())).unwrap();
    let service = node
        .service_builder(&name)
        .publish_subscribe::<[u64]>()
        .max_publishers(n(t[2]))
        .max_subscribers(n(t[3]))
        .subscriber_max_buffer_size(n(t[4]))
        .history_size(n(t[5]))
        .subscriber_max_borrowed_samples(n(t[6]))
        .enable_safe_overflow(n(t[7]) == 1)
        .create()
        .map_err(|e| format!("err:service:{e:?}"))?;
    let node_dir = format!("{}", node.id().value());
    Ok(SliceWorld { node: Some(node), service: Some(service), prefix, node_dir, pubs: HashMap::new(), subs: HashMap::new(), loans: HashMap::new(), samples: HashMap::new(), pub_ids: HashMap::new(), max_borrow: n(t[6]).max(1), pub_labels: Default::default(), sub_labels: Default::default() })
}

fn mk_fb<S: Service>(t: &[&str]) -> Result<FbWorld<S>, String> {
    let k = SERVICE_COUNTER.fetch_add(1, std::sync::atomic::Ordering::Relaxed);
    let mut config = iceoryx2::config::Config::global_config().clone();
    config.defaults.publish_subscribe.subscriber_expired_connection_buffer = n(t[8]);
    // own domain: nothing is shared with other iceoryx2 users of this machine (test suites, other checks)
    let prefix = format!("vf{}c{}_", std::process::id(), k);
    config.global.prefix = iceoryx2_bb_system_types::file_name::FileName::new(prefix.as_bytes()).unwrap();
    let node = NodeBuilder::new().config(&config).create::<S>().map_err(|e| format!("err:node:{e:?}"))?;
    let name = ServiceName::new(&format!("verif/pubsub/{}/{k}", std::process::id())).unwrap();
    let schema: iceoryx2_bb_system_types::file_path::FilePath = FB_SCHEMA.try_into().unwrap();
    let service = node
        .service_builder(&name)
        .publish_subscribe::<Fb>()
        .flatbuffer_schema_path(&schema)
        .max_publishers(n(t[2]))
        .max_subscribers(n(t[3]))
        .subscriber_max_buffer_size(n(t[4]))
        .history_size(n(t[5]))
        .subscriber_max_borrowed_samples(n(t[6]))
        .enable_safe_overflow(n(t[7]) == 1)
        .create()
        .map_err(|e| format!("err:service:{e:?}"))?;
    let node_dir = format!("{}", node.id().value());
    Ok(FbWorld { node: Some(node), service: Some(service), prefix, node_dir, pubs: HashMap::new(), subs: HashMap::new(), loans: HashMap::new(), samples: HashMap::new(), pub_ids: HashMap::new(), max_borrow: n(t[6]).max(1), pub_labels: Default::default(), sub_labels: Default::default(), kmax: HashMap::new(), stat: Default::default() })
}

/// start address and capacity of the memory the flatbuffer builder of a loan currently writes to
fn fb_place<S: Service>(s: &mut SampleMutUninit<S, Fb, ()>) -> (usize, usize) {
    let (buf, _) = s.flatbuffer_builder().mut_finished_buffer();
    (buf.as_ptr() as usize, buf.len())
}

fn fb_class(before: (usize, usize), after: (usize, usize)) -> usize {
    if before.0 != after.0 { 2 } else if before.1 != after.1 { 1 } else { 0 }
}

const FB_TITLE_PAD: usize = 8;
/// initial reserved memory of every publisher: a sample with one entry just fits (it never grows), more entries grow
const FB_INITIAL_RESERVE: usize = 80;

/// data_1 of entry i is i + 1: no field of an entry has its default value (tags are >= 1).  A field with the default value
/// is omitted by the flatbuffer builder, its vtable slot is expected to be zero already — which the loaned memory does not
/// guarantee (stale bytes of the moved header / of the previous user of the chunk): finding F1 above.
/// `VERIF_FB_DEFAULTS=1` makes entry 0 carry data_1 = 0 to reproduce that.
/// VERIF_FBDEBUG=1: decoded samples, header values and panic messages on stderr
fn fb_debug() -> bool {
    static V: std::sync::OnceLock<bool> = std::sync::OnceLock::new();
    *V.get_or_init(|| std::env::var("VERIF_FBDEBUG").is_ok())
}

fn fb_first() -> i32 {
    static V: std::sync::OnceLock<i32> = std::sync::OnceLock::new();
    *V.get_or_init(|| if std::env::var("VERIF_FB_DEFAULTS").is_ok() { 0 } else { 1 })
}

/// `Some(tag)` when the bytes are a valid flatbuffer of the expected shape: title `L<l>:` + padding,
/// k >= 1 entries, entry i = (i + 1, tag)
fn fb_decode(bytes: &[u8]) -> Option<u64> {
    let root = match flatbuffers::root::<UnboundedData>(bytes) {
        Ok(r) => r,
        Err(e) => { if fb_debug() { eprintln!("# fb invalid: {e:?} len {}", bytes.len()); } return None; }
    };
    if fb_debug() { eprintln!("# fb root: {root:?}"); }
    let entries = root.entries()?;
    let k = entries.len();
    if k == 0 { return None; }
    let tag = entries.get(0).data_2();
    for (i, e) in entries.iter().enumerate() {
        if e.data_2() != tag || e.data_1() != i as i32 + fb_first() { return None; }
    }
    let title = root.title()?;
    let (head, pad) = title.split_once(':')?;
    if !head.starts_with('L') || head[1..].parse::<usize>().is_err() { return None; }
    if pad.len() != k * FB_TITLE_PAD || !pad.bytes().all(|b| b == b'x') { return None; }
    Some(tag)
}

/// k entries (i + 1, tag) and the root
fn fb_fill<S: Service + 'static>(s: &mut SampleMutUninit<S, Fb, ()>, title: flatbuffers::WIPOffset<&'static str>, k: usize, tag: u64) -> flatbuffers::WIPOffset<UnboundedData<'static>> {
    let b = s.flatbuffer_builder();
    let mut entries = Vec::with_capacity(k);
    for i in 0..k {
        entries.push(Entry::create(b, &EntryArgs { data_1: i as i32 + fb_first(), data_2: tag }));
    }
    let entries = b.create_vector(&entries);
    UnboundedData::create(b, &UnboundedDataArgs { title: Some(title), entries: Some(entries) })
}

/// positions (inside the finished payload bytes) of the data_2 field of every entry
fn fb_tag_positions(bytes: &[u8]) -> Option<Vec<usize>> {
    let root = flatbuffers::root::<UnboundedData>(bytes).ok()?;
    let mut v = vec![];
    for e in root.entries()?.iter() {
        let vo = e._tab.vtable().get(Entry::VT_DATA_2) as usize;
        if vo == 0 { return None; }
        v.push(e._tab.loc() + vo);
    }
    Some(v)
}

/// header values first (a reused chunk may carry anything), then the bytes
fn fb_read<S: Service>(s: &Sample<S, Fb, ()>) -> Option<(u64, u64, &[u8])> {
    let (po, ne) = (s.header().payload_offset(), s.header().number_of_elements());
    if fb_debug() { eprintln!("# fb header: payload_offset {po} number_of_elements {ne}"); }
    if ne < po || ne > (1 << 24) { return None; }
    Some((po, ne, s.payload_bytes()))
}

/// a node in a process of its own: the same binary (`seqdiff pubsub gen child`, parameters in VERIF_PS_CHILD) executes the
/// calls on its ports that the parent forwards, one line per call, one reply line `result \t oracle messages \t new publisher id`
struct ChildProc {
    child: std::process::Child,
    stdin: Option<std::process::ChildStdin>,
    stdout: std::io::BufReader<std::process::ChildStdout>,
}
impl ChildProc {
    fn tell(&mut self, line: &str) {
        use std::io::Write;
        if let Some(i) = self.stdin.as_mut() { let _ = writeln!(i, "{line}"); let _ = i.flush(); }
    }
    fn ask(&mut self, line: &str) -> (String, Option<u128>) {
        use std::io::BufRead;
        self.tell(line);
        let mut r = String::new();
        if self.stdout.read_line(&mut r).unwrap_or(0) == 0 { return ("child-died".into(), None); }
        let f: Vec<&str> = r.trim_end_matches('\n').split('\t').collect();
        if f.len() > 1 { for m in f[1].split(';').filter(|m| !m.is_empty()) { oracle_fail(m.to_string()); } }
        (f[0].to_string(), f.get(2).and_then(|x| x.parse().ok()))
    }
}
impl Drop for ChildProc {
    fn drop(&mut self) {
        // orderly end: the child drops its objects and exits when its input ends
        self.stdin.take();
        let _ = self.child.wait();
    }
}

fn child_config(prefix: &str, expired: usize) -> iceoryx2::config::Config {
    let mut config = iceoryx2::config::Config::global_config().clone();
    config.defaults.publish_subscribe.subscriber_expired_connection_buffer = expired;
    config.global.prefix = iceoryx2_bb_system_types::file_name::FileName::new(prefix.as_bytes()).unwrap();
    config.global.node.cleanup_dead_nodes_on_creation = false;
    config.global.node.cleanup_dead_nodes_on_destruction = false;
    config.global.service.cleanup_dead_nodes_on_open = false;
    config
}

/// `seqdiff pubsub gen child`: node of its own in this process, driven by the parent harness over stdin / stdout
fn child_main() -> ! {
    use std::io::{BufRead, Write};
    type S = ipc::Service;
    let env = std::env::var("VERIF_PS_CHILD").unwrap_or_default();
    let f: Vec<&str> = env.split('|').collect();
    let (prefix, name, expired, max_borrow) = (f[0].to_string(), f[1], n(f[2]), n(f[3]));
    let out = std::io::stdout();
    let config = child_config(&prefix, expired);
    let name = ServiceName::new(name).unwrap();
    let made = (|| -> Result<World<S>, String> {
        let node = NodeBuilder::new().config(&config).create::<S>().map_err(|e| format!("err:node:{e:?}"))?;
        let service = node.service_builder(&name).publish_subscribe::<u64>().open().map_err(|e| format!("err:open:{e:?}"))?;
        let node_dir = format!("{}", node.id().value());
        Ok(World { node: Some(node), service: Some(service), prefix: prefix.clone(), node_dir, pubs: HashMap::new(), subs: HashMap::new(), loans: HashMap::new(), samples: HashMap::new(), pub_ids: HashMap::new(), max_borrow, pub_labels: Default::default(), sub_labels: Default::default(), prealloc: None, bph: false,
            config: config.clone(), name: name.clone(), extra: Default::default(), extra_dirs: vec![], children: Default::default(), dead: Default::default(), pub_node: HashMap::new(), sub_node: HashMap::new() })
    })();
    let mut w = match made {
        Ok(w) => { writeln!(out.lock(), "ready {}", w.node_dir).unwrap(); w }
        Err(e) => { writeln!(out.lock(), "{e}").unwrap(); std::process::exit(0) }
    };
    out.lock().flush().unwrap();
    let stdin = std::io::stdin();
    for l in stdin.lock().lines() {
        let Ok(l) = l else { break };
        let toks: Vec<&str> = l.split(' ').filter(|t| !t.is_empty()).collect();
        if toks.is_empty() { continue; }
        if toks[0] == "#pubid" { w.pub_ids.insert(toks[1].parse().unwrap(), n(toks[2])); continue; }
        let before: Vec<u128> = w.pub_ids.keys().cloned().collect();
        let r = std::panic::catch_unwind(std::panic::AssertUnwindSafe(|| exec(&mut w, &toks)));
        let res = match r { Ok(s) => s, Err(_) => "PANIC".to_string() };
        let newid = w.pub_ids.keys().find(|k| !before.contains(k)).map(|k| k.to_string()).unwrap_or_default();
        let o = take_oracle().join(";");
        let mut lock = out.lock();
        writeln!(lock, "{res}\t{o}\t{newid}").unwrap();
        lock.flush().unwrap();
    }
    drop(w);
    std::process::exit(0)
}

/// `@k` as last token: the call goes through node k's service handle (default: node 0)
fn node_index(t: &[&str]) -> usize {
    match t.last() { Some(x) if x.starts_with('@') => n(&x[1..]), _ => 0 }
}

fn exec<S: Service>(w: &mut World<S>, t: &[&str]) -> String {
    use iceoryx2_bb_elementary_traits::testing::abandonable::Abandonable;
    // calls on the ports of a node that lives in a child process are executed there
    if !w.children.is_empty() || !w.dead.is_empty() {
        let owner = match t[0] {
            "cpub" | "csub" => Some(node_index(t)),
            "dpub" | "loan" | "send" | "dloan" | "probe" => Some(w.pub_node.get(&n(t[1])).cloned().unwrap_or(0)),
            "dsub" | "recv" | "dsample" | "has" => Some(w.sub_node.get(&n(t[1])).cloned().unwrap_or(0)),
            "upd" => Some(if t[1] == "p" { w.pub_node.get(&n(t[2])).cloned().unwrap_or(0) } else { w.sub_node.get(&n(t[2])).cloned().unwrap_or(0) }),
            _ => None,
        };
        if let Some(k) = owner && w.children.contains_key(&k) {
            if t[0] == "cpub" && w.pub_labels.contains(&n(t[1])) { return "dup".into(); }
            if t[0] == "csub" && w.sub_labels.contains(&n(t[1])) { return "dup".into(); }
            let line: Vec<&str> = t.iter().cloned().filter(|x| !x.starts_with('@')).collect();
            let (res, newid) = w.children.get_mut(&k).unwrap().ask(&line.join(" "));
            if res == "PANIC" {
                // a fatal panic inside the implementation ends the case, in whichever process it happened
                for (_, mut c) in std::mem::take(&mut w.children) { let _ = c.child.kill(); let _ = c.child.wait(); }
                panic!("panic in the child process");
            }
            if t[0] == "cpub" && res == "ok" {
                w.pub_labels.insert(n(t[1])); w.pub_node.insert(n(t[1]), k);
                if let Some(id) = newid {
                    w.pub_ids.insert(id, n(t[1]));
                    let msg = format!("#pubid {id} {}", t[1]);
                    for (j, c) in w.children.iter_mut() { if *j != k { c.tell(&msg); } }
                }
            }
            if t[0] == "csub" && res == "ok" { w.sub_labels.insert(n(t[1])); w.sub_node.insert(n(t[1]), k); }
            return res;
        }
        if let Some(k) = owner && k != 0 && w.dead.contains(&k) && !w.extra.contains_key(&k) {
            // the node died: its ports are out of reach
            return if t[0] == "cpub" || t[0] == "csub" { "no-service".into() } else { "none".into() };
        }
    }
    let r = match t[0] {
        "bph" => { w.bph = true; "ok".into() }
        "spawn" => {
            // spawn <k>: a further node in a process of its own opens the service (ipc)
            let k = n(t[1]);
            if k == 0 || w.extra.contains_key(&k) || w.children.contains_key(&k) || w.dead.contains(&k) { return "dup".into(); }
            let expired = w.config.defaults.publish_subscribe.subscriber_expired_connection_buffer;
            let mut child = match std::process::Command::new(std::env::current_exe().unwrap()).args(["pubsub", "gen", "child"])
                .env("VERIF_PS_CHILD", format!("{}|{}|{}|{}", w.prefix, w.name, expired, w.max_borrow))
                .stdin(std::process::Stdio::piped()).stdout(std::process::Stdio::piped()).spawn() { Ok(c) => c, Err(e) => return format!("err:spawn:{e}") };
            let mut cp = ChildProc { stdin: child.stdin.take(), stdout: std::io::BufReader::new(child.stdout.take().unwrap()), child };
            let mut first = String::new();
            { use std::io::BufRead; let _ = cp.stdout.read_line(&mut first); }
            let first = first.trim().to_string();
            if let Some(dir) = first.strip_prefix("ready ") {
                w.extra_dirs.push(dir.to_string());
                for (id, l) in w.pub_ids.iter() { cp.tell(&format!("#pubid {id} {l}")); }
                w.children.insert(k, cp);
                "ok".into()
            } else if first.is_empty() { "child-died".into() } else { first }
        }
        "kill" if w.children.contains_key(&n(t[1])) => {
            // the process is killed between two calls
            let k = n(t[1]);
            let mut cp = w.children.remove(&k).unwrap();
            let _ = cp.child.kill();
            let _ = cp.child.wait();
            w.dead.insert(k);
            "ok".into()
        }
        "open" => {
            // open <k>: a further node opens the service
            let k = n(t[1]);
            if k == 0 || w.extra.contains_key(&k) || w.dead.contains(&k) { return "dup".into(); }
            let node = match NodeBuilder::new().config(&w.config).create::<S>() { Ok(v) => v, Err(e) => return format!("err:node:{e:?}") };
            match node.service_builder(&w.name).publish_subscribe::<u64>().open() {
                Ok(svc) => { w.extra_dirs.push(format!("{}", node.id().value())); w.extra.insert(k, (Some(node), Some(svc))); "ok".into() }
                Err(e) => format!("err:open:{e:?}"),
            }
        }
        "kill" => {
            // kill <k>: the process of node k dies between two calls: nothing of it is dropped (order of the conformance tests:
            // node, service, publishers, subscribers; loans and samples are never heard of again)
            let k = n(t[1]);
            if w.dead.contains(&k) { return "dead".into(); }
            let (node, svc) = if k == 0 { (w.node.take(), w.service.take()) } else { match w.extra.remove(&k) { Some(x) => x, None => return "no-node".into() } };
            w.dead.insert(k);
            if let Some(x) = node { x.abandon(); }
            if let Some(x) = svc { x.abandon(); }
            let of = |m: &HashMap<usize, usize>, l: usize| m.get(&l).cloned().unwrap_or(0);
            let ps: Vec<usize> = w.pubs.keys().cloned().filter(|p| of(&w.pub_node, *p) == k).collect();
            let ss: Vec<usize> = w.subs.keys().cloned().filter(|s| of(&w.sub_node, *s) == k).collect();
            for p in &ps { w.pubs.remove(p).unwrap().abandon(); }
            for s in &ss { w.subs.remove(s).unwrap().abandon(); }
            let lk: Vec<(usize, usize)> = w.loans.keys().cloned().filter(|(p, _)| of(&w.pub_node, *p) == k).collect();
            for x in lk { std::mem::forget(w.loans.remove(&x).unwrap()); }
            let sk: Vec<usize> = w.samples.keys().cloned().filter(|s| of(&w.sub_node, *s) == k).collect();
            for x in sk { for y in w.samples.remove(&x).unwrap() { std::mem::forget(y); } }
            "ok".into()
        }
        "cleanup" => {
            // cleanup <k>: node k removes the stale resources of all dead nodes
            let k = n(t[1]);
            let node = if k == 0 { w.node.as_ref() } else { w.extra.get(&k).and_then(|x| x.0.as_ref()) };
            match node { Some(x) => { let r = x.try_cleanup_dead_nodes(); format!("c={},f={}", r.cleanups, r.failed_cleanups) } None => "none".into() }
        }
        "cpub" => {
            // cpub <p> <max_loans> [@k]
            let k = node_index(t);
            if w.pub_labels.contains(&n(t[1])) { "dup".to_string() } else {
            let svc = if k == 0 { w.service.as_ref() } else { w.extra.get(&k).and_then(|x| x.1.as_ref()) };
            if svc.is_none() { return "no-service".to_string(); }
            if k != 0 { w.pub_node.insert(n(t[1]), k); }
            let mut b = svc.unwrap().publisher_builder().max_loaned_samples(n(t[2])).backpressure_strategy(BackpressureStrategy::DiscardData);
            if let Some(k) = w.prealloc { b = b.override_sample_preallocation(move |_| k); }
            if w.bph { b = b.set_backpressure_handler(|_| iceoryx2::port::BackpressureAction::DiscardDataAndFail); }
            match b.create() {
                Ok(p) => {
                    w.pub_ids.insert(p.id().value(), n(t[1]));
                    w.pub_labels.insert(n(t[1]));
                    let msg = format!("#pubid {} {}", p.id().value(), t[1]);
                    for c in w.children.values_mut() { c.tell(&msg); }
                    w.pubs.insert(n(t[1]), p);
                    "ok".to_string()
                }
                Err(e) => format!("err:{e:?}"),
            }
            }
        }
        "dpub" => match w.pubs.remove(&n(t[1])) { Some(p) => { drop(p); "ok".into() } None => "none".into() },
        "csub" => {
            // csub <s> <buffer size or -> <history request or -> [@k]
            let k = node_index(t);
            if w.sub_labels.contains(&n(t[1])) { "dup".to_string() } else {
            let svc = if k == 0 { w.service.as_ref() } else { w.extra.get(&k).and_then(|x| x.1.as_ref()) };
            if svc.is_none() { return "no-service".to_string(); }
            if k != 0 { w.sub_node.insert(n(t[1]), k); }
            let mut b = svc.unwrap().subscriber_builder();
            if t[2] != "-" { b = b.buffer_size(n(t[2])); }
            if t[3] != "-" { b = b.history_request(n(t[3])); }
            match b.create() {
                Ok(s) => { w.subs.insert(n(t[1]), s); w.sub_labels.insert(n(t[1])); w.samples.insert(n(t[1]), vec![]); "ok".to_string() }
                Err(e) => format!("err:{e:?}"),
            }
            }
        }
        "dsub" => match w.subs.remove(&n(t[1])) { Some(s) => { drop(s); "ok".into() } None => "none".into() },
        "loan" => match w.pubs.get(&n(t[1])) {
            Some(_) if w.loans.contains_key(&(n(t[1]), n(t[2]))) => "dup".into(),
            Some(p) => match p.loan_uninit() {
                Ok(s) => { w.loans.insert((n(t[1]), n(t[2])), s); "ok".into() }
                Err(e) => format!("err:{e:?}"),
            },
            None => "none".into(),
        },
        "send" => match w.loans.remove(&(n(t[1]), n(t[2]))) {
            // send <p> <l> <tag>
            Some(s) => match s.write_payload(t[3].parse::<u64>().unwrap()).send() { Ok(k) => format!("ok:{k}"), Err(e) => format!("err:{e:?}") },
            None => "none".into(),
        },
        "probe" => match w.pubs.get(&n(t[1])) {
            // loan until refused, report how many loans succeeded and why the next one failed, give all back
            Some(p) => {
                let mut v = vec![];
                let e = loop {
                    match p.loan_uninit() { Ok(s) => v.push(s), Err(e) => break format!("{e:?}") }
                    if v.len() > 1000 { break "unbounded".to_string() }
                };
                let k = v.len();
                for s in v.drain(..) { drop(s); }
                format!("{k}:{e}")
            }
            None => "none".into(),
        },
        // C17: the node handle / the service handle are dropped while everything else lives on
        "dnode" if t.len() > 1 && n(t[1]) != 0 => match w.extra.get_mut(&n(t[1])).and_then(|x| x.0.take()) { Some(x) => { drop(x); "ok".into() } None => "none".into() },
        "dsvc" if t.len() > 1 && n(t[1]) != 0 => match w.extra.get_mut(&n(t[1])).and_then(|x| x.1.take()) { Some(x) => { drop(x); "ok".into() } None => "none".into() },
        "dnode" => match w.node.take() { Some(n) => { drop(n); "ok".into() } None => "none".into() },
        "dsvc" => match w.service.take() { Some(n) => { drop(n); "ok".into() } None => "none".into() },
        "ls" => list_resources_multi(&w.prefix, &w.node_dir, &w.extra_dirs),
        "dloan" => match w.loans.remove(&(n(t[1]), n(t[2]))) { Some(s) => { drop(s); "ok".into() } None => "none".into() },
        "recv" => match w.subs.get(&n(t[1])) {
            Some(s) => match s.receive() {
                Ok(Some(sample)) => {
                    let tag = *sample.payload();
                    let origin = w.pub_ids.get(&sample.origin().value()).map(|p| p.to_string()).unwrap_or("?".into());
                    w.samples.get_mut(&n(t[1])).unwrap().push((sample, tag));
                    format!("some:{origin}:{tag}")
                }
                Ok(None) => "none".into(),
                Err(e) => format!("err:{e:?}"),
            },
            None => "none".into(),
        },
        "dsample" => match w.samples.get_mut(&n(t[1])) {
            Some(v) if n(t[2]) < v.len() => { let s = v.remove(n(t[2])); drop(s); "ok".into() }
            _ => "none".into(),
        },
        "upd" => {
            if t[1] == "p" { match w.pubs.get(&n(t[2])) { Some(p) => format!("{}", match p.update_connections() { Ok(()) => "ok".to_string(), Err(e) => format!("err:{e:?}") }), None => "none".into() } }
            else { match w.subs.get(&n(t[2])) { Some(s) => format!("{}", match s.update_connections() { Ok(()) => "ok".to_string(), Err(e) => format!("err:{e:?}") }), None => "none".into() } }
        }
        "has" => match w.subs.get(&n(t[1])) { Some(s) => match s.has_samples() { Ok(b) => format!("{b}"), Err(e) => format!("err:{e:?}") }, None => "none".into() },
        _ => panic!("bad op"),
    };
    // canary: everything a subscriber still holds must be unchanged
    // the documented borrow limit is per subscriber
    for (sl, v) in w.samples.iter() {
        if w.subs.contains_key(sl) && v.len() > w.max_borrow {
            oracle_fail("subscriber holds more samples than max borrowed samples".to_string());
        }
    }
    for (sl, v) in w.samples.iter() {
        for (s, tag) in v {
            if *s.payload() != *tag {
                let whose = if w.subs.contains_key(sl) { "live" } else { "dropped" };
                oracle_fail(format!("held sample of {whose} subscriber changed"));
            }
        }
    }
    r
}

fn exec_slice<S: Service>(w: &mut SliceWorld<S>, t: &[&str]) -> String {
    let r = match t[0] {
        "cpub" => {
            // cpub <p> <max_loans>
            if w.pub_labels.contains(&n(t[1])) { "dup".to_string() } else {
            if w.service.is_none() { return "no-service".to_string(); }
            match w.service.as_ref().unwrap().publisher_builder().max_loaned_samples(n(t[2])).backpressure_strategy(BackpressureStrategy::DiscardData).initial_max_slice_len(1).allocation_strategy(iceoryx2_bb_elementary::allocation_strategy::AllocationStrategy::PowerOfTwo).create() {
                Ok(p) => {
                    w.pub_ids.insert(p.id().value(), n(t[1]));
                    w.pub_labels.insert(n(t[1]));
                    w.pubs.insert(n(t[1]), p);
                    "ok".to_string()
                }
                Err(e) => format!("err:{e:?}"),
            }
            }
        }
        "dpub" => match w.pubs.remove(&n(t[1])) { Some(p) => { drop(p); "ok".into() } None => "none".into() },
        "csub" => {
            // csub <s> <buffer size or -> <history request or ->
            if w.sub_labels.contains(&n(t[1])) { "dup".to_string() } else {
            if w.service.is_none() { return "no-service".to_string(); }
            let mut b = w.service.as_ref().unwrap().subscriber_builder();
            if t[2] != "-" { b = b.buffer_size(n(t[2])); }
            if t[3] != "-" { b = b.history_request(n(t[3])); }
            match b.create() {
                Ok(s) => { w.subs.insert(n(t[1]), s); w.sub_labels.insert(n(t[1])); w.samples.insert(n(t[1]), vec![]); "ok".to_string() }
                Err(e) => format!("err:{e:?}"),
            }
            }
        }
        "dsub" => match w.subs.remove(&n(t[1])) { Some(s) => { drop(s); "ok".into() } None => "none".into() },
        "loans" | "loan" => match w.pubs.get(&n(t[1])) {
            Some(_) if w.loans.contains_key(&(n(t[1]), n(t[2]))) => "dup".into(),
            Some(p) => match p.loan_slice_uninit(if t.len() > 3 { n(t[3]).max(1) } else { 1 }) {
                Ok(s) => { w.loans.insert((n(t[1]), n(t[2])), s); "ok".into() }
                Err(e) => format!("err:{e:?}"),
            },
            None => "none".into(),
        },
        "send" => match w.loans.remove(&(n(t[1]), n(t[2]))) {
            // send <p> <l> <tag>
            Some(s) => {
                let tag = t[3].parse::<u64>().unwrap();
                let len = s.payload().len();
                let s = s.write_from_fn(|i| if i == 0 { tag } else { tag.wrapping_mul(1000).wrapping_add(i as u64 + len as u64) });
                match s.send() { Ok(k) => format!("ok:{k}"), Err(e) => format!("err:{e:?}") }
            }
            None => "none".into(),
        },
        "probe" => match w.pubs.get(&n(t[1])) {
            // loan until refused, report how many loans succeeded and why the next one failed, give all back
            Some(p) => {
                let mut v = vec![];
                let e = loop {
                    match p.loan_slice_uninit(1) { Ok(s) => v.push(s), Err(e) => break format!("{e:?}") }
                    if v.len() > 1000 { break "unbounded".to_string() }
                };
                let k = v.len();
                for s in v.drain(..) { drop(s); }
                format!("{k}:{e}")
            }
            None => "none".into(),
        },
        // C17: the node handle / the service handle are dropped while everything else lives on
        "dnode" => match w.node.take() { Some(n) => { drop(n); "ok".into() } None => "none".into() },
        "dsvc" => match w.service.take() { Some(n) => { drop(n); "ok".into() } None => "none".into() },
        "ls" => list_resources(&w.prefix, &w.node_dir),
        "dloan" => match w.loans.remove(&(n(t[1]), n(t[2]))) { Some(s) => { drop(s); "ok".into() } None => "none".into() },
        "recv" => match w.subs.get(&n(t[1])) {
            Some(s) => match s.receive() {
                Ok(Some(sample)) => {
                    let tag = sample.payload()[0];
                    let len = sample.payload().len();
                    for (i, x) in sample.payload().iter().enumerate().skip(1) {
                        if *x != tag.wrapping_mul(1000).wrapping_add(i as u64 + len as u64) { oracle_fail("slice payload pattern broken at receive".to_string()); break; }
                    }
                    let origin = w.pub_ids.get(&sample.origin().value()).map(|p| p.to_string()).unwrap_or("?".into());
                    w.samples.get_mut(&n(t[1])).unwrap().push((sample, tag));
                    format!("some:{origin}:{tag}")
                }
                Ok(None) => "none".into(),
                Err(e) => format!("err:{e:?}"),
            },
            None => "none".into(),
        },
        "dsample" => match w.samples.get_mut(&n(t[1])) {
            Some(v) if n(t[2]) < v.len() => { let s = v.remove(n(t[2])); drop(s); "ok".into() }
            _ => "none".into(),
        },
        "upd" => {
            if t[1] == "p" { match w.pubs.get(&n(t[2])) { Some(p) => format!("{}", match p.update_connections() { Ok(()) => "ok".to_string(), Err(e) => format!("err:{e:?}") }), None => "none".into() } }
            else { match w.subs.get(&n(t[2])) { Some(s) => format!("{}", match s.update_connections() { Ok(()) => "ok".to_string(), Err(e) => format!("err:{e:?}") }), None => "none".into() } }
        }
        "has" => match w.subs.get(&n(t[1])) { Some(s) => match s.has_samples() { Ok(b) => format!("{b}"), Err(e) => format!("err:{e:?}") }, None => "none".into() },
        _ => panic!("bad op"),
    };
    // canary: everything a subscriber still holds must be unchanged
    // the documented borrow limit is per subscriber
    for (sl, v) in w.samples.iter() {
        if w.subs.contains_key(sl) && v.len() > w.max_borrow {
            oracle_fail("subscriber holds more samples than max borrowed samples".to_string());
        }
    }
    for (sl, v) in w.samples.iter() {
        for (s, tag) in v {
            let len = s.payload().len();
            let intact = s.payload()[0] == *tag && s.payload().iter().enumerate().skip(1).all(|(i, x)| *x == tag.wrapping_mul(1000).wrapping_add(i as u64 + len as u64));
            if !intact {
                let whose = if w.subs.contains_key(sl) { "live" } else { "dropped" };
                oracle_fail(format!("held sample of {whose} subscriber changed"));
            }
        }
    }
    r
}

fn exec_fb<S: Service + 'static>(w: &mut FbWorld<S>, t: &[&str]) -> String {
    let r = match t[0] {
        "cpub" => {
            // cpub <p> <max_loans>
            if w.pub_labels.contains(&n(t[1])) { "dup".to_string() } else {
            if w.service.is_none() { return "no-service".to_string(); }
            match w.service.as_ref().unwrap().publisher_builder().max_loaned_samples(n(t[2])).backpressure_strategy(BackpressureStrategy::DiscardData).initial_reserved_memory(FB_INITIAL_RESERVE).allocation_strategy(iceoryx2_bb_elementary::allocation_strategy::AllocationStrategy::PowerOfTwo).create() {
                Ok(p) => {
                    w.pub_ids.insert(p.id().value(), n(t[1]));
                    w.pub_labels.insert(n(t[1]));
                    w.pubs.insert(n(t[1]), p);
                    "ok".to_string()
                }
                Err(e) => format!("err:{e:?}"),
            }
            }
        }
        "dpub" => match w.pubs.remove(&n(t[1])) { Some(p) => { drop(p); "ok".into() } None => "none".into() },
        "csub" => {
            // csub <s> <buffer size or -> <history request or ->
            if w.sub_labels.contains(&n(t[1])) { "dup".to_string() } else {
            if w.service.is_none() { return "no-service".to_string(); }
            let mut b = w.service.as_ref().unwrap().subscriber_builder();
            if t[2] != "-" { b = b.buffer_size(n(t[2])); }
            if t[3] != "-" { b = b.history_request(n(t[3])); }
            match b.create() {
                Ok(s) => { w.subs.insert(n(t[1]), s); w.sub_labels.insert(n(t[1])); w.samples.insert(n(t[1]), vec![]); "ok".to_string() }
                Err(e) => format!("err:{e:?}"),
            }
            }
        }
        "dsub" => match w.subs.remove(&n(t[1])) { Some(s) => { drop(s); "ok".into() } None => "none".into() },
        "loanf" | "loan" => match w.pubs.get(&n(t[1])) {
            // loanf <p> <l> <n> [late]: loan, write the title (`L<l>:` + 8 bytes per entry) and (unless late) the entries
            Some(_) if w.loans.contains_key(&(n(t[1]), n(t[2]))) => "dup".into(),
            Some(p) => match p.loan_flatbuffer() {
                Ok(mut s) => {
                    let mut k = if t.len() > 3 { n(t[3]).max(1) } else { 1 };
                    let late = t.len() > 4 && t[4] == "late";
                    // `fit`: this loan must not grow (see `generate`): not more entries than the publisher's chunks hold already
                    let fit = t.len() > 4 && t[4] == "fit";
                    let kmax = w.kmax.entry(n(t[1])).or_insert(0);
                    if fit { k = k.min((*kmax).max(1)); w.stat.fit += 1; }
                    *kmax = (*kmax).max(k);
                    let before = fb_place(&mut s);
                    let title = s.flatbuffer_builder().create_string(&format!("L{:06}:{}", n(t[2]), "x".repeat(k * FB_TITLE_PAD)));
                    if late {
                        let after = fb_place(&mut s);
                        w.stat.loanf[fb_class(before, after)] += 1;
                        w.stat.max_capacity = w.stat.max_capacity.max(after.1);
                        w.loans.insert((n(t[1]), n(t[2])), FbLoan::Late { s, title, k });
                        "ok".into()
                    } else {
                        // placeholder tag, replaced by `send`
                        let root = fb_fill(&mut s, title, k, 0xFB00_0000_0000_0000 + n(t[2]) as u64);
                        let mid = fb_place(&mut s);
                        let s = s.assume_init(root);
                        // `finish` may grow once more: the final place of the payload area is taken from the finished sample
                        let base = s.payload_bytes().as_ptr() as usize - s.header().payload_offset() as usize;
                        w.stat.loanf[fb_class(before, (base, mid.1))] += 1;
                        if fit && fb_class(before, (base, mid.1)) != 0 { eprintln!("# fb: a `fit` loan grew ({})", t.join(" ")); }
                        w.stat.max_capacity = w.stat.max_capacity.max(mid.1);
                        match fb_tag_positions(s.payload_bytes()) {
                            Some(tag_positions) => { w.loans.insert((n(t[1]), n(t[2])), FbLoan::Ready { s, tag_positions }); "ok".into() }
                            None => { oracle_fail("flatbuffer built in a loan is not valid".to_string()); "ok".into() }
                        }
                    }
                }
                Err(e) => format!("err:{e:?}"),
            },
            None => "none".into(),
        },
        "send" => match w.loans.remove(&(n(t[1]), n(t[2]))) {
            // send <p> <l> <tag>
            Some(FbLoan::Ready { s, tag_positions }) => {
                let tag = t[3].parse::<u64>().unwrap();
                let (ptr, len) = { let b = s.payload_bytes(); (b.as_ptr() as *mut u8, b.len()) };
                for pos in tag_positions {
                    assert!(pos + 8 <= len);
                    // the loaned memory belongs to this sample alone
                    unsafe { std::ptr::copy_nonoverlapping(tag.to_le_bytes().as_ptr(), ptr.add(pos), 8) };
                }
                match s.send() { Ok(k) => format!("ok:{k}"), Err(e) => format!("err:{e:?}") }
            }
            Some(FbLoan::Late { mut s, title, k }) => {
                let tag = t[3].parse::<u64>().unwrap();
                let before = fb_place(&mut s);
                let root = fb_fill(&mut s, title, k, tag);
                let mid = fb_place(&mut s);
                let s = s.assume_init(root);
                let base = s.payload_bytes().as_ptr() as usize - s.header().payload_offset() as usize;
                w.stat.send[fb_class(before, (base, mid.1))] += 1;
                w.stat.max_capacity = w.stat.max_capacity.max(mid.1);
                match s.send() { Ok(k) => format!("ok:{k}"), Err(e) => format!("err:{e:?}") }
            }
            None => "none".into(),
        },
        "probe" => match w.pubs.get(&n(t[1])) {
            // loan until refused, report how many loans succeeded and why the next one failed, give all back
            Some(p) => {
                let mut v = vec![];
                let e = loop {
                    match p.loan_flatbuffer() { Ok(s) => v.push(s), Err(e) => break format!("{e:?}") }
                    if v.len() > 1000 { break "unbounded".to_string() }
                };
                let k = v.len();
                for s in v.drain(..) { drop(s); }
                format!("{k}:{e}")
            }
            None => "none".into(),
        },
        // C17: the node handle / the service handle are dropped while everything else lives on
        "dnode" => match w.node.take() { Some(n) => { drop(n); "ok".into() } None => "none".into() },
        "dsvc" => match w.service.take() { Some(n) => { drop(n); "ok".into() } None => "none".into() },
        "ls" => list_resources(&w.prefix, &w.node_dir),
        "dloan" => match w.loans.remove(&(n(t[1]), n(t[2]))) { Some(s) => { drop(s); "ok".into() } None => "none".into() },
        "recv" => match w.subs.get(&n(t[1])) {
            Some(s) => match s.receive() {
                Ok(Some(sample)) => {
                    let origin = w.pub_ids.get(&sample.origin().value()).map(|p| p.to_string()).unwrap_or("?".into());
                    let (snap, shown) = match fb_read(&sample) {
                        Some((po, ne, bytes)) => {
                            let tag = fb_decode(bytes);
                            (FbSnap { tag: tag.unwrap_or(u64::MAX), payload_offset: po, number_of_elements: ne, bytes: bytes.to_vec() },
                             tag.map(|x| x.to_string()).unwrap_or("corrupt".into()))
                        }
                        None => (FbSnap { tag: u64::MAX, payload_offset: sample.header().payload_offset(), number_of_elements: sample.header().number_of_elements(), bytes: vec![] }, "corrupt".into()),
                    };
                    w.samples.get_mut(&n(t[1])).unwrap().push((sample, snap));
                    format!("some:{origin}:{shown}")
                }
                Ok(None) => "none".into(),
                Err(e) => format!("err:{e:?}"),
            },
            None => "none".into(),
        },
        "dsample" => match w.samples.get_mut(&n(t[1])) {
            Some(v) if n(t[2]) < v.len() => { let s = v.remove(n(t[2])); drop(s); "ok".into() }
            _ => "none".into(),
        },
        "upd" => {
            if t[1] == "p" { match w.pubs.get(&n(t[2])) { Some(p) => format!("{}", match p.update_connections() { Ok(()) => "ok".to_string(), Err(e) => format!("err:{e:?}") }), None => "none".into() } }
            else { match w.subs.get(&n(t[2])) { Some(s) => format!("{}", match s.update_connections() { Ok(()) => "ok".to_string(), Err(e) => format!("err:{e:?}") }), None => "none".into() } }
        }
        "has" => match w.subs.get(&n(t[1])) { Some(s) => match s.has_samples() { Ok(b) => format!("{b}"), Err(e) => format!("err:{e:?}") }, None => "none".into() },
        _ => panic!("bad op"),
    };
    // canary: everything a subscriber still holds must be unchanged
    // the documented borrow limit is per subscriber
    for (sl, v) in w.samples.iter() {
        if w.subs.contains_key(sl) && v.len() > w.max_borrow {
            oracle_fail("subscriber holds more samples than max borrowed samples".to_string());
        }
    }
    for (sl, v) in w.samples.iter() {
        for (s, snap) in v {
            let intact = match fb_read(s) {
                Some((po, ne, bytes)) => po == snap.payload_offset && ne == snap.number_of_elements && (snap.bytes.is_empty() || bytes == &snap.bytes[..]),
                None => snap.bytes.is_empty() && s.header().payload_offset() == snap.payload_offset && s.header().number_of_elements() == snap.number_of_elements,
            };
            if !intact {
                let whose = if w.subs.contains_key(sl) { "live" } else { "dropped" };
                oracle_fail(format!("held sample of {whose} subscriber changed"));
            }
        }
    }
    r
}

/// what exists of this case in the file system / shared memory namespace, by kind (ipc variant)
fn list_resources(prefix: &str, node_dir: &str) -> String {
    list_resources_multi(prefix, node_dir, &[])
}

fn list_resources_multi(prefix: &str, node_dir: &str, more: &[String]) -> String {
    let mut counts: std::collections::BTreeMap<String, usize> = Default::default();
    let mut scan = |dir: &str| {
        if let Ok(rd) = std::fs::read_dir(dir) {
            for e in rd.flatten() {
                let n = e.file_name().to_string_lossy().to_string();
                if n.starts_with(prefix) {
                    let kind = n.rsplit('.').next().unwrap_or("?").to_string();
                    *counts.entry(kind).or_insert(0) += 1;
                }
            }
        }
    };
    scan("/dev/shm");
    scan("/tmp/iceoryx2/nodes");
    scan("/tmp/iceoryx2/services");
    let mut dirs = 0;
    for d in std::iter::once(node_dir).chain(more.iter().map(|x| x.as_str())) {
        scan(&format!("/tmp/iceoryx2/nodes/{d}"));
        if std::path::Path::new(&format!("/tmp/iceoryx2/nodes/{d}")).exists() { dirs += 1; }
    }
    if dirs > 0 { counts.insert("nodedir".into(), dirs); }
    counts.remove("global_mgmt"); // the domain-wide management segment persists by design
    let v: Vec<String> = counts.iter().map(|(k, c)| format!("{k}={c}")).collect();
    if v.is_empty() { "-".into() } else { v.join(",") }
}

impl Comp for PubSubComp {
    fn exec(&mut self, t: &[&str]) -> String {
        if fb_debug() {
            // show the panic message (the global hook is silent)
            let r = std::panic::catch_unwind(std::panic::AssertUnwindSafe(|| self.exec_inner(t)));
            return match r {
                Ok(s) => s,
                Err(e) => {
                    let m = e.downcast_ref::<String>().cloned().or_else(|| e.downcast_ref::<&str>().map(|x| x.to_string())).unwrap_or("?".into());
                    eprintln!("# panic in `{}`: {m}", t.join(" "));
                    std::panic::resume_unwind(e)
                }
            };
        }
        self.exec_inner(t)
    }
}
impl PubSubComp {
    fn exec_inner(&mut self, t: &[&str]) -> String {
        if t[0] == "new" {
            self.w = AnyWorld::None;
            return match t[1] {
                "local-fb" => match mk_fb::<local::Service>(t) { Ok(w) => { self.w = AnyWorld::LocalFb(Box::new(w)); "ok".into() } Err(e) => e },
                "ipc-fb" => match mk_fb::<ipc::Service>(t) { Ok(w) => { self.w = AnyWorld::IpcFb(Box::new(w)); "ok".into() } Err(e) => e },
                "local-slice" => match mk_slice::<local::Service>(t) { Ok(w) => { self.w = AnyWorld::LocalSlice(Box::new(w)); "ok".into() } Err(e) => e },
                "ipc-slice" => match mk_slice::<ipc::Service>(t) { Ok(w) => { self.w = AnyWorld::IpcSlice(Box::new(w)); "ok".into() } Err(e) => e },
                "local" => match mk::<local::Service>(t) { Ok(w) => { self.w = AnyWorld::Local(Box::new(w)); "ok".into() } Err(e) => e },
                _ => match mk::<ipc::Service>(t) { Ok(w) => { self.w = AnyWorld::Ipc(Box::new(w)); "ok".into() } Err(e) => e },
            };
        }
        match &mut self.w {
            AnyWorld::None => "no-world".into(),
            AnyWorld::LocalFb(w) => exec_fb(w, t),
            AnyWorld::IpcFb(w) => exec_fb(w, t),
            AnyWorld::LocalSlice(w) => exec_slice(w, t),
            AnyWorld::IpcSlice(w) => exec_slice(w, t),
            AnyWorld::Local(w) => exec(w, t),
            AnyWorld::Ipc(w) => exec(w, t),
        }
    }
}

pub fn generate(a: &Args) -> Vec<Vec<String>> {
    if a.rest.iter().any(|x| x == "child") { child_main(); }
    if a.rest.iter().any(|x| x == "death") { return death_cases(a); }
    let mut rng = Rng::new(a.seed);
    let mut cases = vec![];
    let variant = a.rest.iter().find(|x| *x == "ipc").map(|_| "ipc").unwrap_or("local");
    let sat = a.rest.iter().any(|x| x == "sat");
    if a.rest.iter().any(|x| x == "slice") && a.exhaustive == 0 && !a.rest.iter().any(|x| x == "shutdown") {
        // slice payloads on a dynamically growing data segment: the same histories, every loan with a length;
        // lengths mostly grow so that the data segment is reallocated while samples are held
        let mut a2 = Args { mode: a.mode.clone(), seed: a.seed, cases: a.cases, len: a.len, exhaustive: 0, rest: a.rest.iter().filter(|x| *x != "slice").cloned().collect() };
        a2.seed = a.seed ^ 0x51;
        let mut rng = Rng::new(a.seed ^ 0x511ce);
        let mut cases = generate(&a2);
        for c in cases.iter_mut() {
            // a publisher with a dynamic segment that goes away takes its not yet mapped segments with it: the
            // receiver then reports a lost chunk (documented limitation, outside the model) — publishers stay
            c.retain(|l| !l.starts_with("dpub "));
            let mut cur = 1u64;
            for l in c.iter_mut() {
                if l.starts_with("new ") {
                    let t: Vec<&str> = l.split(' ').collect();
                    *l = format!("new {}-slice {}", t[1], t[2..].join(" "));
                    cur = 1;
                } else if l.starts_with("loan ") {
                    if rng.chance(35) { cur = (cur * 2).min(64); }
                    let len = if rng.chance(70) { cur } else { rng.range(1, cur) };
                    *l = format!("loans {} {len}", &l[5..]);
                }
            }
        }
        return cases;
    }
    if a.rest.iter().any(|x| x == "fb") && a.exhaustive == 0 && !a.rest.iter().any(|x| x == "shutdown") {
        // flatbuffer payloads (dynamic data segment, PowerOfTwo, initial reserved memory = one entry): the same histories, every loan
        // with a number of entries; the builder outgrows its chunk while the sample is loaned (Sender::grow), numbers
        // mostly grow so that the loan is relocated into a new segment while other samples are loaned / in flight / held
        let mut a2 = Args { mode: a.mode.clone(), seed: a.seed ^ 0xfb, cases: a.cases, len: a.len, exhaustive: 0, rest: a.rest.iter().filter(|x| *x != "fb").cloned().collect() };
        // experiments only — `late`: the entries are written by `send` (the loan grows a second time, possibly after the
        // publisher moved on to a newer segment); `keep-dpub`: publishers are dropped as in the base histories; `overtake`:
        // no `fit` marks (below)
        a2.rest.retain(|x| x != "keep-dpub" && x != "late" && x != "overtake");
        let keep_dpub = a.rest.iter().any(|x| x == "keep-dpub");
        let late = a.rest.iter().any(|x| x == "late");
        let overtake = a.rest.iter().any(|x| x == "overtake");
        let mut rng = Rng::new(a.seed ^ 0xf1a7b);
        let mut cases = generate(&a2);
        for c in cases.iter_mut() {
            // a publisher with a dynamic segment that goes away takes its not yet mapped segments with it: the receiver
            // then reports a lost chunk (documented limitation, outside the model; observed here as in slice mode)
            if !keep_dpub { c.retain(|l| !l.starts_with("dpub ")); }
            let mut cur = 1u64;
            for i in 0..c.len() {
                let l = c[i].clone();
                if l.starts_with("new ") {
                    let t: Vec<&str> = l.split(' ').collect();
                    c[i] = format!("new {}-fb {}", t[1], t[2..].join(" "));
                    cur = 1;
                } else if l.starts_with("loan ") {
                    if rng.chance(35) { cur = (cur * 2).min(64); }
                    let k = if rng.chance(70) { cur } else { rng.range(1, cur) };
                    // a loan that is still open when a LATER loan of the same publisher is sent must not grow (`fit`): a grown
                    // sample reports a chunk size that is larger (by the header length) than that of the other samples of its
                    // segment; sent after one of those it breaks the per-segment chunk index of the connection (finding F3
                    // at `FbLoan`) — sends in loan order are safe, a grown loan is always the first chunk of a new segment
                    let t: Vec<&str> = l.split(' ').collect();
                    let (p, id) = (t[1], t[2].parse::<usize>().unwrap());
                    let mut overtaken = false;
                    for m in c[i + 1..].iter() {
                        let u: Vec<&str> = m.split(' ').collect();
                        if (u[0] == "send" || u[0] == "dloan") && u[1] == p && u[2] == t[2] { break; }
                        if u[0] == "send" && u[1] == p && u[2].parse::<usize>().map(|x| x > id).unwrap_or(false) { overtaken = true; break; }
                    }
                    let mark = if late { " late" } else if overtaken && !overtake { " fit" } else { "" };
                    c[i] = format!("loanf {} {k}{mark}", &l[5..]);
                }
            }
        }
        return cases;
    }
    if a.rest.iter().any(|x| x == "bph") && a.exhaustive == 0 {
        // publishers with a backpressure handler that answers DiscardDataAndFail: a send that finds the buffer of a connected
        // subscriber full (no safe overflow) skips that subscriber, delivers to the others and returns UnableToDeliver
        let mut a2 = Args { mode: a.mode.clone(), seed: a.seed ^ 0x0b9, cases: a.cases, len: a.len, exhaustive: 0, rest: a.rest.iter().filter(|x| *x != "bph").cloned().collect() };
        if !a2.rest.iter().any(|x| x == "sat") { a2.rest.push("sat".into()); }
        let mut cases = generate(&a2);
        for c in cases.iter_mut() {
            if let Some(i) = c.iter().position(|l| l.starts_with("new ")) { c.insert(i + 1, "bph".into()); }
        }
        return cases;
    }
    if a.rest.iter().any(|x| x == "oom") && a.exhaustive == 0 {
        // publishers with fewer chunks than the worst case (`override_sample_preallocation`): loans may fail for lack of
        // memory, which must not change anything else (loan counter, reference counts)
        let mut a2 = Args { mode: a.mode.clone(), seed: a.seed ^ 0x00e, cases: a.cases, len: a.len, exhaustive: 0, rest: a.rest.iter().filter(|x| *x != "oom").cloned().collect() };
        if !a2.rest.iter().any(|x| x == "sat") { a2.rest.push("sat".into()); }
        let mut rng = Rng::new(a.seed ^ 0x00e5);
        let mut cases = generate(&a2);
        for c in cases.iter_mut() {
            for l in c.iter_mut() {
                if l.starts_with("new ") {
                    let pre = if rng.chance(15) { 0 } else { rng.range(1, 5) };
                    *l = format!("{l} {pre}");
                }
            }
        }
        return cases;
    }
    fn lo(rng: &mut Rng) -> u64 { if rng.chance(10) { 0 } else { 1 } }
    if a.rest.iter().any(|x| x == "shutdown") {
        return shutdown_cases(a, variant);
    }
    if a.exhaustive > 0 {
        return exhaustive(a, variant);
    }
    for _ in 0..a.cases {
        // limits 0..3 (0 is clamped to 1 by the builders); `sat`: small limits so that saturation is reached
        let hi = if sat { 2 } else { 3 };
        let l1 = lo(&mut rng); let l2 = lo(&mut rng);
        let (mp, ms) = (rng.range(l1, 3), rng.range(l2, 3));
        let l3 = lo(&mut rng); let b = rng.range(l3, hi);
        let h = rng.range(0, hi);
        let l4 = lo(&mut rng); let r = rng.range(l4, hi);
        let ov = rng.below(2);
        let e = rng.range(1, 3);
        let mut lines = vec![format!("new {variant} {mp} {ms} {b} {h} {r} {ov} {e}")];
        let mut tag = 0u64;
        let mut next_loan = 0usize;
        let mut loans: Vec<(usize, usize)> = vec![];
        // mostly valid histories: keep track of what probably exists
        let (mut pubs, mut subs): (Vec<usize>, Vec<usize>) = (vec![], vec![]);
        let (mut np, mut ns) = (0usize, 0usize);
        let mut held: HashMap<usize, usize> = HashMap::new();
        // weights: create pub, create sub, drop pub, drop sub, loan(+send), finish loan, recv, drop sample, update, probe, has
        let wts: [u64; 11] = if sat { [4, 4, 1, 1, 36, 6, 26, 12, 2, 6, 2] } else { [10, 10, 4, 4, 27, 5, 22, 10, 2, 3, 3] };
        let total: u64 = wts.iter().sum();
        for _ in 0..rng.range(3, a.len) {
            let mut c = rng.below(total);
            let mut k = 0;
            while c >= wts[k] { c -= wts[k]; k += 1; }
            if pubs.is_empty() && rng.chance(40) { k = 0 }
            if subs.is_empty() && rng.chance(40) { k = 1 }
            let l = match k {
                0 => {
                    let p = np; np += 1; pubs.push(p);
                    { let l5 = lo(&mut rng); format!("cpub {p} {}", rng.range(l5, hi)) }
                }
                1 => {
                    let s = ns; ns += 1; subs.push(s); held.insert(s, 0);
                    let bs = if rng.chance(50) { "-".to_string() } else { rng.range(0, b + 1).to_string() };
                    let hr = if rng.chance(50) { "-".to_string() } else { rng.range(0, h + 1).to_string() };
                    format!("csub {s} {bs} {hr}")
                }
                2 if !pubs.is_empty() => {
                    let i = rng.below(pubs.len() as u64) as usize; let p = pubs.remove(i);
                    format!("dpub {p}")
                }
                3 if !subs.is_empty() => {
                    let i = rng.below(subs.len() as u64) as usize; let s = subs.remove(i);
                    format!("dsub {s}")
                }
                4 if !pubs.is_empty() => {
                    // loan + send in one go most of the time
                    let p = *rng.pick(&pubs);
                    let l = next_loan; next_loan += 1;
                    lines.push(format!("loan {p} {l}"));
                    if rng.chance(if sat { 70 } else { 85 }) { tag += 1; format!("send {p} {l} {tag}") } else { loans.push((p, l)); continue }
                }
                5 if !loans.is_empty() => {
                    let i = rng.below(loans.len() as u64) as usize; let (p, l) = loans.remove(i);
                    if rng.chance(50) { tag += 1; format!("send {p} {l} {tag}") } else { format!("dloan {p} {l}") }
                }
                6 if !subs.is_empty() => {
                    let s = *rng.pick(&subs);
                    *held.get_mut(&s).unwrap() += 1;
                    format!("recv {s}")
                }
                7 if !held.is_empty() => {
                    // also samples of subscribers that were dropped already
                    let ks: Vec<usize> = { let mut v: Vec<usize> = held.keys().cloned().collect(); v.sort(); v };
                    let s = *rng.pick(&ks);
                    let k = rng.below(*held.get(&s).unwrap() as u64 + 1);
                    format!("dsample {s} {k}")
                }
                8 => {
                    if rng.chance(50) && !pubs.is_empty() { format!("upd p {}", rng.pick(&pubs)) } else if !subs.is_empty() { format!("upd s {}", rng.pick(&subs)) } else { continue }
                }
                9 if !pubs.is_empty() => format!("probe {}", rng.pick(&pubs)),
                10 if !subs.is_empty() => format!("has {}", rng.pick(&subs)),
                _ => continue,
            };
            lines.push(l);
        }
        cases.push(lines);
    }
    cases
}

/// C04, API-call level: node A (node 1, a process of its own) and node B (node 0, this process) share the service, traffic in
/// both directions (held samples, unsent loans, history, full buffers); A is killed between two calls; sometimes B goes on
/// for a few calls while A's remains are still there; B (or a third node C opened for the purpose) runs the dead-node
/// cleanup; B continues: traffic, new ports that take the freed registry slots, `probe` of every publisher of B (a leaked
/// chunk shows as a probe that ends early), `ls` (nothing of A may be left).
/// Shapes: random; "dead subscriber with two or more live publishers"; "dead publisher with two or more live subscribers
/// holding its samples".
fn death_cases(a: &Args) -> Vec<Vec<String>> {
    let mut rng = Rng::new(a.seed ^ 0xdea7);
    let mut cases = vec![];
    for _ in 0..a.cases {
        let shape = match rng.below(10) { 0 | 1 => 1, 2 | 3 => 2, _ => 0 };
        let (mp, ms) = (rng.range(2, 4), rng.range(2, 4));
        let b = rng.range(1, 3);
        let h = rng.range(0, 2);
        let r = rng.range(1, 3);
        let ov = if h > b { 1 } else { rng.below(2) };
        let e = rng.range(1, 3);
        let mut lines = vec![format!("new ipc {mp} {ms} {b} {h} {r} {ov} {e}"), "spawn 1".to_string()];
        let mut third = false;
        if rng.chance(25) { lines.push("open 2".into()); third = true; }
        struct St { tag: u64, next_loan: usize, np: usize, ns: usize,
                    pubs: Vec<(usize, usize)>, subs: Vec<(usize, usize)>, loans: Vec<(usize, usize)>, held: HashMap<usize, usize>, sub_was_dead: Vec<usize>, owner: HashMap<usize, usize>, sub_owner: HashMap<usize, usize> }
        let mut st = St { tag: 0, next_loan: 0, np: 0, ns: 0, pubs: vec![], subs: vec![], loans: vec![], held: HashMap::new(), sub_was_dead: vec![], owner: HashMap::new(), sub_owner: HashMap::new() };
        fn cpub(st: &mut St, rng: &mut Rng, lines: &mut Vec<String>, k: usize) { let p = st.np; st.np += 1; st.pubs.push((p, k)); st.owner.insert(p, k); lines.push(format!("cpub {p} {}{}", rng.range(1, 3), if k == 0 { String::new() } else { format!(" @{k}") })); }
        fn csub(st: &mut St, rng: &mut Rng, lines: &mut Vec<String>, k: usize) { let s = st.ns; st.ns += 1; st.subs.push((s, k)); st.sub_owner.insert(s, k); st.held.insert(s, 0); let _ = rng; lines.push(format!("csub {s} - -{}", if k == 0 { String::new() } else { format!(" @{k}") })); }
        fn send(st: &mut St, lines: &mut Vec<String>, p: usize) { let l = st.next_loan; st.next_loan += 1; st.tag += 1; lines.push(format!("loan {p} {l}")); lines.push(format!("send {p} {l} {}", st.tag)); }
        // traffic among the ports of the nodes in `who`
        fn traffic(st: &mut St, rng: &mut Rng, lines: &mut Vec<String>, who: &[usize], steps: u64, create: bool) {
            for _ in 0..steps {
                let pubs: Vec<usize> = st.pubs.iter().filter(|x| who.contains(&x.1)).map(|x| x.0).collect();
                let subs: Vec<usize> = st.subs.iter().filter(|x| who.contains(&x.1)).map(|x| x.0).collect();
                let k = *rng.pick(who);
                match rng.below(100) {
                    0..=5 if create => cpub(st, rng, lines, k),
                    6..=11 if create => csub(st, rng, lines, k),
                    12..=13 if !pubs.is_empty() => { let p = *rng.pick(&pubs); st.pubs.retain(|x| x.0 != p); lines.push(format!("dpub {p}")); }
                    14..=15 if !subs.is_empty() => { let s = *rng.pick(&subs); st.subs.retain(|x| x.0 != s); lines.push(format!("dsub {s}")); }
                    16..=50 if !pubs.is_empty() => { let p = *rng.pick(&pubs); send(st, lines, p); }
                    51..=56 if !pubs.is_empty() => { let p = *rng.pick(&pubs); let l = st.next_loan; st.next_loan += 1; st.loans.push((p, l)); lines.push(format!("loan {p} {l}")); }
                    57..=60 => {
                        let mine: Vec<(usize, usize)> = st.loans.iter().cloned().filter(|x| pubs.contains(&x.0)).collect();
                        if mine.is_empty() { continue }
                        let (p, l) = *rng.pick(&mine); st.loans.retain(|x| *x != (p, l));
                        if rng.chance(50) { st.tag += 1; lines.push(format!("send {p} {l} {}", st.tag)); } else { lines.push(format!("dloan {p} {l}")); }
                    }
                    61..=82 if !subs.is_empty() => { let s = *rng.pick(&subs); *st.held.get_mut(&s).unwrap() += 1; lines.push(format!("recv {s}")); }
                    83..=90 if !subs.is_empty() => { let s = *rng.pick(&subs); let n = *st.held.get(&s).unwrap(); lines.push(format!("dsample {s} {}", rng.below(n as u64 + 1))); }
                    91..=93 => { if rng.chance(50) && !pubs.is_empty() { lines.push(format!("upd p {}", rng.pick(&pubs))); } else if !subs.is_empty() { lines.push(format!("upd s {}", rng.pick(&subs))); } }
                    94..=96 if !pubs.is_empty() => lines.push(format!("probe {}", rng.pick(&pubs))),
                    97..=99 if !subs.is_empty() => lines.push(format!("has {}", rng.pick(&subs))),
                    _ => {}
                }
            }
        }
        match shape {
            1 => {
                // dead subscriber with two or more live publishers: it holds samples of each and has more queued
                let npub = rng.range(2, mp);
                for _ in 0..npub { cpub(&mut st, &mut rng, &mut lines, 0); }
                csub(&mut st, &mut rng, &mut lines, 1);
                if rng.chance(50) { csub(&mut st, &mut rng, &mut lines, 0); }
                let s = st.subs[0].0;
                for _ in 0..rng.range(1, 3) { let ps: Vec<usize> = st.pubs.iter().map(|x| x.0).collect(); for p in ps { send(&mut st, &mut lines, p); } }
                for _ in 0..rng.range(0, 3) { *st.held.get_mut(&s).unwrap() += 1; lines.push(format!("recv {s}")); }
                { let steps = rng.range(0, 8); traffic(&mut st, &mut rng, &mut lines, &[0, 1], steps, false); }
            }
            2 => {
                // dead publisher with two or more live subscribers that hold its samples (and have more queued); an unsent loan
                let nsub = rng.range(2, ms);
                for _ in 0..nsub { csub(&mut st, &mut rng, &mut lines, 0); }
                cpub(&mut st, &mut rng, &mut lines, 1);
                if rng.chance(50) { cpub(&mut st, &mut rng, &mut lines, 0); }
                let p = st.pubs[0].0;
                for _ in 0..rng.range(1, 4) { send(&mut st, &mut lines, p); }
                let ss: Vec<usize> = st.subs.iter().map(|x| x.0).collect();
                for s in ss { if rng.chance(80) { *st.held.get_mut(&s).unwrap() += 1; lines.push(format!("recv {s}")); } }
                if rng.chance(50) { let l = st.next_loan; st.next_loan += 1; lines.push(format!("loan {p} {l}")); }
                { let steps = rng.range(0, 8); traffic(&mut st, &mut rng, &mut lines, &[0, 1], steps, false); }
            }
            _ => {
                // both nodes get ports, then traffic in both directions
                for k in [0usize, 1] { if rng.chance(85) { cpub(&mut st, &mut rng, &mut lines, k); } if rng.chance(85) { csub(&mut st, &mut rng, &mut lines, k); } }
                let steps = rng.range(5, a.len.max(6));
                traffic(&mut st, &mut rng, &mut lines, &[0, 1], steps, true);
            }
        }
        if rng.chance(30) { lines.push("ls".into()); }
        lines.push("kill 1".into());
        st.loans.retain(|x| st.owner.get(&x.0).cloned().unwrap_or(0) != 1);
        // B goes on while A's remains are still there
        if rng.chance(50) { let steps = rng.range(1, 8); traffic(&mut st, &mut rng, &mut lines, &[0], steps, true); }
        if rng.chance(10) { lines.push("ls".into()); }
        if !third && rng.chance(25) { lines.push("open 2".into()); third = true; }
        lines.push(format!("cleanup {}", if third && rng.chance(70) { 2 } else { 0 }));
        lines.push("ls".into());
        st.sub_was_dead = (0..st.ns).filter(|s| st.sub_owner.get(s).cloned().unwrap_or(0) == 1).collect();
        st.pubs.retain(|x| x.1 != 1); st.subs.retain(|x| x.1 != 1);
        // B continues: every publisher is probed for leaked chunks, new ports take the freed slots
        let ps: Vec<usize> = st.pubs.iter().map(|x| x.0).collect();
        for p in &ps { if rng.chance(60) { lines.push(format!("upd p {p}")); } lines.push(format!("probe {p}")); }
        let who: Vec<usize> = if third { vec![0, 2] } else { vec![0] };
        for _ in 0..rng.range(0, 2) { let k = *rng.pick(&who); cpub(&mut st, &mut rng, &mut lines, k); }
        for _ in 0..rng.range(0, 2) { let k = *rng.pick(&who); csub(&mut st, &mut rng, &mut lines, k); }
        let steps = rng.range(3, (a.len / 2).max(4));
        traffic(&mut st, &mut rng, &mut lines, &who, steps, true);
        let ps: Vec<usize> = st.pubs.iter().map(|x| x.0).collect();
        for p in &ps { lines.push(format!("probe {p}")); }
        lines.push("ls".into());
        // the survivors shut down in an orderly way (samples, loans, ports, then service and node handles): nothing at all may be left
        let mut hs: Vec<(usize, usize)> = st.held.iter().map(|(a, b)| (*a, *b)).collect(); hs.sort();
        for (s, c) in hs { if st.sub_was_dead.contains(&s) { continue } for _ in 0..c { lines.push(format!("dsample {s} 0")); } }
        for (p, l) in st.loans.clone() { lines.push(format!("dloan {p} {l}")); }
        for (s, _) in st.subs.clone() { lines.push(format!("dsub {s}")); }
        for (p, _) in st.pubs.clone() { lines.push(format!("dpub {p}")); }
        for k in who.iter().rev() { lines.push(format!("dsvc {k}")); lines.push(format!("dnode {k}")); }
        lines.push("ls".into());
        cases.push(lines);
    }
    cases
}

/// every sequence of length `exhaustive` over a fixed alphabet, for a few small configurations
fn exhaustive(a: &Args, variant: &str) -> Vec<Vec<String>> {
    let mut cases = vec![];
    // configurations: (maxpubs maxsubs B H R overflow E)
    let configs = ["2 2 1 1 1 1 1", "2 2 1 1 1 0 1", "1 1 2 2 1 1 1", "2 1 2 0 2 0 1"];
    let alphabet: Vec<String> = [
        "cpub", "csub", "dpub", "dsub", "send 0", "send 1", "recv 0", "recv 1", "dsample 0 0", "dsample 1 0", "loan 0", "probe 0",
    ].iter().map(|x| x.to_string()).collect();
    for cfg in configs {
        enumerate_seqs(&alphabet, a.exhaustive as usize, &mut |seq| {
            // prefix: one publisher and one subscriber exist and one sample is on its way, then the enumerated suffix
            let mut lines = vec![format!("new {variant} {cfg}"), "cpub 0 1".to_string(), "csub 0 - -".to_string(), "loan 0 1000".to_string(), "send 0 1000 1".to_string()];
            let (mut np, mut ns, mut nl, mut tag) = (1usize, 1usize, 0usize, 1u64);
            let (mut dp, mut ds) = (0usize, 0usize);
            for &i in seq {
                match alphabet[i].as_str() {
                    "cpub" => { lines.push(format!("cpub {np} 2")); np += 1; }
                    "csub" => { lines.push(format!("csub {ns} - -")); ns += 1; }
                    "dpub" => { lines.push(format!("dpub {dp}")); dp += 1; }
                    "dsub" => { lines.push(format!("dsub {ds}")); ds += 1; }
                    "send 0" | "send 1" => {
                        let p = if alphabet[i] == "send 0" { 0 } else { 1 };
                        tag += 1;
                        lines.push(format!("loan {p} {nl}")); lines.push(format!("send {p} {nl} {tag}")); nl += 1;
                    }
                    "loan 0" => { lines.push(format!("loan 0 {nl}")); nl += 1; }
                    x => lines.push(x.to_string()),
                }
            }
            cases.push(lines);
        });
    }
    cases
}

/// C17: build an object graph (node, service handle, publishers, subscribers, loans, received samples), then
/// drop every object in some order; `ls` after every drop, survivors are exercised in between.
/// `--exhaustive 1`: every permutation of the drop order of a fixed graph of 6 objects (720) per configuration;
/// otherwise random graphs and random orders.
fn shutdown_cases(a: &Args, variant: &str) -> Vec<Vec<String>> {
    let mut cases = vec![];
    let mut rng = Rng::new(a.seed ^ 0x17);
    let exercise = |lines: &mut Vec<String>, alive: &[String], rng: &mut Rng, nl: &mut usize, tag: &mut u64| {
        // survivors keep working: a live publisher can loan and send, a live subscriber can receive
        for o in alive {
            let t: Vec<&str> = o.split(' ').collect();
            if t[0] == "dpub" && rng.chance(50) {
                lines.push(format!("loan {} {}", t[1], *nl));
                *tag += 1;
                lines.push(format!("send {} {} {}", t[1], *nl, *tag));
                *nl += 1;
            }
            if t[0] == "dsub" && rng.chance(50) {
                lines.push(format!("has {}", t[1]));
            }
        }
    };
    if a.exhaustive > 0 {
        let objs = ["dnode", "dsvc", "dpub 0", "dsub 0", "dloan 0 100", "dsample 0 0"];
        let mut perm: Vec<usize> = (0..objs.len()).collect();
        let mut perms = vec![];
        fn heap(k: usize, p: &mut Vec<usize>, out: &mut Vec<Vec<usize>>) {
            if k == 1 { out.push(p.clone()); return; }
            heap(k - 1, p, out);
            for i in 0..k - 1 {
                if k % 2 == 0 { p.swap(i, k - 1) } else { p.swap(0, k - 1) }
                heap(k - 1, p, out);
            }
        }
        heap(objs.len(), &mut perm, &mut perms);
        for cfg in ["2 2 2 1 2 1 3", "1 1 1 0 1 0 1"] {
            for p in &perms {
                let mut lines = vec![format!("new {variant} {cfg}"), "cpub 0 2".into(), "csub 0 - -".into(), "loan 0 0".into(), "send 0 0 1".into(),
                                     "recv 0".into(), "loan 0 100".into(), "ls".into()];
                for &i in p {
                    lines.push(objs[i].to_string());
                    lines.push("ls".into());
                }
                cases.push(lines);
            }
        }
        return cases;
    }
    for _ in 0..a.cases {
        let (mp, ms) = (rng.range(1, 2), rng.range(1, 2));
        let mut lines = vec![format!("new {variant} {mp} {ms} {} {} {} {} {}", rng.range(1, 2), rng.range(0, 1), rng.range(1, 2), rng.below(2), rng.range(1, 3))];
        let mut objs: Vec<String> = vec!["dnode".into(), "dsvc".into()];
        let (mut nl, mut tag) = (0usize, 0u64);
        for p in 0..mp { lines.push(format!("cpub {p} 2")); objs.push(format!("dpub {p}")); }
        for s in 0..ms { lines.push(format!("csub {s} - -")); objs.push(format!("dsub {s}")); }
        for p in 0..mp {
            lines.push(format!("loan {p} {nl}")); tag += 1; lines.push(format!("send {p} {nl} {tag}")); nl += 1;
            if rng.chance(60) { lines.push(format!("loan {p} {nl}")); objs.push(format!("dloan {p} {nl}")); nl += 1; }
        }
        for s in 0..ms {
            if rng.chance(70) { lines.push(format!("recv {s}")); objs.push(format!("dsample {s} 0")); }
        }
        lines.push("ls".into());
        // random order
        for i in (1..objs.len()).rev() {
            let j = rng.below(i as u64 + 1) as usize;
            objs.swap(i, j);
        }
        while let Some(o) = objs.pop() {
            lines.push(o);
            lines.push("ls".into());
            exercise(&mut lines, &objs, &mut rng, &mut nl, &mut tag);
        }
        lines.push("ls".into());
        cases.push(lines);
    }
    cases
}
