//! C08 / C03: one channel of the real zero-copy connection (process-local flavour), driven call by call:
//! the sender's `try_send` / `reclaim` and the receiver's `receive` / `release` in any interleaving.
use crate::common::*;
use iceoryx2_bb_system_types::file_name::FileName;
use iceoryx2_bb_container::semantic_string::SemanticString;
use iceoryx2_cal::named_concept::NamedConceptBuilder;
use iceoryx2_cal::shm_allocator::pointer_offset::PointerOffset;
use iceoryx2_cal::zero_copy_connection::*;

type Zc = iceoryx2_cal::zero_copy_connection::process_local::Connection;
const SAMPLE: usize = 8;
static COUNTER: std::sync::atomic::AtomicUsize = std::sync::atomic::AtomicUsize::new(0);

pub struct ZccComp {
    sender: Option<<Zc as ZeroCopyConnection>::Sender>,
    receiver: Option<<Zc as ZeroCopyConnection>::Receiver>,
    held: Vec<PointerOffset>,
}
impl ZccComp {
    pub fn new() -> Self {
        ZccComp { sender: None, receiver: None, held: vec![] }
    }
}
fn n(s: &str) -> usize {
    s.parse().unwrap()
}
impl Comp for ZccComp {
    fn exec(&mut self, t: &[&str]) -> String {
        let ch = ChannelId::new(0);
        match t[0] {
            "new" => {
                FLIGHT.with(|f| f.borrow_mut().clear());
                self.held.clear();
                self.receiver = None;
                self.sender = None;
                let k = COUNTER.fetch_add(1, std::sync::atomic::Ordering::Relaxed);
                let name = FileName::new(format!("vzcc{}x{k}", std::process::id()).as_bytes()).unwrap();
                let mk = || <Zc as ZeroCopyConnection>::Builder::new(&name)
                    .buffer_size(n(t[1]))
                    .receiver_max_borrowed_chunks_per_channel(n(t[2]))
                    .enable_safe_overflow(t[3] == "1")
                    .number_of_chunks_per_segment(64);
                self.sender = Some(mk().create_sender().expect("sender"));
                self.receiver = Some(mk().create_receiver().expect("receiver"));
                "ok".into()
            }
            "send" => {
                let c = n(t[1]);
                if self.in_flight(c) { return "dup".into(); }
                match self.sender.as_ref().unwrap().try_send(PointerOffset::new(c * SAMPLE), SAMPLE, ch) {
                    Ok(None) => "ok".into(),
                    Ok(Some(o)) => { let old = o.offset() / SAMPLE; self.flight_remove(old); format!("ok:evicted:{old}") }
                    Err(e) => { self.flight_remove(c); format!("err:{e:?}") }
                }
            }
            "reclaim" => match self.sender.as_ref().unwrap().reclaim(ch) {
                Ok(None) => "none".into(),
                Ok(Some(o)) => { let c = o.offset() / SAMPLE; self.flight_remove(c); format!("some:{c}") }
                Err(e) => format!("err:{e:?}"),
            },
            "recv" => match self.receiver.as_ref().unwrap().receive(ch) {
                Ok(None) => "none".into(),
                Ok(Some(o)) => { self.held.push(o); format!("some:{}", o.offset() / SAMPLE) }
                Err(e) => format!("err:{e:?}"),
            },
            "release" => {
                let k = n(t[1]);
                if k >= self.held.len() { return "none".into(); }
                match self.receiver.as_ref().unwrap().release(self.held[k], ch) {
                    Ok(()) => { self.held.remove(k); "ok".into() }
                    Err(e) => format!("err:{e:?}"),
                }
            }
            "borrow_count" => format!("{}", self.receiver.as_ref().unwrap().borrow_count(ch)),
            "has_data" => format!("{}", self.receiver.as_ref().unwrap().has_data(ch)),
            _ => panic!("bad op"),
        }
    }
}
thread_local! { static FLIGHT: std::cell::RefCell<Vec<usize>> = const { std::cell::RefCell::new(Vec::new()) }; }
impl ZccComp {
    // chunks the sender has handed over and not got back yet (by eviction or reclaim): never sent twice
    fn in_flight(&mut self, c: usize) -> bool {
        FLIGHT.with(|f| { let mut f = f.borrow_mut(); if f.contains(&c) { true } else { f.push(c); false } })
    }
    fn flight_remove(&mut self, c: usize) {
        FLIGHT.with(|f| f.borrow_mut().retain(|x| *x != c));
    }
}
pub fn generate(a: &Args) -> Vec<Vec<String>> {
    let mut rng = Rng::new(a.seed);
    let mut cases = vec![];
    for _ in 0..a.cases {
        let (b, r, ov) = (rng.range(1, 3), rng.range(1, 3), rng.below(2));
        let mut lines = vec![format!("new {b} {r} {ov}")];
        let mut next = 0usize;
        let mut free: Vec<usize> = vec![];
        let adversarial = rng.chance(50);
        for _ in 0..rng.range(4, a.len) {
            let c = rng.below(100);
            let l = if c < 30 {
                // the port protocol: reclaim until empty, THEN send — with receiver calls in between
                let mut v = vec![];
                for _ in 0..(b + r + 2) { v.push("reclaim".to_string()); if adversarial && rng.chance(40) { v.push(if rng.chance(50) { "recv".into() } else { format!("release {}", rng.below(r + 1)) }); } }
                if adversarial { for _ in 0..rng.below(b + r + 2) { v.push(if rng.chance(50) { "recv".into() } else { "release 0".to_string() }); } }
                let ch = if !free.is_empty() && rng.chance(30) { free.pop().unwrap() } else { next += 1; next - 1 };
                if next > 60 { break; }
                v.push(format!("send {ch}"));
                lines.extend(v);
                continue;
            } else if c < 40 { "reclaim".to_string() }
            else if c < 65 { "recv".to_string() }
            else if c < 90 { format!("release {}", rng.below(r + 1)) }
            else if c < 95 { "borrow_count".to_string() }
            else { "has_data".to_string() };
            lines.push(l);
        }
        cases.push(lines);
    }
    cases
}
