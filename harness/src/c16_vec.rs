//! C16: vector flavours (StaticVec, PolymorphicVec, RelocatableVec) behind one op interface.
use crate::common::*;
use iceoryx2_bb_container::vector::*;
use iceoryx2_bb_elementary::bump_allocator::BumpAllocator;
use iceoryx2_bb_elementary_traits::relocatable_container::RelocatableContainer;
use iceoryx2_bb_memory::heap_allocator::HeapAllocator;
use std::ptr::NonNull;

pub trait VecLike {
    fn v_push(&mut self, t: Tr) -> Result<(), VectorModificationError>;
    fn v_pop(&mut self) -> Option<Tr>;
    fn v_insert(&mut self, i: usize, t: Tr) -> Result<(), VectorModificationError>;
    fn v_remove(&mut self, i: usize) -> Option<Tr>;
    fn v_clear(&mut self);
    fn v_truncate(&mut self, n: usize);
    fn v_resize(&mut self, n: usize, t: Tr) -> Result<(), VectorModificationError>;
    fn v_extend(&mut self, s: &[Tr]) -> Result<(), VectorModificationError>;
    fn v_dump(&self) -> String;
}
impl<V: Vector<Tr>> VecLike for V {
    fn v_push(&mut self, t: Tr) -> Result<(), VectorModificationError> {
        self.push(t)
    }
    fn v_pop(&mut self) -> Option<Tr> {
        self.pop()
    }
    fn v_insert(&mut self, i: usize, t: Tr) -> Result<(), VectorModificationError> {
        self.insert(i, t)
    }
    fn v_remove(&mut self, i: usize) -> Option<Tr> {
        self.remove(i)
    }
    fn v_clear(&mut self) {
        self.clear()
    }
    fn v_truncate(&mut self, n: usize) {
        self.truncate(n)
    }
    fn v_resize(&mut self, n: usize, t: Tr) -> Result<(), VectorModificationError> {
        self.resize(n, t)
    }
    fn v_extend(&mut self, s: &[Tr]) -> Result<(), VectorModificationError> {
        self.extend_from_slice(s)
    }
    fn v_dump(&self) -> String {
        let items: Vec<String> = self.as_slice().iter().map(|t| t.show()).collect();
        format!(
            "[{}] len={} cap={} full={} empty={}",
            items.join(","),
            self.len(),
            self.capacity(),
            self.is_full(),
            self.is_empty()
        )
    }
}

thread_local! {
    /// which alias mapping the current (logical) thread uses for aliased blocks
    pub static ALIAS: std::cell::Cell<usize> = const { std::cell::Cell::new(0) };
}
/// alias ranges of the most recently created aliased block: (base, size, alias index)
pub static ALIAS_RANGES: std::sync::Mutex<Vec<(usize, usize, usize)>> = std::sync::Mutex::new(Vec::new());

/// Memory block holding a relocatable container (header at `shift`, its data behind it).
/// Two flavours: a heap block that can be *relocated* (copied byte for byte to a fresh address, the
/// old block is poisoned), and a memfd block mapped at several addresses at once (*aliases*: every
/// logical thread works through its own mapping, like every process that opens a segment).
pub struct RelocBlock<C> {
    pub c: *mut C,
    layout: std::alloc::Layout,
    base: *mut u8,
    shift: usize,
    graveyard: Vec<*mut u8>,
    aliases: Vec<*mut u8>,
    pub relocations: usize,
}
unsafe extern "C" {
    fn memfd_create(name: *const core::ffi::c_char, flags: u32) -> i32;
    fn ftruncate(fd: i32, len: i64) -> i32;
    fn mmap(addr: *mut u8, len: usize, prot: i32, flags: i32, fd: i32, off: i64) -> *mut u8;
    fn munmap(addr: *mut u8, len: usize) -> i32;
    fn close(fd: i32) -> i32;
}
impl<C: RelocatableContainer> RelocBlock<C> {
    pub fn try_new(capacity: usize, shift: usize) -> Option<Self> {
        let r = std::panic::catch_unwind(std::panic::AssertUnwindSafe(|| Self::new(capacity, shift)));
        r.ok()
    }
    fn sizes(capacity: usize) -> (usize, usize, std::alloc::Layout) {
        let hdr = std::mem::size_of::<C>().next_multiple_of(16);
        let mem = C::memory_size(capacity) + 64;
        (hdr, mem, std::alloc::Layout::from_size_align(hdr + mem + 64, 64).unwrap())
    }
    unsafe fn init_at(base: *mut u8, capacity: usize, shift: usize) -> *mut C {
        let (hdr, mem, layout) = Self::sizes(capacity);
        unsafe { std::ptr::write_bytes(base, 0xAB, layout.size()) }; // dirty memory: nothing may rely on zeroed storage
        let c = unsafe { base.add(shift) } as *mut C;
        unsafe {
            c.write(C::new_uninit(capacity));
            let data = base.add(shift + hdr);
            let alloc = BumpAllocator::new(NonNull::new(data).unwrap(), mem);
            (*c).init(&alloc).expect("init");
        }
        c
    }
    pub fn new(capacity: usize, shift: usize) -> Self {
        let (_, _, layout) = Self::sizes(capacity);
        let base = unsafe { std::alloc::alloc(layout) };
        let c = unsafe { Self::init_at(base, capacity, shift) };
        RelocBlock { c, layout, base, shift, graveyard: vec![], aliases: vec![], relocations: 0 }
    }
    /// one memory object mapped `n` times; initialised through mapping 0
    pub fn new_aliased(capacity: usize, shift: usize, n: usize) -> Self {
        let (_, _, layout) = Self::sizes(capacity);
        let len = layout.size().next_multiple_of(4096);
        let fd = unsafe { memfd_create(c"verif-reloc".as_ptr(), 0) };
        assert!(fd >= 0 && unsafe { ftruncate(fd, len as i64) } == 0);
        let mut aliases = vec![];
        for _ in 0..n.max(1) {
            let p = unsafe { mmap(core::ptr::null_mut(), len, 3, 1, fd, 0) }; // PROT_READ|PROT_WRITE, MAP_SHARED
            assert!(p as isize != -1);
            aliases.push(p);
        }
        unsafe { close(fd) };
        let base = aliases[0];
        let c = unsafe { Self::init_at(base, capacity, shift) };
        *ALIAS_RANGES.lock().unwrap() = aliases.iter().enumerate().map(|(k, p)| (*p as usize, len, k)).collect();
        RelocBlock { c, layout: std::alloc::Layout::from_size_align(len, 64).unwrap(), base, shift, graveyard: vec![], aliases, relocations: 0 }
    }
    pub fn get(&self) -> &mut C {
        if self.aliases.is_empty() {
            unsafe { &mut *self.c }
        } else {
            let k = ALIAS.with(|a| a.get()) % self.aliases.len();
            unsafe { &mut *(self.aliases[k].add(self.shift) as *mut C) }
        }
    }
    /// address range of the whole block (container header + its data)
    pub fn range(&self) -> (usize, usize) {
        (self.base as usize, self.layout.size())
    }
    /// the block moves: byte-for-byte copy to a fresh allocation; the old block stays allocated but
    /// is overwritten, so that anything still pointing into it reads garbage instead of stale truth
    pub fn relocate(&mut self) {
        assert!(self.aliases.is_empty());
        let nb = unsafe { std::alloc::alloc(self.layout) };
        unsafe {
            std::ptr::copy_nonoverlapping(self.base, nb, self.layout.size());
            std::ptr::write_bytes(self.base, 0xCD, self.layout.size());
        }
        self.graveyard.push(self.base);
        self.base = nb;
        self.c = unsafe { nb.add(self.shift) } as *mut C;
        self.relocations += 1;
    }
}
impl<C> Drop for RelocBlock<C> {
    fn drop(&mut self) {
        unsafe {
            std::ptr::drop_in_place(self.c);
            if self.aliases.is_empty() {
                std::alloc::dealloc(self.base, self.layout);
                for g in self.graveyard.drain(..) {
                    std::alloc::dealloc(g, self.layout);
                }
            } else {
                for a in self.aliases.drain(..) {
                    munmap(a, self.layout.size());
                }
                ALIAS_RANGES.lock().unwrap().clear();
            }
        }
    }
}

pub fn err_vec(e: VectorModificationError) -> &'static str {
    match e {
        VectorModificationError::OutOfBounds => "err:oob",
        VectorModificationError::InsertWouldExceedCapacity => "err:cap",
    }
}

enum AnyVec {
    None,
    S0(StaticVec<Tr, 0>),
    S1(StaticVec<Tr, 1>),
    S2(StaticVec<Tr, 2>),
    S3(StaticVec<Tr, 3>),
    S4(StaticVec<Tr, 4>),
    S7(StaticVec<Tr, 7>),
    P(PolymorphicVec<'static, Tr, HeapAllocator>),
    R(RelocBlock<RelocatableVec<Tr>>),
}
pub struct VecComp {
    v: AnyVec,
}
impl VecComp {
    pub fn new() -> Self {
        VecComp { v: AnyVec::None }
    }
    fn get(&mut self) -> &mut dyn VecLike {
        match &mut self.v {
            AnyVec::None => panic!("no vec"),
            AnyVec::S0(v) => v,
            AnyVec::S1(v) => v,
            AnyVec::S2(v) => v,
            AnyVec::S3(v) => v,
            AnyVec::S4(v) => v,
            AnyVec::S7(v) => v,
            AnyVec::P(v) => v,
            AnyVec::R(b) => b.get(),
        }
    }
}
fn num(s: &str) -> usize {
    s.parse().unwrap()
}
impl Comp for VecComp {
    fn exec(&mut self, t: &[&str]) -> String {
        if t[0] == "reloc" {
            // C14: the block moves to another address (only the relocatable flavour lives in such a block)
            if let AnyVec::R(b) = &mut self.v { b.relocate(); }
            return format!("ok {}", take_drops());
        }
        let r = match t[0] {
            "new" => {
                self.v = AnyVec::None;
                let _ = take_drops();
                let cap = num(t[2]);
                self.v = match (t[1], cap) {
                    ("static", 0) => AnyVec::S0(StaticVec::new()),
                    ("static", 1) => AnyVec::S1(StaticVec::new()),
                    ("static", 2) => AnyVec::S2(StaticVec::new()),
                    ("static", 3) => AnyVec::S3(StaticVec::new()),
                    ("static", 4) => AnyVec::S4(StaticVec::new()),
                    ("static", 7) => AnyVec::S7(StaticVec::new()),
                    ("poly", c) => match PolymorphicVec::new(HeapAllocator::global(), c) {
                        Ok(v) => AnyVec::P(v),
                        Err(_) => return "err:alloc".into(),
                    },
                    ("reloc", c) => match RelocBlock::try_new(c, 0) {
                        Some(b) => AnyVec::R(b),
                        None => return "err:alloc".into(),
                    },
                    _ => panic!("bad new"),
                };
                "ok".to_string()
            }
            "push" => match self.get().v_push(Tr::new(num(t[1]) as u32, num(t[2]) as u32)) {
                Ok(()) => "ok".into(),
                Err(e) => err_vec(e).into(),
            },
            "pop" => show_opt(self.get().v_pop()),
            "insert" => {
                match self.get().v_insert(num(t[1]), Tr::new(num(t[2]) as u32, num(t[3]) as u32)) {
                    Ok(()) => "ok".into(),
                    Err(e) => err_vec(e).into(),
                }
            }
            "remove" => show_opt(self.get().v_remove(num(t[1]))),
            "clear" => {
                self.get().v_clear();
                "ok".into()
            }
            "truncate" => {
                self.get().v_truncate(num(t[1]));
                "ok".into()
            }
            "resize" => {
                match self.get().v_resize(num(t[1]), Tr::new(num(t[2]) as u32, num(t[3]) as u32)) {
                    Ok(()) => "ok".into(),
                    Err(e) => err_vec(e).into(),
                }
            }
            "extend" => {
                // extend k id0 val0 : slice of k fresh elements id0.. ; clones get counter ids
                let k = num(t[1]);
                let id0 = num(t[2]) as u32;
                let val0 = num(t[3]) as u32;
                let src: Vec<Tr> = (0..k as u32).map(|i| Tr::new(id0 + i, val0 + i)).collect();
                let r = self.get().v_extend(&src);
                let d = take_drops();
                drop(src);
                DROPS.with(|d| d.borrow_mut().clear());
                return format!(
                    "{} {}",
                    match r {
                        Ok(()) => "ok",
                        Err(e) => err_vec(e),
                    },
                    d
                );
            }
            "dump" => self.get().v_dump(),
            "drop" => {
                self.v = AnyVec::None;
                "ok".into()
            }
            _ => panic!("bad op"),
        };
        format!("{} {}", r, take_drops())
    }
}

pub fn generate(a: &Args) -> Vec<Vec<String>> {
    let mut cases = Vec::new();
    let flavours = ["static", "poly", "reloc"];
    if a.exhaustive > 0 {
        // alphabet over a small domain; ids are the 1-based op position
        let alpha: Vec<String> = [
            "push", "pop", "insert 0", "insert 1", "insert 3", "remove 0", "remove 1", "clear",
            "truncate 1", "resize 2", "resize 5", "extend 2",
        ]
        .iter()
        .map(|s| s.to_string())
        .collect();
        for fl in flavours {
            for cap in 0..=4usize {
                enumerate_seqs(&alpha, a.exhaustive as usize, &mut |seq| {
                    let mut lines = vec![format!("new {fl} {cap}")];
                    for (pos, &i) in seq.iter().enumerate() {
                        let id = (pos + 1) * 10;
                        let val = i % 3;
                        let base = &alpha[i];
                        let l = match base.split(' ').next().unwrap() {
                            "push" => format!("push {id} {val}"),
                            "insert" | "resize" => format!("{base} {id} {val}"),
                            "extend" => format!("{base} {id} {val}"),
                            _ => base.clone(),
                        };
                        lines.push(l);
                    }
                    lines.push("dump".into());
                    lines.push("drop".into());
                    cases.push(lines);
                });
            }
        }
        return cases;
    }
    let mut rng = Rng::new(a.seed);
    for _ in 0..a.cases {
        let fl = *rng.pick(&flavours);
        let cap = *rng.pick(&[0usize, 1, 2, 3, 4, 7, 7, 7]);
        let cap = if fl != "static" && rng.chance(20) { rng.range(5, 40) as usize } else { cap };
        let mut lines = vec![format!("new {fl} {cap}")];
        let mut id = 1u32;
        let n = rng.range(1, a.len);
        for _ in 0..n {
            let val = rng.below(5);
            let idx = rng.below(cap as u64 + 2);
            let l = match rng.below(100) {
                0..=29 => format!("push {id} {val}"),
                30..=41 => "pop".to_string(),
                42..=56 => format!("insert {idx} {id} {val}"),
                57..=68 => format!("remove {idx}"),
                69..=71 => "clear".to_string(),
                72..=77 => format!("truncate {idx}"),
                78..=84 => format!("resize {idx} {id} {val}"),
                85..=91 => {
                    let k = rng.below(4);
                    let l = format!("extend {k} {id} {val}");
                    id += 4;
                    l
                }
                _ => "dump".to_string(),
            };
            id += 1;
            lines.push(l);
        }
        lines.push("dump".into());
        lines.push("drop".into());
        cases.push(lines);
    }
    cases
}
