//! stub: component `waitset` (to be written)
use crate::common::*;

pub struct WaitSetComp;
impl WaitSetComp {
    pub fn new() -> Self {
        WaitSetComp
    }
}
impl Comp for WaitSetComp {
    fn exec(&mut self, _t: &[&str]) -> String {
        "unimplemented".into()
    }
}
pub fn generate(_a: &Args) -> Vec<Vec<String>> {
    vec![]
}
