//! C20: the real `iceoryx2::waitset::WaitSet` driven through its public API, one call per line.
//!
//! Attachable objects are `Listener<ipc::Service>` ports (file-descriptor based: unix datagram
//! socket + counting bit set in shared memory), one `Notifier` per service.  `WaitSet<S>` only uses
//! `S::Reactor`, so three wait-set variants are driven with the same listeners:
//!   * `ipc`: `WaitSet<ipc::Service>`  — reactor::epoll (the Linux default), capacity = max_user_watches
//!   * `sel`: `WaitSet<SelService>`    — reactor::posix_select (+ FileDescriptorSet), capacity = FD_SETSIZE
//!   * `cap`: `WaitSet<CapService>`    — TEST DOUBLE: the real epoll reactor behind a wrapper that has a
//!            small configurable capacity and, like FileDescriptorSet::add, refuses with
//!            `ReactorAttachError::CapacityExceeded` when full (checked before the membership test).
//!            Only this makes the wait set's capacity paths reachable with a handful of attachments.
//!
//! Time: the deadline queue reads the real monotonic clock, which cannot be injected.  The model's
//! clock is a logical counter of units; the harness maps 1 unit = UNIT (10 ms, VERIF_C20_UNIT_MS):
//! `advance k` sleeps until `base + T*UNIT + j` where j is the largest real-time offset ("jitter") any
//! earlier operation of the case had inside its unit; so the offsets of successive clock reads inside
//! their units never decrease, and as long as the accumulated offset stays below one unit every
//! quotient `(t1 - t0) / period` the deadline queue computes equals the quotient of the logical times
//! (periods are whole units).  The offset is checked after every operation of a case that uses a
//! finite period; when it exceeds 3/4 unit (machine overloaded) the case is re-executed from its
//! start with a doubled unit (up to 6 times; then the output carries ` CLOCK-OVERRUN`).
//! Periods used: 0 (always expired), 1..5 units (expire through `advance`), 1_000_000 units (never).
//!
//! Ops: `new <ipc|sel|cap> <capacity> <nlisteners> <nservices>` (listener l belongs to service
//! l % nservices; capacity is only used by `cap`, for the others it states the real one),
//! `attach_n <guard> <listener>`, `attach_d <guard> <listener> <period>`, `attach_i <guard> <period>`,
//! `drop_guard <guard>`, `notify <listener> <event>` (Notifier::for_each_listener + Monofier: this
//! listener only), `notify_all <service> <event>`, `drain <listener>` (Listener::try_wait),
//! `run_once` (wait_and_process_once_with_timeout(cb, 0); output = sorted `<guard>:<n|d|t>` for every
//! callback x guard with has_missed_deadline (d) / has_event_from (n, t for interval guards)),
//! `advance <units>`, `len`, `capacity`, `is_empty`, `fill <first-guard> <n> <period>` (n interval
//! attachments), `maps` (sizes of the two private BTreeMaps, read off `{:?}`).
//! The ports of a (nlisteners, nservices) configuration are created once per process in an own
//! domain (config prefix `vw<pid>_`), drained at every `new`, and removed at exit.
use crate::common::*;
use core::time::Duration;
use iceoryx2::port::listener::Listener;
use iceoryx2::port::notifier::Notifier;
use iceoryx2::prelude::*;
use iceoryx2::waitset::{WaitSet, WaitSetAttachmentId, WaitSetGuard};
use iceoryx2_bb_elementary_traits::testing::abandonable::Abandonable;
use iceoryx2_bb_elementary_traits::zero_copy_send::ZeroCopySend;
use iceoryx2_bb_posix::file_descriptor::FileDescriptor;
use iceoryx2_bb_posix::file_descriptor_set::SynchronousMultiplexing;
use iceoryx2_cal::reactor::epoll::{Epoll, EpollBuilder, EpollGuard};
use iceoryx2_cal::reactor::{Reactor, ReactorAttachError, ReactorBuilder, ReactorCreateError, ReactorWaitError};
use iceoryx2_cal::shm_allocator::bump_allocator::BumpAllocator;
use iceoryx2_cal::shm_allocator::pool_allocator::PoolAllocator;
use iceoryx2_cal::*;
use std::collections::BTreeMap;
use std::fmt::Debug;
use std::time::Instant;

static SERVICE_COUNTER: std::sync::atomic::AtomicUsize = std::sync::atomic::AtomicUsize::new(0);
const EVENT_ID_MAX: usize = 7;
pub const FAR: u64 = 1_000_000;

thread_local! { static UNIT_SCALE: std::cell::Cell<u32> = const { std::cell::Cell::new(1) }; }
/// real duration of one logical time unit (doubled by every re-execution of a case after a clock overrun)
fn unit() -> Duration {
    UNIT_SCALE.with(|c| c.get()) * Duration::from_millis(std::env::var("VERIF_C20_UNIT_MS").ok().and_then(|v| v.parse().ok()).unwrap_or(10))
}

// ------------------------------------------------------------------------------------------------
// wait-set variants

macro_rules! service_like_ipc {
    ($name:ident, $reactor:ty) => {
        #[derive(Debug, Clone)]
        pub struct $name {}
        impl iceoryx2::service::Service for $name {
            type StaticStorage = static_storage::recommended::Ipc;
            type ConfigSerializer = serialize::recommended::Recommended;
            type PersistentDynamicStorage<T: Debug + Send + Sync + ZeroCopySend + 'static> = dynamic_storage::recommended::PersistentIpc<T>;
            type DynamicStorage<T: Debug + Send + Sync + ZeroCopySend + 'static> = dynamic_storage::recommended::Ipc<T>;
            type ServiceNameHasher = hash::recommended::Recommended;
            type SharedMemory = shared_memory::recommended::Ipc<PoolAllocator>;
            type ResizableSharedMemory = resizable_shared_memory::recommended::Ipc<PoolAllocator>;
            type Connection = zero_copy_connection::recommended::Ipc;
            type Event = event::recommended::Ipc;
            type Monitoring = monitoring::recommended::Ipc;
            type Reactor = $reactor;
            type ArcThreadSafetyPolicy<T: Send + Debug + Abandonable> = arc_sync_policy::single_threaded::SingleThreaded<T>;
            type BlackboardMgmt<KeyType: Send + Sync + Debug + ZeroCopySend + 'static> = dynamic_storage::recommended::Ipc<KeyType>;
            type BlackboardPayload = shared_memory::recommended::Ipc<BumpAllocator>;
        }
        impl iceoryx2::service::internal::ServiceInternal<$name> for $name {}
    };
}
service_like_ipc!(SelService, reactor::posix_select::Reactor);
service_like_ipc!(CapService, CapReactor);

thread_local! { static CAP: std::cell::Cell<usize> = const { std::cell::Cell::new(4) }; }

/// test double: real epoll reactor with a small capacity
#[derive(Debug)]
pub struct CapReactor {
    inner: Epoll,
    cap: usize,
}
pub struct CapReactorBuilder;
impl ReactorBuilder<CapReactor> for CapReactorBuilder {
    fn new() -> Self {
        CapReactorBuilder
    }
    fn create(self) -> Result<CapReactor, ReactorCreateError> {
        let inner = <EpollBuilder as ReactorBuilder<Epoll>>::create(<EpollBuilder as ReactorBuilder<Epoll>>::new())?;
        Ok(CapReactor { inner, cap: CAP.with(|c| c.get()) })
    }
}
impl Reactor for CapReactor {
    type Guard<'reactor, 'attachment> = EpollGuard<'reactor, 'attachment>;
    type Builder = CapReactorBuilder;
    fn capacity(&self) -> usize {
        self.cap
    }
    fn len(&self) -> usize {
        Reactor::len(&self.inner)
    }
    fn is_empty(&self) -> bool {
        Reactor::is_empty(&self.inner)
    }
    fn attach<'reactor, 'attachment, F: SynchronousMultiplexing + Debug + ?Sized>(&'reactor self, value: &'attachment F) -> Result<Self::Guard<'reactor, 'attachment>, ReactorAttachError> {
        // same order as FileDescriptorSet::add_impl: capacity first, then membership
        if Reactor::len(&self.inner) >= self.cap {
            return Err(ReactorAttachError::CapacityExceeded);
        }
        Reactor::attach(&self.inner, value)
    }
    fn try_wait<F: FnMut(&FileDescriptor)>(&self, fn_call: F) -> Result<usize, ReactorWaitError> {
        Reactor::try_wait(&self.inner, fn_call)
    }
    fn timed_wait<F: FnMut(&FileDescriptor)>(&self, fn_call: F, timeout: Duration) -> Result<usize, ReactorWaitError> {
        Reactor::timed_wait(&self.inner, fn_call, timeout)
    }
    fn blocking_wait<F: FnMut(&FileDescriptor)>(&self, fn_call: F) -> Result<usize, ReactorWaitError> {
        Reactor::blocking_wait(&self.inner, fn_call)
    }
}

// ------------------------------------------------------------------------------------------------

type L = Listener<ipc::Service>;

#[derive(Clone, Copy, PartialEq)]
enum GKind {
    Notification,
    Deadline,
    Tick,
}

/// the ports of one (nlisteners, nservices) configuration; created once per process and reused by
/// every case with that configuration (listeners are drained at `new`), destroyed at process exit
struct PoolEntry {
    nl: usize,
    ns: usize,
    listeners: Vec<*mut L>,
    notifiers: Vec<*mut Notifier<ipc::Service>>,
    services: Vec<iceoryx2::service::port_factory::event::PortFactory<ipc::Service>>,
    node: Option<Node<ipc::Service>>,
}
struct Pool(Vec<PoolEntry>);
unsafe impl Send for Pool {}
static POOL: std::sync::Mutex<Pool> = std::sync::Mutex::new(Pool(Vec::new()));
static REGISTER: std::sync::Once = std::sync::Once::new();
unsafe extern "C" {
    fn atexit(cb: extern "C" fn()) -> i32;
}
extern "C" fn cleanup_pool() {
    if let Ok(mut p) = POOL.lock() {
        for mut e in p.0.drain(..) {
            for l in e.listeners.drain(..) { drop(unsafe { Box::from_raw(l) }); }
            for x in e.notifiers.drain(..) { drop(unsafe { Box::from_raw(x) }); }
            e.services.clear();
            e.node = None;
        }
    }
    // the per-domain management segment outlives its nodes by design; this process owns the domain
    let _ = unsafe { iceoryx2::testing::remove_global_mgmt_segment::<ipc::Service>(&own_config()) };
}

fn own_config() -> iceoryx2::config::Config {
    let mut config = iceoryx2::config::Config::global_config().clone();
    // own domain: nothing is shared with other iceoryx2 users of this machine
    config.global.prefix = iceoryx2_bb_system_types::file_name::FileName::new(format!("vw{}_", std::process::id()).as_bytes()).unwrap();
    config
}

fn pool_get(nl: usize, ns: usize) -> Result<(Vec<&'static L>, Vec<&'static Notifier<ipc::Service>>), String> {
    REGISTER.call_once(|| unsafe { atexit(cleanup_pool); });
    let mut p = POOL.lock().unwrap();
    if !p.0.iter().any(|e| e.nl == nl && e.ns == ns) {
        let config = own_config();
        let node = NodeBuilder::new().config(&config).create::<ipc::Service>().map_err(|e| format!("err:node:{e:?}"))?;
        let mut services = vec![];
        for _ in 0..ns {
            let k = SERVICE_COUNTER.fetch_add(1, std::sync::atomic::Ordering::Relaxed);
            let name = ServiceName::new(&format!("verif/waitset/{}/{k}", std::process::id())).unwrap();
            let service = node
                .service_builder(&name)
                .event()
                .max_listeners(4)
                .max_notifiers(1)
                .event_id_max_value(EVENT_ID_MAX)
                .disable_deadline()
                .disable_notifier_created_event()
                .disable_notifier_dropped_event()
                .disable_notifier_dead_event()
                .create()
                .map_err(|e| format!("err:service:{e:?}"))?;
            services.push(service);
        }
        let mut listeners = vec![];
        for l in 0..nl {
            listeners.push(Box::into_raw(Box::new(services[l % ns].listener_builder().create().map_err(|e| format!("err:listener:{e:?}"))?)));
        }
        let mut notifiers = vec![];
        for s in services.iter() {
            notifiers.push(Box::into_raw(Box::new(s.notifier_builder().create().map_err(|e| format!("err:notifier:{e:?}"))?)));
        }
        p.0.push(PoolEntry { nl, ns, listeners, notifiers, services, node: Some(node) });
    }
    let e = p.0.iter().find(|e| e.nl == nl && e.ns == ns).unwrap();
    Ok((e.listeners.iter().map(|l| unsafe { &**l }).collect(), e.notifiers.iter().map(|x| unsafe { &**x }).collect()))
}

/// field order = drop order: guards, then the wait set (the ports live in the pool)
struct World<S: iceoryx2::service::Service + 'static>
where
    S::Reactor: 'static,
{
    guards: BTreeMap<u64, (WaitSetGuard<'static, 'static, S>, GKind)>,
    ws: Box<WaitSet<S>>,
    listeners: Vec<&'static L>,
    notifiers: Vec<&'static Notifier<ipc::Service>>,
    // logical clock
    base: Instant,
    t: u64,
    jitter: Duration,
    timed: bool,
    unit: Duration,
}

fn n(s: &str) -> u64 {
    s.parse().unwrap()
}

pub fn real_capacity(variant: &str) -> u64 {
    match variant {
        "ipc" => Epoll::capacity().unwrap_or(Epoll::max_wait_events()) as u64,
        "sel" => iceoryx2_bb_posix::file_descriptor_set::FileDescriptorSet::capacity() as u64,
        _ => 0,
    }
}

fn mk<S: iceoryx2::service::Service + 'static>(t: &[&str]) -> Result<World<S>, String>
where
    S::Reactor: 'static,
{
    // new <variant> <capacity> <nlisteners> <nservices>
    let (nl, ns) = (n(t[3]) as usize, n(t[4]) as usize);
    let (listeners, notifiers) = pool_get(nl, ns)?;
    for l in listeners.iter() {
        let _ = l.try_wait(|_| {});
    }
    CAP.with(|c| c.set(n(t[2]) as usize));
    let ws = WaitSetBuilder::new().signal_handling_mode(SignalHandlingMode::Disabled).create::<S>().map_err(|e| format!("err:waitset:{e:?}"))?;
    Ok(World { guards: BTreeMap::new(), ws: Box::new(ws), listeners, notifiers, base: Instant::now(), t: 0, jitter: Duration::ZERO, timed: false, unit: unit() })
}


fn exec<S: iceoryx2::service::Service + 'static>(w: &mut World<S>, t: &[&str]) -> String
where
    S::Reactor: 'static,
{
    // the guards borrow the (boxed, never moved) wait set and listeners; `World` drops the guards first
    let ws: &'static WaitSet<S> = unsafe { &*(w.ws.as_ref() as *const WaitSet<S>) };
    let listener = |l: u64| -> Option<&'static L> { w.listeners.get(l as usize).copied() };
    let attach_result = |r: Result<WaitSetGuard<'static, 'static, S>, iceoryx2::waitset::WaitSetAttachmentError>, g: u64, k: GKind, guards: &mut BTreeMap<u64, (WaitSetGuard<'static, 'static, S>, GKind)>| match r {
        Ok(guard) => {
            guards.insert(g, (guard, k));
            "ok".to_string()
        }
        Err(e) => format!("err:{e:?}"),
    };
    match t[0] {
        "attach_n" => match listener(n(t[2])) {
            None => "none".into(),
            Some(_) if w.guards.contains_key(&n(t[1])) => "dup".into(),
            Some(l) => attach_result(ws.attach_notification(l), n(t[1]), GKind::Notification, &mut w.guards),
        },
        "attach_d" => match listener(n(t[2])) {
            None => "none".into(),
            Some(_) if w.guards.contains_key(&n(t[1])) => "dup".into(),
            Some(l) => {
                if n(t[3]) != 0 && n(t[3]) < FAR { w.timed = true; }
                attach_result(ws.attach_deadline(l, w.unit * (n(t[3]) as u32)), n(t[1]), GKind::Deadline, &mut w.guards)
            }
        },
        "attach_i" => {
            if w.guards.contains_key(&n(t[1])) { "dup".into() } else {
                if n(t[2]) != 0 && n(t[2]) < FAR { w.timed = true; }
                attach_result(ws.attach_interval(w.unit * (n(t[2]) as u32)), n(t[1]), GKind::Tick, &mut w.guards)
            }
        }
        "drop_guard" => match w.guards.remove(&n(t[1])) {
            Some(g) => {
                drop(g);
                "ok".into()
            }
            None => "none".into(),
        },
        "notify" => match w.listeners.get(n(t[1]) as usize) {
            None => "none".into(),
            Some(l) => {
                // the notifier of the listener's service, addressed to this single listener
                let id = l.id();
                let notifier = &w.notifiers[n(t[1]) as usize % w.notifiers.len()];
                let mut res = "not-connected".to_string();
                notifier.for_each_listener(|m, details| {
                    if details.listener_id == id {
                        res = match m.notify_with_custom_event_id(EventId::new(n(t[2]) as usize)) { Ok(()) => "ok".into(), Err(e) => format!("err:{e:?}") };
                        CallbackProgression::Stop
                    } else {
                        CallbackProgression::Continue
                    }
                });
                res
            }
        },
        "notify_all" => match w.notifiers.get(n(t[1]) as usize) {
            None => "none".into(),
            Some(nf) => match nf.notify_with_custom_event_id(EventId::new(n(t[2]) as usize)) { Ok(k) => format!("ok:{k}"), Err(e) => format!("err:{e:?}") },
        },
        "drain" => match w.listeners.get(n(t[1]) as usize) {
            None => "none".into(),
            Some(l) => {
                let mut v: Vec<(usize, u64)> = vec![];
                match l.try_wait(|a| v.push((a.id.as_value(), a.count))) {
                    Ok(_) => {
                        v.sort();
                        format!("[{}]", v.iter().map(|(i, c)| format!("{i}*{c}")).collect::<Vec<_>>().join(","))
                    }
                    Err(e) => format!("err:{e:?}"),
                }
            }
        },
        "run_once" => {
            let mut reports: Vec<(u64, char)> = vec![];
            let mut foreign = 0;
            let guards = &w.guards;
            let r = ws.wait_and_process_once_with_timeout(
                |id: WaitSetAttachmentId<S>| {
                    let mut hit = false;
                    for (label, (g, k)) in guards.iter() {
                        if id.has_missed_deadline(g) {
                            reports.push((*label, 'd'));
                            hit = true;
                        } else if id.has_event_from(g) {
                            reports.push((*label, if *k == GKind::Tick { 't' } else { 'n' }));
                            hit = true;
                        }
                    }
                    if !hit {
                        foreign += 1;
                    }
                    CallbackProgression::Continue
                },
                Duration::ZERO,
            );
            if foreign > 0 {
                oracle_fail("callback invoked with an attachment id that belongs to no live guard".to_string());
            }
            reports.sort();
            let body = reports.iter().map(|(l, k)| format!("{l}:{k}")).collect::<Vec<_>>().join(",");
            match r {
                Ok(v) => format!("ok:{v:?}:[{body}]{}", if foreign > 0 { format!("+foreign{foreign}") } else { String::new() }),
                Err(e) => format!("err:{e:?}"),
            }
        }
        "advance" => {
            w.t += n(t[1]);
            let target = w.base + w.unit * (w.t as u32) + w.jitter;
            loop {
                let now = Instant::now();
                if now >= target { break; }
                let rest = target - now;
                if rest > Duration::from_micros(300) { std::thread::sleep(rest - Duration::from_micros(200)); } else { std::hint::spin_loop(); }
            }
            "ok".into()
        }
        "maps" => {
            // sizes of the two private maps, read off the derived Debug output (replay of finding D21)
            let d = format!("{ws:?}");
            let count = |field: &str| -> String {
                match d.find(field) {
                    Some(i) => {
                        let rest = &d[i + field.len()..];
                        let open = rest.find('{').map(|o| {
                            // the map literal: from the first '{' that starts a map to its matching '}'
                            let bytes = rest.as_bytes();
                            let mut depth = 0i32;
                            let mut end = o;
                            for (k, b) in bytes.iter().enumerate().skip(o) {
                                if *b == b'{' { depth += 1; }
                                if *b == b'}' { depth -= 1; if depth == 0 { end = k; break; } }
                            }
                            rest[o..=end].matches("DeadlineQueueIndex(").count()
                        });
                        open.map(|c| c.to_string()).unwrap_or("?".into())
                    }
                    None => "?".into(),
                }
            };
            if std::env::var("VERIF_C20_DEBUG").is_ok() { eprintln!("{d}"); }
            format!("a2d={} d2a={}", count("attachment_to_deadline:"), count("deadline_to_attachment:"))
        }
        "len" => format!("{}", ws.len()),
        "capacity" => format!("{}", ws.capacity()),
        "is_empty" => format!("{}", ws.is_empty()),
        "fill" => {
            // fill <base-label> <n> <period>: interval attachments base, base+1, ...; stops at the first refusal
            let (base, cnt, p) = (n(t[1]), n(t[2]), n(t[3]));
            let mut done = 0;
            let mut last = "ok".to_string();
            for i in 0..cnt {
                if w.guards.contains_key(&(base + i)) { last = "dup".into(); break; }
                last = attach_result(ws.attach_interval(w.unit * (p as u32)), base + i, GKind::Tick, &mut w.guards);
                if last != "ok" { break; }
                done += 1;
            }
            format!("{done}:{last}")
        }
        _ => panic!("bad op"),
    }
}

/// offset of the real clock inside the current logical unit; None = the unit was overrun
fn settle<S: iceoryx2::service::Service + 'static>(w: &mut World<S>) -> bool
where
    S::Reactor: 'static,
{
    let elapsed = w.base.elapsed();
    let start = w.unit * (w.t as u32);
    if elapsed < start { return false; }
    let j = elapsed - start;
    w.jitter = w.jitter.max(j);
    !(w.timed && j >= w.unit * 3 / 4)
}

enum AnyWorld {
    None,
    Ipc(Box<World<ipc::Service>>),
    Sel(Box<World<SelService>>),
    Cap(Box<World<CapService>>),
}
pub struct WaitSetComp {
    w: AnyWorld,
    history: Vec<String>,
}
impl WaitSetComp {
    pub fn new() -> Self {
        WaitSetComp { w: AnyWorld::None, history: vec![] }
    }
    /// executes one line; false = the logical clock was overrun
    fn exec1(&mut self, t: &[&str]) -> (String, bool) {
        if t[0] == "new" {
            self.w = AnyWorld::None;
            let r = match t[1] {
                "ipc" => mk::<ipc::Service>(t).map(|w| AnyWorld::Ipc(Box::new(w))),
                "sel" => mk::<SelService>(t).map(|w| AnyWorld::Sel(Box::new(w))),
                _ => mk::<CapService>(t).map(|w| AnyWorld::Cap(Box::new(w))),
            };
            return match r { Ok(w) => { self.w = w; ("ok".into(), true) } Err(e) => (e, true) };
        }
        match &mut self.w {
            AnyWorld::None => ("no-world".into(), true),
            AnyWorld::Ipc(w) => { let r = exec(w, t); let ok = settle(w); (r, ok) }
            AnyWorld::Sel(w) => { let r = exec(w, t); let ok = settle(w); (r, ok) }
            AnyWorld::Cap(w) => { let r = exec(w, t); let ok = settle(w); (r, ok) }
        }
    }
}

impl Comp for WaitSetComp {
    fn exec(&mut self, t: &[&str]) -> String {
        if t[0] == "new" { self.history.clear(); UNIT_SCALE.with(|c| c.set(1)); }
        self.history.push(t.join(" "));
        let (mut r, mut ok) = self.exec1(t);
        let mut tries = 0;
        while !ok && tries < 6 {
            // the machine stalled us for most of a unit: the outputs of this case no longer follow the
            // logical clock; run the case again from its start
            tries += 1;
            UNIT_SCALE.with(|c| c.set(1 << tries));
            let _ = take_oracle();
            let h = self.history.clone();
            ok = true;
            for line in h.iter() {
                let toks: Vec<&str> = line.split(' ').collect();
                let (r2, ok2) = self.exec1(&toks);
                r = r2;
                if !ok2 { ok = false; break; }
            }
        }
        if !ok { r.push_str(" CLOCK-OVERRUN"); }
        r
    }
}

// ------------------------------------------------------------------------------------------------
// generators

fn pick_period(rng: &mut Rng, timed: bool) -> u64 {
    if timed {
        *rng.pick(&[0, 1, 1, 2, 2, 3, 5, FAR])
    } else if rng.chance(25) { 0 } else { FAR }
}

pub fn generate(a: &Args) -> Vec<Vec<String>> {
    let mut rng = Rng::new(a.seed);
    let fixed = a.rest.iter().find(|x| ["ipc", "sel", "cap"].contains(&x.as_str())).cloned();
    let timed = a.rest.iter().any(|x| x == "timed");
    let full = a.rest.iter().any(|x| x == "full");
    if a.exhaustive > 0 {
        return exhaustive(a, fixed.as_deref().unwrap_or("cap"));
    }
    let mut cases = vec![];
    for _ in 0..a.cases {
        let variant = fixed.clone().unwrap_or_else(|| rng.pick(&["ipc", "sel", "cap", "cap"]).to_string());
        let nl = rng.range(1, 4);
        let ns = rng.range(1, 2);
        let cap = if variant == "cap" { rng.range(1, 5) } else { real_capacity(&variant) };
        let mut lines = vec![format!("new {variant} {cap} {nl} {ns}")];
        let mut next_label = 0u64;
        // what is probably attached: label -> listener (None: interval)
        let mut live: Vec<(u64, Option<u64>)> = vec![];
        if full && variant == "sel" {
            // bring the wait set close to its real capacity with never-expiring intervals
            let k = cap - rng.range(0, 3);
            lines.push(format!("fill 100000 {k} {FAR}"));
            lines.push("len".to_string());
        }
        // weights: attach_n attach_d attach_i drop notify notify_all drain run_once advance len capacity is_empty maps
        let wts: [u64; 13] = [14, 9, 7, 11, 17, 4, 8, 22, if timed { 8 } else { 0 }, 2, 1, 1, 2];
        let total: u64 = wts.iter().sum();
        for _ in 0..rng.range(3, a.len) {
            let mut c = rng.below(total);
            let mut k = 0;
            while c >= wts[k] { c -= wts[k]; k += 1; }
            if live.is_empty() && k == 7 && rng.chance(70) { k = rng.below(3) as usize; }
            // listener: mostly valid, sometimes one that does not exist
            let l = if rng.chance(3) { nl } else { rng.below(nl) };
            // listener for an attach: mostly one that is not attached
            let free: Vec<u64> = (0..nl).filter(|x| !live.iter().any(|(_, o)| *o == Some(*x))).collect();
            let la = if !free.is_empty() && rng.chance(85) { *rng.pick(&free) } else { l };
            let label = |rng: &mut Rng, next: &mut u64, live: &Vec<(u64, Option<u64>)>| -> u64 {
                if !live.is_empty() && rng.chance(4) { rng.pick(live).0 } else { let g = *next; *next += 1; g }
            };
            let attached = |live: &mut Vec<(u64, Option<u64>)>, g: u64, o: Option<u64>| {
                let taken = o.is_some() && live.iter().any(|(_, x)| *x == o);
                if !live.iter().any(|(x, _)| *x == g) && !taken && (live.len() as u64) < cap && o.map(|x| x < nl).unwrap_or(true) { live.push((g, o)); }
            };
            let line = match k {
                0 => { let g = label(&mut rng, &mut next_label, &live); attached(&mut live, g, Some(la)); format!("attach_n {g} {la}") }
                1 => { let g = label(&mut rng, &mut next_label, &live); attached(&mut live, g, Some(la)); format!("attach_d {g} {la} {}", pick_period(&mut rng, timed)) }
                2 => { let g = label(&mut rng, &mut next_label, &live); attached(&mut live, g, None); format!("attach_i {g} {}", pick_period(&mut rng, timed)) }
                3 => {
                    if live.is_empty() || rng.chance(8) { format!("drop_guard {}", next_label + rng.below(3)) } else {
                        let i = rng.below(live.len() as u64) as usize;
                        format!("drop_guard {}", live.remove(i).0)
                    }
                }
                4 => format!("notify {l} {}", if rng.chance(3) { EVENT_ID_MAX as u64 + 1 + rng.below(3) } else { rng.below(3) }),
                5 => format!("notify_all {} {}", if rng.chance(5) { ns } else { rng.below(ns) }, if rng.chance(4) { EVENT_ID_MAX as u64 + 1 } else { rng.below(3) }),
                6 => format!("drain {l}"),
                7 => "run_once".to_string(),
                8 => format!("advance {}", rng.range(1, 3)),
                9 => "len".to_string(),
                10 => "capacity".to_string(),
                11 => "is_empty".to_string(),
                _ => "maps".to_string(),
            };
            lines.push(line);
        }
        cases.push(lines);
    }
    cases
}

/// every sequence of length L over a fixed alphabet; configurations with a capacity that is reached
fn exhaustive(a: &Args, variant: &str) -> Vec<Vec<String>> {
    let mut cases = vec![];
    let timed = a.rest.iter().any(|x| x == "timed");
    let alphabet: Vec<String> = if timed {
        ["attach_d 0 2", "attach_i 2", "attach_n 1", "drop", "notify 0 1", "drain 0", "run_once", "advance 1", "advance 2"].iter().map(|x| x.to_string()).collect()
    } else {
        ["attach_n 0", "attach_n 1", "attach_d 0 F", "attach_d 1 0", "attach_i F", "attach_i 0", "drop_old", "drop_new", "notify 0 1", "notify 1 2", "drain 0", "run_once"].iter().map(|x| x.to_string()).collect()
    };
    let mut configs: Vec<String> = if variant == "cap" { vec!["new cap 2 2 1".into(), "new cap 1 2 2".into()] } else { vec![format!("new {variant} {} 2 1", real_capacity(variant))] };
    if a.rest.iter().any(|x| x == "one") { configs.truncate(1); }
    for cfg in configs.iter() {
        enumerate_seqs(&alphabet, a.exhaustive as usize, &mut |seq| {
            let mut lines = vec![cfg.clone()];
            let mut next = 0u64;
            let mut live: Vec<u64> = vec![];
            for &i in seq {
                let s = alphabet[i].replace(" F", &format!(" {FAR}"));
                let tk: Vec<&str> = s.split(' ').collect();
                match tk[0] {
                    "attach_n" | "attach_d" | "attach_i" => {
                        lines.push(format!("{} {next} {}", tk[0], tk[1..].join(" ")));
                        live.push(next);
                        next += 1;
                    }
                    "drop_old" | "drop" => lines.push(format!("drop_guard {}", if live.is_empty() { 99 } else { live.remove(0) })),
                    "drop_new" => lines.push(format!("drop_guard {}", live.pop().unwrap_or(99))),
                    _ => lines.push(s.clone()),
                }
            }
            lines.push("run_once".to_string());
            lines.push("len".to_string());
            lines.push("maps".to_string());
            cases.push(lines);
        });
    }
    cases
}
