//! C05: the real event back-ends (unix datagram socket, socket pair, semaphore; bit set and counting
//! bit set) driven sequentially: notify / try_wait through the `Event` concept.  Ties the trigger
//! abstraction of the step-level model (a counter: notify adds a signal, a wait consumes, empty_buffer
//! discards) to the real triggers: the model run to completion per call must give the same answers.
use crate::common::*;
use iceoryx2_bb_container::semantic_string::SemanticString;
use iceoryx2_bb_lock_free::mpmc::bit_set::RelocatableBitSet;
use iceoryx2_bb_lock_free::mpmc::counting_bit_set::RelocatableCountingBitSet;
use iceoryx2_bb_system_types::file_name::FileName;
use iceoryx2_cal::event::event_state::EventState;
use iceoryx2_cal::event::*;
use iceoryx2_cal::named_concept::NamedConceptBuilder;

static COUNTER: std::sync::atomic::AtomicUsize = std::sync::atomic::AtomicUsize::new(0);

trait Pair {
    fn notify(&self, id: usize) -> String;
    fn try_wait(&self) -> String;
}
struct P<E: EventState, T: Event<E>> {
    l: T::Listener,
    n: T::Notifier,
    _e: std::marker::PhantomData<E>,
}
impl<E: EventState, T: Event<E>> Pair for P<E, T> {
    fn notify(&self, id: usize) -> String {
        match self.n.notify(EventId::new(id)) {
            Ok(()) => "ok".into(),
            Err(e) => format!("err:{e:?}"),
        }
    }
    fn try_wait(&self) -> String {
        let mut got = vec![];
        match self.l.try_wait(|a| got.push((a.id.as_value(), a.count))) {
            Ok(_) => {
                got.sort();
                if got.is_empty() { "-".into() } else { got.iter().map(|(i, c)| format!("{i}:{c}")).collect::<Vec<_>>().join(",") }
            }
            Err(e) => format!("err:{e:?}"),
        }
    }
}
fn mk<E: EventState + 'static, T: Event<E> + 'static>(nids: usize) -> Result<Box<dyn Pair>, String> {
    let k = COUNTER.fetch_add(1, std::sync::atomic::Ordering::Relaxed);
    let name = FileName::new(format!("vev{}x{k}", std::process::id()).as_bytes()).unwrap();
    let l = <T::ListenerBuilder as NamedConceptBuilder<T>>::new(&name).event_id_max(EventId::new(nids.saturating_sub(1))).create().map_err(|e| format!("err:{e:?}"))?;
    let n = <T::NotifierBuilder as NamedConceptBuilder<T>>::new(&name).open().map_err(|e| format!("err:{e:?}"))?;
    Ok(Box::new(P::<E, T> { l, n, _e: std::marker::PhantomData }))
}
pub struct EventSeqComp {
    p: Option<Box<dyn Pair>>,
}
impl EventSeqComp {
    pub fn new() -> Self {
        EventSeqComp { p: None }
    }
}
impl Comp for EventSeqComp {
    fn exec(&mut self, t: &[&str]) -> String {
        match t[0] {
            "new" => {
                self.p = None;
                let nids: usize = t[3].parse().unwrap();
                let r = match (t[1], t[2]) {
                    ("uds", "0") => mk::<RelocatableBitSet, UnixDatagramShmBitSet>(nids),
                    ("uds", _) => mk::<RelocatableCountingBitSet, UnixDatagramShmCountingBitSet>(nids),
                    ("pair", "0") => mk::<RelocatableBitSet, SocketPairBitSet>(nids),
                    ("pair", _) => mk::<RelocatableCountingBitSet, SocketPairCountingBitSet>(nids),
                    ("sem", "0") => mk::<RelocatableBitSet, SemaphoreShmBitSet>(nids),
                    (_, _) => mk::<RelocatableCountingBitSet, SemaphoreShmCountingBitSet>(nids),
                };
                match r { Ok(p) => { self.p = Some(p); "ok".into() } Err(e) => e }
            }
            "notify" => self.p.as_ref().map(|p| p.notify(t[1].parse().unwrap())).unwrap_or("no-event".into()),
            "try_wait" => self.p.as_ref().map(|p| p.try_wait()).unwrap_or("no-event".into()),
            _ => panic!("bad op"),
        }
    }
}
pub fn generate(a: &Args) -> Vec<Vec<String>> {
    let mut rng = Rng::new(a.seed);
    let mut cases = vec![];
    for _ in 0..a.cases {
        let nids = *rng.pick(&[1usize, 3, 9, 17]);
        let mut lines = vec![format!("new {} {} {nids}", rng.pick(&["uds", "pair", "sem"]), rng.below(2))];
        for _ in 0..rng.range(2, a.len) {
            lines.push(if rng.chance(70) { format!("notify {}", rng.below(nids as u64 + 1)) } else { "try_wait".into() });
        }
        lines.push("try_wait".into());
        lines.push("try_wait".into());
        cases.push(lines);
    }
    cases
}
