//! C18: component `ffi` — every operation is executed through the Rust API and through the C API
//! (`iceoryx2_ffi_c::iox2_*`, called directly) on services with identical configuration:
//!
//!   world r  : service, publisher/notifier and subscriber/listener through the Rust API (reference)
//!   world c  : everything through the C API
//!   world rc : service created and published/notified through Rust, opened and received/listened through C
//!   world cr : service created and published/notified through C, opened and received/listened through Rust
//!
//! One op line = one logical call, executed in all four worlds.  Output `r=<..> c=<..> rc=<..> cr=<..>`.
//! Oracle (`oracle_fail`): the four canonical outcomes are equal, where an error reported by the Rust
//! API is translated to the C variant the generated table (`lean/Iox2/Gen/ffi_errors.tsv`, written
//! by extract/ffi_errors.py from the binding's sources) assigns to it.  `fin` drops every handle
//! and checks that nothing with the case's config prefix is left in the service / node
//! directories and /dev/shm.  `new names`: every `iox2_*_string` function is called with every
//! code of its enum and compared with the translated table.
//!
//! Only legal call sequences are issued (a panic inside an `extern "C"` function aborts).
use crate::common::*;
use iceoryx2::port::listener::Listener;
use iceoryx2::port::notifier::Notifier;
use iceoryx2::port::publisher::Publisher;
use iceoryx2::port::subscriber::Subscriber;
use iceoryx2::port::update_connections::UpdateConnections;
use iceoryx2::prelude::*;
use iceoryx2::sample::Sample;
use iceoryx2::sample_mut_uninit::SampleMutUninit;
use iceoryx2_ffi_c::*;
use std::collections::{BTreeMap, HashMap, HashSet};
use std::ffi::{c_char, c_int, c_void, CStr, CString};
use std::fmt::Debug;
use std::mem::{size_of, MaybeUninit};
use std::ptr::null_mut;

type S = ipc::Service;
static CASE_COUNTER: std::sync::atomic::AtomicUsize = std::sync::atomic::AtomicUsize::new(0);

// ---------------------------------------------------------------------------------------------
// the translated error table

pub struct Table {
    ok: i32,
    variants: HashMap<String, Vec<(String, i32, String)>>,
    string_fn: BTreeMap<String, String>,
    map: HashMap<(String, String), (String, String)>,
    unmapped: HashSet<(String, String)>,
}

fn load_table() -> Table {
    let path = std::env::var("VERIF_FFI_TABLE").unwrap_or_else(|_| concat!(env!("CARGO_MANIFEST_DIR"), "/../lean/Iox2/Gen/ffi_errors.tsv").to_string());
    let text = std::fs::read_to_string(&path).unwrap_or_else(|e| {
        eprintln!("ffi: cannot read the translated error table {path}: {e} (run extract/ffi_errors.py)");
        std::process::exit(3)
    });
    let mut t = Table { ok: 0, variants: HashMap::new(), string_fn: BTreeMap::new(), map: HashMap::new(), unmapped: HashSet::new() };
    for l in text.lines() {
        let f: Vec<&str> = l.split('\t').collect();
        match f[0] {
            "OK" => t.ok = f[1].parse().unwrap(),
            "E" => {
                t.variants.entry(f[1].to_string()).or_default();
                if f[2] != "-" {
                    t.string_fn.insert(f[1].to_string(), f[2].to_string());
                }
            }
            "V" => t.variants.entry(f[1].to_string()).or_default().push((f[2].to_string(), f[3].parse().unwrap(), f.get(4).unwrap_or(&"").to_string())),
            "M" => {
                t.map.insert((f[2].to_string(), f[3].to_string()), (f[1].to_string(), f[4].to_string()));
            }
            "U" => {
                t.unmapped.insert((f[2].to_string(), f[3].to_string()));
            }
            _ => {}
        }
    }
    t
}

thread_local! {
    static TABLE: Table = load_table();
}

/// outcome of one call on one side
#[derive(Clone, Debug)]
pub enum Out {
    Ok(String),
    /// Rust API error: enum name, Debug text of the value
    R(&'static str, String),
    /// C API error: enum the function is documented to return, code
    C(&'static str, i32),
    /// the harness could not perform the call (label unknown …): same in every world by construction
    Skip(&'static str),
}

/// `A(B(C))` -> [`A(B(C))`, `A(B(_))`, `A(_)`]: candidates for the flattened variant label of the table
fn flat_candidates(dbg: &str) -> Vec<String> {
    let mut v = vec![dbg.to_string()];
    let bytes: Vec<char> = dbg.chars().collect();
    let maxdepth = {
        let (mut d, mut m) = (0, 0);
        for c in &bytes {
            if *c == '(' || *c == '{' { d += 1; m = m.max(d) }
            if *c == ')' || *c == '}' { d -= 1 }
        }
        m
    };
    for depth in (1..=maxdepth).rev() {
        // replace the content of the first group at `depth` by `_`, drop everything nested deeper
        let mut out = String::new();
        let mut d = 0;
        for c in &bytes {
            if *c == '(' || *c == '{' {
                d += 1;
                if d <= depth { out.push('(') }
                if d == depth { out.push('_') }
                continue;
            }
            if *c == ')' || *c == '}' {
                if d <= depth { out.push(')') }
                d -= 1;
                continue;
            }
            if d < depth { out.push(*c) }
        }
        v.push(out.replace(" (", "("));
    }
    v
}

/// (text shown, canonical form compared across worlds)
fn canon(o: &Out) -> (String, String) {
    TABLE.with(|t| match o {
        Out::Ok(s) => (s.clone(), s.clone()),
        Out::Skip(s) => (s.to_string(), s.to_string()),
        Out::R(en, dbg) => {
            for cand in flat_candidates(dbg) {
                if let Some((ce, cv)) = t.map.get(&(en.to_string(), cand.clone())) {
                    return (format!("err:{en}::{cand}"), format!("err:{ce}::{cv}"));
                }
                if t.unmapped.contains(&(en.to_string(), cand.clone())) {
                    return (format!("err:{en}::{cand}"), format!("err:no-C-code:{en}::{cand}"));
                }
            }
            (format!("err:{en}::{dbg}"), format!("err:not-in-table:{en}::{dbg}"))
        }
        Out::C(en, code) => {
            if *code == t.ok {
                return (format!("err:{en}::#{code}=IOX2_OK"), format!("err:{en}::#{code}=IOX2_OK"));
            }
            match t.variants.get(*en).and_then(|vs| vs.iter().find(|v| v.1 == *code)) {
                Some(v) => (format!("err:{}({code})", v.0), format!("err:{en}::{}", v.0)),
                None => (format!("err:{en}::#{code}"), format!("err:{en}::#{code}")),
            }
        }
    })
}

// ---------------------------------------------------------------------------------------------
// payload types of the Rust world (the C world gets the same type details explicitly)

#[derive(Clone, Copy, Debug)]
#[repr(C, align(16))]
pub struct A16([u8; 16]);
unsafe impl ZeroCopySend for A16 {
    unsafe fn type_name() -> &'static str { "A16" }
}
#[derive(Clone, Copy, Debug)]
#[repr(C, align(64))]
pub struct A64([u8; 128]);
unsafe impl ZeroCopySend for A64 {
    unsafe fn type_name() -> &'static str { "verif::A64" }
}
#[derive(Clone, Copy, Debug)]
#[repr(C)]
pub struct Odd([u16; 7]);
unsafe impl ZeroCopySend for Odd {
    unsafe fn type_name() -> &'static str { "Odd" }
}

pub trait Pod: ZeroCopySend + Debug + Copy + 'static {}
impl<T: ZeroCopySend + Debug + Copy + 'static> Pod for T {}

pub trait Hdr: ZeroCopySend + Debug + Copy + Default + 'static {
    fn from_u64(v: u64) -> Self;
    fn show(&self) -> String;
}
impl Hdr for () {
    fn from_u64(_: u64) -> Self {}
    fn show(&self) -> String { String::new() }
}
impl Hdr for u64 {
    fn from_u64(v: u64) -> Self { v }
    fn show(&self) -> String { hex(&self.to_le_bytes()) }
}
impl Hdr for A16 {
    fn from_u64(v: u64) -> Self { let mut a = [0u8; 16]; a[..8].copy_from_slice(&v.to_le_bytes()); a[8..].copy_from_slice(&(!v).to_le_bytes()); A16(a) }
    fn show(&self) -> String { hex(&self.0) }
}
impl Default for A16 {
    fn default() -> Self { A16([0; 16]) }
}

fn hex(b: &[u8]) -> String {
    b.iter().map(|x| format!("{x:02x}")).collect()
}
fn pattern(seed: u64, len: usize) -> Vec<u8> {
    (0..len).map(|i| (seed.wrapping_mul(31).wrapping_add(i as u64 * 7 + 1) & 0xff) as u8).collect()
}
fn show_bytes(b: &[u8]) -> String {
    let mut h: u64 = 0xcbf29ce484222325;
    for x in b {
        h ^= *x as u64;
        h = h.wrapping_mul(0x100000001b3);
    }
    let head: String = b.iter().take(12).map(|x| format!("{x:02x}")).collect();
    format!("{}B:{head}{}#{:08x}", b.len(), if b.len() > 12 { ".." } else { "" }, h as u32)
}

#[derive(Clone, Debug)]
pub struct TypeInfo {
    dynamic: bool,
    name: String,
    size: usize,
    align: usize,
}
#[derive(Clone, Debug)]
pub struct PsCfg {
    slice: bool,
    ty: usize,
    hdr: usize,
    max_pubs: usize,
    max_subs: usize,
    buf: usize,
    hist: usize,
    borrow: usize,
    overflow: bool,
}

/// what one participant side of a publish-subscribe world can do
pub trait PsSide {
    fn cpub(&mut self, p: usize, max_loans: usize, max_len: usize) -> Out;
    fn dpub(&mut self, p: usize) -> Out;
    fn csub(&mut self, s: usize, buf: Option<usize>) -> Out;
    fn dsub(&mut self, s: usize) -> Out;
    fn loan(&mut self, p: usize, l: usize, n: usize) -> Out;
    fn send(&mut self, p: usize, l: usize, seed: u64) -> Out;
    fn dloan(&mut self, p: usize, l: usize) -> Out;
    fn scopy(&mut self, p: usize, seed: u64, n: usize) -> Out;
    fn recv(&mut self, s: usize) -> Out;
    fn dsample(&mut self, s: usize, k: usize) -> Out;
    fn has(&mut self, s: usize) -> Out;
    fn upd(&mut self, p: usize) -> Out;
    fn counts(&mut self) -> Out;
    fn details(&self) -> (TypeInfo, TypeInfo);
    /// service-level calls that must fail: open-missing, create-dup, open-badtype, ooc-badtype, open-limits
    fn extra(&mut self, what: &str) -> Out;
    /// forgets (leaks) a publisher: used by the self-test of the leak oracle only
    fn forget_pub(&mut self, p: usize);
    /// drops every handle of this side (ports, samples, service, node)
    fn fin(&mut self);
}

// ---------------------------------------------------------------------------------------------
// Rust side

/// own root directory: the shared /tmp/iceoryx2/{nodes,services} directories hold thousands of entries of
/// other test processes and every node creation lists (and stats) them
fn root_dir() -> String {
    // tmpfs: the static storages are fsync-ed on creation, which is slow on a loaded disk
    format!("{}/vf18_{}/", if std::path::Path::new("/dev/shm").is_dir() { "/dev/shm" } else { "/tmp" }, std::process::id())
}
fn rust_config(prefix: &str) -> iceoryx2::config::Config {
    let mut config = iceoryx2::config::Config::global_config().clone();
    config.global.prefix = iceoryx2_bb_system_types::file_name::FileName::new(prefix.as_bytes()).unwrap();
    config.global.set_root_path(&iceoryx2_bb_system_types::path::Path::new(root_dir().as_bytes()).unwrap());
    config
}
fn rust_node(prefix: &str) -> Result<Node<S>, Out> {
    NodeBuilder::new().config(&rust_config(prefix)).create::<S>().map_err(|e| Out::R("NodeCreationFailure", format!("{e:?}")))
}

macro_rules! r_ps_side {
    ($name:ident, $pay:ty, $uninit:ty, $dynamic:tt,
     loan = |$lp:ident, $ln:ident| $loan:expr,
     bytes_mut = |$bm:ident| $bytes_mut:expr,
     bytes = |$br:ident| $bytes:expr) => {
        pub struct $name<T: Pod, H: Hdr> {
            node: Option<Node<S>>,
            svc: Option<iceoryx2::service::port_factory::publish_subscribe::PortFactory<S, $pay, H>>,
            pubs: HashMap<usize, Publisher<S, $pay, H>>,
            subs: HashMap<usize, Subscriber<S, $pay, H>>,
            loans: HashMap<(usize, usize), SampleMutUninit<S, $uninit, H>>,
            samples: HashMap<usize, Vec<Sample<S, $pay, H>>>,
            origins: Vec<u128>,
            hdr: bool,
            name: String,
        }
        impl<T: Pod, H: Hdr> $name<T, H> {
            fn make(prefix: &str, name: &str, cfg: &PsCfg, create: bool) -> Result<Box<dyn PsSide>, Out> {
                let node = rust_node(prefix)?;
                let sn = ServiceName::new(name).unwrap();
                let b = node.service_builder(&sn).publish_subscribe::<$pay>().user_header::<H>();
                let svc = if create {
                    b.max_publishers(cfg.max_pubs)
                        .max_subscribers(cfg.max_subs)
                        .subscriber_max_buffer_size(cfg.buf)
                        .history_size(cfg.hist)
                        .subscriber_max_borrowed_samples(cfg.borrow)
                        .enable_safe_overflow(cfg.overflow)
                        .create()
                        .map_err(|e| Out::R("PublishSubscribeCreateError", format!("{e:?}")))?
                } else {
                    b.open().map_err(|e| Out::R("PublishSubscribeOpenError", format!("{e:?}")))?
                };
                Ok(Box::new($name::<T, H> { node: Some(node), svc: Some(svc), pubs: HashMap::new(), subs: HashMap::new(), loans: HashMap::new(), samples: HashMap::new(), origins: vec![], hdr: cfg.hdr != 0, name: name.to_string() }))
            }
        }
        impl<T: Pod, H: Hdr> PsSide for $name<T, H> {
            fn cpub(&mut self, p: usize, max_loans: usize, max_len: usize) -> Out {
                if self.pubs.contains_key(&p) { return Out::Skip("dup") }
                let b = self.svc.as_ref().unwrap().publisher_builder().max_loaned_samples(max_loans).backpressure_strategy(BackpressureStrategy::DiscardData);
                let r = r_ps_side!(@create $dynamic, b, max_len);
                match r {
                    Ok(x) => { self.pubs.insert(p, x); Out::Ok("ok".into()) }
                    Err(e) => Out::R("PublisherCreateError", format!("{e:?}")),
                }
            }
            fn dpub(&mut self, p: usize) -> Out {
                // loans of the publisher go first (the C handles must not outlive … nothing: both APIs allow any order; keep both worlds alike)
                match self.pubs.remove(&p) { Some(x) => { drop(x); Out::Ok("ok".into()) } None => Out::Skip("none") }
            }
            fn csub(&mut self, s: usize, buf: Option<usize>) -> Out {
                if self.subs.contains_key(&s) { return Out::Skip("dup") }
                let mut b = self.svc.as_ref().unwrap().subscriber_builder();
                if let Some(n) = buf { b = b.buffer_size(n) }
                match b.create() {
                    Ok(x) => { self.subs.insert(s, x); self.samples.entry(s).or_default(); Out::Ok("ok".into()) }
                    Err(e) => Out::R("SubscriberCreateError", format!("{e:?}")),
                }
            }
            fn dsub(&mut self, s: usize) -> Out {
                match self.subs.remove(&s) { Some(x) => { drop(x); Out::Ok("ok".into()) } None => Out::Skip("none") }
            }
            fn loan(&mut self, p: usize, l: usize, n: usize) -> Out {
                if self.loans.contains_key(&(p, l)) { return Out::Skip("dup") }
                let Some($lp) = self.pubs.get(&p) else { return Out::Skip("none") };
                let $ln = n;
                match $loan {
                    Ok(x) => { self.loans.insert((p, l), x); Out::Ok("ok".into()) }
                    Err(e) => Out::R("LoanError", format!("{e:?}")),
                }
            }
            fn send(&mut self, p: usize, l: usize, seed: u64) -> Out {
                let Some(mut $bm) = self.loans.remove(&(p, l)) else { return Out::Skip("none") };
                if self.hdr { *$bm.user_header_mut() = H::from_u64(seed ^ 0x5555) }
                let (ptr, len): (*mut u8, usize) = $bytes_mut;
                let pat = pattern(seed, len);
                unsafe { std::ptr::copy_nonoverlapping(pat.as_ptr(), ptr, len) };
                match unsafe { $bm.assume_init() }.send() {
                    Ok(k) => Out::Ok(format!("ok:{k}")),
                    Err(e) => Out::R("SendError", format!("{e:?}")),
                }
            }
            fn dloan(&mut self, p: usize, l: usize) -> Out {
                match self.loans.remove(&(p, l)) { Some(x) => { drop(x); Out::Ok("ok".into()) } None => Out::Skip("none") }
            }
            fn scopy(&mut self, p: usize, seed: u64, n: usize) -> Out {
                let Some($lp) = self.pubs.get(&p) else { return Out::Skip("none") };
                r_ps_side!(@scopy $dynamic, $lp, seed, n, T, H, self.hdr)
            }
            fn recv(&mut self, s: usize) -> Out {
                let Some(sub) = self.subs.get(&s) else { return Out::Skip("none") };
                match sub.receive() {
                    Ok(Some($br)) => {
                        let o = $br.origin().value();
                        let k = match self.origins.iter().position(|x| *x == o) { Some(k) => k, None => { self.origins.push(o); self.origins.len() - 1 } };
                        let (ptr, len, n): (*const u8, usize, usize) = $bytes;
                        let b = unsafe { std::slice::from_raw_parts(ptr, len) }.to_vec();
                        let hn = $br.header().number_of_elements();
                        let uh = $br.user_header().show();
                        self.samples.get_mut(&s).unwrap().push($br);
                        Out::Ok(format!("some:o{k}:n{n}/{hn}:h{uh}:{}", show_bytes(&b)))
                    }
                    Ok(None) => Out::Ok("none".into()),
                    Err(e) => Out::R("ReceiveError", format!("{e:?}")),
                }
            }
            fn dsample(&mut self, s: usize, k: usize) -> Out {
                match self.samples.get_mut(&s) { Some(v) if k < v.len() => { drop(v.remove(k)); Out::Ok("ok".into()) } _ => Out::Skip("none") }
            }
            fn has(&mut self, s: usize) -> Out {
                let Some(sub) = self.subs.get(&s) else { return Out::Skip("none") };
                match sub.has_samples() { Ok(b) => Out::Ok(format!("{b}")), Err(e) => Out::R("ConnectionFailure", format!("{e:?}")) }
            }
            fn upd(&mut self, p: usize) -> Out {
                let Some(x) = self.pubs.get(&p) else { return Out::Skip("none") };
                match x.update_connections() { Ok(()) => Out::Ok("ok".into()), Err(e) => Out::R("ConnectionFailure", format!("{e:?}")) }
            }
            fn counts(&mut self) -> Out {
                let d = self.svc.as_ref().unwrap().dynamic_config();
                Out::Ok(format!("p{}s{}", d.number_of_publishers(), d.number_of_subscribers()))
            }
            fn details(&self) -> (TypeInfo, TypeInfo) {
                let m = self.svc.as_ref().unwrap().static_config().message_type_details();
                let f = |d: &iceoryx2::service::static_config::message_type_details::TypeDetail| TypeInfo {
                    dynamic: d.variant() == iceoryx2::service::static_config::message_type_details::TypeVariant::Dynamic,
                    name: format!("{}", d.type_name()), size: d.size(), align: d.alignment() };
                (f(&m.payload), f(&m.user_header))
            }
            fn forget_pub(&mut self, p: usize) {
                if let Some(x) = self.pubs.remove(&p) { std::mem::forget(x) }
            }
            fn extra(&mut self, what: &str) -> Out {
                let node = self.node.as_ref().unwrap();
                let sn = ServiceName::new(&self.name).unwrap();
                let missing = ServiceName::new(&format!("{}/missing", self.name)).unwrap();
                match what {
                    "open-missing" => match node.service_builder(&missing).publish_subscribe::<$pay>().user_header::<H>().open() {
                        Ok(_) => Out::Ok("opened".into()), Err(e) => Out::R("PublishSubscribeOpenError", format!("{e:?}")) },
                    "create-dup" => match node.service_builder(&sn).publish_subscribe::<$pay>().user_header::<H>().create() {
                        Ok(_) => Out::Ok("created".into()), Err(e) => Out::R("PublishSubscribeCreateError", format!("{e:?}")) },
                    "open-badtype" => match node.service_builder(&sn).publish_subscribe::<u32>().user_header::<H>().open() {
                        Ok(_) => Out::Ok("opened".into()), Err(e) => Out::R("PublishSubscribeOpenError", format!("{e:?}")) },
                    "ooc-badtype" => match node.service_builder(&sn).publish_subscribe::<u32>().user_header::<H>().open_or_create() {
                        Ok(_) => Out::Ok("opened".into()), Err(e) => Out::R("PublishSubscribeOpenOrCreateError", format!("{e:?}")) },
                    "open-limits" => match node.service_builder(&sn).publish_subscribe::<$pay>().user_header::<H>().max_publishers(100).open() {
                        Ok(_) => Out::Ok("opened".into()), Err(e) => Out::R("PublishSubscribeOpenError", format!("{e:?}")) },
                    _ => panic!("bad extra"),
                }
            }
            fn fin(&mut self) {
                self.samples.clear();
                self.loans.clear();
                self.pubs.clear();
                self.subs.clear();
                self.svc = None;
                self.node = None;
            }
        }
    };
    (@create false, $b:ident, $max_len:ident) => { $b.create() };
    (@create true, $b:ident, $max_len:ident) => { $b.initial_max_slice_len($max_len).allocation_strategy(AllocationStrategy::Static).create() };
    (@scopy false, $p:ident, $seed:ident, $n:ident, $T:ident, $H:ident, $hdr:expr) => {{
        let pat = pattern($seed, size_of::<$T>());
        let mut v = MaybeUninit::<$T>::uninit();
        unsafe { std::ptr::copy_nonoverlapping(pat.as_ptr(), v.as_mut_ptr() as *mut u8, pat.len()) };
        let _ = $n;
        match $p.send_copy(unsafe { v.assume_init() }) { Ok(k) => Out::Ok(format!("ok:{k}")), Err(e) => Out::R("SendError", format!("{e:?}")) }
    }};
    (@scopy true, $p:ident, $seed:ident, $n:ident, $T:ident, $H:ident, $hdr:expr) => {{
        // the Rust API has no send_slice_copy: loan + copy + send, a failed loan reported as SendError::LoanError
        match $p.loan_slice_uninit($n) {
            Err(e) => Out::R("SendError", format!("LoanError({e:?})")),
            Ok(mut s) => {
                let sl = s.payload_mut();
                let len = sl.len() * size_of::<$T>();
                let pat = pattern($seed, len);
                unsafe { std::ptr::copy_nonoverlapping(pat.as_ptr(), sl.as_mut_ptr() as *mut u8, len) };
                match unsafe { s.assume_init() }.send() { Ok(k) => Out::Ok(format!("ok:{k}")), Err(e) => Out::R("SendError", format!("{e:?}")) }
            }
        }
    }};
}

r_ps_side!(RFixed, T, MaybeUninit<T>, false,
    loan = |p, n| { let _ = n; p.loan_uninit() },
    bytes_mut = |s| (s.payload_mut().as_mut_ptr() as *mut u8, size_of::<T>()),
    bytes = |r| (r.payload() as *const T as *const u8, size_of::<T>(), 1));
r_ps_side!(RSlice, [T], [MaybeUninit<T>], true,
    loan = |p, n| p.loan_slice_uninit(n),
    bytes_mut = |s| { let sl = s.payload_mut(); (sl.as_mut_ptr() as *mut u8, sl.len() * size_of::<T>()) },
    bytes = |r| { let sl = r.payload(); (sl.as_ptr() as *const u8, sl.len() * size_of::<T>(), sl.len()) });

pub const N_TYPES: usize = 8;
pub const N_HDRS: usize = 3;
fn mk_r_ps(prefix: &str, name: &str, cfg: &PsCfg, create: bool) -> Result<Box<dyn PsSide>, Out> {
    macro_rules! with_hdr {
        ($t:ty) => {
            match (cfg.slice, cfg.hdr) {
                (false, 0) => RFixed::<$t, ()>::make(prefix, name, cfg, create),
                (false, 1) => RFixed::<$t, u64>::make(prefix, name, cfg, create),
                (false, _) => RFixed::<$t, A16>::make(prefix, name, cfg, create),
                (true, 0) => RSlice::<$t, ()>::make(prefix, name, cfg, create),
                (true, 1) => RSlice::<$t, u64>::make(prefix, name, cfg, create),
                (true, _) => RSlice::<$t, A16>::make(prefix, name, cfg, create),
            }
        };
    }
    match cfg.ty {
        0 => with_hdr!(u8),
        1 => with_hdr!(u16),
        2 => with_hdr!(u64),
        3 => with_hdr!(u128),
        4 => with_hdr!([u8; 3]),
        5 => with_hdr!(Odd),
        6 => with_hdr!(A16),
        _ => with_hdr!(A64),
    }
}

// ---------------------------------------------------------------------------------------------
// C side

struct CNode {
    node: iox2_node_h,
}
impl CNode {
    fn new(prefix: &str) -> Result<CNode, Out> {
        unsafe {
            let mut cfg: iox2_config_h = null_mut();
            iox2_config_from_ptr(iox2_config_global_config(), null_mut(), &mut cfg);
            let p = CString::new(prefix).unwrap();
            let rc = iox2_config_global_set_prefix(&cfg, p.as_ptr());
            if rc != IOX2_OK {
                iox2_config_drop(cfg);
                return Err(Out::C("iox2_semantic_string_error_e", rc));
            }
            let r = CString::new(root_dir()).unwrap();
            let rc = iox2_config_global_set_root_path(&cfg, r.as_ptr());
            if rc != IOX2_OK {
                iox2_config_drop(cfg);
                return Err(Out::C("iox2_semantic_string_error_e", rc));
            }
            let nb = iox2_node_builder_new(null_mut());
            iox2_node_builder_set_config(&nb, &cfg);
            let mut node: iox2_node_h = null_mut();
            let rc = iox2_node_builder_create(nb, null_mut(), iox2_service_type_e::IPC, &mut node);
            iox2_config_drop(cfg);
            if rc != IOX2_OK {
                return Err(Out::C("iox2_node_creation_failure_e", rc));
            }
            Ok(CNode { node })
        }
    }
    unsafe fn service_builder(&self, name: &str) -> iox2_service_builder_h {
        unsafe {
            let mut sn: iox2_service_name_h = null_mut();
            let rc = iox2_service_name_new(null_mut(), name.as_ptr() as *const c_char, name.len(), &mut sn);
            assert!(rc == IOX2_OK);
            let b = iox2_node_service_builder(&self.node, null_mut(), iox2_cast_service_name_ptr(sn));
            iox2_service_name_drop(sn);
            b
        }
    }
    fn fin(&mut self) {
        if !self.node.is_null() {
            unsafe { iox2_node_drop(self.node) };
            self.node = null_mut();
        }
    }
}

pub struct CPs {
    node: CNode,
    svc: iox2_port_factory_pub_sub_h,
    pubs: HashMap<usize, iox2_publisher_h>,
    subs: HashMap<usize, iox2_subscriber_h>,
    loans: HashMap<(usize, usize), iox2_sample_mut_h>,
    samples: HashMap<usize, Vec<iox2_sample_h>>,
    origins: Vec<iox2_unique_publisher_id_h>,
    pay: TypeInfo,
    uh: TypeInfo,
    hdr: usize,
    name: String,
}
impl CPs {
    fn make(prefix: &str, name: &str, cfg: &PsCfg, create: bool, pay: &TypeInfo, uh: &TypeInfo) -> Result<Box<dyn PsSide>, Out> {
        let mut node = CNode::new(prefix)?;
        unsafe {
            let b = iox2_service_builder_pub_sub(node.service_builder(name));
            let variant = |d: bool| if d { iox2_type_variant_e::DYNAMIC } else { iox2_type_variant_e::FIXED_SIZE };
            let rc = iox2_service_builder_pub_sub_set_payload_type_details(&b, variant(pay.dynamic), pay.name.as_ptr() as *const c_char, pay.name.len(), pay.size, pay.align);
            assert!(rc == IOX2_OK, "set_payload_type_details {rc}");
            let rc = iox2_service_builder_pub_sub_set_user_header_type_details(&b, variant(uh.dynamic), uh.name.as_ptr() as *const c_char, uh.name.len(), uh.size, uh.align);
            assert!(rc == IOX2_OK, "set_user_header_type_details {rc}");
            let mut svc: iox2_port_factory_pub_sub_h = null_mut();
            let rc = if create {
                iox2_service_builder_pub_sub_set_max_publishers(&b, cfg.max_pubs);
                iox2_service_builder_pub_sub_set_max_subscribers(&b, cfg.max_subs);
                iox2_service_builder_pub_sub_set_subscriber_max_buffer_size(&b, cfg.buf);
                iox2_service_builder_pub_sub_set_history_size(&b, cfg.hist);
                iox2_service_builder_pub_sub_set_subscriber_max_borrowed_samples(&b, cfg.borrow);
                iox2_service_builder_pub_sub_set_enable_safe_overflow(&b, cfg.overflow);
                iox2_service_builder_pub_sub_create(b, null_mut(), &mut svc)
            } else {
                iox2_service_builder_pub_sub_open(b, null_mut(), &mut svc)
            };
            if rc != IOX2_OK {
                node.fin();
                return Err(Out::C("iox2_pub_sub_open_or_create_error_e", rc));
            }
            Ok(Box::new(CPs { node, svc, pubs: HashMap::new(), subs: HashMap::new(), loans: HashMap::new(), samples: HashMap::new(), origins: vec![], pay: pay.clone(), uh: uh.clone(), hdr: cfg.hdr, name: name.to_string() }))
        }
    }
    unsafe fn write_hdr(&self, h: iox2_sample_mut_h, seed: u64) {
        if self.hdr == 0 { return }
        unsafe {
            let mut p: *mut c_void = null_mut();
            iox2_sample_mut_user_header_mut(&h, &mut p);
            let v = seed ^ 0x5555;
            if self.hdr == 1 {
                std::ptr::copy_nonoverlapping(v.to_le_bytes().as_ptr(), p as *mut u8, 8);
            } else {
                let a = <A16 as Hdr>::from_u64(v);
                std::ptr::copy_nonoverlapping(a.0.as_ptr(), p as *mut u8, 16);
            }
        }
    }
}
impl PsSide for CPs {
    fn cpub(&mut self, p: usize, max_loans: usize, max_len: usize) -> Out {
        if self.pubs.contains_key(&p) { return Out::Skip("dup") }
        unsafe {
            let b = iox2_port_factory_pub_sub_publisher_builder(&self.svc, null_mut());
            iox2_port_factory_publisher_builder_set_max_loaned_samples(&b, max_loans);
            iox2_port_factory_publisher_builder_backpressure_strategy(&b, iox2_backpressure_strategy_e::DISCARD_DATA);
            if self.pay.dynamic {
                iox2_port_factory_publisher_builder_set_initial_max_slice_len(&b, max_len);
                iox2_port_factory_publisher_builder_set_allocation_strategy(&b, iox2_allocation_strategy_e::STATIC);
            }
            let mut h: iox2_publisher_h = null_mut();
            let rc = iox2_port_factory_publisher_builder_create(b, null_mut(), &mut h);
            if rc != IOX2_OK { return Out::C("iox2_publisher_create_error_e", rc) }
            self.pubs.insert(p, h);
            Out::Ok("ok".into())
        }
    }
    fn dpub(&mut self, p: usize) -> Out {
        match self.pubs.remove(&p) { Some(h) => { unsafe { iox2_publisher_drop(h) }; Out::Ok("ok".into()) } None => Out::Skip("none") }
    }
    fn csub(&mut self, s: usize, buf: Option<usize>) -> Out {
        if self.subs.contains_key(&s) { return Out::Skip("dup") }
        unsafe {
            let b = iox2_port_factory_pub_sub_subscriber_builder(&self.svc, null_mut());
            if let Some(n) = buf { iox2_port_factory_subscriber_builder_set_buffer_size(&b, n) }
            let mut h: iox2_subscriber_h = null_mut();
            let rc = iox2_port_factory_subscriber_builder_create(b, null_mut(), &mut h);
            if rc != IOX2_OK { return Out::C("iox2_subscriber_create_error_e", rc) }
            self.subs.insert(s, h);
            self.samples.entry(s).or_default();
            Out::Ok("ok".into())
        }
    }
    fn dsub(&mut self, s: usize) -> Out {
        match self.subs.remove(&s) { Some(h) => { unsafe { iox2_subscriber_drop(h) }; Out::Ok("ok".into()) } None => Out::Skip("none") }
    }
    fn loan(&mut self, p: usize, l: usize, n: usize) -> Out {
        if self.loans.contains_key(&(p, l)) { return Out::Skip("dup") }
        let Some(h) = self.pubs.get(&p) else { return Out::Skip("none") };
        let n = if self.pay.dynamic { n } else { 1 };
        unsafe {
            let mut s: iox2_sample_mut_h = null_mut();
            let rc = iox2_publisher_loan_slice_uninit(h, null_mut(), &mut s, n);
            if rc != IOX2_OK { return Out::C("iox2_loan_error_e", rc) }
            self.loans.insert((p, l), s);
            Out::Ok("ok".into())
        }
    }
    fn send(&mut self, p: usize, l: usize, seed: u64) -> Out {
        let Some(h) = self.loans.remove(&(p, l)) else { return Out::Skip("none") };
        unsafe {
            self.write_hdr(h, seed);
            let mut ptr: *mut c_void = null_mut();
            let mut n: usize = 0;
            iox2_sample_mut_payload_mut(&h, &mut ptr, &mut n);
            let len = n * self.pay.size;
            let pat = pattern(seed, len);
            std::ptr::copy_nonoverlapping(pat.as_ptr(), ptr as *mut u8, len);
            let mut k: usize = 0;
            let rc = iox2_sample_mut_send(h, &mut k);
            if rc != IOX2_OK { return Out::C("iox2_send_error_e", rc) }
            Out::Ok(format!("ok:{k}"))
        }
    }
    fn dloan(&mut self, p: usize, l: usize) -> Out {
        match self.loans.remove(&(p, l)) { Some(h) => { unsafe { iox2_sample_mut_drop(h) }; Out::Ok("ok".into()) } None => Out::Skip("none") }
    }
    fn scopy(&mut self, p: usize, seed: u64, n: usize) -> Out {
        let Some(h) = self.pubs.get(&p) else { return Out::Skip("none") };
        unsafe {
            let mut k: usize = 0;
            let rc = if self.pay.dynamic {
                let pat = pattern(seed, n * self.pay.size);
                // memory with the alignment of the element type is not required for a memcpy source
                iox2_publisher_send_slice_copy(h, if pat.is_empty() { std::ptr::NonNull::<u8>::dangling().as_ptr() as *const c_void } else { pat.as_ptr() as *const c_void }, self.pay.size, n, &mut k)
            } else {
                let pat = pattern(seed, self.pay.size);
                iox2_publisher_send_copy(h, pat.as_ptr() as *const c_void, self.pay.size, &mut k)
            };
            if rc != IOX2_OK { return Out::C("iox2_send_error_e", rc) }
            Out::Ok(format!("ok:{k}"))
        }
    }
    fn recv(&mut self, s: usize) -> Out {
        let Some(h) = self.subs.get(&s) else { return Out::Skip("none") };
        unsafe {
            let mut sample: iox2_sample_h = null_mut();
            let rc = iox2_subscriber_receive(h, null_mut(), &mut sample);
            if rc != IOX2_OK { return Out::C("iox2_receive_error_e", rc) }
            if sample.is_null() { return Out::Ok("none".into()) }
            let mut ptr: *const c_void = std::ptr::null();
            let mut n: usize = 0;
            iox2_sample_payload(&sample, &mut ptr, &mut n);
            let nbytes = iox2_sample_payload_number_of_bytes(&sample);
            if nbytes != n * self.pay.size {
                oracle_fail(format!("C: payload_number_of_bytes {nbytes} != elements {n} * size {}", self.pay.size));
            }
            let b = std::slice::from_raw_parts(ptr as *const u8, n * self.pay.size).to_vec();
            if (ptr as usize) % self.pay.align != 0 {
                oracle_fail(format!("C: payload pointer not aligned to {}", self.pay.align));
            }
            let mut hh: iox2_publish_subscribe_header_h = null_mut();
            iox2_sample_header(&sample, null_mut(), &mut hh);
            let hn = iox2_publish_subscribe_header_number_of_elements(&hh);
            let mut id: iox2_unique_publisher_id_h = null_mut();
            iox2_publish_subscribe_header_publisher_id(&hh, null_mut(), &mut id);
            iox2_publish_subscribe_header_drop(hh);
            let k = match self.origins.iter().position(|x| iox2_unique_publisher_id_eq(x, &id)) {
                Some(k) => { iox2_unique_publisher_id_drop(id); k }
                None => { self.origins.push(id); self.origins.len() - 1 }
            };
            let uh = if self.hdr == 0 { String::new() } else {
                let mut p: *const c_void = std::ptr::null();
                iox2_sample_user_header(&sample, &mut p);
                if (p as usize) % self.uh.align != 0 { oracle_fail(format!("C: user header pointer not aligned to {}", self.uh.align)) }
                hex(std::slice::from_raw_parts(p as *const u8, self.uh.size))
            };
            self.samples.get_mut(&s).unwrap().push(sample);
            Out::Ok(format!("some:o{k}:n{n}/{hn}:h{uh}:{}", show_bytes(&b)))
        }
    }
    fn dsample(&mut self, s: usize, k: usize) -> Out {
        match self.samples.get_mut(&s) { Some(v) if k < v.len() => { let h = v.remove(k); unsafe { iox2_sample_drop(h) }; Out::Ok("ok".into()) } _ => Out::Skip("none") }
    }
    fn has(&mut self, s: usize) -> Out {
        let Some(h) = self.subs.get(&s) else { return Out::Skip("none") };
        unsafe {
            let mut b = false;
            let rc = iox2_subscriber_has_samples(h, &mut b);
            if rc != IOX2_OK { return Out::C("iox2_connection_failure_e", rc) }
            Out::Ok(format!("{b}"))
        }
    }
    fn upd(&mut self, p: usize) -> Out {
        let Some(h) = self.pubs.get(&p) else { return Out::Skip("none") };
        let rc = unsafe { iox2_publisher_update_connections(h) };
        if rc != IOX2_OK { return Out::C("iox2_connection_failure_e", rc) }
        Out::Ok("ok".into())
    }
    fn counts(&mut self) -> Out {
        unsafe {
            Out::Ok(format!("p{}s{}", iox2_port_factory_pub_sub_dynamic_config_number_of_publishers(&self.svc), iox2_port_factory_pub_sub_dynamic_config_number_of_subscribers(&self.svc)))
        }
    }
    fn details(&self) -> (TypeInfo, TypeInfo) {
        (self.pay.clone(), self.uh.clone())
    }
    fn forget_pub(&mut self, p: usize) {
        let _ = self.pubs.remove(&p);
    }
    fn extra(&mut self, what: &str) -> Out {
        unsafe {
            let name = if what == "open-missing" { format!("{}/missing", self.name) } else { self.name.clone() };
            let b = iox2_service_builder_pub_sub(self.node.service_builder(&name));
            let variant = |d: bool| if d { iox2_type_variant_e::DYNAMIC } else { iox2_type_variant_e::FIXED_SIZE };
            let bad = what == "open-badtype" || what == "ooc-badtype";
            let (tn, ts, ta) = if bad { ("u32".to_string(), 4, 4) } else { (self.pay.name.clone(), self.pay.size, self.pay.align) };
            let rc = iox2_service_builder_pub_sub_set_payload_type_details(&b, variant(self.pay.dynamic && !bad), tn.as_ptr() as *const c_char, tn.len(), ts, ta);
            assert!(rc == IOX2_OK);
            let rc = iox2_service_builder_pub_sub_set_user_header_type_details(&b, variant(self.uh.dynamic), self.uh.name.as_ptr() as *const c_char, self.uh.name.len(), self.uh.size, self.uh.align);
            assert!(rc == IOX2_OK);
            let mut svc: iox2_port_factory_pub_sub_h = null_mut();
            let rc = match what {
                "open-missing" | "open-badtype" => iox2_service_builder_pub_sub_open(b, null_mut(), &mut svc),
                "create-dup" => iox2_service_builder_pub_sub_create(b, null_mut(), &mut svc),
                "ooc-badtype" => iox2_service_builder_pub_sub_open_or_create(b, null_mut(), &mut svc),
                "open-limits" => { iox2_service_builder_pub_sub_set_max_publishers(&b, 100); iox2_service_builder_pub_sub_open(b, null_mut(), &mut svc) }
                _ => panic!("bad extra"),
            };
            if rc != IOX2_OK { return Out::C("iox2_pub_sub_open_or_create_error_e", rc) }
            iox2_port_factory_pub_sub_drop(svc);
            Out::Ok(if what == "create-dup" { "created" } else { "opened" }.into())
        }
    }
    fn fin(&mut self) {
        unsafe {
            for (_, v) in self.samples.drain() { for h in v { iox2_sample_drop(h) } }
            for (_, h) in self.loans.drain() { iox2_sample_mut_drop(h) }
            for h in self.origins.drain(..) { iox2_unique_publisher_id_drop(h) }
            for (_, h) in self.pubs.drain() { iox2_publisher_drop(h) }
            for (_, h) in self.subs.drain() { iox2_subscriber_drop(h) }
            if !self.svc.is_null() { iox2_port_factory_pub_sub_drop(self.svc); self.svc = null_mut() }
        }
        self.node.fin();
    }
}

// ---------------------------------------------------------------------------------------------
// events

pub trait EvSide {
    fn cnot(&mut self, n: usize, default_id: Option<usize>) -> Out;
    fn dnot(&mut self, n: usize) -> Out;
    fn clis(&mut self, l: usize) -> Out;
    fn dlis(&mut self, l: usize) -> Out;
    fn notify(&mut self, n: usize, id: Option<usize>) -> Out;
    fn wait(&mut self, l: usize) -> Out;
    fn counts(&mut self) -> Out;
    /// service-level calls that must fail: open-missing, create-dup, open-limits, ooc-limits
    fn extra(&mut self, what: &str) -> Out;
    fn fin(&mut self);
}
#[derive(Clone, Debug)]
pub struct EvCfg {
    max_notifiers: usize,
    max_listeners: usize,
    id_max: usize,
}
pub struct REv {
    name: String,
    node: Option<Node<S>>,
    svc: Option<iceoryx2::service::port_factory::event::PortFactory<S>>,
    nots: HashMap<usize, Notifier<S>>,
    liss: HashMap<usize, Listener<S>>,
}
impl REv {
    fn make(prefix: &str, name: &str, cfg: &EvCfg, create: bool) -> Result<Box<dyn EvSide>, Out> {
        let node = rust_node(prefix)?;
        let sn = ServiceName::new(name).unwrap();
        let b = node.service_builder(&sn).event();
        let svc = if create {
            b.max_notifiers(cfg.max_notifiers).max_listeners(cfg.max_listeners).event_id_max_value(cfg.id_max).create().map_err(|e| Out::R("EventCreateError", format!("{e:?}")))?
        } else {
            b.open().map_err(|e| Out::R("EventOpenError", format!("{e:?}")))?
        };
        Ok(Box::new(REv { name: name.to_string(), node: Some(node), svc: Some(svc), nots: HashMap::new(), liss: HashMap::new() }))
    }
}
fn show_events(mut v: Vec<(usize, u64)>, n: u64) -> String {
    v.sort();
    let s: Vec<String> = v.iter().map(|(i, c)| format!("{i}x{c}")).collect();
    format!("{n}[{}]", s.join(","))
}
impl EvSide for REv {
    fn cnot(&mut self, n: usize, default_id: Option<usize>) -> Out {
        if self.nots.contains_key(&n) { return Out::Skip("dup") }
        let mut b = self.svc.as_ref().unwrap().notifier_builder();
        if let Some(i) = default_id { b = b.default_event_id(EventId::new(i)) }
        match b.create() { Ok(x) => { self.nots.insert(n, x); Out::Ok("ok".into()) } Err(e) => Out::R("NotifierCreateError", format!("{e:?}")) }
    }
    fn dnot(&mut self, n: usize) -> Out {
        match self.nots.remove(&n) { Some(x) => { drop(x); Out::Ok("ok".into()) } None => Out::Skip("none") }
    }
    fn clis(&mut self, l: usize) -> Out {
        if self.liss.contains_key(&l) { return Out::Skip("dup") }
        match self.svc.as_ref().unwrap().listener_builder().create() { Ok(x) => { self.liss.insert(l, x); Out::Ok("ok".into()) } Err(e) => Out::R("ListenerCreateError", format!("{e:?}")) }
    }
    fn dlis(&mut self, l: usize) -> Out {
        match self.liss.remove(&l) { Some(x) => { drop(x); Out::Ok("ok".into()) } None => Out::Skip("none") }
    }
    fn notify(&mut self, n: usize, id: Option<usize>) -> Out {
        let Some(x) = self.nots.get(&n) else { return Out::Skip("none") };
        let r = match id { Some(i) => x.notify_with_custom_event_id(EventId::new(i)), None => x.notify() };
        match r { Ok(k) => Out::Ok(format!("ok:{k}")), Err(e) => Out::R("NotifierNotifyError", format!("{e:?}")) }
    }
    fn wait(&mut self, l: usize) -> Out {
        let Some(x) = self.liss.get(&l) else { return Out::Skip("none") };
        let mut v = vec![];
        match x.try_wait(|e| v.push((e.id.as_value(), e.count))) { Ok(n) => Out::Ok(show_events(v, n)), Err(e) => Out::R("ListenerWaitError", format!("{e:?}")) }
    }
    fn counts(&mut self) -> Out {
        let d = self.svc.as_ref().unwrap().dynamic_config();
        Out::Ok(format!("n{}l{}", d.number_of_notifiers(), d.number_of_listeners()))
    }
    fn extra(&mut self, what: &str) -> Out {
        let node = self.node.as_ref().unwrap();
        let sn = ServiceName::new(&self.name).unwrap();
        let missing = ServiceName::new(&format!("{}/missing", self.name)).unwrap();
        match what {
            "open-missing" => match node.service_builder(&missing).event().open() { Ok(_) => Out::Ok("opened".into()), Err(e) => Out::R("EventOpenError", format!("{e:?}")) },
            "create-dup" => match node.service_builder(&sn).event().create() { Ok(_) => Out::Ok("created".into()), Err(e) => Out::R("EventCreateError", format!("{e:?}")) },
            "open-limits" => match node.service_builder(&sn).event().max_notifiers(100).open() { Ok(_) => Out::Ok("opened".into()), Err(e) => Out::R("EventOpenError", format!("{e:?}")) },
            "ooc-limits" => match node.service_builder(&sn).event().max_listeners(100).open_or_create() { Ok(_) => Out::Ok("opened".into()), Err(e) => Out::R("EventOpenOrCreateError", format!("{e:?}")) },
            _ => panic!("bad extra"),
        }
    }
    fn fin(&mut self) {
        self.nots.clear();
        self.liss.clear();
        self.svc = None;
        self.node = None;
    }
}
pub struct CEv {
    name: String,
    node: CNode,
    svc: iox2_port_factory_event_h,
    nots: HashMap<usize, iox2_notifier_h>,
    liss: HashMap<usize, iox2_listener_h>,
}
extern "C" fn collect_event(id: *const iox2_event_id_t, count: u64, ctx: iox2_callback_context) {
    let v = unsafe { &mut *(ctx as *mut Vec<(usize, u64)>) };
    v.push((unsafe { (*id).value }, count));
}
impl CEv {
    fn make(prefix: &str, name: &str, cfg: &EvCfg, create: bool) -> Result<Box<dyn EvSide>, Out> {
        let mut node = CNode::new(prefix)?;
        unsafe {
            let b = iox2_service_builder_event(node.service_builder(name));
            let mut svc: iox2_port_factory_event_h = null_mut();
            let rc = if create {
                iox2_service_builder_event_set_max_notifiers(&b, cfg.max_notifiers);
                iox2_service_builder_event_set_max_listeners(&b, cfg.max_listeners);
                iox2_service_builder_event_set_event_id_max_value(&b, cfg.id_max);
                iox2_service_builder_event_create(b, null_mut(), &mut svc)
            } else {
                iox2_service_builder_event_open(b, null_mut(), &mut svc)
            };
            if rc != IOX2_OK {
                node.fin();
                return Err(Out::C("iox2_event_open_or_create_error_e", rc));
            }
            Ok(Box::new(CEv { name: name.to_string(), node, svc, nots: HashMap::new(), liss: HashMap::new() }))
        }
    }
}
impl EvSide for CEv {
    fn cnot(&mut self, n: usize, default_id: Option<usize>) -> Out {
        if self.nots.contains_key(&n) { return Out::Skip("dup") }
        unsafe {
            let b = iox2_port_factory_event_notifier_builder(&self.svc, null_mut());
            if let Some(i) = default_id {
                let id = iox2_event_id_t { value: i };
                iox2_port_factory_notifier_builder_set_default_event_id(&b, &id);
            }
            let mut h: iox2_notifier_h = null_mut();
            let rc = iox2_port_factory_notifier_builder_create(b, null_mut(), &mut h);
            if rc != IOX2_OK { return Out::C("iox2_notifier_create_error_e", rc) }
            self.nots.insert(n, h);
            Out::Ok("ok".into())
        }
    }
    fn dnot(&mut self, n: usize) -> Out {
        match self.nots.remove(&n) { Some(h) => { unsafe { iox2_notifier_drop(h) }; Out::Ok("ok".into()) } None => Out::Skip("none") }
    }
    fn clis(&mut self, l: usize) -> Out {
        if self.liss.contains_key(&l) { return Out::Skip("dup") }
        unsafe {
            let b = iox2_port_factory_event_listener_builder(&self.svc, null_mut());
            let mut h: iox2_listener_h = null_mut();
            let rc = iox2_port_factory_listener_builder_create(b, null_mut(), &mut h);
            if rc != IOX2_OK { return Out::C("iox2_listener_create_error_e", rc) }
            self.liss.insert(l, h);
            Out::Ok("ok".into())
        }
    }
    fn dlis(&mut self, l: usize) -> Out {
        match self.liss.remove(&l) { Some(h) => { unsafe { iox2_listener_drop(h) }; Out::Ok("ok".into()) } None => Out::Skip("none") }
    }
    fn notify(&mut self, n: usize, id: Option<usize>) -> Out {
        let Some(h) = self.nots.get(&n) else { return Out::Skip("none") };
        unsafe {
            let mut k: usize = 0;
            let rc = match id {
                Some(i) => { let e = iox2_event_id_t { value: i }; iox2_notifier_notify_with_custom_event_id(h, &e, &mut k) }
                None => iox2_notifier_notify(h, &mut k),
            };
            if rc != IOX2_OK { return Out::C("iox2_notifier_notify_error_e", rc) }
            Out::Ok(format!("ok:{k}"))
        }
    }
    fn wait(&mut self, l: usize) -> Out {
        let Some(h) = self.liss.get(&l) else { return Out::Skip("none") };
        unsafe {
            let mut v: Vec<(usize, u64)> = vec![];
            let mut n: u64 = 0;
            let rc = iox2_listener_try_wait(h, &mut n, collect_event, &mut v as *mut _ as *mut c_void);
            if rc != IOX2_OK { return Out::C("iox2_listener_wait_error_e", rc) }
            Out::Ok(show_events(v, n))
        }
    }
    fn counts(&mut self) -> Out {
        unsafe { Out::Ok(format!("n{}l{}", iox2_port_factory_event_dynamic_config_number_of_notifiers(&self.svc), iox2_port_factory_event_dynamic_config_number_of_listeners(&self.svc))) }
    }
    fn extra(&mut self, what: &str) -> Out {
        unsafe {
            let name = if what == "open-missing" { format!("{}/missing", self.name) } else { self.name.clone() };
            let b = iox2_service_builder_event(self.node.service_builder(&name));
            let mut svc: iox2_port_factory_event_h = null_mut();
            let rc = match what {
                "open-missing" => iox2_service_builder_event_open(b, null_mut(), &mut svc),
                "create-dup" => iox2_service_builder_event_create(b, null_mut(), &mut svc),
                "open-limits" => { iox2_service_builder_event_set_max_notifiers(&b, 100); iox2_service_builder_event_open(b, null_mut(), &mut svc) }
                "ooc-limits" => { iox2_service_builder_event_set_max_listeners(&b, 100); iox2_service_builder_event_open_or_create(b, null_mut(), &mut svc) }
                _ => panic!("bad extra"),
            };
            if rc != IOX2_OK { return Out::C("iox2_event_open_or_create_error_e", rc) }
            iox2_port_factory_event_drop(svc);
            Out::Ok(if what == "create-dup" { "created" } else { "opened" }.into())
        }
    }
    fn fin(&mut self) {
        unsafe {
            for (_, h) in self.nots.drain() { iox2_notifier_drop(h) }
            for (_, h) in self.liss.drain() { iox2_listener_drop(h) }
            if !self.svc.is_null() { iox2_port_factory_event_drop(self.svc); self.svc = null_mut() }
        }
        self.node.fin();
    }
}

// ---------------------------------------------------------------------------------------------
// worlds

/// a world: the side that owns the sending ports and the side that owns the receiving ports
/// (the same object in the pure worlds)
struct PsWorld {
    tx: Option<Box<dyn PsSide>>,
    rx: Option<Box<dyn PsSide>>,
    err: Option<Out>,
}
impl PsWorld {
    fn tx(&mut self) -> &mut Box<dyn PsSide> { self.tx.as_mut().unwrap() }
    fn rx(&mut self) -> &mut Box<dyn PsSide> { if self.rx.is_some() { self.rx.as_mut().unwrap() } else { self.tx.as_mut().unwrap() } }
    fn fin(&mut self) {
        if let Some(x) = self.rx.as_mut() { x.fin() }
        if let Some(x) = self.tx.as_mut() { x.fin() }
        self.rx = None;
        self.tx = None;
    }
}
struct EvWorld {
    tx: Option<Box<dyn EvSide>>,
    rx: Option<Box<dyn EvSide>>,
    err: Option<Out>,
}
impl EvWorld {
    fn tx(&mut self) -> &mut Box<dyn EvSide> { self.tx.as_mut().unwrap() }
    fn rx(&mut self) -> &mut Box<dyn EvSide> { if self.rx.is_some() { self.rx.as_mut().unwrap() } else { self.tx.as_mut().unwrap() } }
    fn fin(&mut self) {
        if let Some(x) = self.rx.as_mut() { x.fin() }
        if let Some(x) = self.tx.as_mut() { x.fin() }
        self.rx = None;
        self.tx = None;
    }
}

enum Case {
    None,
    Ps(Vec<PsWorld>),
    Ev(Vec<EvWorld>),
    Names,
}
pub struct FfiComp {
    case: Case,
    prefix: String,
    names: Vec<String>,
}
impl FfiComp {
    pub fn new() -> Self {
        FfiComp { case: Case::None, prefix: String::new(), names: vec![] }
    }
    fn finish_case(&mut self) -> Vec<String> {
        match &mut self.case {
            Case::Ps(ws) => for w in ws.iter_mut() { w.fin() },
            Case::Ev(ws) => for w in ws.iter_mut() { w.fin() },
            _ => {}
        }
        self.case = Case::None;
        if self.prefix.is_empty() { return vec![] }
        let left = leftovers(&self.prefix);
        self.prefix.clear();
        left
    }
}
impl Drop for FfiComp {
    fn drop(&mut self) {
        let _ = self.finish_case();
        // the (empty) private root directory goes with the last case; a later case re-creates it
        let _ = std::fs::remove_dir(format!("{}services", root_dir()));
        let _ = std::fs::remove_dir(format!("{}nodes", root_dir()));
        let _ = std::fs::remove_dir(root_dir());
    }
}

/// files of this domain that still exist: service + node directories, /dev/shm.  The per-domain
/// `…global_mgmt` segment is shared by all nodes of a domain and stays by design; it is removed here.
fn leftovers(prefix: &str) -> Vec<String> {
    let mut left = vec![];
    // the root directory is private to this process: after all handles are gone nothing may remain below it
    // except the two (empty) directories themselves
    fn walk(dir: &std::path::Path, depth: usize, left: &mut Vec<String>) {
        let Ok(rd) = std::fs::read_dir(dir) else { return };
        for e in rd.flatten() {
            let p = e.path();
            let name = e.file_name().to_string_lossy().to_string();
            if depth == 0 && p.is_dir() && (name == "services" || name == "nodes") {
                walk(&p, 1, left);
                continue;
            }
            if name.ends_with(".global_mgmt") {
                let _ = std::fs::remove_file(&p);
                continue;
            }
            left.push(p.to_string_lossy().to_string());
            if p.is_dir() { let _ = std::fs::remove_dir_all(&p); } else { let _ = std::fs::remove_file(&p); }
        }
    }
    walk(std::path::Path::new(&root_dir()), 0, &mut left);
    // shared memory objects of the domain carry the config prefix
    if let Ok(rd) = std::fs::read_dir("/dev/shm") {
        for e in rd.flatten() {
            let n = e.file_name().to_string_lossy().to_string();
            if n.starts_with(prefix) {
                if n.ends_with(".global_mgmt") {
                    let _ = std::fs::remove_file(e.path());
                    continue;
                }
                left.push(format!("/dev/shm/{n}"));
                let _ = std::fs::remove_file(e.path());
            }
        }
    }
    left.sort();
    left
}

fn n(s: &str) -> usize { s.parse().unwrap() }
fn opt(s: &str) -> Option<usize> { if s == "-" { None } else { Some(n(s)) } }

const WORLDS: [&str; 4] = ["r", "c", "rc", "cr"];

fn join(outs: Vec<Out>) -> String {
    let shown: Vec<(String, String)> = outs.iter().map(canon).collect();
    for (i, (_, c)) in shown.iter().enumerate().skip(1) {
        if *c != shown[0].1 {
            oracle_fail(format!("world {} differs from the Rust world: {} vs {}", WORLDS[i], c, shown[0].1));
        }
    }
    for (i, (_, c)) in shown.iter().enumerate() {
        if c.contains("no-C-code") || c.contains("not-in-table") || c.contains("#") && c.starts_with("err:") {
            oracle_fail(format!("world {}: error identity cannot be expressed: {c}", WORLDS[i]));
        }
    }
    shown.iter().enumerate().map(|(i, (s, _))| format!("{}={}", WORLDS[i], s)).collect::<Vec<_>>().join(" ")
}

// --- printable names: every *_string function against the translated table ------------------
macro_rules! sfn {
    ($($e:ident => $f:ident),* $(,)?) => {
        fn string_fns() -> Vec<(&'static str, &'static str, Box<dyn Fn(i32) -> String>)> {
            vec![$( (stringify!($e), stringify!($f), {
                const _: () = assert!(size_of::<$e>() == size_of::<i32>());
                Box::new(|c: i32| unsafe {
                    let p = $f(std::mem::transmute::<i32, $e>(c));
                    CStr::from_ptr(p).to_string_lossy().to_string()
                }) as Box<dyn Fn(i32) -> String> }) ),*]
        }
    };
}
sfn! {
    iox2_attribute_definition_error_e => iox2_attribute_definition_error_create_error_string,
    iox2_attribute_verification_error_e => iox2_attribute_verification_error_create_error_string,
    iox2_blackboard_create_error_e => iox2_blackboard_create_error_string,
    iox2_blackboard_open_error_e => iox2_blackboard_open_error_string,
    iox2_client_create_error_e => iox2_client_create_error_string,
    iox2_config_creation_error_e => iox2_config_creation_error_string,
    iox2_connection_failure_e => iox2_connection_failure_string,
    iox2_entry_handle_error_e => iox2_entry_handle_error_string,
    iox2_entry_handle_mut_error_e => iox2_entry_handle_mut_error_string,
    iox2_event_open_or_create_error_e => iox2_event_open_or_create_error_string,
    iox2_listener_create_error_e => iox2_listener_create_error_string,
    iox2_listener_wait_error_e => iox2_listener_wait_error_string,
    iox2_loan_error_e => iox2_loan_error_string,
    iox2_node_creation_failure_e => iox2_node_creation_failure_string,
    iox2_node_list_failure_e => iox2_node_list_failure_string,
    iox2_node_wait_failure_e => iox2_node_wait_failure_string,
    iox2_notifier_create_error_e => iox2_notifier_create_error_string,
    iox2_notifier_notify_error_e => iox2_notifier_notify_error_string,
    iox2_pub_sub_open_or_create_error_e => iox2_pub_sub_open_or_create_error_string,
    iox2_publisher_create_error_e => iox2_publisher_create_error_string,
    iox2_reader_create_error_e => iox2_reader_create_error_string,
    iox2_receive_error_e => iox2_receive_error_string,
    iox2_request_response_open_or_create_error_e => iox2_request_response_open_or_create_error_string,
    iox2_request_send_error_e => iox2_request_send_error_string,
    iox2_semantic_string_error_e => iox2_semantic_string_error_string,
    iox2_send_error_e => iox2_send_error_string,
    iox2_server_create_error_e => iox2_server_create_error_string,
    iox2_service_details_error_e => iox2_service_details_error_string,
    iox2_service_list_error_e => iox2_service_list_error_string,
    iox2_subscriber_create_error_e => iox2_subscriber_create_error_string,
    iox2_waitset_attachment_error_e => iox2_waitset_attachment_error_string,
    iox2_waitset_create_error_e => iox2_waitset_create_error_string,
    iox2_waitset_run_error_e => iox2_waitset_run_error_string,
    iox2_writer_create_error_e => iox2_writer_create_error_string,
}

fn check_names(which: &str) -> String {
    let fns = string_fns();
    TABLE.with(|t| {
        if which == "coverage" {
            // every string function the translator found is exercised, and vice versa
            let mine: HashSet<&str> = fns.iter().map(|f| f.0).collect();
            let mut missing: Vec<String> = t.string_fn.keys().filter(|e| !mine.contains(e.as_str())).cloned().collect();
            for f in &fns {
                match t.string_fn.get(f.0) {
                    Some(name) if name == f.1 => {}
                    other => missing.push(format!("{}:{:?}!={}", f.0, other, f.1)),
                }
            }
            if !missing.is_empty() { oracle_fail(format!("string functions of the table and of the harness differ: {}", missing.join(","))) }
            return format!("fns={} table={}", fns.len(), t.string_fn.len());
        }
        let Some(f) = fns.iter().find(|f| f.0 == which) else { return "unknown-enum".to_string() };
        let Some(vs) = t.variants.get(which) else { return "not-in-table".to_string() };
        let mut bad = vec![];
        for (name, code, printable) in vs {
            let got = (f.2)(*code);
            if got != *printable { bad.push(format!("{name}({code}): binary says {got:?}, table says {printable:?}")) }
        }
        if !bad.is_empty() { oracle_fail(format!("printable names of {which} differ from the translated table: {}", bad.join("; "))) }
        format!("ok:{}", vs.len())
    })
}

impl Comp for FfiComp {
    fn exec(&mut self, t: &[&str]) -> String {
        if t[0] == "new" {
            let left = self.finish_case();
            if !left.is_empty() { oracle_fail(format!("previous case left files behind: {}", left.join(","))) }
            let k = CASE_COUNTER.fetch_add(1, std::sync::atomic::Ordering::Relaxed);
            self.prefix = format!("vf18x{}x{}_", std::process::id(), k);
            self.names = WORLDS.iter().map(|w| format!("c18/{}/{k}/{w}", std::process::id())).collect();
            let prefix = self.prefix.clone();
            match t[1] {
                "names" => { self.case = Case::Names; self.prefix.clear(); return check_names("coverage") }
                "ps" => {
                    // new ps <fixed|slice> <type> <hdr> <max pubs> <max subs> <buffer> <history> <borrow> <overflow>
                    let cfg = PsCfg { slice: t[2] == "slice", ty: n(t[3]), hdr: n(t[4]), max_pubs: n(t[5]), max_subs: n(t[6]), buf: n(t[7]), hist: n(t[8]), borrow: n(t[9]), overflow: t[10] == "1" };
                    let mut ws: Vec<PsWorld> = vec![];
                    // r: reference.  The type details the Rust service ends up with are what the C API is told.
                    let r = mk_r_ps(&prefix, &self.names[0], &cfg, true);
                    let details = match &r { Ok(s) => Some(s.details()), Err(_) => None };
                    let (pay, uh) = match details {
                        Some(d) => d,
                        None => {
                            // the Rust world refused the configuration: ask a throw-away default service for the details
                            let mut probe_cfg = cfg.clone();
                            probe_cfg.hist = 0; probe_cfg.buf = probe_cfg.buf.max(1);
                            let mut p = mk_r_ps(&prefix, &format!("{}/probe", self.names[0]), &PsCfg { max_pubs: 1, max_subs: 1, buf: 1, hist: 0, borrow: 1, overflow: true, ..probe_cfg }, true).ok().expect("probe service");
                            let d = p.details();
                            p.fin();
                            d
                        }
                    };
                    ws.push(match r { Ok(s) => PsWorld { tx: Some(s), rx: None, err: None }, Err(e) => PsWorld { tx: None, rx: None, err: Some(e) } });
                    ws.push(match CPs::make(&prefix, &self.names[1], &cfg, true, &pay, &uh) { Ok(s) => PsWorld { tx: Some(s), rx: None, err: None }, Err(e) => PsWorld { tx: None, rx: None, err: Some(e) } });
                    ws.push(match mk_r_ps(&prefix, &self.names[2], &cfg, true) {
                        Ok(mut s) => match CPs::make(&prefix, &self.names[2], &cfg, false, &pay, &uh) { Ok(o) => PsWorld { tx: Some(s), rx: Some(o), err: None }, Err(e) => { s.fin(); PsWorld { tx: None, rx: None, err: Some(Out::Ok(format!("open-failed:{}", canon(&e).0))) } } },
                        Err(e) => PsWorld { tx: None, rx: None, err: Some(e) } });
                    ws.push(match CPs::make(&prefix, &self.names[3], &cfg, true, &pay, &uh) {
                        Ok(mut s) => match mk_r_ps(&prefix, &self.names[3], &cfg, false) { Ok(o) => PsWorld { tx: Some(s), rx: Some(o), err: None }, Err(e) => { s.fin(); PsWorld { tx: None, rx: None, err: Some(Out::Ok(format!("open-failed:{}", canon(&e).0))) } } },
                        Err(e) => PsWorld { tx: None, rx: None, err: Some(e) } });
                    let outs: Vec<Out> = ws.iter().map(|w| w.err.clone().unwrap_or(Out::Ok("ok".into()))).collect();
                    let dead = ws.iter().any(|w| w.err.is_some());
                    let s = join(outs);
                    if dead { for w in ws.iter_mut() { w.fin() } self.case = Case::None } else { self.case = Case::Ps(ws) }
                    return format!("{s} T={}:{}:{}{}", pay.name, pay.size, pay.align, if pay.dynamic { ":dyn" } else { "" });
                }
                "ev" => {
                    // new ev <max notifiers> <max listeners> <event id max>
                    let cfg = EvCfg { max_notifiers: n(t[2]), max_listeners: n(t[3]), id_max: n(t[4]) };
                    let mut ws: Vec<EvWorld> = vec![];
                    let one = |r: Result<Box<dyn EvSide>, Out>| match r { Ok(s) => EvWorld { tx: Some(s), rx: None, err: None }, Err(e) => EvWorld { tx: None, rx: None, err: Some(e) } };
                    ws.push(one(REv::make(&prefix, &self.names[0], &cfg, true)));
                    ws.push(one(CEv::make(&prefix, &self.names[1], &cfg, true)));
                    ws.push(match REv::make(&prefix, &self.names[2], &cfg, true) {
                        Ok(mut s) => match CEv::make(&prefix, &self.names[2], &cfg, false) { Ok(o) => EvWorld { tx: Some(s), rx: Some(o), err: None }, Err(e) => { s.fin(); EvWorld { tx: None, rx: None, err: Some(Out::Ok(format!("open-failed:{}", canon(&e).0))) } } },
                        Err(e) => EvWorld { tx: None, rx: None, err: Some(e) } });
                    ws.push(match CEv::make(&prefix, &self.names[3], &cfg, true) {
                        Ok(mut s) => match REv::make(&prefix, &self.names[3], &cfg, false) { Ok(o) => EvWorld { tx: Some(s), rx: Some(o), err: None }, Err(e) => { s.fin(); EvWorld { tx: None, rx: None, err: Some(Out::Ok(format!("open-failed:{}", canon(&e).0))) } } },
                        Err(e) => EvWorld { tx: None, rx: None, err: Some(e) } });
                    let outs: Vec<Out> = ws.iter().map(|w| w.err.clone().unwrap_or(Out::Ok("ok".into()))).collect();
                    let dead = ws.iter().any(|w| w.err.is_some());
                    let s = join(outs);
                    if dead { for w in ws.iter_mut() { w.fin() } self.case = Case::None } else { self.case = Case::Ev(ws) }
                    return s;
                }
                _ => panic!("bad case kind"),
            }
        }
        if t[0] == "fin" {
            let had = !matches!(self.case, Case::None);
            let left = self.finish_case();
            if !left.is_empty() { oracle_fail(format!("files left after dropping every handle: {}", left.join(","))) }
            return if had { format!("left={}", left.len()) } else { "no-world".into() };
        }
        match &mut self.case {
            Case::None => "no-world".into(),
            Case::Names => check_names(t[1]),
            Case::Ps(ws) => {
                let outs: Vec<Out> = ws.iter_mut().map(|w| match t[0] {
                    "cpub" => w.tx().cpub(n(t[1]), n(t[2]), n(t[3])),
                    "dpub" => w.tx().dpub(n(t[1])),
                    "csub" => w.rx().csub(n(t[1]), opt(t[2])),
                    "dsub" => w.rx().dsub(n(t[1])),
                    "loan" => w.tx().loan(n(t[1]), n(t[2]), n(t[3])),
                    "send" => w.tx().send(n(t[1]), n(t[2]), t[3].parse().unwrap()),
                    "dloan" => w.tx().dloan(n(t[1]), n(t[2])),
                    "scopy" => w.tx().scopy(n(t[1]), t[2].parse().unwrap(), n(t[3])),
                    "recv" => w.rx().recv(n(t[1])),
                    "dsample" => w.rx().dsample(n(t[1]), n(t[2])),
                    "has" => w.rx().has(n(t[1])),
                    "upd" => w.tx().upd(n(t[1])),
                    "counts" => { let a = w.tx().counts(); let b = w.rx().counts(); Out::Ok(format!("{}|{}", canon(&a).0, canon(&b).0)) }
                    "extra" => { let a = w.tx().extra(t[1]); if w.rx.is_some() { let b = w.rx().extra(t[1]); if canon(&a).1 != canon(&b).1 { Out::Ok(format!("{}|{}", canon(&a).1, canon(&b).1)) } else { a } } else { a } }
                    // self-test of the leak oracle (never generated): a publisher whose handle is forgotten
                    "leakpub" => { let r = w.tx().cpub(9999, 1, 1); w.tx().forget_pub(9999); r }
                    _ => panic!("bad op"),
                }).collect();
                join(outs)
            }
            Case::Ev(ws) => {
                let outs: Vec<Out> = ws.iter_mut().map(|w| match t[0] {
                    "cnot" => w.tx().cnot(n(t[1]), opt(t[2])),
                    "dnot" => w.tx().dnot(n(t[1])),
                    "clis" => w.rx().clis(n(t[1])),
                    "dlis" => w.rx().dlis(n(t[1])),
                    "notify" => w.tx().notify(n(t[1]), opt(t[2])),
                    "wait" => w.rx().wait(n(t[1])),
                    "extra" => { let a = w.tx().extra(t[1]); if w.rx.is_some() { let b = w.rx().extra(t[1]); if canon(&a).1 != canon(&b).1 { Out::Ok(format!("{}|{}", canon(&a).1, canon(&b).1)) } else { a } } else { a } }
                    "counts" => { let a = w.tx().counts(); let b = w.rx().counts(); Out::Ok(format!("{}|{}", canon(&a).0, canon(&b).0)) }
                    _ => panic!("bad op"),
                }).collect();
                join(outs)
            }
        }
    }
}

// ---------------------------------------------------------------------------------------------
// generators

fn gen_ps(rng: &mut Rng, len: u64, slice: bool) -> Vec<String> {
    let ty = rng.below(N_TYPES as u64);
    let hdr = rng.below(N_HDRS as u64);
    let (mp, ms) = (rng.range(1, 3), rng.range(1, 3));
    let buf = rng.range(1, 4);
    let ov = rng.below(2);
    // without overflow the builder wants history <= buffer; sometimes ask for more (create error in every world)
    let hist = if rng.chance(8) { buf + 1 } else { rng.range(0, buf) };
    let borrow = rng.range(1, 3);
    let mut lines = vec![format!("new ps {} {ty} {hdr} {mp} {ms} {buf} {hist} {borrow} {ov}", if slice { "slice" } else { "fixed" })];
    let (mut np, mut ns, mut nl) = (0usize, 0usize, 0usize);
    let (mut pubs, mut subs): (Vec<(usize, u64)>, Vec<usize>) = (vec![], vec![]);
    let mut loans: Vec<(usize, usize)> = vec![];
    let mut held: HashMap<usize, usize> = HashMap::new();
    let mut seed = rng.below(1000);
    let wts: [u64; 13] = [9, 9, 3, 3, 24, 5, 6, 22, 9, 3, 2, 3, 4];
    let total: u64 = wts.iter().sum();
    for _ in 0..rng.range(4, len) {
        let mut c = rng.below(total);
        let mut k = 0;
        while c >= wts[k] { c -= wts[k]; k += 1 }
        if pubs.is_empty() && rng.chance(50) { k = 0 }
        if subs.is_empty() && rng.chance(50) { k = 1 }
        seed += 1;
        let l = match k {
            0 => {
                let p = np; np += 1;
                let max_len = rng.range(1, 6);
                pubs.push((p, max_len));
                format!("cpub {p} {} {max_len}", rng.range(1, 3))
            }
            1 => {
                let s = ns; ns += 1; subs.push(s); held.insert(s, 0);
                if rng.chance(50) { format!("csub {s} -") } else { format!("csub {s} {}", rng.range(1, buf + 1)) }
            }
            2 if !pubs.is_empty() => {
                let i = rng.below(pubs.len() as u64) as usize; let (p, _) = pubs.remove(i);
                // legal sequences only: give the publisher's loans back first (same in every world)
                let mine: Vec<(usize, usize)> = loans.iter().filter(|x| x.0 == p).cloned().collect();
                for (pp, ll) in mine { lines.push(format!("dloan {pp} {ll}")); }
                loans.retain(|x| x.0 != p);
                format!("dpub {p}")
            }
            3 if !subs.is_empty() => {
                let i = rng.below(subs.len() as u64) as usize; let s = subs.remove(i);
                // samples are released before their subscriber (finding D16 belongs to C02, not to this check)
                for _ in 0..held.remove(&s).unwrap_or(0) { lines.push(format!("dsample {s} 0")); }
                format!("dsub {s}")
            }
            4 if !pubs.is_empty() => {
                let (p, max_len) = *rng.pick(&pubs);
                let l = nl; nl += 1;
                // slice length: inside the limit, sometimes beyond it (ExceedsMaxLoanSize), sometimes 0
                let nn = if !slice { 1 } else if rng.chance(8) { max_len + rng.range(1, 3) } else if rng.chance(5) { 0 } else { rng.range(1, max_len) };
                lines.push(format!("loan {p} {l} {nn}"));
                if rng.chance(80) { format!("send {p} {l} {seed}") } else { loans.push((p, l)); continue }
            }
            5 if !loans.is_empty() => {
                let i = rng.below(loans.len() as u64) as usize; let (p, l) = loans.remove(i);
                if rng.chance(50) { format!("send {p} {l} {seed}") } else { format!("dloan {p} {l}") }
            }
            6 if !pubs.is_empty() => {
                let (p, max_len) = *rng.pick(&pubs);
                let nn = if !slice { 1 } else if rng.chance(10) { max_len + 1 } else { rng.range(1, max_len) };
                format!("scopy {p} {seed} {nn}")
            }
            7 if !subs.is_empty() => {
                let s = *rng.pick(&subs);
                *held.get_mut(&s).unwrap() += 1;
                format!("recv {s}")
            }
            8 if !subs.is_empty() => {
                let s = *rng.pick(&subs);
                let h = held.get_mut(&s).unwrap();
                let k = rng.below(*h as u64 + 1);
                if *h > 0 && (k as usize) < *h { *h -= 1 }
                format!("dsample {s} {k}")
            }
            9 if !subs.is_empty() => format!("has {}", rng.pick(&subs)),
            10 if !pubs.is_empty() => format!("upd {}", rng.pick(&pubs).0),
            11 => "counts".to_string(),
            12 => format!("extra {}", rng.pick(&["open-missing", "create-dup", "open-badtype", "ooc-badtype", "open-limits"])),
            _ => continue,
        };
        lines.push(l);
    }
    lines.push("fin".into());
    lines
}

fn gen_ev(rng: &mut Rng, len: u64) -> Vec<String> {
    let (mn, ml) = (rng.range(1, 3), rng.range(1, 3));
    let id_max = rng.range(0, 12);
    let mut lines = vec![format!("new ev {mn} {ml} {id_max}")];
    let (mut nn, mut nl) = (0usize, 0usize);
    let (mut nots, mut liss): (Vec<usize>, Vec<usize>) = (vec![], vec![]);
    let wts: [u64; 8] = [10, 10, 3, 3, 40, 30, 4, 6];
    let total: u64 = wts.iter().sum();
    for _ in 0..rng.range(4, len) {
        let mut c = rng.below(total);
        let mut k = 0;
        while c >= wts[k] { c -= wts[k]; k += 1 }
        if nots.is_empty() && rng.chance(50) { k = 0 }
        if liss.is_empty() && rng.chance(50) { k = 1 }
        let l = match k {
            0 => { let x = nn; nn += 1; nots.push(x); if rng.chance(50) { format!("cnot {x} -") } else { format!("cnot {x} {}", rng.range(0, id_max + 2)) } }
            1 => { let x = nl; nl += 1; liss.push(x); format!("clis {x}") }
            2 if !nots.is_empty() => { let i = rng.below(nots.len() as u64) as usize; format!("dnot {}", nots.remove(i)) }
            3 if !liss.is_empty() => { let i = rng.below(liss.len() as u64) as usize; format!("dlis {}", liss.remove(i)) }
            4 if !nots.is_empty() => { let x = *rng.pick(&nots); if rng.chance(40) { format!("notify {x} -") } else { format!("notify {x} {}", rng.range(0, id_max + 2)) } }
            5 if !liss.is_empty() => format!("wait {}", rng.pick(&liss)),
            6 => "counts".to_string(),
            7 => format!("extra {}", rng.pick(&["open-missing", "create-dup", "open-limits", "ooc-limits"])),
            _ => continue,
        };
        lines.push(l);
    }
    lines.push("fin".into());
    lines
}

pub fn generate(a: &Args) -> Vec<Vec<String>> {
    let mut rng = Rng::new(a.seed);
    let mut cases = vec![];
    let kind = a.rest.first().map(|s| s.as_str()).unwrap_or("mix");
    if kind == "names" {
        let mut lines = vec!["new names".to_string()];
        let mut es: Vec<String> = TABLE.with(|t| t.string_fn.keys().cloned().collect());
        es.sort();
        for e in es { lines.push(format!("names {e}")) }
        return vec![lines];
    }
    if a.exhaustive > 0 {
        return exhaustive(a, kind);
    }
    for i in 0..a.cases {
        let k = match kind { "fixed" => 0, "slice" => 1, "ev" => 2, _ => i % 3 };
        cases.push(match k { 0 => gen_ps(&mut rng, a.len, false), 1 => gen_ps(&mut rng, a.len, true), _ => gen_ev(&mut rng, a.len) });
    }
    cases
}

/// every sequence of length L over a small alphabet, after a fixed prefix, for every payload type
/// (pub-sub) / for two event configurations
fn exhaustive(a: &Args, kind: &str) -> Vec<Vec<String>> {
    let mut cases = vec![];
    if kind == "ev" {
        let alphabet: Vec<String> = ["notify 0 -", "notify 0 1", "notify 0 9", "wait 0", "cnot", "clis", "dnot 0", "dlis 0"].iter().map(|x| x.to_string()).collect();
        for cfg in ["2 2 3", "1 1 9"] {
            enumerate_seqs(&alphabet, a.exhaustive as usize, &mut |seq| {
                let mut lines = vec![format!("new ev {cfg}"), "cnot 0 2".to_string(), "clis 0".to_string()];
                let (mut nn, mut nl) = (1, 1);
                for &i in seq {
                    match alphabet[i].as_str() {
                        "cnot" => { lines.push(format!("cnot {nn} -")); nn += 1 }
                        "clis" => { lines.push(format!("clis {nl}")); nl += 1 }
                        x => lines.push(x.to_string()),
                    }
                }
                lines.push("fin".into());
                cases.push(lines);
            });
        }
        return cases;
    }
    let alphabet: Vec<String> = ["send", "loan", "scopy", "recv 0", "dsample 0 0", "cpub", "csub", "has 0"].iter().map(|x| x.to_string()).collect();
    for slice in [false, true] {
        for ty in 0..N_TYPES {
            let hdr = ty % N_HDRS;
            enumerate_seqs(&alphabet, a.exhaustive as usize, &mut |seq| {
                let mut lines = vec![format!("new ps {} {ty} {hdr} 2 2 2 1 1 {}", if slice { "slice" } else { "fixed" }, ty % 2), "cpub 0 1 3".to_string(), "csub 0 -".to_string()];
                let (mut np, mut ns, mut nl, mut seed) = (1, 1, 0, 100 + ty as u64);
                for &i in seq {
                    seed += 1;
                    match alphabet[i].as_str() {
                        "send" => { lines.push(format!("loan 0 {nl} {}", if slice { 1 + nl % 3 } else { 1 })); lines.push(format!("send 0 {nl} {seed}")); nl += 1 }
                        "loan" => { lines.push(format!("loan 0 {nl} {}", if slice { 4 - nl % 2 } else { 1 })); nl += 1 }
                        "scopy" => lines.push(format!("scopy 0 {seed} {}", if slice { 2 } else { 1 })),
                        "cpub" => { lines.push(format!("cpub {np} 2 2")); np += 1 }
                        "csub" => { lines.push(format!("csub {ns} 1")); ns += 1 }
                        x => lines.push(x.to_string()),
                    }
                }
                lines.push("fin".into());
                cases.push(lines);
            });
        }
    }
    cases
}
