//! stub: component `ffi` (to be written)
use crate::common::*;

pub struct FfiComp;
impl FfiComp {
    pub fn new() -> Self {
        FfiComp
    }
}
impl Comp for FfiComp {
    fn exec(&mut self, _t: &[&str]) -> String {
        "unimplemented".into()
    }
}
pub fn generate(_a: &Args) -> Vec<Vec<String>> {
    vec![]
}
