//! C15 (resize part): the dynamically growing data segment.
//! Drives the real `resizable_shared_memory::dynamic::{DynamicMemory, DynamicView}` over the pool
//! allocator (posix shared memory) with one owner and two
//! views, the way `port/details/data_segment.rs` uses them (publisher: allocate / deallocate_bucket,
//! loaned sample: grow; subscriber: register_and_translate_offset / unregister_offset).
//!
//! Ops (one per line):
//!   new <static|bestfit|pow2> <size> <align> <chunks>   -> ok base=<payload start mod page> | err:alloc:<e>
//!   alloc <label> <size> <align>          -> ok:<seg>:<off> | err:<e> | dup
//!   (write / dealloc / grow answer `tainted` for a chunk that came out of a grow which changed the segment id
//!    but kept the offset: such a result may alias another chunk, the harness stops touching it)
//!   write <label> <byte>                  -> ok | none           (fills the chunk through the owner's pointer)
//!   dealloc <label>                       -> ok | none
//!   grow <label> <size> <align> <front|back> -> ok:<seg>:<off> | err:<e> | none
//!   view_register <view> <label>          -> ok | err:<e> | dup | none
//!   view_read <view> <label>              -> ok:<first byte seen through the view> | none
//!   view_unregister <view> <label>        -> ok | none
//!   segments                              -> <owner number_of_active_segments>
//!   view_segments <view>                  -> <view number_of_active_segments>
//!
//! Independent oracles (checked after EVERY op, never consulting the model):
//!   * a fresh allocation is aligned as requested (owner address and the view's translated address),
//!     lies inside the payload of its segment (payload size obtained by opening the segment a second time),
//!     sits on a bucket boundary of that segment, and does not overlap any other live allocation
//!     (absolute addresses, so also across segments);
//!   * every live chunk that was written keeps its bytes at its old location (owner's pointer), and
//!     every chunk registered in a view shows exactly these bytes through the view's pointer, until it is
//!     unregistered / deallocated / rewritten;
//!   * `grow` keeps the old content at the documented place.
use crate::common::*;
use core::alloc::Layout;
use core::fmt::Debug;
use iceoryx2_bb_elementary::allocation_strategy::AllocationStrategy;
use iceoryx2_bb_elementary_traits::allocator::*;
use iceoryx2_bb_posix::file::AccessMode;
use iceoryx2_bb_container::semantic_string::SemanticString;
use iceoryx2_bb_system_types::file_name::FileName;
use iceoryx2_cal::named_concept::*;
use iceoryx2_cal::resizable_shared_memory::dynamic::{DynamicMemory, DynamicView};
use iceoryx2_cal::resizable_shared_memory::*;
use iceoryx2_cal::shared_memory::{PointerOffset, SharedMemoryBuilder, SharedMemoryForPoolAllocator, ShmPointer};
use iceoryx2_cal::shm_allocator::pool_allocator::PoolAllocator;
use std::collections::{BTreeMap, HashMap};
use std::sync::atomic::{AtomicU64, Ordering};

type PShm = iceoryx2_cal::shared_memory::posix::Memory<PoolAllocator>;

static COUNTER: AtomicU64 = AtomicU64::new(0);
const NVIEWS: usize = 2;

struct Chunk {
    ptr: ShmPointer,
    size: usize,
    align: usize,
    live: bool,
    fill: Option<u8>, // Some(b): all `size` bytes are expected to be b
    generation: u64,
    /// came out of a `grow` that changed the segment id but kept the offset: the harness does not touch it any more
    tainted: bool,
}
struct Reg {
    ptr: *const u8,
    off: PointerOffset,
    generation: u64,
}

struct World<Shm: SharedMemoryForPoolAllocator>
where
    Shm::Builder: Debug,
{
    // field order = drop order: views first, then the owner (which removes the segments)
    views: Vec<DynamicView<PoolAllocator, Shm>>,
    mem: DynamicMemory<PoolAllocator, Shm>,
    name: FileName,
    cfg: <Shm as NamedConceptMgmt>::Configuration,
    chunks: BTreeMap<u64, Chunk>,
    regs: Vec<BTreeMap<u64, Reg>>,
    seg_info: HashMap<u8, (usize, usize)>, // seg -> (payload size, bucket size)
    generation: u64,
}

fn n(s: &str) -> usize {
    s.parse().unwrap()
}
fn aerr(e: AllocationError) -> &'static str {
    match e {
        AllocationError::SizeIsZero => "err:zero",
        AllocationError::SizeTooLarge => "err:size",
        AllocationError::AlignmentFailure => "err:align",
        AllocationError::OutOfMemory => "err:oom",
        AllocationError::InternalError => "err:internal",
    }
}
fn gerr(e: AllocationGrowError) -> &'static str {
    match e {
        AllocationGrowError::GrowWouldShrink => "err:shrink",
        AllocationGrowError::SizeIsZero => "err:zero",
        AllocationGrowError::OutOfMemory => "err:oom",
        AllocationGrowError::AlignmentFailure => "err:align",
        AllocationGrowError::InternalError => "err:internal",
    }
}

impl<Shm: SharedMemoryForPoolAllocator> World<Shm>
where
    Shm::Builder: Debug,
{
    fn mk(t: &[&str]) -> Result<Self, String> {
        let k = COUNTER.fetch_add(1, Ordering::Relaxed);
        let strategy = match t[1] {
            "static" => AllocationStrategy::Static,
            "bestfit" => AllocationStrategy::BestFit,
            "pow2" => AllocationStrategy::PowerOfTwo,
            _ => panic!("bad strategy"),
        };
        let layout = Layout::from_size_align(n(t[2]), n(t[3])).unwrap();
        // own prefix: nothing is shared with other users of /dev/shm
        let prefix = FileName::new(format!("vfr{}_", std::process::id()).as_bytes()).unwrap();
        let cfg = <Shm as NamedConceptMgmt>::Configuration::default().prefix(&prefix);
        let name = FileName::new(format!("rs{k}").as_bytes()).unwrap();
        let mem = <DynamicMemory<PoolAllocator, Shm> as ResizableSharedMemory<PoolAllocator, Shm>>::MemoryBuilder::new(&name)
            .config(&cfg)
            .max_chunk_layout_hint(layout)
            .max_number_of_chunks_hint(n(t[4]))
            .allocation_strategy(strategy)
            .create()
            .map_err(|e| format!("err:alloc:{e:?}"))?;
        let mut views = vec![];
        for _ in 0..NVIEWS {
            let v = <DynamicMemory<PoolAllocator, Shm> as ResizableSharedMemory<PoolAllocator, Shm>>::ViewBuilder::new(&name)
                .config(&cfg)
                .open(AccessMode::ReadWrite)
                .map_err(|e| format!("err:alloc:view:{e:?}"))?;
            views.push(v);
        }
        Ok(World { views, mem, name, cfg, chunks: BTreeMap::new(), regs: (0..NVIEWS).map(|_| BTreeMap::new()).collect(), seg_info: HashMap::new(), generation: 0 })
    }

    /// independent look at a segment: open it a second time by its name
    fn segment_info(&mut self, seg: u8) -> Option<(usize, usize)> {
        if let Some(i) = self.seg_info.get(&seg) {
            return Some(*i);
        }
        let mut nm = self.name;
        nm.push_bytes(b"__").unwrap();
        nm.push_bytes(seg.to_string().as_bytes()).unwrap();
        let shm = Shm::Builder::new(&nm).config(&self.cfg).has_ownership(false).open(AccessMode::Read).ok()?;
        let i = (shm.size(), shm.bucket_size());
        self.seg_info.insert(seg, i);
        Some(i)
    }

    fn check_fresh(&mut self, label: u64, p: ShmPointer, size: usize, align: usize) {
        let addr = p.data_ptr as usize;
        let seg = p.offset.segment_id().value();
        let off = p.offset.offset();
        if addr % align != 0 {
            oracle_fail(format!("misaligned: chunk {label} for alignment {align}"));
        }
        match self.segment_info(seg) {
            None => oracle_fail(format!("segment-missing: segment {seg} of a fresh allocation cannot be opened")),
            Some((payload, bucket)) => {
                if off + size > payload {
                    oracle_fail(format!("out-of-bounds: offset {off} + {size} exceeds the payload {payload} of segment {seg}"));
                }
                if bucket == 0 || off % bucket != 0 || size > bucket {
                    oracle_fail(format!("bucket: offset {off} size {size} does not fit a bucket of {bucket} in segment {seg}"));
                }
            }
        }
        for (l, c) in &self.chunks {
            if *l == label || !c.live || c.tainted {
                continue;
            }
            let a = c.ptr.data_ptr as usize;
            // zero-sized chunks still own their bucket start
            if addr < a + c.size.max(1) && a < addr + size.max(1) {
                oracle_fail(format!("overlap: chunk {label} with live chunk {l}"));
            }
            if c.ptr.offset == p.offset {
                oracle_fail(format!("overlap: same offset as live chunk {l}"));
            }
        }
    }

    /// the canaries: owner side and every view (a broken canary is reported once)
    fn check_canaries(&mut self) {
        let mut broken: Vec<u64> = vec![];
        for (l, c) in &self.chunks {
            if !c.live {
                continue;
            }
            if let Some(b) = c.fill {
                let s = unsafe { std::slice::from_raw_parts(c.ptr.data_ptr as *const u8, c.size) };
                if s.iter().any(|x| *x != b) {
                    oracle_fail(format!("owner-canary: chunk {l} changed"));
                    broken.push(*l);
                }
            }
        }
        for (v, regs) in self.regs.iter().enumerate() {
            for (l, r) in regs {
                // every registered offset must stay readable (an unmapped segment would fault here)
                let first = unsafe { std::ptr::read_volatile(r.ptr) };
                let _ = first;
                if let Some(c) = self.chunks.get(l) {
                    if c.live && c.generation == r.generation && !broken.contains(l) {
                        if let Some(b) = c.fill {
                            let s = unsafe { std::slice::from_raw_parts(r.ptr, c.size) };
                            if s.iter().any(|x| *x != b) {
                                oracle_fail(format!("view-canary: chunk {l} differs in view {v}"));
                                broken.push(*l);
                            }
                        }
                    }
                }
            }
        }
        for l in broken {
            self.chunks.get_mut(&l).unwrap().fill = None;
        }
    }

    fn exec(&mut self, t: &[&str]) -> String {
        let r = self.exec1(t);
        self.check_canaries();
        r
    }

    fn exec1(&mut self, t: &[&str]) -> String {
        match t[0] {
            "alloc" => {
                let (label, size, align) = (n(t[1]) as u64, n(t[2]), n(t[3]));
                if self.chunks.get(&label).map(|c| c.live).unwrap_or(false) {
                    return "dup".into();
                }
                let l = Layout::from_size_align(size, align).unwrap();
                match self.mem.allocate(l) {
                    Ok(p) => {
                        self.check_fresh(label, p, size, align);
                        self.generation += 1;
                        self.chunks.insert(label, Chunk { ptr: p, size, align, live: true, fill: None, generation: self.generation, tainted: false });
                        format!("ok:{}:{}", p.offset.segment_id().value(), p.offset.offset())
                    }
                    Err(e) => aerr(e).into(),
                }
            }
            "write" => {
                let (label, b) = (n(t[1]) as u64, n(t[2]) as u8);
                match self.chunks.get_mut(&label) {
                    Some(c) if c.live && c.tainted => "tainted".into(),
                    Some(c) if c.live => {
                        unsafe { std::ptr::write_bytes(c.ptr.data_ptr, b, c.size) };
                        c.fill = Some(b);
                        "ok".into()
                    }
                    _ => "none".into(),
                }
            }
            "dealloc" => {
                let label = n(t[1]) as u64;
                match self.chunks.get_mut(&label) {
                    Some(c) if c.live && c.tainted => "tainted".into(),
                    Some(c) if c.live => {
                        c.live = false;
                        c.fill = None;
                        // the publisher releases by offset (Sender::release_chunk -> deallocate_bucket)
                        unsafe { self.mem.deallocate_bucket(c.ptr.offset) };
                        "ok".into()
                    }
                    _ => "none".into(),
                }
            }
            "grow" => {
                let (label, size, align) = (n(t[1]) as u64, n(t[2]), n(t[3]));
                let placement = if t[4] == "back" { ContentPlacement::Back } else { ContentPlacement::Front };
                let (old_ptr, old_size, old_align, old_fill, old_tainted) = match self.chunks.get(&label) {
                    Some(c) if c.live => (c.ptr, c.size, c.align, c.fill, c.tainted),
                    _ => return "none".into(),
                };
                if old_tainted {
                    return "tainted".into();
                }
                let old_l = Layout::from_size_align(old_size, old_align).unwrap();
                let new_l = Layout::from_size_align(size, align).unwrap();
                let before: Vec<u8> = unsafe { std::slice::from_raw_parts(old_ptr.data_ptr as *const u8, old_size) }.to_vec();
                match unsafe { self.mem.grow(old_ptr, old_l, new_l, placement) } {
                    Ok(p) => {
                        let n_before = ORACLE.with(|o| o.borrow().len());
                        if p.offset != old_ptr.offset {
                            // a different chunk: it must be a proper fresh allocation
                            self.chunks.get_mut(&label).unwrap().live = false;
                            self.check_fresh(label, p, size, align);
                        } else if p.data_ptr != old_ptr.data_ptr {
                            oracle_fail(format!("grow: chunk {label} keeps its offset but moved"));
                        }
                        let shift = if placement == ContentPlacement::Back { size - old_size } else { 0 };
                        let now = unsafe { std::slice::from_raw_parts((p.data_ptr as *const u8).add(shift), old_size) };
                        if now != &before[..] {
                            oracle_fail(format!("grow-content: chunk {label} lost its content"));
                        }
                        let seg_changed = p.offset.segment_id() != old_ptr.offset.segment_id();
                        let tainted = seg_changed && p.offset.offset() == old_ptr.offset.offset();
                        let failed = ORACLE.with(|o| o.borrow().len()) > n_before;
                        if failed && tainted {
                            // one stable message for the whole family
                            ORACLE.with(|o| {
                                let mut o = o.borrow_mut();
                                let rest: Vec<String> = o.drain(n_before..).collect();
                                o.push(format!("grow-alias: grow of chunk {label} of segment {} returned the same offset in segment {} without allocating it ({})",
                                    old_ptr.offset.segment_id().value(), p.offset.segment_id().value(), rest.join(", ")));
                            });
                        }
                        self.generation += 1;
                        let fill = if !failed && shift == 0 && size == old_size { old_fill } else { None };
                        self.chunks.insert(label, Chunk { ptr: p, size, align, live: true, fill, generation: self.generation, tainted });
                        format!("ok:{}:{}", p.offset.segment_id().value(), p.offset.offset())
                    }
                    Err(e) => gerr(e).into(),
                }
            }
            "view_register" => {
                let (v, label) = (n(t[1]), n(t[2]) as u64);
                if self.regs[v].contains_key(&label) {
                    return "dup".into();
                }
                let (off, generation, live, align, tainted) = match self.chunks.get(&label) {
                    Some(c) => (c.ptr.offset, c.generation, c.live, c.align, c.tainted),
                    None => return "none".into(),
                };
                // DataSegmentView::register_and_translate_offset
                match unsafe { self.views[v].register_and_translate_offset(off) } {
                    Ok(p) => {
                        if live && !tainted && (p as usize) % align != 0 {
                            oracle_fail(format!("misaligned: chunk {label} in view {v}"));
                        }
                        self.regs[v].insert(label, Reg { ptr: p, off, generation });
                        "ok".into()
                    }
                    Err(e) => format!("err:{e:?}"),
                }
            }
            "view_read" => {
                let (v, label) = (n(t[1]), n(t[2]) as u64);
                match self.regs[v].get(&label) {
                    Some(r) => format!("ok:{}", unsafe { std::ptr::read_volatile(r.ptr) }),
                    None => "none".into(),
                }
            }
            "view_unregister" => {
                let (v, label) = (n(t[1]), n(t[2]) as u64);
                match self.regs[v].remove(&label) {
                    Some(r) => {
                        unsafe { self.views[v].unregister_offset(r.off) };
                        "ok".into()
                    }
                    None => "none".into(),
                }
            }
            "segments" => format!("{}", self.mem.number_of_active_segments()),
            "view_segments" => format!("{}", self.views[n(t[1])].number_of_active_segments()),
            // experiments only (not canonical): payload start of the segment of a live chunk modulo 4096
            "probe" => match self.chunks.get(&(n(t[1]) as u64)) {
                Some(c) => format!("{}", (c.ptr.data_ptr as usize - c.ptr.offset.offset()) % 8192),
                None => "none".into(),
            },
            _ => panic!("bad op"),
        }
    }
}

pub struct ResizeComp {
    w: Option<World<PShm>>,
}
impl ResizeComp {
    pub fn new() -> Self {
        ResizeComp { w: None }
    }
}

/// where the payload of a segment starts relative to a page boundary (the pool allocator aligns its
/// first bucket up from there): measured once on a segment with byte-aligned buckets
fn payload_base() -> usize {
    static BASE: std::sync::OnceLock<usize> = std::sync::OnceLock::new();
    *BASE.get_or_init(|| {
        let w = World::<PShm>::mk(&["new", "static", "1", "1", "1"]).expect("probe segment");
        let p = w.mem.allocate(Layout::from_size_align(1, 1).unwrap()).expect("probe chunk");
        (p.data_ptr as usize - p.offset.offset()) % 4096
    })
}

impl Comp for ResizeComp {
    fn exec(&mut self, t: &[&str]) -> String {
        if t[0] == "new" {
            self.w = None; // drop (and clean up) the previous world first
            return match World::<PShm>::mk(t) {
                Ok(w) => {
                    self.w = Some(w);
                    format!("ok base={}", payload_base())
                }
                Err(e) => e,
            };
        }
        self.w.as_mut().expect("no world").exec(t)
    }
}

pub fn generate(a: &Args) -> Vec<Vec<String>> {
    let mut rng = Rng::new(a.seed);
    let mut cases: Vec<Vec<String>> = Vec::new();
    let strategies = ["static", "bestfit", "pow2"];
    if a.exhaustive > 0 {
        // all sequences of length L over a small alphabet, for every strategy and two initial segments
        let alphabet: Vec<String> = [
            "alloc 0 8 8", "alloc 1 8 8", "alloc 1 24 8", "dealloc 0", "dealloc 1", "grow 0 24 8 front",
            "view_register 0 0", "view_register 0 1", "view_unregister 0 0", "view_unregister 0 1",
        ]
        .iter()
        .map(|s| s.to_string())
        .collect();
        for st in strategies {
            for init in ["8 8 1", "8 8 2"] {
                enumerate_seqs(&alphabet, a.exhaustive as usize, &mut |seq| {
                    let mut lines = vec![format!("new {st} {init}")];
                    for i in seq {
                        lines.push(alphabet[*i].clone());
                    }
                    lines.push("segments".into());
                    lines.push("view_segments 0".into());
                    lines.push("view_read 0 0".into());
                    lines.push("view_read 0 1".into());
                    cases.push(lines);
                });
            }
        }
        return cases;
    }
    // fixed scenarios -------------------------------------------------------------------------
    // two growths while view 0 holds a sample of the first segment; the second sample of an old
    // segment stays valid when the first is released
    for st in ["bestfit", "pow2"] {
        cases.push(
            [&format!("new {st} 8 8 2")[..], "alloc 0 8 8", "write 0 11", "alloc 1 8 8", "write 1 22", "view_register 0 0", "view_register 0 1", "view_register 1 1",
             "alloc 2 24 8", "write 2 33", "segments", "view_register 0 2", "view_segments 0", "alloc 3 100 8", "write 3 44", "segments", "view_register 0 3",
             "view_read 0 0", "view_read 0 1", "dealloc 2", "segments", "view_unregister 0 2", "view_segments 0", "view_unregister 0 0", "view_read 0 1", "view_segments 0",
             "dealloc 0", "segments", "view_read 0 1", "view_read 1 1", "view_unregister 0 1", "view_segments 0", "dealloc 1", "segments", "view_unregister 1 1", "view_segments 1",
             "view_unregister 0 3", "view_segments 0", "alloc 4 8 8", "alloc 5 8 8"]
                .iter()
                .map(|s| s.to_string())
                .collect(),
        );
    }
    // segment ids run out: growth by size with nothing live (old segments are released at once) ...
    let mut l = vec!["new bestfit 1 1 1".to_string()];
    for k in 1..=258 {
        l.push(format!("alloc 0 {k} 1"));
        if k % 50 == 0 || k > 250 {
            l.push("segments".into());
        }
        l.push("dealloc 0".into());
    }
    cases.push(l);
    // ... and with every chunk kept and registered in a view (256 segments alive and mapped)
    let mut l = vec!["new bestfit 1 1 1".to_string()];
    for k in 1..=258 {
        l.push(format!("alloc {k} {k} 1"));
        l.push(format!("write {k} {}", k % 255 + 1));
        l.push(format!("view_register {} {k}", k % 2));
        if k % 64 == 0 || k > 253 {
            l.push("segments".into());
            l.push("view_segments 0".into());
        }
    }
    for k in [1, 2, 100, 255, 256, 257] {
        l.push(format!("view_read {} {k}", k % 2));
        l.push(format!("view_unregister {} {k}", k % 2));
        l.push(format!("dealloc {k}"));
    }
    l.push("segments".into());
    l.push("view_segments 0".into());
    l.push("view_segments 1".into());
    cases.push(l);
    // ... and by the bucket lost to the alignment padding (one allocation walks through all ids)
    for st in ["bestfit", "pow2"] {
        cases.push(vec![format!("new {st} 16 16 1"), "alloc 0 16 16".into(), "segments".into(), "alloc 1 1 1".into(), "segments".into()]);
    }
    // random histories ---------------------------------------------------------------------------
    let aligns_small = [1usize, 2, 4, 8, 8, 8];
    let aligns_big = [16usize, 32, 64, 4096];
    for _ in 0..a.cases {
        let st = match rng.below(100) {
            0..=7 => "static",
            8..=55 => "bestfit",
            _ => "pow2",
        };
        let ia = match rng.below(100) {
            0..=95 => *rng.pick(&aligns_small),
            96..=98 => *rng.pick(&aligns_big),
            _ => 8192,
        };
        let isz = match rng.below(100) {
            0..=1 => 0,
            2..=49 => rng.range(1, 24) as usize,
            _ => ia * rng.range(1, 6) as usize,
        };
        let ich = match rng.below(100) {
            0 => 0,
            1..=39 => 1,
            40..=69 => 2,
            _ => rng.range(3, 6) as usize,
        };
        let mut lines = vec![format!("new {st} {isz} {ia} {ich}")];
        // the generator's belief (every call assumed to succeed) only steers the choice of labels
        let nlabels = rng.range(2, 8);
        let mut live: Vec<u64> = vec![];
        let mut sizes: HashMap<u64, usize> = HashMap::new();
        let mut regs: Vec<(u64, u64)> = vec![];
        let mut cur = isz.max(1);
        let nops = rng.range(1, a.len.max(1));
        for _ in 0..nops {
            let any_label = rng.below(nlabels);
            let live_label = if live.is_empty() || rng.chance(8) { any_label } else { *rng.pick(&live) };
            let mut roll = rng.below(100);
            if live.is_empty() && rng.chance(75) {
                roll = 0;
            }
            if regs.is_empty() && (81..=94).contains(&roll) {
                roll = 75;
            }
            let free: Vec<u64> = (0..nlabels).filter(|x| !live.contains(x)).collect();
            if roll <= 33 && free.is_empty() && rng.chance(85) {
                roll = 50; // every label is in use: release one instead
            }
            let l = match roll {
                0..=33 => {
                    let label = if free.is_empty() || rng.chance(6) { any_label } else { *rng.pick(&free) };
                    let size = match rng.below(100) {
                        0..=2 => 0,
                        3..=64 => rng.range(1, cur as u64) as usize,
                        65..=89 => cur + rng.range(1, 2 * cur as u64 + 8) as usize,
                        _ => rng.range(1, 300) as usize,
                    };
                    let align = match rng.below(1000) {
                        0..=979 => *rng.pick(&aligns_small),
                        980..=996 => *rng.pick(&aligns_big),
                        _ => 8192,
                    };
                    if !live.contains(&label) {
                        live.push(label);
                    }
                    sizes.insert(label, size);
                    cur = cur.max(size);
                    format!("alloc {label} {size} {align}")
                }
                34..=45 => format!("write {live_label} {}", rng.range(1, 255)),
                46..=62 => {
                    live.retain(|x| *x != live_label);
                    format!("dealloc {live_label}")
                }
                63..=68 => {
                    let old = *sizes.get(&live_label).unwrap_or(&1);
                    let size = match rng.below(100) {
                        0..=4 => old.saturating_sub(1),
                        5..=14 => old,
                        15..=59 => old + rng.range(1, 8) as usize,
                        _ => old + rng.range(1, 3 * cur as u64 + 8) as usize,
                    };
                    let align = if rng.chance(98) { *rng.pick(&aligns_small) } else { *rng.pick(&aligns_big) };
                    sizes.insert(live_label, size);
                    cur = cur.max(size);
                    format!("grow {live_label} {size} {align} {}", if rng.chance(50) { "front" } else { "back" })
                }
                69..=80 => {
                    let v = rng.below(NVIEWS as u64);
                    let label = if rng.chance(85) { live_label } else { any_label };
                    if !regs.contains(&(v, label)) {
                        regs.push((v, label));
                    }
                    format!("view_register {v} {label}")
                }
                81..=85 => {
                    let (v, label) = if regs.is_empty() || rng.chance(10) { (rng.below(NVIEWS as u64), any_label) } else { *rng.pick(&regs) };
                    format!("view_read {v} {label}")
                }
                86..=94 => {
                    let (v, label) = if regs.is_empty() || rng.chance(10) { (rng.below(NVIEWS as u64), any_label) } else { *rng.pick(&regs) };
                    regs.retain(|x| *x != (v, label));
                    format!("view_unregister {v} {label}")
                }
                95..=97 => "segments".to_string(),
                _ => format!("view_segments {}", rng.below(NVIEWS as u64)),
            };
            lines.push(l);
        }
        lines.push("segments".into());
        lines.push("view_segments 0".into());
        lines.push("view_segments 1".into());
        cases.push(lines);
    }
    cases
}
