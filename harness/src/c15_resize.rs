//! C15 (resize part): the dynamically growing data segment.
//! Drives the real `resizable_shared_memory::dynamic::{DynamicMemory, DynamicView}` over the pool
//! allocator (posix shared memory by default, `local` = process-local flavour) with one owner and two
//! views, the way `port/details/data_segment.rs` uses them (publisher: allocate / deallocate_bucket,
//! loaned sample: grow; subscriber: register_and_translate_offset / unregister_offset).
//!
//! Ops (one per line):
//!   new <static|bestfit|pow2> <size> <align> <chunks> [posix|local]   -> ok | err:alloc:<e>
//!   alloc <label> <size> <align>          -> ok:<seg>:<off> | err:<e> | dup
//!   write <label> <byte>                  -> ok | none           (fills the chunk through the owner's pointer)
//!   dealloc <label>                       -> ok | none
//!   grow <label> <size> <align> <front|back> -> ok:<seg>:<off> | err:<e> | none
//!   view_register <view> <label>          -> ok | err:<e> | dup | none
//!   view_read <view> <label>              -> ok:<first byte seen through the view> | none
//!   view_unregister <view> <label>        -> ok | none
//!   segments                              -> <owner number_of_active_segments>
//!   view_segments <view>                  -> <view number_of_active_segments>
//!
//! Independent oracles (checked after EVERY op, never consulting the model):
//!   * a fresh allocation is aligned as requested (owner address and the view's translated address),
//!     lies inside the payload of its segment (payload size obtained by opening the segment a second time),
//!     sits on a bucket boundary of that segment, and does not overlap any other live allocation
//!     (absolute addresses, so also across segments);
//!   * every live chunk that was written keeps its bytes at its old location (owner's pointer), and
//!     every chunk registered in a view shows exactly these bytes through the view's pointer, until it is
//!     unregistered / deallocated / rewritten;
//!   * `grow` keeps the old content at the documented place.
use crate::common::*;
use core::alloc::Layout;
use core::fmt::Debug;
use iceoryx2_bb_elementary::allocation_strategy::AllocationStrategy;
use iceoryx2_bb_elementary_traits::allocator::*;
use iceoryx2_bb_posix::file::AccessMode;
use iceoryx2_bb_container::semantic_string::SemanticString;
use iceoryx2_bb_system_types::file_name::FileName;
use iceoryx2_cal::named_concept::*;
use iceoryx2_cal::resizable_shared_memory::dynamic::{DynamicMemory, DynamicView};
use iceoryx2_cal::resizable_shared_memory::*;
use iceoryx2_cal::shared_memory::{PointerOffset, SharedMemory, SharedMemoryBuilder, SharedMemoryForPoolAllocator, ShmPointer};
use iceoryx2_cal::shm_allocator::pool_allocator::PoolAllocator;
use std::collections::{BTreeMap, HashMap};
use std::sync::atomic::{AtomicU64, Ordering};

type PShm = iceoryx2_cal::shared_memory::posix::Memory<PoolAllocator>;
type LShm = iceoryx2_cal::shared_memory::process_local::Memory<PoolAllocator>;

static COUNTER: AtomicU64 = AtomicU64::new(0);
const NVIEWS: usize = 2;

struct Chunk {
    ptr: ShmPointer,
    size: usize,
    align: usize,
    live: bool,
    fill: Option<u8>, // Some(b): all `size` bytes are expected to be b
    generation: u64,
}
struct Reg {
    ptr: *const u8,
    off: PointerOffset,
    generation: u64,
}

struct World<Shm: SharedMemoryForPoolAllocator>
where
    Shm::Builder: Debug,
{
    // field order = drop order: views first, then the owner (which removes the segments)
    views: Vec<DynamicView<PoolAllocator, Shm>>,
    mem: DynamicMemory<PoolAllocator, Shm>,
    name: FileName,
    cfg: <Shm as NamedConceptMgmt>::Configuration,
    chunks: BTreeMap<u64, Chunk>,
    regs: Vec<BTreeMap<u64, Reg>>,
    seg_info: HashMap<u8, (usize, usize)>, // seg -> (payload size, bucket size)
    generation: u64,
}

fn n(s: &str) -> usize {
    s.parse().unwrap()
}
fn aerr(e: AllocationError) -> &'static str {
    match e {
        AllocationError::SizeIsZero => "err:zero",
        AllocationError::SizeTooLarge => "err:size",
        AllocationError::AlignmentFailure => "err:align",
        AllocationError::OutOfMemory => "err:oom",
        AllocationError::InternalError => "err:internal",
    }
}
fn gerr(e: AllocationGrowError) -> &'static str {
    match e {
        AllocationGrowError::GrowWouldShrink => "err:shrink",
        AllocationGrowError::SizeIsZero => "err:zero",
        AllocationGrowError::OutOfMemory => "err:oom",
        AllocationGrowError::AlignmentFailure => "err:align",
        AllocationGrowError::InternalError => "err:internal",
    }
}

impl<Shm: SharedMemoryForPoolAllocator> World<Shm>
where
    Shm::Builder: Debug,
{
    fn mk(t: &[&str]) -> Result<Self, String> {
        let k = COUNTER.fetch_add(1, Ordering::Relaxed);
        let strategy = match t[1] {
            "static" => AllocationStrategy::Static,
            "bestfit" => AllocationStrategy::BestFit,
            "pow2" => AllocationStrategy::PowerOfTwo,
            _ => panic!("bad strategy"),
        };
        let layout = Layout::from_size_align(n(t[2]), n(t[3])).unwrap();
        // own prefix: nothing is shared with other users of /dev/shm
        let prefix = FileName::new(format!("vfr{}_", std::process::id()).as_bytes()).unwrap();
        let cfg = <Shm as NamedConceptMgmt>::Configuration::default().prefix(&prefix);
        let name = FileName::new(format!("rs{k}").as_bytes()).unwrap();
        let mem = <DynamicMemory<PoolAllocator, Shm> as ResizableSharedMemory<PoolAllocator, Shm>>::MemoryBuilder::new(&name)
            .config(&cfg)
            .max_chunk_layout_hint(layout)
            .max_number_of_chunks_hint(n(t[4]))
            .allocation_strategy(strategy)
            .create()
            .map_err(|e| format!("err:alloc:{e:?}"))?;
        let mut views = vec![];
        for _ in 0..NVIEWS {
            let v = <DynamicMemory<PoolAllocator, Shm> as ResizableSharedMemory<PoolAllocator, Shm>>::ViewBuilder::new(&name)
                .config(&cfg)
                .open(AccessMode::ReadWrite)
                .map_err(|e| format!("err:alloc:view:{e:?}"))?;
            views.push(v);
        }
        Ok(World { views, mem, name, cfg, chunks: BTreeMap::new(), regs: (0..NVIEWS).map(|_| BTreeMap::new()).collect(), seg_info: HashMap::new(), generation: 0 })
    }

    /// independent look at a segment: open it a second time by its name
    fn segment_info(&mut self, seg: u8) -> Option<(usize, usize)> {
        if let Some(i) = self.seg_info.get(&seg) {
            return Some(*i);
        }
        let mut nm = self.name;
        nm.push_bytes(b"__").unwrap();
        nm.push_bytes(seg.to_string().as_bytes()).unwrap();
        let shm = Shm::Builder::new(&nm).config(&self.cfg).has_ownership(false).open(AccessMode::Read).ok()?;
        let i = (shm.size(), shm.bucket_size());
        self.seg_info.insert(seg, i);
        Some(i)
    }

    fn check_fresh(&mut self, label: u64, p: ShmPointer, size: usize, align: usize) {
        let addr = p.data_ptr as usize;
        let seg = p.offset.segment_id().value();
        let off = p.offset.offset();
        if addr % align != 0 {
            oracle_fail(format!("misaligned: chunk {label} for alignment {align}"));
        }
        match self.segment_info(seg) {
            None => oracle_fail(format!("segment-missing: segment {seg} of a fresh allocation cannot be opened")),
            Some((payload, bucket)) => {
                if off + size > payload {
                    oracle_fail(format!("out-of-bounds: offset {off} + {size} exceeds the payload {payload} of segment {seg}"));
                }
                if bucket == 0 || off % bucket != 0 || size > bucket {
                    oracle_fail(format!("bucket: offset {off} size {size} does not fit a bucket of {bucket} in segment {seg}"));
                }
            }
        }
        for (l, c) in &self.chunks {
            if *l == label || !c.live {
                continue;
            }
            let a = c.ptr.data_ptr as usize;
            // zero-sized chunks still own their bucket start
            if addr < a + c.size.max(1) && a < addr + size.max(1) {
                oracle_fail(format!("overlap: chunk {label} with live chunk {l}"));
            }
            if c.ptr.offset == p.offset {
                oracle_fail(format!("overlap: same offset as live chunk {l}"));
            }
        }
    }

    /// the canaries: owner side and every view
    fn check_canaries(&self) {
        for (l, c) in &self.chunks {
            if !c.live {
                continue;
            }
            if let Some(b) = c.fill {
                let s = unsafe { std::slice::from_raw_parts(c.ptr.data_ptr as *const u8, c.size) };
                if s.iter().any(|x| *x != b) {
                    oracle_fail(format!("owner-canary: chunk {l} changed"));
                }
            }
        }
        for (v, regs) in self.regs.iter().enumerate() {
            for (l, r) in regs {
                // every registered offset must stay readable (an unmapped segment would fault here)
                let first = unsafe { std::ptr::read_volatile(r.ptr) };
                let _ = first;
                if let Some(c) = self.chunks.get(l) {
                    if c.live && c.generation == r.generation {
                        if let Some(b) = c.fill {
                            let s = unsafe { std::slice::from_raw_parts(r.ptr, c.size) };
                            if s.iter().any(|x| *x != b) {
                                oracle_fail(format!("view-canary: chunk {l} differs in view {v}"));
                            }
                        }
                    }
                }
            }
        }
    }

    fn exec(&mut self, t: &[&str]) -> String {
        let r = self.exec1(t);
        self.check_canaries();
        r
    }

    fn exec1(&mut self, t: &[&str]) -> String {
        match t[0] {
            "alloc" => {
                let (label, size, align) = (n(t[1]) as u64, n(t[2]), n(t[3]));
                if self.chunks.get(&label).map(|c| c.live).unwrap_or(false) {
                    return "dup".into();
                }
                let l = Layout::from_size_align(size, align).unwrap();
                match self.mem.allocate(l) {
                    Ok(p) => {
                        self.check_fresh(label, p, size, align);
                        self.generation += 1;
                        self.chunks.insert(label, Chunk { ptr: p, size, align, live: true, fill: None, generation: self.generation });
                        format!("ok:{}:{}", p.offset.segment_id().value(), p.offset.offset())
                    }
                    Err(e) => aerr(e).into(),
                }
            }
            "write" => {
                let (label, b) = (n(t[1]) as u64, n(t[2]) as u8);
                match self.chunks.get_mut(&label) {
                    Some(c) if c.live => {
                        unsafe { std::ptr::write_bytes(c.ptr.data_ptr, b, c.size) };
                        c.fill = Some(b);
                        "ok".into()
                    }
                    _ => "none".into(),
                }
            }
            "dealloc" => {
                let label = n(t[1]) as u64;
                match self.chunks.get_mut(&label) {
                    Some(c) if c.live => {
                        c.live = false;
                        c.fill = None;
                        // the publisher releases by offset (Sender::release_chunk -> deallocate_bucket)
                        unsafe { self.mem.deallocate_bucket(c.ptr.offset) };
                        "ok".into()
                    }
                    _ => "none".into(),
                }
            }
            "grow" => {
                let (label, size, align) = (n(t[1]) as u64, n(t[2]), n(t[3]));
                let placement = if t[4] == "back" { ContentPlacement::Back } else { ContentPlacement::Front };
                let (old_ptr, old_size, old_align, old_fill) = match self.chunks.get(&label) {
                    Some(c) if c.live => (c.ptr, c.size, c.align, c.fill),
                    _ => return "none".into(),
                };
                let old_l = Layout::from_size_align(old_size, old_align).unwrap();
                let new_l = Layout::from_size_align(size, align).unwrap();
                let before: Vec<u8> = unsafe { std::slice::from_raw_parts(old_ptr.data_ptr as *const u8, old_size) }.to_vec();
                match unsafe { self.mem.grow(old_ptr, old_l, new_l, placement) } {
                    Ok(p) => {
                        if p.offset != old_ptr.offset {
                            // a different chunk: it must be a proper fresh allocation
                            self.chunks.get_mut(&label).unwrap().live = false;
                            self.check_fresh(label, p, size, align);
                        } else if p.data_ptr != old_ptr.data_ptr {
                            oracle_fail(format!("grow: chunk {label} keeps its offset but moved"));
                        }
                        let shift = if placement == ContentPlacement::Back { size - old_size } else { 0 };
                        let now = unsafe { std::slice::from_raw_parts((p.data_ptr as *const u8).add(shift), old_size) };
                        if now != &before[..] {
                            oracle_fail(format!("grow-content: chunk {label} lost its content"));
                        }
                        self.generation += 1;
                        let fill = if shift == 0 && size == old_size { old_fill } else { None };
                        self.chunks.insert(label, Chunk { ptr: p, size, align, live: true, fill, generation: self.generation });
                        format!("ok:{}:{}", p.offset.segment_id().value(), p.offset.offset())
                    }
                    Err(e) => gerr(e).into(),
                }
            }
            "view_register" => {
                let (v, label) = (n(t[1]), n(t[2]) as u64);
                if self.regs[v].contains_key(&label) {
                    return "dup".into();
                }
                let (off, generation, live, align) = match self.chunks.get(&label) {
                    Some(c) => (c.ptr.offset, c.generation, c.live, c.align),
                    None => return "none".into(),
                };
                // DataSegmentView::register_and_translate_offset
                match unsafe { self.views[v].register_and_translate_offset(off) } {
                    Ok(p) => {
                        if live && (p as usize) % align != 0 {
                            oracle_fail(format!("misaligned: chunk {label} in view {v}"));
                        }
                        self.regs[v].insert(label, Reg { ptr: p, off, generation });
                        "ok".into()
                    }
                    Err(e) => format!("err:{e:?}"),
                }
            }
            "view_read" => {
                let (v, label) = (n(t[1]), n(t[2]) as u64);
                match self.regs[v].get(&label) {
                    Some(r) => format!("ok:{}", unsafe { std::ptr::read_volatile(r.ptr) }),
                    None => "none".into(),
                }
            }
            "view_unregister" => {
                let (v, label) = (n(t[1]), n(t[2]) as u64);
                match self.regs[v].remove(&label) {
                    Some(r) => {
                        unsafe { self.views[v].unregister_offset(r.off) };
                        "ok".into()
                    }
                    None => "none".into(),
                }
            }
            "segments" => format!("{}", self.mem.number_of_active_segments()),
            "view_segments" => format!("{}", self.views[n(t[1])].number_of_active_segments()),
            // experiments only (not canonical): payload start of the segment of a live chunk modulo 4096
            "probe" => match self.chunks.get(&(n(t[1]) as u64)) {
                Some(c) => format!("{}", (c.ptr.data_ptr as usize - c.ptr.offset.offset()) % 8192),
                None => "none".into(),
            },
            _ => panic!("bad op"),
        }
    }
}

enum W {
    None,
    Posix(World<PShm>),
    Local(World<LShm>),
}
pub struct ResizeComp {
    w: W,
}
impl ResizeComp {
    pub fn new() -> Self {
        ResizeComp { w: W::None }
    }
}
impl Comp for ResizeComp {
    fn exec(&mut self, t: &[&str]) -> String {
        if t[0] == "new" {
            self.w = W::None; // drop (and clean up) the previous world first
            let local = t.get(5).map(|s| *s == "local").unwrap_or(false);
            let r = if local { World::<LShm>::mk(t).map(W::Local) } else { World::<PShm>::mk(t).map(W::Posix) };
            return match r {
                Ok(w) => {
                    self.w = w;
                    "ok".into()
                }
                Err(e) => e,
            };
        }
        match &mut self.w {
            W::Posix(w) => w.exec(t),
            W::Local(w) => w.exec(t),
            W::None => panic!("no world"),
        }
    }
}

pub fn generate(_a: &Args) -> Vec<Vec<String>> {
    vec![]
}
