//! stub: component `resize` (resizable shared memory; to be written)
use crate::common::*;

pub struct ResizeComp;
impl ResizeComp {
    pub fn new() -> Self {
        ResizeComp
    }
}
impl Comp for ResizeComp {
    fn exec(&mut self, _t: &[&str]) -> String {
        "unimplemented".into()
    }
}
pub fn generate(_a: &Args) -> Vec<Vec<String>> {
    vec![]
}
