//! C05 (port level) / C08 (event pattern) / C17 flavour: the real event ports (`Notifier`, `Listener`) of an
//! event service driven through the public API, one call per line.
//!
//! `new <variant> <max_notifiers> <max_listeners> <event_id_max> <created|-> <dropped|-> <dead|-> <max_nodes> <deadline: -|long|short>`
//!   node 0 is created and creates the service.
//! `open k`            a further node k is created and opens the service (its own service handle)
//! `cnot n <id|-> k`   node k's service handle creates notifier n (default event id)
//! `dnot n` `clis l k` `dlis l`
//! `notify n` `notifyid n <id>`   -> `ok:<number of listeners notified>` / `err:<enum>`
//! `wait l`            try_wait, sorted ids (ids only)   `twait l` timed_wait
//! `count k`           dynamic config as seen through service handle k: notifiers, listeners
//! `dnode k` `dsvc k`  drop the node handle / the service handle of node k
//! `kill k`            node k dies: node handle, service handle and all its ports are abandoned (as after a crash)
//! `cleanup k`         node k runs `try_cleanup_dead_nodes`
//! `ls`                files of the case by kind (ipc)
use crate::common::*;
use core::time::Duration;
use iceoryx2::port::listener::Listener;
use iceoryx2::port::notifier::Notifier;
use iceoryx2::prelude::*;
use iceoryx2::service::port_factory::event::PortFactory;
use iceoryx2::service::port_factory::PortFactory as _;
use iceoryx2_bb_elementary_traits::testing::abandonable::Abandonable;
use std::collections::{BTreeMap, BTreeSet, HashMap};

static SERVICE_COUNTER: std::sync::atomic::AtomicUsize = std::sync::atomic::AtomicUsize::new(0);

struct Part<S: Service> {
    node: Option<Node<S>>,
    svc: Option<PortFactory<S>>,
    dead: bool,
}

struct World<S: Service> {
    config: iceoryx2::config::Config,
    name: ServiceName,
    prefix: String,
    parts: BTreeMap<usize, Part<S>>,
    node_dirs: Vec<String>,
    nots: HashMap<usize, (Notifier<S>, usize)>,
    liss: HashMap<usize, (Listener<S>, usize)>,
    not_labels: BTreeSet<usize>,
    lis_labels: BTreeSet<usize>,
    id_max: usize,
    created: Option<usize>,
    dropped: Option<usize>,
    dead_ev: Option<usize>,
    // oracles (independent of the model)
    may: HashMap<usize, BTreeSet<usize>>,  // ids some notify / lifecycle event produced since the listener's last wait
    must: HashMap<usize, BTreeSet<usize>>, // ids of notifies that returned ok while the listener existed, not yet reported
    killed_listeners: usize,               // listeners of dead nodes that nobody cleaned up yet (upper bound)
    defaults: HashMap<usize, usize>,       // default event id per notifier
    // single-listener API: listener identity -> label (kept after the listener is gone), remembered keys (notifier, listener label)
    lis_ids: HashMap<u128, usize>,
    keys: HashMap<(usize, usize), iceoryx2::port::notifier::ListenerKey>,
}

pub enum AnyWorld {
    None,
    Local(Box<World<local::Service>>),
    Ipc(Box<World<ipc::Service>>),
}
pub struct EventPortsComp {
    w: AnyWorld,
}
impl EventPortsComp {
    pub fn new() -> Self {
        EventPortsComp { w: AnyWorld::None }
    }
}
fn n(s: &str) -> usize {
    s.parse().unwrap()
}
fn opt(s: &str) -> Option<usize> {
    if s == "-" { None } else { Some(n(s)) }
}

fn mk<S: Service>(t: &[&str]) -> Result<World<S>, String> {
    let k = SERVICE_COUNTER.fetch_add(1, std::sync::atomic::Ordering::Relaxed);
    let mut config = iceoryx2::config::Config::global_config().clone();
    // own domain: nothing is shared with other iceoryx2 users of this machine (test suites, other checks)
    let prefix = format!("ve{}c{}_", std::process::id(), k);
    config.global.prefix = iceoryx2_bb_system_types::file_name::FileName::new(prefix.as_bytes()).unwrap();
    // dead nodes are cleaned up by the explicit `cleanup` call only
    config.global.node.cleanup_dead_nodes_on_creation = false;
    config.global.node.cleanup_dead_nodes_on_destruction = false;
    config.global.service.cleanup_dead_nodes_on_open = false;
    let node = NodeBuilder::new().config(&config).create::<S>().map_err(|e| format!("err:node:{e:?}"))?;
    let name = ServiceName::new(&format!("verif/eventports/{}/{k}", std::process::id())).unwrap();
    let mut b = node
        .service_builder(&name)
        .event()
        .max_notifiers(n(t[2]))
        .max_listeners(n(t[3]))
        .event_id_max_value(n(t[4]))
        .max_nodes(n(t[8]));
    b = match opt(t[5]) { Some(v) => b.notifier_created_event(EventId::new(v)), None => b.disable_notifier_created_event() };
    b = match opt(t[6]) { Some(v) => b.notifier_dropped_event(EventId::new(v)), None => b.disable_notifier_dropped_event() };
    b = match opt(t[7]) { Some(v) => b.notifier_dead_event(EventId::new(v)), None => b.disable_notifier_dead_event() };
    b = match t[9] {
        "long" => b.deadline(Duration::from_secs(100_000)),
        "short" => b.deadline(Duration::from_nanos(1)),
        _ => b.disable_deadline(),
    };
    let service = b.create().map_err(|e| format!("err:service:{e:?}"))?;
    let node_dir = format!("{}", node.id().value());
    let mut parts = BTreeMap::new();
    parts.insert(0, Part { node: Some(node), svc: Some(service), dead: false });
    Ok(World {
        config, name, prefix, parts, node_dirs: vec![node_dir], nots: HashMap::new(), liss: HashMap::new(),
        not_labels: Default::default(), lis_labels: Default::default(),
        id_max: n(t[4]), created: opt(t[5]), dropped: opt(t[6]), dead_ev: opt(t[7]),
        may: HashMap::new(), must: HashMap::new(), killed_listeners: 0, defaults: HashMap::new(), lis_ids: HashMap::new(), keys: HashMap::new(),
    })
}

fn exec<S: Service>(w: &mut World<S>, t: &[&str]) -> String {
    // a lifecycle event (or any notify) may reach every listener that exists (also those of dead nodes, irrelevant)
    fn produced<S: Service>(w: &mut World<S>, id: usize) {
        for l in w.liss.keys() { w.may.entry(*l).or_default().insert(id); }
    }
    fn delivered<S: Service>(w: &mut World<S>, id: usize) {
        for l in w.liss.keys() { w.must.entry(*l).or_default().insert(id); }
    }
    match t[0] {
        "open" => {
            let k = n(t[1]);
            if w.parts.contains_key(&k) { return "dup".into(); }
            let node = match NodeBuilder::new().config(&w.config).create::<S>() { Ok(v) => v, Err(e) => return format!("err:node:{e:?}") };
            match node.service_builder(&w.name).event().open() {
                Ok(svc) => {
                    w.node_dirs.push(format!("{}", node.id().value()));
                    w.parts.insert(k, Part { node: Some(node), svc: Some(svc), dead: false });
                    "ok".into()
                }
                // the node is dropped again
                Err(e) => format!("err:EventOpenError::{e:?}"),
            }
        }
        "cnot" => {
            let (nl, k) = (n(t[1]), n(t[3]));
            if w.not_labels.contains(&nl) { return "dup".into(); }
            let Some(p) = w.parts.get(&k) else { return "no-node".into() };
            if p.dead { return "dead".into(); }
            let Some(svc) = p.svc.as_ref() else { return "no-service".into() };
            let mut b = svc.notifier_builder();
            if let Some(d) = opt(t[2]) { b = b.default_event_id(EventId::new(d)); }
            match b.create() {
                Ok(x) => {
                    w.not_labels.insert(nl);
                    w.nots.insert(nl, (x, k));
                    w.defaults.insert(nl, opt(t[2]).unwrap_or(0));
                    if let Some(c) = w.created { produced(w, c); if c <= w.id_max { delivered(w, c); } }
                    "ok".into()
                }
                Err(e) => format!("err:NotifierCreateError::{e:?}"),
            }
        }
        "dnot" => match w.nots.remove(&n(t[1])) {
            Some((x, _)) => {
                drop(x);
                if let Some(c) = w.dropped { produced(w, c); if c <= w.id_max { delivered(w, c); } }
                "ok".into()
            }
            None => "none".into(),
        },
        "clis" => {
            let (l, k) = (n(t[1]), n(t[2]));
            if w.lis_labels.contains(&l) { return "dup".into(); }
            let Some(p) = w.parts.get(&k) else { return "no-node".into() };
            if p.dead { return "dead".into(); }
            let Some(svc) = p.svc.as_ref() else { return "no-service".into() };
            match svc.listener_builder().create() {
                Ok(x) => { w.lis_labels.insert(l); w.lis_ids.insert(x.id().value(), l); w.liss.insert(l, (x, k)); w.may.insert(l, Default::default()); w.must.insert(l, Default::default()); "ok".into() }
                Err(e) => format!("err:ListenerCreateError::{e:?}"),
            }
        }
        "dlis" => match w.liss.remove(&n(t[1])) { Some((x, _)) => { drop(x); w.may.remove(&n(t[1])); w.must.remove(&n(t[1])); "ok".into() } None => "none".into() },
        "notify" | "notifyid" => {
            let nl = n(t[1]);
            let Some((x, _)) = w.nots.get(&nl) else { return "none".into() };
            let r = if t[0] == "notify" { x.notify() } else { x.notify_with_custom_event_id(EventId::new(n(t[2]))) };
            let id = if t[0] == "notify" { w.defaults.get(&nl).cloned().unwrap_or(0) } else { n(t[2]) };
            let live = w.liss.len();
            let killed = w.killed_listeners;
            match r {
                Ok(c) => {
                    produced(w, id); delivered(w, id);
                    if c < live || c > live + killed { oracle_fail("notify count differs from the number of existing listeners".to_string()); }
                    format!("ok:{c}")
                }
                Err(e) => {
                    if e == iceoryx2::port::notifier::NotifierNotifyError::MissedDeadline { produced(w, id); delivered(w, id); }
                    else if e != iceoryx2::port::notifier::NotifierNotifyError::EventIdOutOfBounds { produced(w, id); }
                    format!("err:NotifierNotifyError::{e:?}")
                }
            }
        }
        "keys" => {
            // keys <n>: the keys notifier n hands out now (`for_each_listener`) are remembered by listener label
            let nl = n(t[1]);
            let Some((x, _)) = w.nots.get(&nl) else { return "none".into() };
            let mut seen: Vec<(usize, iceoryx2::port::notifier::ListenerKey)> = vec![];
            let mut unknown = false;
            x.for_each_listener(|m, details| {
                match w.lis_ids.get(&details.listener_id.value()) { Some(l) => seen.push((*l, m.listener_key())), None => unknown = true }
                CallbackProgression::Continue
            });
            if unknown { oracle_fail("for_each_listener shows a listener nobody created".to_string()); }
            let mut labels: Vec<usize> = seen.iter().map(|x| x.0).collect();
            labels.sort();
            for (l, k) in seen { w.keys.insert((nl, l), k); }
            let v: Vec<String> = labels.iter().map(|x| x.to_string()).collect();
            format!("[{}]", v.join(","))
        }
        "notifyone" => {
            // notifyone <n> <l> <id|->: notify_single_listener(_with_custom_event_id) with the remembered key of listener l
            let (nl, l) = (n(t[1]), n(t[2]));
            let Some((x, _)) = w.nots.get(&nl) else { return "none".into() };
            let Some(key) = w.keys.get(&(nl, l)) else { return "no-key".into() };
            let id = match opt(t[3]) { Some(v) => v, None => w.defaults.get(&nl).cloned().unwrap_or(0) };
            let r = match opt(t[3]) { Some(v) => x.notify_single_listener_with_custom_event_id(key, EventId::new(v)), None => x.notify_single_listener(key) };
            use iceoryx2::port::notifier::NotifierNotifyError as E;
            // only the keyed listener may get the id (oracle `may`), and it must get it when the call reports success
            let sent = matches!(r, Ok(()) | Err(E::MissedDeadline) | Err(E::UnableToAcquireElapsedTime));
            if sent && w.liss.contains_key(&l) {
                w.may.entry(l).or_default().insert(id);
                if !matches!(r, Err(E::UnableToAcquireElapsedTime)) { w.must.entry(l).or_default().insert(id); }
            }
            match r { Ok(()) => "ok".into(), Err(e) => format!("err:NotifierNotifyError::{e:?}") }
        }
        "wait" | "twait" => {
            let l = n(t[1]);
            let Some((x, _)) = w.liss.get(&l) else { return "none".into() };
            let mut ids: Vec<usize> = vec![];
            let r = if t[0] == "wait" { x.try_wait(|e| ids.push(e.id.as_value())) } else {
                let to = if w.must.get(&l).map(|s| !s.is_empty()).unwrap_or(false) { Duration::from_secs(2) } else { Duration::from_millis(1) }; // a zero timeout never returns (SO_RCVTIMEO 0 = block forever), reported
                x.timed_wait(|e| ids.push(e.id.as_value()), to)
            };
            if let Err(e) = r { return format!("err:ListenerWaitError::{e:?}"); }
            ids.sort();
            let may = w.may.insert(l, Default::default()).unwrap_or_default();
            let must = w.must.insert(l, Default::default()).unwrap_or_default();
            for i in &ids { if !may.contains(i) { oracle_fail("listener reports an id nobody notified since its last wait".to_string()); break; } }
            for i in &must { if !ids.contains(i) { oracle_fail("listener misses an id whose notify returned ok while it existed".to_string()); break; } }
            for i in 1..ids.len() { if ids[i] == ids[i - 1] { oracle_fail("id reported twice in one wait".to_string()); break; } }
            let v: Vec<String> = ids.iter().map(|x| x.to_string()).collect();
            format!("[{}]", v.join(","))
        }
        "count" => {
            let Some(p) = w.parts.get(&n(t[1])) else { return "no-node".into() };
            if p.dead { return "dead".into(); }
            let Some(svc) = p.svc.as_ref() else { return "no-service".into() };
            format!("n={},l={}", svc.dynamic_config().number_of_notifiers(), svc.dynamic_config().number_of_listeners())
        }
        // C17: the node handle / the service handle are dropped while everything else lives on
        "dnode" => match w.parts.get_mut(&n(t[1])) { Some(p) if !p.dead => match p.node.take() { Some(x) => { drop(x); "ok".into() } None => "none".into() }, Some(_) => "dead".into(), None => "no-node".into() },
        "dsvc" => match w.parts.get_mut(&n(t[1])) { Some(p) if !p.dead => match p.svc.take() { Some(x) => { drop(x); "ok".into() } None => "none".into() }, Some(_) => "dead".into(), None => "no-node".into() },
        "kill" => {
            let k = n(t[1]);
            let Some(p) = w.parts.get_mut(&k) else { return "no-node".into() };
            if p.dead { return "dead".into(); }
            p.dead = true;
            // as in the conformance tests: node, ports, service
            if let Some(x) = p.node.take() { x.abandon(); }
            let ns: Vec<usize> = w.nots.iter().filter(|(_, v)| v.1 == k).map(|(a, _)| *a).collect();
            for a in ns { let (x, _) = w.nots.remove(&a).unwrap(); x.abandon(); }
            let ls: Vec<usize> = w.liss.iter().filter(|(_, v)| v.1 == k).map(|(a, _)| *a).collect();
            for a in ls { let (x, _) = w.liss.remove(&a).unwrap(); x.abandon(); w.may.remove(&a); w.must.remove(&a); w.killed_listeners += 1; }
            let p = w.parts.get_mut(&k).unwrap();
            if let Some(x) = p.svc.take() { x.abandon(); }
            "ok".into()
        }
        "cleanup" => {
            let Some(p) = w.parts.get(&n(t[1])) else { return "no-node".into() };
            if p.dead { return "dead".into(); }
            let Some(node) = p.node.as_ref() else { return "none".into() };
            let r = node.try_cleanup_dead_nodes();
            if let Some(c) = w.dead_ev { produced(w, c); }
            if r.failed_cleanups == 0 { w.killed_listeners = 0; }
            format!("c={},f={}", r.cleanups, r.failed_cleanups)
        }
        "ls" => list_resources(&w.prefix, &w.node_dirs),
        _ => panic!("bad op"),
    }
}

/// what exists of this case in the file system / shared memory namespace, by kind (ipc variant)
fn list_resources(prefix: &str, node_dirs: &[String]) -> String {
    let mut counts: BTreeMap<String, usize> = Default::default();
    let mut scan = |dir: &str| {
        if let Ok(rd) = std::fs::read_dir(dir) {
            for e in rd.flatten() {
                let n = e.file_name().to_string_lossy().to_string();
                if n.starts_with(prefix) {
                    let kind = n.rsplit('.').next().unwrap_or("?").to_string();
                    *counts.entry(kind).or_insert(0) += 1;
                }
            }
        }
    };
    scan("/dev/shm");
    scan("/tmp/iceoryx2/nodes");
    scan("/tmp/iceoryx2/services");
    scan("/tmp/iceoryx2/events");
    scan("/tmp/iceoryx2");
    for d in node_dirs { scan(&format!("/tmp/iceoryx2/nodes/{d}")); }
    let mut dirs = 0;
    for d in node_dirs { if std::path::Path::new(&format!("/tmp/iceoryx2/nodes/{d}")).exists() { dirs += 1; } }
    if dirs > 0 { counts.insert("nodedir".into(), dirs); }
    counts.remove("global_mgmt"); // the domain-wide management segment persists by design
    let v: Vec<String> = counts.iter().map(|(k, c)| format!("{k}={c}")).collect();
    if v.is_empty() { "-".into() } else { v.join(",") }
}

impl Comp for EventPortsComp {
    fn exec(&mut self, t: &[&str]) -> String {
        if t[0] == "new" {
            self.w = AnyWorld::None;
            return match t[1] {
                "local" => match mk::<local::Service>(t) { Ok(w) => { self.w = AnyWorld::Local(Box::new(w)); "ok".into() } Err(e) => e },
                _ => match mk::<ipc::Service>(t) { Ok(w) => { self.w = AnyWorld::Ipc(Box::new(w)); "ok".into() } Err(e) => e },
            };
        }
        match &mut self.w {
            AnyWorld::None => "no-world".into(),
            AnyWorld::Local(w) => exec(w, t),
            AnyWorld::Ipc(w) => exec(w, t),
        }
    }
}


fn optstr(rng: &mut Rng, none_pct: u64, hi: u64) -> String {
    if rng.chance(none_pct) { "-".into() } else { rng.range(0, hi).to_string() }
}

pub fn generate(a: &Args) -> Vec<Vec<String>> {
    let variant = a.rest.iter().find(|x| *x == "ipc").map(|_| "ipc").unwrap_or("local");
    let limits = a.rest.iter().any(|x| x == "limits");
    // `single`: the single-listener API (`keys`, `notifyone`) joins the histories, incl. keys of listeners that are gone
    let single = a.rest.iter().any(|x| x == "single");
    if a.rest.iter().any(|x| x == "shutdown") {
        return shutdown_cases(a, variant);
    }
    if a.exhaustive > 0 {
        return exhaustive(a, variant);
    }
    let mut rng = Rng::new(a.seed);
    let mut cases = vec![];
    for _ in 0..a.cases {
        // limits 0..3 (0 is adjusted to 1 by the builder); `limits`: small limits, creation-heavy
        let hi = if limits { 2 } else { 3 };
        let (mn, ml, nodes) = (rng.range(0, hi), rng.range(0, hi), rng.range(0, 3));
        let idmax = rng.range(0, 4);
        // lifecycle ids, sometimes larger than the maximum
        let (c, d, x) = (optstr(&mut rng, 40, idmax + 1), optstr(&mut rng, 40, idmax + 1), optstr(&mut rng, 40, idmax + 1));
        let dl = match rng.below(10) { 0 => "long", 1 => "short", _ => "-" };
        let mut lines = vec![format!("new {variant} {mn} {ml} {idmax} {c} {d} {x} {nodes} {dl}")];
        // what probably exists (mostly valid histories): the generator predicts successes from the limits
        let (cmn, cml, cnodes) = (mn.max(1) as usize, ml.max(1) as usize, nodes.max(1) as usize);
        #[derive(Clone)]
        struct P { k: usize, handle: bool, svc: bool }
        let mut parts: Vec<P> = vec![P { k: 0, handle: true, svc: true }];
        let mut dead: Vec<usize> = vec![];
        let (mut nots, mut liss): (Vec<(usize, usize)>, Vec<(usize, usize)>) = (vec![], vec![]);
        let (mut dead_nots, mut dead_liss) = (0usize, 0usize);
        let (mut nn, mut nl, mut np) = (0usize, 0usize, 1usize);
        let mut keyed: Vec<(usize, usize)> = vec![];
        // weights: open, cnot, clis, dnot, dlis, notify, notifyid, wait, count, dnode, dsvc, kill, cleanup, ls, twait
        let wts: [u64; 15] = if limits { [6, 16, 16, 8, 8, 10, 6, 10, 4, 1, 1, 2, 3, 3, 1] } else { [4, 8, 9, 4, 4, 18, 12, 20, 3, 2, 2, 4, 5, 3, 2] };
        let total: u64 = wts.iter().sum();
        for _ in 0..rng.range(3, a.len) {
            let mut c = rng.below(total);
            let mut k = 0;
            while c >= wts[k] { c -= wts[k]; k += 1; }
            if nots.is_empty() && rng.chance(40) { k = 1 }
            if liss.is_empty() && rng.chance(40) { k = 2 }
            if single && !nots.is_empty() && rng.chance(16) {
                let nn0 = rng.pick(&nots).0;
                match rng.below(10) {
                    0..=2 => { keyed.extend(liss.iter().map(|e| (nn0, e.0))); lines.push(format!("keys {nn0}")); }
                    3..=7 => {
                        // mostly a remembered key (its listener may be gone by now), sometimes any pair
                        let (x, l) = if !keyed.is_empty() && rng.chance(85) { *rng.pick(&keyed) } else { (nn0, rng.below(nl as u64 + 1) as usize) };
                        lines.push(format!("notifyone {x} {l} {}", optstr(&mut rng, 30, idmax + 1)));
                    }
                    _ if !liss.is_empty() => {
                        // slot re-use: remember the keys, drop a listener, create another one (it takes the freed slot), use the old key
                        let i = rng.below(liss.len() as u64) as usize; let (l, p) = liss.remove(i);
                        let x = nl; nl += 1; liss.push((x, p));
                        lines.push(format!("keys {nn0}")); lines.push(format!("dlis {l}")); lines.push(format!("clis {x} {p}"));
                        if rng.chance(50) { lines.push(format!("keys {nn0}")); keyed.push((nn0, x)); }
                        lines.push(format!("notifyone {nn0} {l} {}", optstr(&mut rng, 30, idmax)));
                        lines.push(format!("wait {x}"));
                    }
                    _ => {}
                }
                continue;
            }
            // a node to act through: mostly a live one (with a service handle when `need_svc`)
            let some_part = |rng: &mut Rng, parts: &Vec<P>, dead: &Vec<usize>, need_svc: bool| -> usize {
                if rng.chance(3) { return rng.below(4) as usize }
                if !dead.is_empty() && rng.chance(4) { return *rng.pick(dead) }
                let c: Vec<usize> = parts.iter().filter(|p| !need_svc || p.svc || rng.chance(5)).map(|p| p.k).collect();
                if c.is_empty() { usize::MAX } else { *rng.pick(&c) }
            };
            let registered = |parts: &Vec<P>, nots: &Vec<(usize, usize)>, liss: &Vec<(usize, usize)>| -> usize {
                parts.iter().filter(|p| p.svc || nots.iter().any(|e| e.1 == p.k) || liss.iter().any(|e| e.1 == p.k)).count()
            };
            let l = match k {
                0 => {
                    let p = np; np += 1;
                    let reg = registered(&parts, &nots, &liss) + dead.len();
                    if reg > 0 && reg < cnodes { parts.push(P { k: p, handle: true, svc: true }); }
                    format!("open {p}")
                }
                1 => {
                    let mut p = some_part(&mut rng, &parts, &dead, true);
                    if p == usize::MAX { if rng.chance(80) { continue } p = 0; }
                    let x = nn; nn += 1;
                    if nots.len() + dead_nots < cmn && parts.iter().any(|q| q.k == p && q.svc) { nots.push((x, p)); }
                    format!("cnot {x} {} {p}", optstr(&mut rng, 30, idmax + 1))
                }
                2 => {
                    let mut p = some_part(&mut rng, &parts, &dead, true);
                    if p == usize::MAX { if rng.chance(80) { continue } p = 0; }
                    let x = nl; nl += 1;
                    if liss.len() + dead_liss < cml && parts.iter().any(|q| q.k == p && q.svc) { liss.push((x, p)); }
                    format!("clis {x} {p}")
                }
                3 if !nots.is_empty() => { let i = rng.below(nots.len() as u64) as usize; let (x, _) = nots.remove(i); format!("dnot {x}") }
                4 if !liss.is_empty() => { let i = rng.below(liss.len() as u64) as usize; let (x, _) = liss.remove(i); format!("dlis {x}") }
                3 | 4 | 5 | 6 | 7 if rng.chance(8) => {
                    // a port that does not exist (any more)
                    let x = rng.below(6);
                    match k { 3 => format!("dnot {x}"), 4 => format!("dlis {x}"), 5 => format!("notify {x}"), 6 => format!("notifyid {x} 0"), _ => format!("wait {x}") }
                }
                5 if !nots.is_empty() => format!("notify {}", rng.pick(&nots).0),
                6 if !nots.is_empty() => format!("notifyid {} {}", rng.pick(&nots).0, rng.range(0, idmax + 1)),
                7 if !liss.is_empty() => format!("wait {}", rng.pick(&liss).0),
                14 if !liss.is_empty() => format!("twait {}", rng.pick(&liss).0),
                8 => { let p = some_part(&mut rng, &parts, &dead, true); format!("count {}", if p == usize::MAX { 0 } else { p }) }
                9 => {
                    let mut p = some_part(&mut rng, &parts, &dead, false);
                    if p == usize::MAX { p = 0; }
                    if let Some(q) = parts.iter_mut().find(|q| q.k == p) { q.handle = false; }
                    format!("dnode {p}")
                }
                10 => {
                    let mut p = some_part(&mut rng, &parts, &dead, false);
                    if p == usize::MAX { p = 0; }
                    if let Some(q) = parts.iter_mut().find(|q| q.k == p) { q.svc = false; }
                    format!("dsvc {p}")
                }
                11 if parts.len() > 1 || rng.chance(10) => {
                    if parts.is_empty() { continue }
                    let i = rng.below(parts.len() as u64) as usize;
                    let p = parts.remove(i).k;
                    dead.push(p);
                    dead_nots += nots.iter().filter(|e| e.1 == p).count();
                    dead_liss += liss.iter().filter(|e| e.1 == p).count();
                    nots.retain(|e| e.1 != p);
                    liss.retain(|e| e.1 != p);
                    format!("kill {p}")
                }
                12 => {
                    let c: Vec<usize> = parts.iter().filter(|p| p.handle || rng.chance(10)).map(|p| p.k).collect();
                    let p = if c.is_empty() || rng.chance(5) { rng.below(4) as usize } else { *rng.pick(&c) };
                    if parts.iter().any(|q| q.k == p && q.handle) { dead.clear(); dead_nots = 0; dead_liss = 0; }
                    format!("cleanup {p}")
                }
                13 => "ls".to_string(),
                _ => continue,
            };
            lines.push(l);
        }
        cases.push(lines);
    }
    cases
}

/// every sequence of length `exhaustive` over a fixed alphabet, for a few small configurations
fn exhaustive(a: &Args, variant: &str) -> Vec<Vec<String>> {
    let mut cases = vec![];
    // (max_notifiers max_listeners event_id_max created dropped dead max_nodes deadline)
    let configs = ["2 2 3 1 2 3 2 -", "1 1 1 - 1 2 2 -", "2 1 2 0 - 1 3 short"];
    let mut alphabet: Vec<String> = [
        "cnot", "clis", "dnot", "dlis", "notify 0", "notify 1", "notifyid 0 9", "wait 0", "wait 1", "dsvc 0", "dnode 0", "open", "kill 1", "cleanup 0", "count 1",
    ].iter().map(|x| x.to_string()).collect();
    if a.rest.iter().any(|x| x == "single") {
        // the single-listener API; the listeners are created on alternating nodes: `dlis` + `clis` re-uses a slot
        alphabet = ["clis", "dlis", "keys 0", "notifyone 0 0 2", "notifyone 0 1 -", "notifyone 0 0 9", "wait 0", "wait 1", "notify 0", "cnot", "dnot", "kill 1"].iter().map(|x| x.to_string()).collect();
    }
    for cfg in configs {
        enumerate_seqs(&alphabet, a.exhaustive as usize, &mut |seq| {
            // prefix: a second node, one notifier (node 1) and one listener (node 0) exist, one notification is pending
            let mut lines = vec![format!("new {variant} {cfg}"), "open 1".to_string(), "cnot 0 1 1".to_string(), "clis 0 0".to_string(), "notify 0".to_string()];
            if a.rest.iter().any(|x| x == "single") { lines.push("keys 0".to_string()); }
            let (mut nn, mut nl, mut np) = (1usize, 1usize, 2usize);
            let (mut dn, mut dl) = (0usize, 0usize);
            for &i in seq {
                match alphabet[i].as_str() {
                    "cnot" => { lines.push(format!("cnot {nn} 0 {}", nn % 2)); nn += 1; }
                    "clis" => { lines.push(format!("clis {nl} {}", nl % 2)); nl += 1; }
                    "dnot" => { lines.push(format!("dnot {dn}")); dn += 1; }
                    "dlis" => { lines.push(format!("dlis {dl}")); dl += 1; }
                    "open" => { lines.push(format!("open {np}")); np += 1; }
                    x => lines.push(x.to_string()),
                }
            }
            lines.push("ls".into());
            cases.push(lines);
        });
    }
    cases
}

/// C17 flavour: an object graph (node handles, service handles, notifiers, listeners in one or two nodes) is dropped in
/// some order; `ls` after every drop, survivors are exercised in between.
/// `--exhaustive 1`: every permutation of the drop order of a fixed graph of 6 objects (720) per configuration.
fn shutdown_cases(a: &Args, variant: &str) -> Vec<Vec<String>> {
    let mut cases = vec![];
    let mut rng = Rng::new(a.seed ^ 0x17);
    if a.exhaustive > 0 {
        let objs = ["dnode 0", "dsvc 0", "dnot 0", "dlis 0", "dnot 1", "dlis 1"];
        let mut perm: Vec<usize> = (0..objs.len()).collect();
        let mut perms = vec![];
        fn heap(k: usize, p: &mut Vec<usize>, out: &mut Vec<Vec<usize>>) {
            if k == 1 { out.push(p.clone()); return; }
            heap(k - 1, p, out);
            for i in 0..k - 1 {
                if k % 2 == 0 { p.swap(i, k - 1) } else { p.swap(0, k - 1) }
                heap(k - 1, p, out);
            }
        }
        heap(objs.len(), &mut perm, &mut perms);
        for cfg in ["2 2 3 1 2 3 2 -", "2 2 1 - - - 1 -"] {
            for p in &perms {
                let mut lines = vec![format!("new {variant} {cfg}"), "cnot 0 0 0".into(), "clis 0 0".into(), "cnot 1 1 0".into(), "clis 1 0".into(), "notify 0".into(), "ls".into()];
                for (j, &i) in p.iter().enumerate() {
                    lines.push(objs[i].to_string());
                    lines.push("ls".into());
                    // survivors keep working
                    if j == 2 { lines.push("notify 0".into()); lines.push("notify 1".into()); lines.push("wait 0".into()); lines.push("wait 1".into()); }
                }
                cases.push(lines);
            }
        }
        return cases;
    }
    for _ in 0..a.cases {
        let np = rng.range(1, 2) as usize;
        let (mn, ml) = (rng.range(1, 3), rng.range(1, 3));
        let idmax = rng.range(1, 3);
        let mut lines = vec![format!("new {variant} {mn} {ml} {idmax} {} {} {} {np} -", optstr(&mut rng, 50, idmax), optstr(&mut rng, 50, idmax), optstr(&mut rng, 50, idmax))];
        let mut objs: Vec<String> = vec![];
        for p in 0..np { if p > 0 { lines.push(format!("open {p}")); } objs.push(format!("dnode {p}")); objs.push(format!("dsvc {p}")); }
        for x in 0..mn { lines.push(format!("cnot {x} {} {}", rng.range(0, idmax), rng.below(np as u64))); objs.push(format!("dnot {x}")); }
        for x in 0..ml { lines.push(format!("clis {x} {}", rng.below(np as u64))); objs.push(format!("dlis {x}")); }
        lines.push("ls".into());
        for i in (1..objs.len()).rev() {
            let j = rng.below(i as u64 + 1) as usize;
            objs.swap(i, j);
        }
        while let Some(o) = objs.pop() {
            lines.push(o);
            lines.push("ls".into());
            for s in &objs {
                let t: Vec<&str> = s.split(' ').collect();
                if t[0] == "dnot" && rng.chance(40) { lines.push(format!("notify {}", t[1])); }
                if t[0] == "dlis" && rng.chance(40) { lines.push(format!("wait {}", t[1])); }
            }
        }
        lines.push("ls".into());
        cases.push(lines);
    }
    cases
}
