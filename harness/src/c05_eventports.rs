//! stub: component `eventports` (event service ports; to be written)
use crate::common::*;

pub struct EventPortsComp;
impl EventPortsComp {
    pub fn new() -> Self {
        EventPortsComp
    }
}
impl Comp for EventPortsComp {
    fn exec(&mut self, _t: &[&str]) -> String {
        "unimplemented".into()
    }
}
pub fn generate(_a: &Args) -> Vec<Vec<String>> {
    vec![]
}
