//! C14: the self-relative pointer itself.  A block of memory holds `RelocatablePointer<u8>` objects at
//! 8-aligned offsets; the block is copied byte for byte to a fresh address (`reloc`, the old block is
//! poisoned) and every pointer must still resolve to the same offset of the new block.
use crate::common::*;
use iceoryx2_bb_elementary::relocatable_pointer::RelocatablePointer;
use iceoryx2_bb_elementary_traits::pointer::Pointer;
use std::ptr::NonNull;

pub struct RelPtrComp {
    base: *mut u8,
    size: usize,
    graveyard: Vec<*mut u8>,
}
impl RelPtrComp {
    pub fn new() -> Self {
        RelPtrComp { base: std::ptr::null_mut(), size: 0, graveyard: vec![] }
    }
    fn layout(&self) -> std::alloc::Layout {
        std::alloc::Layout::from_size_align(self.size.max(8), 64).unwrap()
    }
    fn cell(&self, off: usize) -> *mut RelocatablePointer<u8> {
        unsafe { self.base.add(off) as *mut RelocatablePointer<u8> }
    }
}
impl Drop for RelPtrComp {
    fn drop(&mut self) {
        if !self.base.is_null() {
            unsafe { std::alloc::dealloc(self.base, self.layout()) };
            for g in self.graveyard.drain(..) {
                unsafe { std::alloc::dealloc(g, std::alloc::Layout::from_size_align(self.size.max(8), 64).unwrap()) };
            }
        }
    }
}
fn n(s: &str) -> usize {
    s.parse().unwrap()
}
impl Comp for RelPtrComp {
    fn exec(&mut self, t: &[&str]) -> String {
        match t[0] {
            "new" => {
                *self = RelPtrComp::new();
                self.size = n(t[1]);
                self.base = unsafe { std::alloc::alloc(self.layout()) };
                unsafe { std::ptr::write_bytes(self.base, 0xAB, self.size) };
                "ok".into()
            }
            "init" => {
                let c = self.cell(n(t[1]));
                unsafe {
                    c.write(RelocatablePointer::new_uninit());
                    (*c).init(NonNull::new(self.base.add(n(t[2]))).unwrap());
                }
                "ok".into()
            }
            "get" => {
                let p = unsafe { (*self.cell(n(t[1]))).as_ptr() } as isize;
                format!("{}", p - self.base as isize)
            }
            "copy" => {
                unsafe { std::ptr::copy_nonoverlapping(self.base.add(n(t[1])), self.base.add(n(t[2])), std::mem::size_of::<RelocatablePointer<u8>>()) };
                "ok".into()
            }
            "reloc" => {
                let nb = unsafe { std::alloc::alloc(self.layout()) };
                unsafe {
                    std::ptr::copy_nonoverlapping(self.base, nb, self.size);
                    std::ptr::write_bytes(self.base, 0xCD, self.size);
                }
                self.graveyard.push(self.base);
                self.base = nb;
                "ok".into()
            }
            _ => panic!("bad op"),
        }
    }
}
pub fn generate(a: &Args) -> Vec<Vec<String>> {
    let mut rng = Rng::new(a.seed);
    let mut cases = vec![];
    for _ in 0..a.cases {
        let slots = rng.range(2, 12) as usize;
        let mut lines = vec![format!("new {}", slots * 8)];
        let mut inited: Vec<usize> = vec![];
        for _ in 0..rng.range(2, a.len) {
            let l = match rng.below(10) {
                0..=2 => {
                    let s = rng.below(slots as u64) as usize * 8;
                    if !inited.contains(&s) { inited.push(s); }
                    format!("init {s} {}", rng.below(slots as u64 * 8))
                }
                3..=5 if !inited.is_empty() => format!("get {}", rng.pick(&inited)),
                6 if !inited.is_empty() => {
                    let f = *rng.pick(&inited);
                    let t = rng.below(slots as u64) as usize * 8;
                    if t == f { continue }
                    if !inited.contains(&t) { inited.push(t); }
                    format!("copy {f} {t}")
                }
                _ => "reloc".to_string(),
            };
            lines.push(l);
        }
        cases.push(lines);
    }
    cases
}
