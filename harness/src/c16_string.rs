//! C16: byte strings (StaticString, PolymorphicString, RelocatableString)
use crate::c16_vec::RelocBlock;
use crate::common::*;
use iceoryx2_bb_container::string::*;
use iceoryx2_bb_memory::heap_allocator::HeapAllocator;

pub fn hex(b: &[u8]) -> std::string::String {
    if b.is_empty() {
        return "-".into();
    }
    b.iter().map(|x| format!("{x:02x}")).collect()
}
pub fn unhex(s: &str) -> Vec<u8> {
    if s == "-" {
        return vec![];
    }
    (0..s.len() / 2).map(|i| u8::from_str_radix(&s[2 * i..2 * i + 2], 16).unwrap()).collect()
}
fn err(e: StringModificationError) -> &'static str {
    match e {
        StringModificationError::InvalidCharacter => "err:char",
        StringModificationError::InsertWouldExceedCapacity => "err:cap",
    }
}
pub fn res(r: Result<(), StringModificationError>) -> std::string::String {
    match r {
        Ok(()) => "ok".into(),
        Err(e) => err(e).into(),
    }
}

pub fn apply<S: String>(s: &mut S, t: &[&str]) -> std::string::String {
    let n = |x: &str| x.parse::<usize>().unwrap();
    match t[0] {
        "push" => res(s.push(n(t[1]) as u8)),
        "push_bytes" => res(s.push_bytes(&unhex(t[1]))),
        "insert" => res(s.insert(n(t[1]), n(t[2]) as u8)),
        "insert_bytes" => res(s.insert_bytes(n(t[1]), &unhex(t[2]))),
        "pop" => match s.pop() { Some(b) => format!("some:{b}"), None => "none".into() },
        "remove" => match s.remove(n(t[1])) { Some(b) => format!("some:{b}"), None => "none".into() },
        "remove_range" => format!("{}", s.remove_range(n(t[1]), n(t[2]))),
        "retain" => { let b = n(t[1]) as u8; s.retain(|c| c == b); "ok".into() }
        "find" => match s.find(&unhex(t[1])) { Some(i) => format!("some:{i}"), None => "none".into() },
        "rfind" => match s.rfind(&unhex(t[1])) { Some(i) => format!("some:{i}"), None => "none".into() },
        "strip_prefix" => format!("{}", s.strip_prefix(&unhex(t[1]))),
        "strip_suffix" => format!("{}", s.strip_suffix(&unhex(t[1]))),
        "truncate" => { s.truncate(n(t[1])); "ok".into() }
        "clear" => { s.clear(); "ok".into() }
        "dump" => {
            // independent oracle: the byte after the contents must be the NUL terminator
            let with_nul = s.as_bytes_with_nul();
            if with_nul[with_nul.len() - 1] != 0 {
                oracle_fail("missing NUL terminator".into());
            }
            format!("{} len={} cap={} full={} empty={}", hex(s.as_bytes()), s.len(), s.capacity(), s.is_full(), s.is_empty())
        }
        _ => panic!("bad op"),
    }
}

enum AnyStr {
    None,
    S1(StaticString<1>),
    S2(StaticString<2>),
    S3(StaticString<3>),
    S4(StaticString<4>),
    S7(StaticString<7>),
    S16(StaticString<16>),
    P(PolymorphicString<'static, HeapAllocator>),
    R(RelocBlock<RelocatableString>),
}
pub struct StrComp {
    s: AnyStr,
}
impl StrComp {
    pub fn new() -> Self {
        StrComp { s: AnyStr::None }
    }
}
impl Comp for StrComp {
    fn exec(&mut self, t: &[&str]) -> std::string::String {
        if t[0] == "reloc" {
            if let AnyStr::R(b) = &mut self.s { b.relocate(); }
            return "ok".into();
        }
        if t[0] == "new" {
            let cap: usize = t[2].parse().unwrap();
            self.s = match (t[1], cap) {
                ("static", 1) => AnyStr::S1(StaticString::new()),
                ("static", 2) => AnyStr::S2(StaticString::new()),
                ("static", 3) => AnyStr::S3(StaticString::new()),
                ("static", 4) => AnyStr::S4(StaticString::new()),
                ("static", 7) => AnyStr::S7(StaticString::new()),
                ("static", 16) => AnyStr::S16(StaticString::new()),
                ("poly", c) => match PolymorphicString::new(HeapAllocator::global(), c) {
                    Ok(s) => AnyStr::P(s),
                    Err(_) => return "err:alloc".into(),
                },
                ("reloc", c) => match RelocBlock::try_new(c, 0) {
                    Some(b) => AnyStr::R(b),
                    None => return "err:alloc".into(),
                },
                _ => panic!("bad new"),
            };
            return "ok".into();
        }
        match &mut self.s {
            AnyStr::None => panic!("no string"),
            AnyStr::S1(s) => apply(s, t),
            AnyStr::S2(s) => apply(s, t),
            AnyStr::S3(s) => apply(s, t),
            AnyStr::S4(s) => apply(s, t),
            AnyStr::S7(s) => apply(s, t),
            AnyStr::S16(s) => apply(s, t),
            AnyStr::P(s) => apply(s, t),
            AnyStr::R(b) => apply(b.get(), t),
        }
    }
}

fn rand_bytes(rng: &mut Rng, maxlen: u64, valid_pct: u64) -> Vec<u8> {
    let n = rng.below(maxlen + 1);
    (0..n)
        .map(|_| {
            if rng.chance(valid_pct) {
                *rng.pick(&[b'a', b'b', b'c', b'/', b'.', b'_', b'a', b'b'])
            } else {
                rng.below(256) as u8
            }
        })
        .collect()
}

pub fn generate(a: &Args) -> Vec<Vec<std::string::String>> {
    let mut cases = Vec::new();
    let flavours = ["static", "poly", "reloc"];
    if a.exhaustive > 0 {
        let alpha: Vec<std::string::String> = [
            "push 97", "push 98", "push 0", "push 200", "push_bytes 6162", "insert 0 99", "insert 1 97", "pop", "remove 0", "remove 1",
            "remove 2", "remove_range 0 2", "remove_range 1 1", "retain 97", "find 61", "rfind 6162", "strip_prefix 61", "strip_suffix 62",
            "truncate 1", "clear",
        ].iter().map(|s| s.to_string()).collect();
        for fl in flavours {
            for cap in 1..=3usize {
                enumerate_seqs(&alpha, a.exhaustive as usize, &mut |seq| {
                    let mut lines = vec![format!("new {fl} {cap}")];
                    for &i in seq { lines.push(alpha[i].clone()); }
                    lines.push("dump".into());
                    cases.push(lines);
                });
            }
        }
        return cases;
    }
    let mut rng = Rng::new(a.seed);
    for _ in 0..a.cases {
        let fl = *rng.pick(&flavours);
        let cap = *rng.pick(&[1usize, 2, 3, 4, 7, 16, 16]);
        let cap = if fl != "static" && rng.chance(20) { rng.range(0, 40) as usize } else { cap };
        let mut lines = vec![format!("new {fl} {cap}")];
        let mut approx_len = 0u64;
        for _ in 0..rng.range(1, a.len) {
            // indices mostly within [0, len], sometimes len+1.. (boundary / contract violations)
            let idx = if rng.chance(90) { rng.below(approx_len + 1) } else { approx_len + rng.below(3) };
            let b = if rng.chance(90) { *rng.pick(&[97u64, 98, 99, 47, 46]) } else { rng.below(256) };
            let bs = hex(&rand_bytes(&mut rng, 3, 93));
            let l = match rng.below(100) {
                0..=14 => { approx_len += 1; format!("push {b}") }
                15..=26 => { approx_len += 1; format!("push_bytes {bs}") }
                27..=34 => { approx_len += 1; format!("insert {idx} {b}") }
                35..=44 => { approx_len += 1; format!("insert_bytes {idx} {bs}") }
                45..=50 => { approx_len = approx_len.saturating_sub(1); "pop".to_string() }
                51..=58 => { approx_len = approx_len.saturating_sub(1); format!("remove {idx}") }
                59..=64 => format!("remove_range {idx} {}", rng.below(3)),
                65..=68 => format!("retain {b}"),
                69..=74 => format!("find {bs}"),
                75..=79 => format!("rfind {bs}"),
                80..=84 => format!("strip_prefix {bs}"),
                85..=89 => format!("strip_suffix {bs}"),
                90..=93 => format!("truncate {idx}"),
                94..=95 => { approx_len = 0; "clear".to_string() }
                _ => "dump".to_string(),
            };
            approx_len = approx_len.min(cap as u64);
            lines.push(l);
        }
        lines.push("dump".into());
        cases.push(lines);
    }
    cases
}
