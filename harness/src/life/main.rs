//! C07 / C04 (file-system level): the node / monitoring-token / dead-node-cleanup protocol of the real
//! code, one process per role, driven from outside (checklib/pC07.py) under `strace` (system-call
//! traces, SIGKILL / SIGSTOP injection at the N-th system call).
//!
//! lifecycle owner-create-drop <cfg>        create a node, print `created <id>`, drop it, print `dropped`
//! lifecycle owner-create <cfg>             create a node, print `created <id>`, then obey stdin lines:
//!                                            `drop` (orderly drop, prints `dropped`, exits), `exit` (_exit, no drop)
//! lifecycle owner-port <cfg>               create a node, a publish-subscribe service and a publisher (service tag + port tag), print
//!                                            `created <id>`, then _exit without running any destructor
//! lifecycle monitor <cfg> [<id>]           `list <id>:<NodeState>…` of Node::list; with <id>: `raw <ProcessState> cal <State>`
//! lifecycle clean <cfg>                    Node::list + try_remove_stale_resources of every dead node: `clean <id>:<result>…`
//! lifecycle cleaner <cfg> <id> [hold|abandon]   cal-level cleaner acquisition of one node: `cleaner <result>`;
//!                                            hold: keeps the cleaner until a stdin line arrives, then drops it (= removes the token)
//!                                            abandon: relinquish (token stays)
//! lifecycle ls <cfg>                       files below the root of <cfg>, one per line with mode
//! lifecycle svc-create|svc-open|svc-recreate|svc-exists <cfg> <name> …   service-level victims / survivors (C04 service part): see svc.rs
//! lifecycle port-holder|port-create <cfg> <name> …   port-level holder / victim (C04 port part): see port.rs
//!
//! <cfg> is an iceoryx2 toml config; it is installed as the GLOBAL config of the process (so that the
//! clean-up's fall-back to the global config when the node details are unreadable stays in the domain).
extern crate iceoryx2_bb_loggers;

use iceoryx2::config::Config;
use iceoryx2::node::{NodeState, NodeView};
use iceoryx2::prelude::*;
use iceoryx2_bb_posix::process_state::ProcessMonitor;
use iceoryx2_bb_system_types::file_name::FileName;
use iceoryx2_bb_system_types::file_path::FilePath;
use iceoryx2_cal::monitoring::file_lock::FileLockMonitoring;
use iceoryx2_cal::monitoring::{Monitoring, MonitoringBuilder, MonitoringCleaner, MonitoringMonitor};
use iceoryx2_cal::named_concept::{NamedConceptBuilder, NamedConceptConfiguration};
use std::io::{BufRead, Write};

mod port;
mod svc;

pub(crate) fn out(s: &str) {
    let mut o = std::io::stdout();
    let _ = writeln!(o, "{s}");
    let _ = o.flush();
}

fn load(cfg: &str) -> &'static Config {
    let p = FilePath::new(cfg.as_bytes()).expect("cfg path");
    Config::setup_global_config_from_file(&p).expect("config file")
}

fn mon_cfg(config: &Config) -> <FileLockMonitoring as iceoryx2_cal::named_concept::NamedConceptMgmt>::Configuration {
    <<FileLockMonitoring as iceoryx2_cal::named_concept::NamedConceptMgmt>::Configuration>::default()
        .prefix(&config.global.prefix)
        .suffix(&config.global.node.monitor_suffix)
        .path_hint(&config.global.node_dir())
}

fn state_name<S: Service>(s: &NodeState<S>) -> String {
    match s {
        NodeState::Alive(v) => format!("{}:Alive:{}", v.id().value(), if v.details().is_some() { "d" } else { "-" }),
        NodeState::Dead(v) => format!("{}:Dead:{}", v.id().value(), if v.details().is_some() { "d" } else { "-" }),
        NodeState::Inaccessible(id) => format!("{}:Inaccessible:-", id.value()),
        NodeState::Undefined(id) => format!("{}:Undefined:-", id.value()),
    }
}

fn main() {
    iceoryx2_log::set_log_level(iceoryx2_log::LogLevel::Fatal);
    let args: Vec<String> = std::env::args().collect();
    if args.len() < 3 {
        eprintln!("usage: lifecycle <cmd> <cfg> …");
        std::process::exit(2);
    }
    let config = load(&args[2]);
    match args[1].as_str() {
        "owner-create-drop" => {
            let node = NodeBuilder::new().config(config).create::<ipc::Service>();
            match node {
                Ok(n) => {
                    out(&format!("created {}", n.id().value()));
                    drop(n);
                    out("dropped");
                }
                Err(e) => out(&format!("err:{e:?}")),
            }
        }
        "owner-create" => {
            let node = NodeBuilder::new().config(config).create::<ipc::Service>();
            match node {
                Ok(n) => {
                    out(&format!("created {}", n.id().value()));
                    let stdin = std::io::stdin();
                    let mut line = String::new();
                    let _ = stdin.lock().read_line(&mut line);
                    if line.trim() == "drop" {
                        drop(n);
                        out("dropped");
                    } else {
                        // no destructor runs: the kernel closes the descriptors (= releases the lock)
                        unsafe { libc_exit() };
                    }
                }
                Err(e) => out(&format!("err:{e:?}")),
            }
        }
        "owner-port" => {
            let node = NodeBuilder::new().config(config).create::<ipc::Service>().expect("node");
            let name = ServiceName::new("verif/lifecycle/port").unwrap();
            let service = node.service_builder(&name).publish_subscribe::<u64>().open_or_create().expect("service");
            let publisher = service.publisher_builder().create().expect("publisher");
            out(&format!("created {}", node.id().value()));
            let _keep = (&publisher, &service);
            unsafe { libc_exit() };
        }
        "monitor" => {
            let mut states = vec![];
            let r = Node::<ipc::Service>::list(config, |s| {
                states.push(state_name(&s));
                CallbackProgression::Continue
            });
            states.sort();
            out(&format!("list {}{}", states.join(" "), if let Err(e) = r { format!(" err:{e:?}") } else { String::new() }));
            if args.len() > 3 {
                let name = FileName::new(args[3].as_bytes()).unwrap();
                let path = mon_cfg(config).path_for(&name);
                let raw = match ProcessMonitor::new(&path) {
                    Ok(m) => match m.state() {
                        Ok(s) => format!("{s:?}"),
                        Err(e) => format!("err:{e:?}"),
                    },
                    Err(e) => format!("err:{e:?}"),
                };
                let cal = match <FileLockMonitoring as Monitoring>::Builder::new(&name).config(&mon_cfg(config)).monitor() {
                    Ok(m) => match m.state() {
                        Ok(s) => format!("{s:?}"),
                        Err(e) => format!("err:{e:?}"),
                    },
                    Err(e) => format!("err:{e:?}"),
                };
                out(&format!("raw {raw} cal {cal}"));
            }
        }
        "clean" => {
            let mut res = vec![];
            let r = Node::<ipc::Service>::list(config, |s| {
                if let NodeState::Dead(v) = s {
                    let id = v.id().value();
                    res.push(match v.try_remove_stale_resources() {
                        Ok(()) => format!("{id}:ok"),
                        Err(e) => format!("{id}:err:{e:?}"),
                    });
                }
                CallbackProgression::Continue
            });
            res.sort();
            out(&format!("clean {}{}", res.join(" "), if let Err(e) = r { format!(" err:{e:?}") } else { String::new() }));
        }
        "clean-twice" => {
            // the same PROCESS tries to clean up twice (its process-local state cache is alive in between); a line on stdin releases the second attempt
            for round in 0..2 {
                let mut res = vec![];
                let r = Node::<ipc::Service>::list(config, |s| {
                    match s {
                        NodeState::Dead(v) => {
                            let id = v.id().value();
                            res.push(match v.try_remove_stale_resources() {
                                Ok(()) => format!("{id}:ok"),
                                Err(e) => format!("{id}:err:{e:?}"),
                            });
                        }
                        other => res.push(format!("0:not-dead:{}", state_name(&other))),
                    }
                    CallbackProgression::Continue
                });
                res.sort();
                out(&format!("clean{round} {}{}", res.join(" "), if let Err(e) = r { format!(" err:{e:?}") } else { String::new() }));
                if round == 0 {
                    let mut line = String::new();
                    let _ = std::io::stdin().lock().read_line(&mut line);
                }
            }
        }
        "cleaner" => {
            let name = FileName::new(args[3].as_bytes()).unwrap();
            let mode = args.get(4).map(|s| s.as_str()).unwrap_or("");
            match <FileLockMonitoring as Monitoring>::Builder::new(&name).config(&mon_cfg(config)).cleaner() {
                Ok(c) => {
                    out("cleaner ok");
                    match mode {
                        "hold" => {
                            let mut line = String::new();
                            let _ = std::io::stdin().lock().read_line(&mut line);
                            if line.trim() == "exit" {
                                unsafe { libc_exit() };
                            }
                            drop(c);
                            out("released");
                        }
                        "abandon" => {
                            c.relinquish();
                            out("abandoned");
                        }
                        _ => {
                            drop(c);
                            out("released");
                        }
                    }
                }
                Err(e) => out(&format!("cleaner err:{e:?}")),
            }
        }
        "ls" => {
            fn walk(p: &std::path::Path, acc: &mut Vec<String>) {
                if let Ok(rd) = std::fs::read_dir(p) {
                    for e in rd.flatten() {
                        let path = e.path();
                        if let Ok(md) = std::fs::symlink_metadata(&path) {
                            use std::os::unix::fs::PermissionsExt;
                            acc.push(format!("{} {:o}", path.display(), md.permissions().mode() & 0o7777));
                            if md.is_dir() {
                                walk(&path, acc);
                            }
                        }
                    }
                }
            }
            let mut acc = vec![];
            walk(std::path::Path::new(&format!("{}", config.global.root_path())), &mut acc);
            acc.sort();
            for l in acc {
                out(&l);
            }
        }
        c => {
            // service-level commands of the C04 service part (svc.rs)
            if !svc::run(c, &args, config) && !port::run(c, &args, config) {
                eprintln!("unknown command {c}");
                std::process::exit(2);
            }
        }
    }
}

unsafe extern "C" {
    fn _exit(code: i32) -> !;
}
pub(crate) unsafe fn libc_exit() -> ! {
    unsafe { _exit(0) }
}
