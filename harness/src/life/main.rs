//! stub: binary `lifecycle` (to be written)
fn main() {
    eprintln!("lifecycle: not implemented");
    std::process::exit(2);
}
