//! C04, service level: single-purpose processes for the kill-point experiments of checklib/pC04svc.py
//! (model: lean/Iox2/Model/ServiceCrash.lean).  Every command takes the config file as in main.rs.
//!
//! lifecycle svc-create <cfg> <name> [hold]   victim: create a node, `create` the publish-subscribe service <name> (payload u64),
//!                                            print `created <node id> <ok|err:E>`; then `_exit` without running any destructor
//!                                            (= death right after the creation).  hold: obey one stdin line first:
//!                                            `drop` (orderly drop of service + node, prints `dropped`), anything else: `_exit`
//! lifecycle svc-open <cfg> <name>            victim: create a node, `open` the service, print `opened <node id> <ok|err:E>`, `_exit`
//! lifecycle svc-recreate <cfg> <name>        re-creator: create a node, `create` the service, print `recreate <ok|err:E>`, drop
//!                                            everything in an orderly way, print `dropped`
//! lifecycle svc-exists <cfg> <name>          `exists <Ok(true)|Ok(false)|err:E>` of Service::does_exist, then `nodes <n|err:E>`: the number of
//!                                            node ids registered in the dynamic config (Service::list + details), `-` without service
use iceoryx2::config::Config;
use iceoryx2::prelude::*;
use std::io::BufRead;

use crate::{libc_exit, out};

fn name_of(args: &[String]) -> ServiceName {
    let n = args.get(3).map(|s| s.as_str()).unwrap_or("verif/svccrash");
    ServiceName::new(n).expect("service name")
}

pub fn run(cmd: &str, args: &[String], config: &'static Config) -> bool {
    match cmd {
        "svc-create" => {
            let node = NodeBuilder::new().config(config).create::<ipc::Service>().expect("node");
            let name = name_of(args);
            let r = node.service_builder(&name).publish_subscribe::<u64>().create();
            out(&format!("created {} {}", node.id().value(), match &r { Ok(_) => "ok".to_string(), Err(e) => format!("err:{e:?}") }));
            if args.get(4).map(|s| s.as_str()) == Some("hold") {
                let mut line = String::new();
                let _ = std::io::stdin().lock().read_line(&mut line);
                if line.trim() == "drop" {
                    drop(r);
                    drop(node);
                    out("dropped");
                    return true;
                }
            }
            let _keep = (&r, &node);
            unsafe { libc_exit() };
        }
        "svc-open" => {
            let node = NodeBuilder::new().config(config).create::<ipc::Service>().expect("node");
            let name = name_of(args);
            let r = node.service_builder(&name).publish_subscribe::<u64>().open();
            out(&format!("opened {} {}", node.id().value(), match &r { Ok(_) => "ok".to_string(), Err(e) => format!("err:{e:?}") }));
            let _keep = (&r, &node);
            unsafe { libc_exit() };
        }
        "svc-recreate" => {
            let node = NodeBuilder::new().config(config).create::<ipc::Service>().expect("node");
            let name = name_of(args);
            let r = node.service_builder(&name).publish_subscribe::<u64>().create();
            out(&format!("recreate {}", match &r { Ok(_) => "ok".to_string(), Err(e) => format!("err:{e:?}") }));
            drop(r);
            drop(node);
            out("dropped");
        }
        "svc-exists" => {
            let name = name_of(args);
            let e = ipc::Service::does_exist(&name, config, MessagingPattern::PublishSubscribe);
            out(&format!("exists {}", match e { Ok(b) => format!("Ok({b})"), Err(e) => format!("err:{e:?}") }));
            let mut n = String::from("-");
            let r = ipc::Service::list(config, |d| {
                if d.static_details.name() == &name {
                    n = match &d.dynamic_details {
                        Some(dd) => format!("{}", dd.nodes.len()),
                        None => "none".to_string(),
                    };
                }
                CallbackProgression::Continue
            });
            out(&format!("nodes {}", if let Err(e) = r { format!("err:{e:?}") } else { n }));
        }
        _ => return false,
    }
    true
}
