//! C04, port level: single-purpose processes for the kill-point experiments of checklib/pC04port.py
//! (model: lean/Iox2/Model/PortCrash.lean).  Every command takes the config file as in main.rs.
//!
//! lifecycle port-holder <cfg> <name> <sub|pub|pub2>   H: create a node, `create` the publish-subscribe service <name> (payload u64, max_publishers = 2,
//!                                            max_subscribers = 2), create one subscriber / one publisher / two publishers, print `holding <node id>`; then
//!                                            obey stdin lines:
//!                                              count            `count pubs=<n> subs=<m>` from the dynamic config
//!                                              ports <pub|sub>  create ports of that kind until the limit refuses: `ports ok… err:<E>` (then drops them)
//!                                              talk             a fresh peer of H's port(s) is created, one sample is sent and received: `talk ok|fail:<why>`
//!                                              drop             orderly drop of everything, `dropped`, exit
//! lifecycle port-create <cfg> <name> <pub|sub>   victim A: create a node, `open` the service, print `opened <node id>`, create a Publisher / Subscriber,
//!                                            print `ported <ok|err:E>`; then `_exit` without running any destructor
use iceoryx2::config::Config;
use iceoryx2::prelude::*;
use std::io::BufRead;

use crate::{libc_exit, out};

fn name_of(args: &[String]) -> ServiceName {
    let n = args.get(3).map(|s| s.as_str()).unwrap_or("verif/portcrash");
    ServiceName::new(n).expect("service name")
}

pub fn run(cmd: &str, args: &[String], config: &'static Config) -> bool {
    match cmd {
        "port-holder" => {
            let node = NodeBuilder::new().config(config).create::<ipc::Service>().expect("node");
            let name = name_of(args);
            let kind = args.get(4).map(|s| s.as_str()).unwrap_or("sub");
            let service = node
                .service_builder(&name)
                .publish_subscribe::<u64>()
                .max_publishers(2)
                .max_subscribers(2)
                .create()
                .expect("service");
            let mut pubs = vec![];
            let mut subs = vec![];
            match kind {
                "sub" => subs.push(service.subscriber_builder().create().expect("subscriber")),
                "pub" => pubs.push(service.publisher_builder().create().expect("publisher")),
                _ => {
                    pubs.push(service.publisher_builder().create().expect("publisher"));
                    pubs.push(service.publisher_builder().create().expect("publisher"));
                }
            }
            out(&format!("holding {}", node.id().value()));
            let stdin = std::io::stdin();
            loop {
                let mut line = String::new();
                if stdin.lock().read_line(&mut line).unwrap_or(0) == 0 {
                    unsafe { libc_exit() };
                }
                let t: Vec<&str> = line.split_whitespace().collect();
                match t.first().copied().unwrap_or("") {
                    "count" => {
                        let d = service.dynamic_config();
                        out(&format!("count pubs={} subs={}", d.number_of_publishers(), d.number_of_subscribers()));
                    }
                    "ports" => {
                        let mut res = vec![];
                        if t.get(1).copied() == Some("pub") {
                            let mut v = vec![];
                            for _ in 0..4 {
                                match service.publisher_builder().create() {
                                    Ok(p) => { v.push(p); res.push("ok".to_string()); }
                                    Err(e) => { res.push(format!("err:{e:?}")); break; }
                                }
                            }
                        } else {
                            let mut v = vec![];
                            for _ in 0..4 {
                                match service.subscriber_builder().create() {
                                    Ok(p) => { v.push(p); res.push("ok".to_string()); }
                                    Err(e) => { res.push(format!("err:{e:?}")); break; }
                                }
                            }
                        }
                        out(&format!("ports {}", res.join(" ")));
                    }
                    "talk" => {
                        let mut why = String::new();
                        // every subscriber of H hears a fresh publisher; every publisher of H is heard by a fresh subscriber
                        if !subs.is_empty() {
                            match service.publisher_builder().create() {
                                Ok(p) => {
                                    if p.send_copy(4711).is_err() { why.push_str("send;"); }
                                    for s in &subs {
                                        match s.receive() {
                                            Ok(Some(x)) if *x == 4711 => (),
                                            other => why.push_str(&format!("recv:{:?};", other.map(|o| o.map(|x| *x)))),
                                        }
                                    }
                                }
                                Err(e) => why.push_str(&format!("pub:{e:?};")),
                            }
                        }
                        if !pubs.is_empty() {
                            match service.subscriber_builder().create() {
                                Ok(s) => {
                                    for (i, p) in pubs.iter().enumerate() {
                                        if p.send_copy(100 + i as u64).is_err() { why.push_str("send;"); }
                                        match s.receive() {
                                            Ok(Some(x)) if *x == 100 + i as u64 => (),
                                            other => why.push_str(&format!("recv:{:?};", other.map(|o| o.map(|x| *x)))),
                                        }
                                    }
                                }
                                Err(e) => why.push_str(&format!("sub:{e:?};")),
                            }
                        }
                        out(&format!("talk {}", if why.is_empty() { "ok".to_string() } else { format!("fail:{why}") }));
                    }
                    "drop" => {
                        drop(pubs);
                        drop(subs);
                        drop(service);
                        drop(node);
                        out("dropped");
                        return true;
                    }
                    _ => unsafe { libc_exit() },
                }
            }
        }
        "port-create" => {
            let node = NodeBuilder::new().config(config).create::<ipc::Service>().expect("node");
            let name = name_of(args);
            let service = node.service_builder(&name).publish_subscribe::<u64>().open().expect("open");
            out(&format!("opened {}", node.id().value()));
            if args.get(4).map(|s| s.as_str()) == Some("pub") {
                let r = service.publisher_builder().create();
                out(&format!("ported {}", match &r { Ok(_) => "ok".to_string(), Err(e) => format!("err:{e:?}") }));
                let _keep = (&r, &service, &node);
                unsafe { libc_exit() };
            } else {
                let r = service.subscriber_builder().create();
                out(&format!("ported {}", match &r { Ok(_) => "ok".to_string(), Err(e) => format!("err:{e:?}") }));
                let _keep = (&r, &service, &node);
                unsafe { libc_exit() };
            }
        }
        _ => return false,
    }
}
