//! C15: allocators. `pool` = bb/memory PoolAllocator and cal shm PoolAllocator (offsets, resize
//! hints) on one memory block; `bump` = bb/elementary BumpAllocator; `ptroffset`.
use crate::common::*;
use core::alloc::Layout;
use iceoryx2_bb_elementary::allocation_strategy::AllocationStrategy;
use iceoryx2_bb_elementary::bump_allocator::BumpAllocator;
use iceoryx2_bb_elementary_traits::allocator::*;
use iceoryx2_bb_memory::pool_allocator::PoolAllocator;
use iceoryx2_cal::shm_allocator::pool_allocator::PoolAllocator as ShmPool;
use iceoryx2_cal::shm_allocator::{PointerOffset, SegmentId, ShmAllocator};
use std::ptr::NonNull;

const BLOCK: usize = 1 << 17;
struct Block {
    base: *mut u8,
    mgmt: *mut u8,
}
impl Block {
    fn new() -> Block {
        let l = Layout::from_size_align(BLOCK, 8192).unwrap();
        let base = unsafe { std::alloc::alloc(l) };
        let mgmt = unsafe { std::alloc::alloc(l) };
        unsafe { std::ptr::write_bytes(base, 0xCD, BLOCK) };
        Block { base, mgmt }
    }
}
impl Drop for Block {
    fn drop(&mut self) {
        let l = Layout::from_size_align(BLOCK, 8192).unwrap();
        unsafe {
            std::alloc::dealloc(self.base, l);
            std::alloc::dealloc(self.mgmt, l);
        }
    }
}

enum Kind {
    None,
    Pool(Box<PoolAllocator>),
    Shm(Box<ShmPool>),
    Bump(BumpAllocator),
}
pub struct AllocComp {
    blk: Block,
    k: Kind,
    ptr: usize,
    size: usize,
    live: Vec<(usize, usize)>, // (addr relative to block base, requested size), newest first
}
impl AllocComp {
    pub fn new() -> Self {
        AllocComp { blk: Block::new(), k: Kind::None, ptr: 0, size: 0, live: vec![] }
    }
    fn check(&mut self, rel: usize, size: usize, align: usize) {
        // independent oracle: aligned, in bounds, not overlapping a live allocation
        let abs = self.blk.base as usize + rel;
        if abs % align != 0 {
            oracle_fail(format!("misaligned: addr {rel} for alignment {align}"));
        }
        if rel < self.ptr || rel + size > self.ptr + self.size {
            oracle_fail(format!("out of bounds: [{rel},{}) not in [{},{})", rel + size, self.ptr, self.ptr + self.size));
        }
        for (a, s) in &self.live {
            if rel < a + s && *a < rel + size {
                oracle_fail(format!("overlap: [{rel},{}) with live [{a},{})", rel + size, a + s));
            }
        }
        // the memory must be writable over the whole request
        unsafe { std::ptr::write_bytes(abs as *mut u8, 0x5A, size) };
    }
}
fn n(s: &str) -> usize {
    s.parse().unwrap()
}
fn aerr(e: AllocationError) -> &'static str {
    match e {
        AllocationError::SizeIsZero => "err:zero",
        AllocationError::SizeTooLarge => "err:size",
        AllocationError::AlignmentFailure => "err:align",
        AllocationError::OutOfMemory => "err:oom",
        AllocationError::InternalError => "err:internal",
    }
}
impl Comp for AllocComp {
    fn exec(&mut self, t: &[&str]) -> String {
        match t[0] {
            "new" => {
                // new pool|shm|bump <shift> <size> [<bsize> <balign>]
                self.k = Kind::None;
                self.live.clear();
                self.ptr = n(t[2]);
                self.size = n(t[3]);
                assert!(self.ptr + self.size <= BLOCK, "case exceeds the harness block");
                let ptr = unsafe { NonNull::new_unchecked(self.blk.base.add(self.ptr)) };
                let mgmt = BumpAllocator::new(NonNull::new(self.blk.mgmt).unwrap(), BLOCK);
                match t[1] {
                    "pool" => {
                        let bl = Layout::from_size_align(n(t[4]), n(t[5])).unwrap();
                        let mut p = Box::new(unsafe { PoolAllocator::new_uninit(bl, ptr, self.size) });
                        if unsafe { p.init(&mgmt) }.is_err() {
                            return "err:alloc".into();
                        }
                        let r = format!("ok n={} bucket={} maxalign={}", p.number_of_buckets(), p.bucket_size(), p.max_alignment());
                        self.k = Kind::Pool(p);
                        r
                    }
                    "shm" => {
                        let bl = Layout::from_size_align(n(t[4]), n(t[5])).unwrap();
                        let cfg = iceoryx2_cal::shm_allocator::pool_allocator::Config { bucket_layout: bl };
                        let mem = NonNull::slice_from_raw_parts(ptr, self.size);
                        let mut p = Box::new(unsafe { ShmPool::new_uninit(8192, mem, &cfg) });
                        if unsafe { p.init(&mgmt) }.is_err() {
                            return "err:alloc".into();
                        }
                        let r = format!("ok n={} bucket={} maxalign={} relstart={}", p.number_of_buckets(), p.bucket_size(), p.max_alignment(), p.relative_start_address());
                        self.k = Kind::Shm(p);
                        r
                    }
                    "bump" => {
                        self.k = Kind::Bump(BumpAllocator::new(ptr, self.size));
                        "ok".into()
                    }
                    _ => panic!("bad new"),
                }
            }
            "alloc" => {
                let (size, align) = (n(t[1]), n(t[2]));
                let l = Layout::from_size_align(size, align).unwrap();
                let base = self.blk.base as usize;
                let r: Result<usize, AllocationError> = match &self.k {
                    Kind::Pool(p) => p.allocate(l).map(|p| p.as_ptr() as usize - base),
                    Kind::Bump(b) => b.allocate(l).map(|p| p.as_ptr() as usize - base),
                    Kind::Shm(p) => {
                        let start = self.ptr + p.relative_start_address();
                        unsafe { p.assume_init() }.allocate(l).map(|o| {
                            if o.segment_id().value() != 0 {
                                oracle_fail("fresh offset has segment id != 0".into());
                            }
                            o.offset() + start
                        })
                    }
                    Kind::None => panic!("no allocator"),
                };
                match r {
                    Ok(rel) => {
                        self.check(rel, size, align);
                        self.live.insert(0, (rel, size));
                        format!("ok:{rel}")
                    }
                    Err(e) => aerr(e).into(),
                }
            }
            "dealloc" => {
                let k = n(t[1]);
                if k >= self.live.len() {
                    return "none".into();
                }
                let (rel, size) = self.live.remove(k);
                let base = self.blk.base as usize;
                match &self.k {
                    Kind::Pool(p) => unsafe { p.deallocate(NonNull::new_unchecked((base + rel) as *mut u8), Layout::from_size_align(size.max(1), 1).unwrap()) },
                    Kind::Shm(p) => {
                        let start = self.ptr + p.relative_start_address();
                        unsafe { p.assume_init().deallocate(PointerOffset::new(rel - start), Layout::from_size_align(size.max(1), 1).unwrap()) }
                    }
                    _ => panic!("dealloc unsupported"),
                }
                "ok".into()
            }
            "hint" => {
                // hint <size> <align> static|bestfit|pow2
                let l = Layout::from_size_align(n(t[1]), n(t[2])).unwrap();
                let st = match t[3] {
                    "static" => AllocationStrategy::Static,
                    "bestfit" => AllocationStrategy::BestFit,
                    _ => AllocationStrategy::PowerOfTwo,
                };
                match &self.k {
                    Kind::Shm(p) => {
                        let h = p.resize_hint(l, st);
                        let bl = h.config.bucket_layout;
                        format!("hint size={} align={} payload={}", bl.size(), bl.align(), h.payload_size)
                    }
                    _ => panic!("hint unsupported"),
                }
            }
            "uacell" => {
                // uacell <size> <align> <payload addr> : the two data cells of an UnrestrictedAtomic and the reserved size
                use iceoryx2_bb_lock_free::spmc::unrestricted_atomic::UnrestrictedAtomicMgmt as M;
                let (size, al, p) = (n(t[1]), n(t[2]), n(t[3]));
                let c0 = unsafe { M::__internal_get_data_cell(size, al, p as *const u8, 0) };
                let c1 = unsafe { M::__internal_get_data_cell(size, al, p as *const u8, 1) };
                let c2 = unsafe { M::__internal_get_data_cell(size, al, p as *const u8, 7) };
                format!("c0={c0} c1={c1} c7={c2}")
            }
            "mk" => {
                let o = PointerOffset::from_offset_and_segment_id(n(t[1]), SegmentId::new(n(t[2]) as u8));
                format!("v={} off={} seg={}", o.as_value(), o.offset(), o.segment_id().value())
            }
            "setseg" => {
                let mut o = PointerOffset::from_value(t[1].parse::<u64>().unwrap());
                o.set_segment_id(SegmentId::new(n(t[2]) as u8));
                format!("v={} off={} seg={}", o.as_value(), o.offset(), o.segment_id().value())
            }
            _ => panic!("bad op"),
        }
    }
}

pub fn generate(a: &Args) -> Vec<Vec<String>> {
    let mut rng = Rng::new(a.seed);
    let mut cases = Vec::new();
    let aligns = [1usize, 2, 4, 8, 16, 32, 64, 128, 256, 4096];
    let strategies = ["static", "bestfit", "pow2"];
    let exhaustive = a.exhaustive > 0;
    let mut layouts: Vec<(usize, usize, usize, usize, &str)> = vec![];
    if exhaustive {
        // all bucket sizes 1..=a.exhaustive x alignments 1..16 x shifts 0..3 (incl. sizes that are not multiples of the alignment)
        for bs in 1..=a.exhaustive as usize {
            for ba in [1usize, 2, 4, 8, 16] {
                for shift in [0usize, 1, 3, 8] {
                    for kind in ["pool", "shm"] {
                        layouts.push((shift, 10 * bs + 7, bs, ba, kind));
                    }
                }
            }
        }
    } else {
        for _ in 0..a.cases {
            let ba = *rng.pick(&aligns);
            let bs = if rng.chance(50) { rng.range(1, 64) as usize } else { (rng.range(1, 8) as usize) * ba + if rng.chance(50) { rng.below(ba as u64) as usize } else { 0 } };
            let bs = bs.max(1);
            let shift = if rng.chance(40) { 0 } else { rng.below(4097) as usize };
            let stride = bs.next_multiple_of(ba);
            let size = stride * rng.range(0, 9) as usize + rng.below(stride as u64 + ba as u64) as usize;
            let size = size.min(BLOCK - 8192);
            layouts.push((shift, size, bs, ba, if rng.chance(50) { "pool" } else { "shm" }));
        }
    }
    for (shift, size, bs, ba, kind) in layouts {
        let mut lines = vec![format!("new {kind} {shift} {size} {bs} {ba}")];
        let nops = if exhaustive { 14 } else { rng.range(1, a.len) };
        for _ in 0..nops {
            let ra = if rng.chance(85) { *rng.pick(&aligns[..]).min(&ba) } else { *rng.pick(&aligns) };
            let rs = if rng.chance(85) { rng.range(0, bs as u64 + 1) as usize } else { rng.range(0, 3 * bs as u64) as usize };
            let l = match rng.below(100) {
                0..=59 => format!("alloc {rs} {ra}"),
                60..=89 => format!("dealloc {}", rng.below(6)),
                _ if kind == "shm" => format!("hint {rs} {ra} {}", rng.pick(&strategies)),
                _ => format!("alloc {rs} {ra}"),
            };
            lines.push(l);
        }
        cases.push(lines);
    }
    // bump allocator and pointer offsets
    let nb = if exhaustive { 200 } else { a.cases / 4 + 1 };
    for _ in 0..nb {
        let shift = rng.below(64) as usize;
        let size = rng.range(0, 300) as usize;
        let mut lines = vec![format!("new bump {shift} {size}")];
        for _ in 0..rng.range(1, 12) {
            lines.push(format!("alloc {} {}", rng.range(0, 40), rng.pick(&aligns[..8])));
        }
        cases.push(lines);
        let mut lines = vec!["new bump 0 8".to_string()];
        for _ in 0..4 {
            let al = *rng.pick(&aligns[..9]);
            let p = if rng.chance(70) { al * rng.range(1, 50) as usize } else { rng.range(1, 5000) as usize };
            lines.push(format!("uacell {} {al} {p}", rng.range(1, 300)));
        }
        for _ in 0..6 {
            let off = match rng.below(4) { 0 => rng.below(1 << 20), 1 => (1u64 << 56) - 1 - rng.below(5), 2 => rng.next() >> 8, _ => rng.below(300) };
            lines.push(format!("mk {off} {}", rng.below(256)));
            lines.push(format!("setseg {} {}", rng.next(), rng.below(256)));
        }
        cases.push(lines);
    }
    cases
}
