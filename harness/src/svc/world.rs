//! C06: service create / open / open_or_create / drop through the real builder API (ipc variant),
//! 1..3 nodes in one process, all four messaging patterns, one call per line.
//!
//! Output of a successful create/open = the canonical settings string read back from the port factory
//! (static config getters + attributes).  Errors by enum name (`{e:?}`).
//!
//! Harness-side oracles (independent of the Lean model):
//!  * `open` / `open_or_create` returned settings that differ from what the creator of the same
//!    incarnation (unique service id) obtained,
//!  * after every call: `Service::does_exist(name, pattern)` == "the harness holds at least one port
//!    factory or port of that service" (the property's lifetime clause on the implementation alone).
use crate::common::*;
use iceoryx2::port::listener::Listener;
use iceoryx2::prelude::*;
use iceoryx2::service::attribute::{AttributeSet, AttributeSpecifier, AttributeVerifier};
use iceoryx2::service::marker::{CustomHeaderMarker, CustomPayloadMarker};
use iceoryx2::service::port_factory::{blackboard, event, publish_subscribe, request_response, PortFactory};
use iceoryx2::service::static_config::message_type_details::{TypeDetail, TypeVariant};
use iceoryx2::service::static_config::messaging_pattern::MessagingPattern as StaticPattern;
use iceoryx2::service::static_config::StaticConfig;
use std::any::Any;
use std::collections::{BTreeMap, HashMap};

pub static CASE_COUNTER: std::sync::atomic::AtomicUsize = std::sync::atomic::AtomicUsize::new(0);

type S = ipc::Service;

pub fn n(s: &str) -> usize {
    s.parse().unwrap()
}

// ---------------------------------------------------------------------------------------------
// canonical strings

fn td(t: &TypeDetail) -> String {
    let v = match t.variant() {
        TypeVariant::FixedSize => "F",
        TypeVariant::Dynamic => "D",
    };
    format!("{v}:{}:{}:{}", t.type_name(), t.size(), t.alignment())
}
fn attrs(a: &AttributeSet) -> String {
    let v: Vec<String> = a.iter().map(|x| format!("{}={}", x.key(), x.value())).collect();
    format!("a=[{}]", v.join("+"))
}
fn b(x: bool) -> usize {
    x as usize
}
fn opt(x: Option<usize>) -> String {
    match x {
        Some(v) => v.to_string(),
        None => "-".into(),
    }
}
fn ps_str(c: &iceoryx2::service::static_config::publish_subscribe::StaticConfig, a: &AttributeSet) -> String {
    format!(
        "mp={},ms={},b={},h={},r={},o={},mn={},t={},uh={},{}",
        c.max_publishers(),
        c.max_subscribers(),
        c.subscriber_max_buffer_size(),
        c.history_size(),
        c.subscriber_max_borrowed_samples(),
        b(c.has_safe_overflow()),
        c.max_nodes(),
        td(&c.message_type_details().payload),
        td(&c.message_type_details().user_header),
        attrs(a)
    )
}
fn ev_str(c: &iceoryx2::service::static_config::event::StaticConfig, a: &AttributeSet) -> String {
    format!(
        "nt={},ls={},eid={},mn={},ce={},de={},xe={},dl={},{}",
        c.max_notifiers(),
        c.max_listeners(),
        c.event_id_max_value(),
        c.max_nodes(),
        opt(c.notifier_created_event().map(|e| e.as_value())),
        opt(c.notifier_dropped_event().map(|e| e.as_value())),
        opt(c.notifier_dead_event().map(|e| e.as_value())),
        opt(c.deadline().map(|d| d.as_millis() as usize)),
        attrs(a)
    )
}
fn rr_str(c: &iceoryx2::service::static_config::request_response::StaticConfig, a: &AttributeSet) -> String {
    format!(
        "so={},sr={},ff={},ar={},lr={},br={},rb={},sv={},cl={},mn={},qt={},pt={},{}",
        b(c.has_safe_overflow_for_requests()),
        b(c.has_safe_overflow_for_responses()),
        b(c.does_support_fire_and_forget_requests()),
        c.max_active_requests_per_client(),
        c.max_loaned_requests(),
        c.max_borrowed_responses_per_pending_response(),
        c.max_response_buffer_size(),
        c.max_servers(),
        c.max_clients(),
        c.max_nodes(),
        td(&c.request_message_type_details().payload),
        td(&c.response_message_type_details().payload),
        attrs(a)
    )
}
fn bb_str(c: &iceoryx2::service::static_config::blackboard::StaticConfig, a: &AttributeSet) -> String {
    format!("rd={},mn={},kt={},{}", c.max_readers(), c.max_nodes(), td(c.type_details()), attrs(a))
}
pub fn static_str(c: &StaticConfig) -> (String, String) {
    match c.messaging_pattern() {
        StaticPattern::PublishSubscribe(p) => ("ps".into(), ps_str(p, c.attributes())),
        StaticPattern::Event(p) => ("ev".into(), ev_str(p, c.attributes())),
        StaticPattern::RequestResponse(p) => ("rr".into(), rr_str(p, c.attributes())),
        StaticPattern::Blackboard(p) => ("bb".into(), bb_str(p, c.attributes())),
        #[allow(unreachable_patterns)]
        _ => ("?".into(), "?".into()),
    }
}
pub fn pattern_of(p: &str) -> MessagingPattern {
    match p {
        "ps" => MessagingPattern::PublishSubscribe,
        "ev" => MessagingPattern::Event,
        "rr" => MessagingPattern::RequestResponse,
        _ => MessagingPattern::Blackboard,
    }
}

// ---------------------------------------------------------------------------------------------
// a live port factory of any pattern / type

pub trait Handle {
    fn settings(&self) -> String;
    fn uid(&self) -> u128;
    fn node_ids(&self) -> Vec<u128>;
    fn port(&self, kind: &str) -> Result<Box<dyn Any>, String>;
}

fn node_ids_of<F: PortFactory<Service = S>>(f: &F) -> Vec<u128> {
    let mut v = vec![];
    let _ = f.nodes(|st| {
        v.push(st.node_id().value());
        CallbackProgression::Continue
    });
    v
}

macro_rules! ps_handle {
    ($P:ty, $H:ty) => {
        impl Handle for publish_subscribe::PortFactory<S, $P, $H> {
            fn settings(&self) -> String {
                ps_str(self.static_config(), self.attributes())
            }
            fn uid(&self) -> u128 {
                self.unique_service_id().value()
            }
            fn node_ids(&self) -> Vec<u128> {
                node_ids_of(self)
            }
            fn port(&self, kind: &str) -> Result<Box<dyn Any>, String> {
                match kind {
                    "pub" => self.publisher_builder().create().map(|p| Box::new(p) as Box<dyn Any>).map_err(|e| format!("{e:?}")),
                    "sub" => self.subscriber_builder().create().map(|p| Box::new(p) as Box<dyn Any>).map_err(|e| format!("{e:?}")),
                    _ => Err("bad-kind".into()),
                }
            }
        }
    };
}
ps_handle!(u64, ());
ps_handle!(u64, u64);
ps_handle!(u64, CustomHeaderMarker);
ps_handle!(u32, ());
ps_handle!(u32, u64);
ps_handle!(u32, CustomHeaderMarker);
ps_handle!([u8], ());
ps_handle!([u8], u64);
ps_handle!([u8], CustomHeaderMarker);
ps_handle!([CustomPayloadMarker], ());
ps_handle!([CustomPayloadMarker], u64);
ps_handle!([CustomPayloadMarker], CustomHeaderMarker);

impl Handle for event::PortFactory<S> {
    fn settings(&self) -> String {
        ev_str(self.static_config(), self.attributes())
    }
    fn uid(&self) -> u128 {
        self.unique_service_id().value()
    }
    fn node_ids(&self) -> Vec<u128> {
        node_ids_of(self)
    }
    fn port(&self, kind: &str) -> Result<Box<dyn Any>, String> {
        match kind {
            "not" => self.notifier_builder().create().map(|p| Box::new(p) as Box<dyn Any>).map_err(|e| format!("{e:?}")),
            "lis" => self.listener_builder().create().map(|p: Listener<S>| Box::new(p) as Box<dyn Any>).map_err(|e| format!("{e:?}")),
            _ => Err("bad-kind".into()),
        }
    }
}

macro_rules! rr_handle {
    ($Q:ty, $R:ty) => {
        impl Handle for request_response::PortFactory<S, $Q, (), $R, ()> {
            fn settings(&self) -> String {
                rr_str(self.static_config(), self.attributes())
            }
            fn uid(&self) -> u128 {
                self.unique_service_id().value()
            }
            fn node_ids(&self) -> Vec<u128> {
                node_ids_of(self)
            }
            fn port(&self, kind: &str) -> Result<Box<dyn Any>, String> {
                match kind {
                    "cli" => self.client_builder().create().map(|p| Box::new(p) as Box<dyn Any>).map_err(|e| format!("{e:?}")),
                    "srv" => self.server_builder().create().map(|p| Box::new(p) as Box<dyn Any>).map_err(|e| format!("{e:?}")),
                    _ => Err("bad-kind".into()),
                }
            }
        }
    };
}
rr_handle!(u64, u64);
rr_handle!(u64, u32);
rr_handle!(u32, u64);
rr_handle!(u32, u32);
rr_handle!([CustomPayloadMarker], [CustomPayloadMarker]);

macro_rules! bb_handle {
    ($K:ty) => {
        impl Handle for blackboard::PortFactory<S, $K> {
            fn settings(&self) -> String {
                bb_str(self.static_config(), self.attributes())
            }
            fn uid(&self) -> u128 {
                self.unique_service_id().value()
            }
            fn node_ids(&self) -> Vec<u128> {
                node_ids_of(self)
            }
            fn port(&self, kind: &str) -> Result<Box<dyn Any>, String> {
                match kind {
                    "rd" => self.reader_builder().create().map(|p| Box::new(p) as Box<dyn Any>).map_err(|e| format!("{e:?}")),
                    "wr" => self.writer_builder().create().map(|p| Box::new(p) as Box<dyn Any>).map_err(|e| format!("{e:?}")),
                    _ => Err("bad-kind".into()),
                }
            }
        }
    };
}
bb_handle!(u64);
bb_handle!(u32);

// ---------------------------------------------------------------------------------------------
// settings / requirements of one call:  key=value tokens

pub struct Req<'a> {
    kv: Vec<(&'a str, &'a str)>,
}
impl<'a> Req<'a> {
    pub fn parse(toks: &[&'a str]) -> Req<'a> {
        Req { kv: toks.iter().filter_map(|t| t.split_once('=')).collect() }
    }
    fn get(&self, k: &str) -> Option<&'a str> {
        self.kv.iter().find(|(a, _)| *a == k).map(|(_, v)| *v)
    }
    fn num(&self, k: &str) -> Option<usize> {
        self.get(k).map(n)
    }
    fn all(&self, k: &str) -> Vec<&'a str> {
        self.kv.iter().filter(|(a, _)| *a == k).map(|(_, v)| *v).collect()
    }
    /// `ad=<k>:<v>` define (create) / require (open); `ak=<k>` require key
    fn specifier(&self) -> AttributeSpecifier {
        let mut s = AttributeSpecifier::new();
        for kv in self.all("ad") {
            let (k, v) = kv.split_once(':').unwrap();
            s = s.define(&format!("k{k}").as_str().try_into().unwrap(), &format!("v{v}").as_str().try_into().unwrap()).unwrap();
        }
        s
    }
    fn verifier(&self) -> AttributeVerifier {
        let mut s = AttributeVerifier::new();
        for kv in self.all("ad") {
            let (k, v) = kv.split_once(':').unwrap();
            s = s.require(&format!("k{k}").as_str().try_into().unwrap(), &format!("v{v}").as_str().try_into().unwrap()).unwrap();
        }
        for k in self.all("ak") {
            s = s.require_key(&format!("k{k}").as_str().try_into().unwrap()).unwrap();
        }
        s
    }
}

/// custom type `x<name>_<size>_<align>[_D]`
fn custom_detail(t: &str) -> TypeDetail {
    let p: Vec<&str> = t[1..].split('_').collect();
    let variant = if p.len() > 3 && p[3] == "D" { TypeVariant::Dynamic } else { TypeVariant::FixedSize };
    TypeDetail::__internal_new_from_parts(variant, p[0], n(p[1]), n(p[2])).unwrap()
}

#[derive(Clone, Copy, PartialEq)]
pub enum Mode {
    Create,
    Open,
    Ooc,
}

type HRes = Result<Box<dyn Handle>, String>;
type PsB<P, H> = iceoryx2::service::builder::publish_subscribe::Builder<P, H, S>;

macro_rules! finish {
    ($b:expr, $mode:expr, $r:expr) => {
        match $mode {
            Mode::Create => $b.create_with_attributes(&$r.specifier()).map(|f| Box::new(f) as Box<dyn Handle>).map_err(|e| format!("{e:?}")),
            Mode::Open => $b.open_with_attributes(&$r.verifier()).map(|f| Box::new(f) as Box<dyn Handle>).map_err(|e| format!("{e:?}")),
            Mode::Ooc => $b.open_or_create_with_attributes(&$r.verifier()).map(|f| Box::new(f) as Box<dyn Handle>).map_err(|e| format!("{e:?}")),
        }
    };
}

macro_rules! ps_set {
    ($b:ident, $r:expr) => {{
        if let Some(v) = $r.num("mp") { $b = $b.max_publishers(v); }
        if let Some(v) = $r.num("ms") { $b = $b.max_subscribers(v); }
        if let Some(v) = $r.num("b") { $b = $b.subscriber_max_buffer_size(v); }
        if let Some(v) = $r.num("h") { $b = $b.history_size(v); }
        if let Some(v) = $r.num("r") { $b = $b.subscriber_max_borrowed_samples(v); }
        if let Some(v) = $r.num("o") { $b = $b.enable_safe_overflow(v == 1); }
        if let Some(v) = $r.num("mn") { $b = $b.max_nodes(v); }
        if let Some(v) = $r.num("al") { $b = $b.payload_alignment(Alignment::new(v).unwrap()); }
    }};
}

macro_rules! ps_go {
    ($node:expr, $name:expr, $P:ty, $H:ty, $r:expr, $mode:expr, $fix:expr) => {{
        let b0 = $node.service_builder($name).publish_subscribe::<$P>().user_header::<$H>();
        #[allow(unused_mut)]
        let mut bld = $fix(b0);
        ps_set!(bld, $r);
        let res: HRes = finish!(bld, $mode, $r);
        res
    }};
}

fn ps_call(node: &Node<S>, name: &ServiceName, r: &Req, mode: Mode) -> HRes {
    let t = r.get("t").unwrap_or("u64");
    let h = r.get("uh").unwrap_or("unit");
    let hk = if h == "unit" { 0 } else if h == "u64" { 1 } else { 2 };
    let pk = if t == "u64" { 0 } else if t == "u32" { 1 } else if t == "su8" { 2 } else { 3 };
    macro_rules! with_h {
        ($P:ty) => {
            match hk {
                0 => ps_go!(node, name, $P, (), r, mode, |b: PsB<$P, ()>| b),
                1 => ps_go!(node, name, $P, u64, r, mode, |b: PsB<$P, u64>| b),
                _ => {
                    let hd = custom_detail(h);
                    ps_go!(node, name, $P, CustomHeaderMarker, r, mode, |b: PsB<$P, CustomHeaderMarker>| unsafe { b.__internal_set_user_header_type_details(&hd) })
                }
            }
        };
    }
    match pk {
        0 => with_h!(u64),
        1 => with_h!(u32),
        2 => with_h!([u8]),
        _ => {
            let pd = custom_detail(t);
            match hk {
                0 => ps_go!(node, name, [CustomPayloadMarker], (), r, mode, |b: PsB<[CustomPayloadMarker], ()>| unsafe { b.__internal_set_payload_type_details(&pd) }),
                1 => ps_go!(node, name, [CustomPayloadMarker], u64, r, mode, |b: PsB<[CustomPayloadMarker], u64>| unsafe { b.__internal_set_payload_type_details(&pd) }),
                _ => {
                    let hd = custom_detail(h);
                    ps_go!(node, name, [CustomPayloadMarker], CustomHeaderMarker, r, mode, |b: PsB<[CustomPayloadMarker], CustomHeaderMarker>| unsafe {
                        b.__internal_set_payload_type_details(&pd).__internal_set_user_header_type_details(&hd)
                    })
                }
            }
        }
    }
}

fn ev_call(node: &Node<S>, name: &ServiceName, r: &Req, mode: Mode) -> HRes {
    let mut bld = node.service_builder(name).event();
    if let Some(v) = r.num("nt") { bld = bld.max_notifiers(v); }
    if let Some(v) = r.num("ls") { bld = bld.max_listeners(v); }
    if let Some(v) = r.num("eid") { bld = bld.event_id_max_value(v); }
    if let Some(v) = r.num("mn") { bld = bld.max_nodes(v); }
    macro_rules! ev_opt {
        ($k:expr, $set:ident, $dis:ident) => {
            if let Some(v) = r.get($k) {
                bld = if v == "-" { bld.$dis() } else { bld.$set(EventId::new(n(v))) };
            }
        };
    }
    ev_opt!("ce", notifier_created_event, disable_notifier_created_event);
    ev_opt!("de", notifier_dropped_event, disable_notifier_dropped_event);
    ev_opt!("xe", notifier_dead_event, disable_notifier_dead_event);
    if let Some(v) = r.get("dl") {
        bld = if v == "-" { bld.disable_deadline() } else { bld.deadline(core::time::Duration::from_millis(n(v) as u64)) };
    }
    finish!(bld, mode, r)
}

macro_rules! rr_go {
    ($node:expr, $name:expr, $Q:ty, $R:ty, $r:expr, $mode:expr) => {
        rr_go!($node, $name, $Q, $R, $r, $mode, |b| b)
    };
    ($node:expr, $name:expr, $Q:ty, $R:ty, $r:expr, $mode:expr, $fix:expr) => {{
        let b0: iceoryx2::service::builder::request_response::Builder<$Q, (), $R, (), S> = $node.service_builder($name).request_response::<$Q, $R>();
        #[allow(unused_mut)]
        let mut bld = $fix(b0);
        if let Some(v) = $r.num("so") { bld = bld.enable_safe_overflow_for_requests(v == 1); }
        if let Some(v) = $r.num("sr") { bld = bld.enable_safe_overflow_for_responses(v == 1); }
        if let Some(v) = $r.num("ff") { bld = bld.enable_fire_and_forget_requests(v == 1); }
        if let Some(v) = $r.num("ar") { bld = bld.max_active_requests_per_client(v); }
        if let Some(v) = $r.num("lr") { bld = bld.max_loaned_requests(v); }
        if let Some(v) = $r.num("br") { bld = bld.max_borrowed_responses_per_pending_response(v); }
        if let Some(v) = $r.num("rb") { bld = bld.max_response_buffer_size(v); }
        if let Some(v) = $r.num("sv") { bld = bld.max_servers(v); }
        if let Some(v) = $r.num("cl") { bld = bld.max_clients(v); }
        if let Some(v) = $r.num("mn") { bld = bld.max_nodes(v); }
        if let Some(v) = $r.num("qal") { bld = bld.request_payload_alignment(Alignment::new(v).unwrap()); }
        if let Some(v) = $r.num("pal") { bld = bld.response_payload_alignment(Alignment::new(v).unwrap()); }
        let res: HRes = finish!(bld, $mode, $r);
        res
    }};
}
fn rr_detail(t: &str) -> TypeDetail {
    match t {
        "u64" => TypeDetail::new::<u64>(TypeVariant::FixedSize),
        "u32" => TypeDetail::new::<u32>(TypeVariant::FixedSize),
        _ => custom_detail(t),
    }
}
fn rr_call(node: &Node<S>, name: &ServiceName, r: &Req, mode: Mode) -> HRes {
    let (qt, pt) = (r.get("qt").unwrap_or("u64"), r.get("pt").unwrap_or("u64"));
    if qt.starts_with('x') || pt.starts_with('x') {
        // the instantiation of the language bindings: both payload details given at run time
        let (qd, pd) = (rr_detail(qt), rr_detail(pt));
        return rr_go!(node, name, [CustomPayloadMarker], [CustomPayloadMarker], r, mode,
            |b: iceoryx2::service::builder::request_response::Builder<[CustomPayloadMarker], (), [CustomPayloadMarker], (), S>| unsafe {
                b.__internal_set_request_payload_type_details(&qd).__internal_set_response_payload_type_details(&pd)
            });
    }
    match (qt, pt) {
        ("u64", "u64") => rr_go!(node, name, u64, u64, r, mode),
        ("u64", _) => rr_go!(node, name, u64, u32, r, mode),
        (_, "u64") => rr_go!(node, name, u32, u64, r, mode),
        _ => rr_go!(node, name, u32, u32, r, mode),
    }
}

macro_rules! bb_go {
    ($node:expr, $name:expr, $K:ty, $r:expr, $mode:expr) => {{
        let res: HRes = match $mode {
            Mode::Create => {
                let mut bld = $node.service_builder($name).blackboard_creator::<$K>();
                if let Some(v) = $r.num("rd") { bld = bld.max_readers(v); }
                if let Some(v) = $r.num("mn") { bld = bld.max_nodes(v); }
                for i in 0..$r.num("e").unwrap_or(1) {
                    bld = bld.add::<u64>(i as $K, 7 + i as u64);
                }
                if $r.num("dup").unwrap_or(0) == 1 {
                    // the same key twice: refused while the management segment is filled, i.e. after the static config exists
                    bld = bld.add::<u64>(0 as $K, 99);
                }
                bld.create_with_attributes(&$r.specifier()).map(|f| Box::new(f) as Box<dyn Handle>).map_err(|e| format!("{e:?}"))
            }
            _ => {
                let mut bld = $node.service_builder($name).blackboard_opener::<$K>();
                if let Some(v) = $r.num("rd") { bld = bld.max_readers(v); }
                if let Some(v) = $r.num("mn") { bld = bld.max_nodes(v); }
                bld.open_with_attributes(&$r.verifier()).map(|f| Box::new(f) as Box<dyn Handle>).map_err(|e| format!("{e:?}"))
            }
        };
        res
    }};
}
fn bb_call(node: &Node<S>, name: &ServiceName, r: &Req, mode: Mode) -> HRes {
    if mode == Mode::Ooc {
        return Err("no-open-or-create".into());
    }
    match r.get("kt").unwrap_or("u64") {
        "u64" => bb_go!(node, name, u64, r, mode),
        _ => bb_go!(node, name, u32, r, mode),
    }
}

pub fn call(node: &Node<S>, name: &ServiceName, pat: &str, r: &Req, mode: Mode) -> HRes {
    match pat {
        "ps" => ps_call(node, name, r, mode),
        "ev" => ev_call(node, name, r, mode),
        "rr" => rr_call(node, name, r, mode),
        _ => bb_call(node, name, r, mode),
    }
}

// ---------------------------------------------------------------------------------------------

/// own root directory per process (the shared /tmp/iceoryx2/{nodes,services} hold thousands of entries of
/// other checks and test suites; every node creation lists them)
pub fn root_dir() -> String {
    format!("/tmp/iceoryx2/vs{}", std::process::id())
}

pub fn mk_config(prefix: &str) -> Config {
    let mut config = Config::global_config().clone();
    config.global.prefix = FileName::new(prefix.as_bytes()).unwrap();
    config.global.set_root_path(&Path::new(root_dir().as_bytes()).unwrap());
    // the defaults the Lean model assumes (small, so that the limits are reachable)
    let d = &mut config.defaults;
    d.publish_subscribe.max_publishers = 2;
    d.publish_subscribe.max_subscribers = 3;
    d.publish_subscribe.max_nodes = 2;
    d.publish_subscribe.subscriber_max_buffer_size = 2;
    d.publish_subscribe.publisher_history_size = 0;
    d.publish_subscribe.subscriber_max_borrowed_samples = 2;
    d.publish_subscribe.enable_safe_overflow = true;
    d.event.max_notifiers = 2;
    d.event.max_listeners = 2;
    d.event.max_nodes = 2;
    d.event.event_id_max_value = 255;
    d.event.deadline = None;
    d.event.notifier_created_event = None;
    d.event.notifier_dropped_event = None;
    d.event.notifier_dead_event = None;
    d.request_response.enable_safe_overflow_for_requests = true;
    d.request_response.enable_safe_overflow_for_responses = true;
    d.request_response.enable_fire_and_forget_requests = true;
    d.request_response.max_active_requests_per_client = 4;
    d.request_response.max_loaned_requests = 2;
    d.request_response.max_borrowed_responses_per_pending_response = 2;
    d.request_response.max_response_buffer_size = 2;
    d.request_response.max_servers = 2;
    d.request_response.max_clients = 2;
    d.request_response.max_nodes = 2;
    d.blackboard.max_readers = 2;
    d.blackboard.max_nodes = 2;
    config
}

/// files of the given config prefix by kind (service-level kinds only)
pub fn list_files(prefix: &str, node_dirs: &[String]) -> String {
    let mut counts: BTreeMap<String, usize> = Default::default();
    let mut scan = |dir: &std::path::Path| {
        if let Ok(rd) = std::fs::read_dir(dir) {
            for e in rd.flatten() {
                let nm = e.file_name().to_string_lossy().to_string();
                if nm.starts_with(prefix) {
                    let kind = nm.rsplit('.').next().unwrap_or("?").to_string();
                    if matches!(kind.as_str(), "service" | "dynamic" | "service_tag" | "blackboard_mgmt" | "blackboard_data") {
                        *counts.entry(kind).or_insert(0) += 1;
                    }
                }
            }
        }
    };
    scan(std::path::Path::new("/dev/shm"));
    scan(std::path::Path::new(&format!("{}/services", root_dir())));
    for d in node_dirs {
        scan(std::path::Path::new(&format!("{}/nodes/{d}", root_dir())));
    }
    let v: Vec<String> = counts.iter().map(|(k, c)| format!("{k}={c}")).collect();
    if v.is_empty() { "-".into() } else { v.join(",") }
}

/// removes everything that carries the prefix (end of a case / of a run)
pub fn cleanup_prefix(prefix: &str, keep_global: bool) {
    let scan = |dir: &std::path::Path| {
        if let Ok(rd) = std::fs::read_dir(dir) {
            for e in rd.flatten() {
                let nm = e.file_name().to_string_lossy().to_string();
                if nm.starts_with(prefix) && !(keep_global && (nm.ends_with(".global_mgmt") || nm.contains(".node_monitor"))) {
                    let _ = std::fs::remove_file(e.path());
                }
            }
        }
    };
    scan(std::path::Path::new("/dev/shm"));
    scan(std::path::Path::new(&format!("{}/services", root_dir())));
    scan(std::path::Path::new(&format!("{}/nodes", root_dir())));
}

struct HandleEntry {
    h: Box<dyn Handle>,
    key: (usize, String),
}

pub struct World {
    prefix: String,
    config: Config,
    case_id: usize,
    nodes: HashMap<usize, Node<S>>,
    node_labels: HashMap<u128, usize>,
    node_dirs: Vec<String>,
    handles: HashMap<usize, HandleEntry>,
    ports: HashMap<usize, (Box<dyn Any>, (usize, String))>,
    creator_settings: HashMap<u128, String>,
    touched: Vec<(usize, String)>,
    /// the service the last call was about (the lifetime oracle looks at it after the call; at `list` at all)
    last_key: Option<(usize, String)>,
    /// the final `ls` of the case showed leftovers (or there was none)
    dirty: bool,
}

static LIVE_WORLDS: std::sync::atomic::AtomicUsize = std::sync::atomic::AtomicUsize::new(0);

impl World {
    fn new() -> World {
        let k = CASE_COUNTER.fetch_add(1, std::sync::atomic::Ordering::Relaxed);
        if LIVE_WORLDS.fetch_add(1, std::sync::atomic::Ordering::Relaxed) > 0 {
            // the previous case ended in a panic and its world was leaked by `run_cases`: remove what it left
            // behind (everything but the files of its still existing nodes), the cases share one prefix
            LIVE_WORLDS.store(1, std::sync::atomic::Ordering::Relaxed);
            cleanup_prefix(&format!("vs{}_", std::process::id()), true);
            let _ = std::fs::remove_dir_all(format!("{}/services", root_dir()));
        }
        // one config prefix (and root directory) per process; service names are unique per case
        let prefix = format!("vs{}_", std::process::id());
        World {
            config: mk_config(&prefix),
            prefix,
            case_id: k,
            nodes: HashMap::new(),
            node_labels: HashMap::new(),
            node_dirs: vec![],
            handles: HashMap::new(),
            ports: HashMap::new(),
            creator_settings: HashMap::new(),
            touched: vec![],
            last_key: None,
            dirty: true,
        }
    }
    fn name(&self, s: usize) -> ServiceName {
        ServiceName::new(&format!("verif/svc/{}/{}/{}", std::process::id(), self.case_id, s)).unwrap()
    }
    fn users(&self, key: &(usize, String)) -> usize {
        self.handles.values().filter(|e| &e.key == key).count() + self.ports.values().filter(|(_, k)| k == key).count()
    }
    /// property (c) on the implementation alone
    fn lifetime_oracle(&self, only: Option<&(usize, String)>) {
        for key in self.touched.iter().filter(|k| only.map(|o| o == *k).unwrap_or(true)) {
            let ex = S::does_exist(&self.name(key.0), &self.config, pattern_of(&key.1));
            let users = self.users(key);
            match ex {
                Ok(e) if e == (users > 0) => {}
                Ok(true) => oracle_fail(format!("service s{}:{} exists without users", key.0, key.1)),
                Ok(false) => oracle_fail(format!("service s{}:{} vanished although {} user(s) exist", key.0, key.1, users)),
                Err(e) => oracle_fail(format!("does_exist failed: {e:?}")),
            }
        }
    }
    /// names of the service-level files below the own root (static configs, type-definition directories, the service
    /// tags of the case's nodes): what a refused create / open / open_or_create must leave exactly as it was
    fn root_snapshot(&self) -> Vec<String> {
        let mut v = vec![];
        let mut scan = |dir: String, depth: usize| {
            if let Ok(rd) = std::fs::read_dir(&dir) {
                for e in rd.flatten() {
                    let nm = e.file_name().to_string_lossy().to_string();
                    if e.path().is_dir() && depth == 0 {
                        v.push(format!("{nm}/"));
                        if let Ok(rd2) = std::fs::read_dir(e.path()) {
                            for e2 in rd2.flatten() {
                                v.push(format!("{nm}/{}", e2.file_name().to_string_lossy()));
                            }
                        }
                    } else {
                        v.push(nm);
                    }
                }
            }
        };
        scan(format!("{}/services", root_dir()), 0);
        for d in &self.node_dirs {
            if let Ok(rd) = std::fs::read_dir(format!("{}/nodes/{d}", root_dir())) {
                for e in rd.flatten() {
                    let nm = e.file_name().to_string_lossy().to_string();
                    if nm.ends_with(".service_tag") {
                        v.push(format!("{d}/{nm}"));
                    }
                }
            }
        }
        v.sort();
        v
    }
    fn drop_all(&mut self) {
        self.ports.clear();
        self.handles.clear();
        self.nodes.clear();
    }
    fn exec(&mut self, t: &[&str]) -> String {
        self.last_key = None;
        match t[0] {
            "node" => {
                let l = n(t[1]);
                if self.node_labels.values().any(|x| *x == l) {
                    return "dup".into();
                }
                match NodeBuilder::new().config(&self.config).create::<S>() {
                    Ok(nd) => {
                        self.node_labels.insert(nd.id().value(), l);
                        self.node_dirs.push(format!("{}", nd.id().value()));
                        self.nodes.insert(l, nd);
                        "ok".into()
                    }
                    Err(e) => format!("err:{e:?}"),
                }
            }
            "dnode" => match self.nodes.remove(&n(t[1])) {
                Some(nd) => {
                    drop(nd);
                    "ok".into()
                }
                None => "none".into(),
            },
            "create" | "open" | "ooc" => {
                // <op> n s h <pattern> [k=v …]
                let (nl, s, hl, pat) = (n(t[1]), n(t[2]), n(t[3]), t[4]);
                if self.handles.contains_key(&hl) {
                    return "dup".into();
                }
                let node = match self.nodes.get(&nl) {
                    Some(x) => x,
                    None => return "no-node".into(),
                };
                let mode = match t[0] {
                    "create" => Mode::Create,
                    "open" => Mode::Open,
                    _ => Mode::Ooc,
                };
                let r = Req::parse(&t[5..]);
                let key = (s, pat.to_string());
                if !self.touched.contains(&key) {
                    self.touched.push(key.clone());
                }
                self.last_key = Some(key.clone());
                let before = self.root_snapshot();
                let result = call(node, &self.name(s), pat, &r, mode);
                if result.is_err() {
                    // property: a refused call leaves the service untouched (and nothing half-made behind)
                    let after = self.root_snapshot();
                    if after != before {
                        let plus: Vec<&String> = after.iter().filter(|x| !before.contains(x)).collect();
                        let minus: Vec<&String> = before.iter().filter(|x| !after.contains(x)).collect();
                        let kind = |v: &Vec<&String>| { let mut k: Vec<String> = v.iter().map(|x| x.rsplit('.').next().unwrap_or("?").to_string()).collect(); k.sort(); k.dedup(); k.join("+") };
                        oracle_fail(format!("refused {} changed the files: appeared [{}] vanished [{}]", t[0], kind(&plus), kind(&minus)));
                    }
                }
                match result {
                    Ok(h) => {
                        let st = h.settings();
                        let uid = h.uid();
                        match (mode, self.creator_settings.get(&uid)) {
                            (Mode::Create, Some(_)) => oracle_fail("two successful creates of one incarnation".into()),
                            (Mode::Create, None) | (Mode::Ooc, None) => {
                                self.creator_settings.insert(uid, st.clone());
                            }
                            (Mode::Open, None) => oracle_fail("opened a service nobody created".into()),
                            (_, Some(c)) => {
                                if *c != st {
                                    oracle_fail("opener sees settings that differ from the creator's".into());
                                }
                            }
                        }
                        self.handles.insert(hl, HandleEntry { h, key });
                        format!("ok:{st}")
                    }
                    Err(e) => format!("err:{e}"),
                }
            }
            "drop" => match self.handles.remove(&n(t[1])) {
                Some(e) => {
                    self.last_key = Some(e.key.clone());
                    drop(e);
                    "ok".into()
                }
                None => "none".into(),
            },
            "port" => {
                // port h p kind
                let (hl, pl) = (n(t[1]), n(t[2]));
                if self.ports.contains_key(&pl) {
                    return "dup".into();
                }
                match self.handles.get(&hl) {
                    Some(e) => match e.h.port(t[3]) {
                        Ok(p) => {
                            self.last_key = Some(e.key.clone());
                            self.ports.insert(pl, (p, e.key.clone()));
                            "ok".into()
                        }
                        Err(e) => format!("err:{e}"),
                    },
                    None => "none".into(),
                }
            }
            "dport" => match self.ports.remove(&n(t[1])) {
                Some(p) => {
                    self.last_key = Some(p.1.clone());
                    drop(p);
                    "ok".into()
                }
                None => "none".into(),
            },
            "settings" => match self.handles.get(&n(t[1])) {
                Some(e) => e.h.settings(),
                None => "none".into(),
            },
            "nodes" => match self.handles.get(&n(t[1])) {
                Some(e) => {
                    let mut v: Vec<String> = e.h.node_ids().iter().map(|id| self.node_labels.get(id).map(|l| l.to_string()).unwrap_or("?".into())).collect();
                    v.sort();
                    format!("[{}]", v.join(","))
                }
                None => "none".into(),
            },
            "exists" => match S::does_exist(&self.name(n(t[1])), &self.config, pattern_of(t[2])) {
                Ok(x) => format!("{x}"),
                Err(e) => format!("err:{e:?}"),
            },
            "list" => {
                let mut v: Vec<String> = vec![];
                let base = format!("verif/svc/{}/{}/", std::process::id(), self.case_id);
                let r = S::list(&self.config, |d| {
                    let nm = d.static_details.name().to_string();
                    let (p, st) = static_str(&d.static_details);
                    let short = nm.strip_prefix(&base).map(|x| format!("s{x}")).unwrap_or(nm);
                    let regs = d.dynamic_details.map(|dd| dd.nodes.len().to_string()).unwrap_or("-".into());
                    v.push(format!("{short}:{p}:n{regs}:{st}"));
                    CallbackProgression::Continue
                });
                if let Err(e) = r {
                    return format!("err:{e:?}");
                }
                v.sort();
                if v.is_empty() { "-".into() } else { v.join("|") }
            }
            "ls" => list_files(&self.prefix, &self.node_dirs),
            "end" => {
                self.drop_all();
                let r = list_files(&self.prefix, &self.node_dirs);
                self.dirty = r != "-";
                r
            }
            _ => "bad-op".into(),
        }
    }
}

impl Drop for World {
    fn drop(&mut self) {
        self.drop_all();
        LIVE_WORLDS.fetch_sub(1, std::sync::atomic::Ordering::Relaxed);
        if self.dirty {
            cleanup_prefix(&self.prefix, true);
        }
        for d in &self.node_dirs {
            let _ = std::fs::remove_dir_all(format!("{}/nodes/{d}", root_dir()));
        }
    }
}

pub struct SvcComp {
    w: Option<World>,
}
impl SvcComp {
    pub fn new() -> Self {
        SvcComp { w: None }
    }
}
impl Comp for SvcComp {
    fn exec(&mut self, t: &[&str]) -> String {
        if t[0] == "new" {
            self.w = None;
            self.w = Some(World::new());
            return "ok".into();
        }
        match &mut self.w {
            None => "no-world".into(),
            Some(w) => {
                let r = w.exec(t);
                if t[0] == "list" || t[0] == "dnode" {
                    w.lifetime_oracle(None);
                } else if let Some(k) = w.last_key.clone() {
                    w.lifetime_oracle(Some(&k));
                }
                r
            }
        }
    }
}
