//! Part B ties (filled in below)
pub fn syscalls(_a: &[String]) {}
pub fn stress(_a: &[String]) {}
pub fn stress_child(_a: &[String]) {}
