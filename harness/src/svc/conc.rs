//! Part B ties.
//!  `syscalls create|open|open-missing|create-existing <pattern>`: one real call between two markers
//!   (`write(2, "C06-MARK …")`), to be run under strace; prints the paths by role on stdout.
//!  `stress <rounds> <creators> <openers> <seed>`: k creator + m opener processes released by a barrier
//!   (a FIFO-free spin on a shared file), random short sleeps, many rounds; checks "exactly one creator wins,
//!   every successful opener sees the winner's settings, nothing of the round is left after everybody dropped".
//!  `samenode <rounds> <seed>`: two threads of ONE node call `create` for the same service concurrently
//!   (builders are Send); checks that the node of the successful creator still has its service tag.
use crate::common::Rng;
use crate::world::*;
use iceoryx2::prelude::*;
use std::io::Write;

type S = ipc::Service;

fn mark(s: &str) {
    let _ = std::io::stderr().write_all(format!("C06-MARK {s}\n").as_bytes());
}

pub fn syscalls(a: &[String]) {
    let what = a.first().map(|s| s.as_str()).unwrap_or("create");
    let pat = a.get(1).map(|s| s.as_str()).unwrap_or("ps");
    let prefix = format!("vs{}_", std::process::id());
    let config = mk_config(&prefix);
    let name = ServiceName::new(&format!("verif/svc/{}/sys", std::process::id())).unwrap();
    let n0 = NodeBuilder::new().config(&config).create::<S>().unwrap();
    let n1 = NodeBuilder::new().config(&config).create::<S>().unwrap();
    let none: Vec<&str> = vec![];
    let r = Req::parse(&none);
    let first = if what == "open" || what == "create-existing" { Some(call(&n0, &name, pat, &r, Mode::Create).map_err(|e| e.to_string()).unwrap()) } else { None };
    println!("root {}", root_dir());
    println!("prefix {prefix}");
    println!("node0 {}", n0.id().value());
    println!("node1 {}", n1.id().value());
    mark("begin");
    let res = match what {
        "create" => call(&n1, &name, pat, &r, Mode::Create),
        "create-existing" => call(&n1, &name, pat, &r, Mode::Create),
        _ => call(&n1, &name, pat, &r, Mode::Open),
    };
    mark("end");
    println!("result {}", match &res { Ok(h) => format!("ok:{}", h.settings()), Err(e) => format!("err:{e}") });
    drop(res);
    drop(first);
    drop(n0);
    drop(n1);
    cleanup_prefix(&prefix, false);
    let _ = std::fs::remove_dir_all(root_dir());
}

fn usleep(us: u64) {
    std::thread::sleep(std::time::Duration::from_micros(us));
}

/// parent: spawns the children once; every round: writes the round number into the go file, collects one
/// result line per child from its stdout, checks the oracle.
pub fn stress(a: &[String]) {
    let rounds: usize = a.first().map(|s| n(s)).unwrap_or(50);
    let creators: usize = a.get(1).map(|s| n(s)).unwrap_or(3);
    let openers: usize = a.get(2).map(|s| n(s)).unwrap_or(3);
    let seed: u64 = a.get(3).map(|s| s.parse().unwrap()).unwrap_or(1);
    if a.iter().any(|x| x == "samenode-crash") {
        return samenode_crash(rounds, seed);
    }
    if a.iter().any(|x| x == "samenode-crash-child") {
        return samenode_crash_child(rounds, seed, a.iter().any(|x| x == "control"));
    }
    let threads = a.iter().any(|x| x == "samenode");
    if threads {
        return samenode(rounds, seed);
    }
    let me = std::env::current_exe().unwrap();
    let pid = std::process::id();
    let dir = format!("/tmp/c06stress{pid}");
    std::fs::create_dir_all(&dir).unwrap();
    let go = format!("{dir}/go");
    std::fs::write(&go, "0").unwrap();
    let mut kids = vec![];
    for i in 0..creators + openers {
        let role = if i < creators { "c" } else if (i - creators) % 2 == 0 { "o" } else { "x" };
        let ch = std::process::Command::new(&me)
            .args(["stress-child", &pid.to_string(), &i.to_string(), role, &rounds.to_string(), &(seed + i as u64).to_string(), &go])
            .stdin(std::process::Stdio::piped())
            .stdout(std::process::Stdio::piped())
            .spawn()
            .unwrap();
        kids.push(ch);
    }
    use std::io::BufRead;
    let mut readers: Vec<_> = kids.iter_mut().map(|k| std::io::BufReader::new(k.stdout.take().unwrap())).collect();
    let mut stats: std::collections::BTreeMap<String, usize> = Default::default();
    let mut bad: Vec<String> = vec![];
    let prefix = format!("vs{pid}_");
    for round in 1..=rounds {
        std::fs::write(&go, round.to_string()).unwrap();
        // phase 1: everybody reports the result of its call (handles are kept)
        let mut res = vec![];
        for r in readers.iter_mut() {
            let mut l = String::new();
            r.read_line(&mut l).unwrap();
            res.push(l.trim().to_string());
        }
        let winners: Vec<&String> = res.iter().take(creators).filter(|r| r.starts_with("ok:")).collect();
        for r in &res {
            *stats.entry(r.split(|c| c == ',' ).next().unwrap_or("").chars().take(60).collect::<String>().split(":mp=").next().unwrap().to_string()).or_insert(0) += 1;
        }
        if winners.len() > 1 {
            bad.push(format!("round {round}: {} creators succeeded", winners.len()));
        }
        let docs = ["err:AlreadyExists", "err:DoesNotExist", "err:HangsInCreation", "err:IsMarkedForDestruction", "err:ExceedsMaxNumberOfNodes", "err:DoesNotSupportRequestedAmountOfPublishers", "err:IsBeingCreatedByAnotherInstance"];
        for (i, r) in res.iter().enumerate() {
            if r.starts_with("ok:") {
                if i >= creators {
                    match winners.first() {
                        Some(w) if *w == r => {}
                        Some(_) => bad.push(format!("round {round}: opener {i} sees settings that differ from the winner's: {r}")),
                        None => bad.push(format!("round {round}: opener {i} succeeded although no creator succeeded")),
                    }
                }
            } else if !docs.contains(&r.as_str()) {
                bad.push(format!("round {round}: call {i} ended with `{r}`"));
            }
        }
        // phase 2: tell everybody to drop; afterwards nothing of the service may exist
        for k in kids.iter_mut() {
            k.stdin.as_mut().unwrap().write_all(b"drop\n").unwrap();
        }
        for r in readers.iter_mut() {
            let mut l = String::new();
            r.read_line(&mut l).unwrap();
        }
        let left = list_files_root(&prefix, pid);
        if left != "-" {
            bad.push(format!("round {round}: left after all users dropped: {left}"));
            cleanup_prefix(&prefix, true);
        }
    }
    std::fs::write(&go, "stop").unwrap();
    for k in kids.iter_mut() {
        let _ = k.stdin.as_mut().unwrap().write_all(b"quit\n");
        let _ = k.wait();
    }
    let _ = std::fs::remove_dir_all(&dir);
    cleanup_prefix(&prefix, false);
    let _ = std::fs::remove_dir_all(format!("/tmp/iceoryx2/vs{pid}"));
    println!("rounds {rounds} creators {creators} openers {openers}");
    for (k, v) in &stats {
        println!("stat {k} {v}");
    }
    for b in bad.iter().take(10) {
        println!("BAD {b}");
    }
    println!("bad {}", bad.len());
}

fn list_files_root(prefix: &str, pid: u32) -> String {
    // like world::list_files but for the parent's root (children share it)
    let root = format!("/tmp/iceoryx2/vs{pid}");
    let mut counts: std::collections::BTreeMap<String, usize> = Default::default();
    let mut scan = |dir: &std::path::Path| {
        if let Ok(rd) = std::fs::read_dir(dir) {
            for e in rd.flatten() {
                let nm = e.file_name().to_string_lossy().to_string();
                if nm.starts_with(prefix) {
                    let kind = nm.rsplit('.').next().unwrap_or("?").to_string();
                    if matches!(kind.as_str(), "service" | "dynamic" | "service_tag") {
                        *counts.entry(kind).or_insert(0) += 1;
                    }
                }
            }
        }
    };
    scan(std::path::Path::new("/dev/shm"));
    scan(std::path::Path::new(&format!("{root}/services")));
    if let Ok(rd) = std::fs::read_dir(format!("{root}/nodes")) {
        for e in rd.flatten() {
            if e.path().is_dir() {
                scan(&e.path());
            }
        }
    }
    let v: Vec<String> = counts.iter().map(|(k, c)| format!("{k}={c}")).collect();
    if v.is_empty() { "-".into() } else { v.join(",") }
}

/// child: `stress-child <parent pid> <index> <c|o|x> <rounds> <seed> <go file>`
pub fn stress_child(a: &[String]) {
    let ppid: u32 = a[0].parse().unwrap();
    let idx = n(&a[1]);
    let role = a[2].as_str();
    let rounds = n(&a[3]);
    let mut rng = Rng::new(a[4].parse().unwrap());
    let go = &a[5];
    let prefix = format!("vs{ppid}_");
    let mut config = mk_config(&prefix);
    config.global.set_root_path(&Path::new(format!("/tmp/iceoryx2/vs{ppid}").as_bytes()).unwrap());
    config.global.creation_timeout = core::time::Duration::from_millis(200);
    let node = NodeBuilder::new().config(&config).create::<S>().unwrap();
    let stdin = std::io::stdin();
    for round in 1..=rounds {
        let want = round.to_string();
        // barrier: spin until the parent publishes the round number
        loop {
            match std::fs::read_to_string(go) {
                Ok(s) if s == want => break,
                Ok(s) if s == "stop" => return,
                _ => std::hint::spin_loop(),
            }
        }
        if rng.chance(60) {
            usleep(rng.below(300));
        }
        let name = ServiceName::new(&format!("verif/svc/{ppid}/stress/{round}")).unwrap();
        // creators use different settings (mp = 1 + index): the winner is recognisable by every opener
        let ctoks = [format!("mp={}", 1 + idx), "mn=16".to_string()];
        let ctoks: Vec<&str> = ctoks.iter().map(|s| s.as_str()).collect();
        let otoks: Vec<&str> = if role == "x" { vec!["mp=64"] } else { vec![] };
        let res = match role {
            "c" => call(&node, &name, "ps", &Req::parse(&ctoks), Mode::Create),
            _ => {
                // an opener that comes too early gets DoesNotExist: retry a few times like an application would
                let mut r = call(&node, &name, "ps", &Req::parse(&otoks), Mode::Open);
                let mut tries = 0;
                while matches!(&r, Err(e) if e == "DoesNotExist") && tries < 200 {
                    usleep(50 + rng.below(200));
                    r = call(&node, &name, "ps", &Req::parse(&otoks), Mode::Open);
                    tries += 1;
                }
                r
            }
        };
        println!("{}", match &res { Ok(h) => format!("ok:{}", h.settings()), Err(e) => format!("err:{e}") });
        let mut l = String::new();
        stdin.read_line(&mut l).unwrap();
        if rng.chance(50) {
            usleep(rng.below(200));
        }
        drop(res);
        println!("dropped");
    }
}

/// two threads, one node, both `create` the same fresh service
fn samenode(rounds: usize, seed: u64) {
    let prefix = format!("vs{}_", std::process::id());
    let config = mk_config(&prefix);
    let mut rng = Rng::new(seed);
    let mut lost_tag = 0;
    let mut both = 0;
    let mut first_witness = String::new();
    let node = NodeBuilder::new().config(&config).create::<ipc_threadsafe::Service>().unwrap();
    let node_dir = format!("{}/nodes/{}", root_dir(), node.id().value());
    for round in 0..rounds {
        let name = ServiceName::new(&format!("verif/svc/{}/same/{round}", std::process::id())).unwrap();
        let b1 = node.service_builder(&name).publish_subscribe::<u64>();
        let b2 = node.service_builder(&name).publish_subscribe::<u64>();
        let bar = std::sync::Arc::new(std::sync::Barrier::new(2));
        let (d1, d2) = (rng.below(40), rng.below(40));
        let (bar1, bar2) = (bar.clone(), bar.clone());
        let t1 = std::thread::spawn(move || {
            bar1.wait();
            for _ in 0..d1 * 50 { std::hint::spin_loop(); }
            b1.create()
        });
        let t2 = std::thread::spawn(move || {
            bar2.wait();
            for _ in 0..d2 * 50 { std::hint::spin_loop(); }
            b2.create()
        });
        let (r1, r2) = (t1.join().unwrap(), t2.join().unwrap());
        let oks = r1.is_ok() as usize + r2.is_ok() as usize;
        if oks == 2 {
            both += 1;
        }
        if oks == 1 {
            // the node holds the service: its tag must exist
            let tags = std::fs::read_dir(&node_dir).map(|rd| rd.flatten().filter(|e| e.file_name().to_string_lossy().ends_with(".service_tag")).count()).unwrap_or(0);
            if tags == 0 {
                lost_tag += 1;
                if first_witness.is_empty() {
                    first_witness = format!("round {round}: r1={:?} r2={:?} tags in node dir: 0", r1.as_ref().map(|_| "ok").map_err(|e| *e), r2.as_ref().map(|_| "ok").map_err(|e| *e));
                }
            }
        }
        drop(r1);
        drop(r2);
    }
    drop(node);
    cleanup_prefix(&prefix, false);
    let _ = std::fs::remove_dir_all(root_dir());
    println!("samenode rounds {rounds} both-succeeded {both} winner-without-tag {lost_tag}");
    if !first_witness.is_empty() {
        println!("witness {first_witness}");
    }
}

/// consequence of the lost tag: a child process races two creators on one node until the winner's node has no
/// service tag (control: until it has one), then dies (abort) while holding the service; the parent runs the
/// dead-node cleanup and looks whether the service is removed
fn samenode_crash(rounds: usize, seed: u64) {
    let me = std::env::current_exe().unwrap();
    for control in [false, true] {
        let pid = std::process::id();
        let mut args = vec!["stress".to_string(), rounds.to_string(), pid.to_string(), "0".to_string(), seed.to_string(), "samenode-crash-child".to_string()];
        if control {
            args.push("control".to_string());
        }
        let out = std::process::Command::new(&me).args(&args).output().unwrap();
        let txt = String::from_utf8_lossy(&out.stdout).to_string();
        let name = txt.lines().find_map(|l| l.strip_prefix("HOLDING ")).map(|s| s.to_string());
        let prefix = format!("vs{pid}_");
        let config = mk_config(&prefix);
        match name {
            None => println!("{}: child did not reach the state ({})", if control { "control" } else { "lost-tag" }, txt.trim()),
            Some(nm) => {
                let sn = ServiceName::new(&nm).unwrap();
                let before = S::does_exist(&sn, &config, MessagingPattern::PublishSubscribe);
                // a new node: cleanup_dead_nodes_on_creation, then an explicit cleanup
                let node = NodeBuilder::new().config(&config).create::<S>().unwrap();
                let st = node.try_cleanup_dead_nodes();
                let after = S::does_exist(&sn, &config, MessagingPattern::PublishSubscribe);
                // what an application sees afterwards
                let open = node.service_builder(&sn).publish_subscribe::<u64>().open().map(|_| "ok").map_err(|e| format!("{e:?}"));
                let create = node.service_builder(&sn).publish_subscribe::<u64>().create().map(|_| "ok").map_err(|e| format!("{e:?}"));
                println!("{}: child died holding the service; exists before cleanup {:?}, cleanups {} failed {}, exists after cleanup {:?}, open {:?}, create {:?}",
                    if control { "control" } else { "lost-tag" }, before, st.cleanups, st.failed_cleanups, after, open, create);
                drop(node);
            }
        }
        cleanup_prefix(&prefix, false);
        let _ = std::fs::remove_dir_all(root_dir());
    }
}

fn samenode_crash_child(rounds: usize, _seed: u64, control: bool) {
    // a[1] of the parent call carried the parent's pid in the `creators` slot
    let argv: Vec<String> = std::env::args().collect();
    let ppid: u32 = argv[3].parse().unwrap();
    let prefix = format!("vs{ppid}_");
    let mut config = mk_config(&prefix);
    config.global.set_root_path(&Path::new(format!("/tmp/iceoryx2/vs{ppid}").as_bytes()).unwrap());
    let node = NodeBuilder::new().config(&config).create::<ipc_threadsafe::Service>().unwrap();
    let node_dir = format!("/tmp/iceoryx2/vs{ppid}/nodes/{}", node.id().value());
    for round in 0..rounds {
        let nm = format!("verif/svc/{ppid}/crash/{}/{round}", control as u8);
        let name = ServiceName::new(&nm).unwrap();
        let b1 = node.service_builder(&name).publish_subscribe::<u64>();
        let b2 = node.service_builder(&name).publish_subscribe::<u64>();
        let bar = std::sync::Arc::new(std::sync::Barrier::new(2));
        let (bar1, bar2) = (bar.clone(), bar.clone());
        let t1 = std::thread::spawn(move || { bar1.wait(); b1.create() });
        let t2 = std::thread::spawn(move || { bar2.wait(); b2.create() });
        let (r1, r2) = (t1.join().unwrap(), t2.join().unwrap());
        if r1.is_ok() as usize + r2.is_ok() as usize == 1 {
            let tags = std::fs::read_dir(&node_dir).map(|rd| rd.flatten().filter(|e| e.file_name().to_string_lossy().ends_with(".service_tag")).count()).unwrap_or(0);
            if (tags == 0) != control {
                println!("HOLDING {nm}");
                use std::io::Write;
                std::io::stdout().flush().unwrap();
                std::process::abort();
            }
        }
        drop(r1);
        drop(r2);
    }
    println!("not reached");
}
