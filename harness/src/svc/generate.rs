//! generators for the `svclife` component: random mostly-valid histories, the creator-settings x
//! opener-requirements matrix (single dimensions exhaustively, pairs of dimensions), and
//! exhaustive short histories over a small alphabet.
use crate::common::*;

struct Dim {
    key: &'static str,
    creator: &'static [&'static str],
    opener: &'static [&'static str],
}

const NUM_C: &[&str] = &["-", "0", "1", "3"];
const NUM_O: &[&str] = &["-", "0", "1", "2", "3", "4"];
const FLAG_C: &[&str] = &["-", "0", "1"];
const FLAG_O: &[&str] = &["-", "0", "1"];
const OPT_C: &[&str] = &["-", "!", "0", "5"]; // "!" = explicitly disabled, see `tok`
// `xiox2::Flatbuffer_…`: a flatbuffer payload without a schema file: the type-definition resource is refused AFTER the static config was written
const PS_T: &[&str] = &["-", "u64", "u32", "su8", "xu64_8_8", "xu64_8_4", "xu64_4_8", "xq_8_8", "xu64_8_8_D", "xu8_1_1_D", "xiox2::Flatbuffer_8_8"];
const RR_T: &[&str] = &["-", "u64", "u32", "xu64_8_8", "xq_4_4", "xiox2::Flatbuffer_8_8"];
const PS_UH: &[&str] = &["-", "unit", "u64", "xh_4_4", "xh_4_8", "xu64_8_8", "xu64_8_16"];
const ALIGN: &[&str] = &["-", "4", "8", "16", "32"];
const ATTR_C: &[&str] = &["-", "0:0", "0:1", "1:0", "0:0,0:1", "0:0,1:1"];
const ATTR_O: &[&str] = &["-", "0:0", "0:1", "1:0", "1:1", "0:0,0:1", "0:0,1:0"];
const KEY_O: &[&str] = &["-", "0", "1", "2"];
const NONE: &[&str] = &["-"];

fn dims(pat: &str) -> Vec<Dim> {
    let d = |key, creator, opener| Dim { key, creator, opener };
    match pat {
        "ps" => vec![
            d("mp", NUM_C, NUM_O), d("ms", NUM_C, NUM_O), d("b", NUM_C, NUM_O), d("h", &["-", "0", "1", "3"], NUM_O), d("r", NUM_C, NUM_O),
            d("o", FLAG_C, FLAG_O), d("mn", NUM_C, NUM_O), d("t", PS_T, PS_T), d("uh", PS_UH, PS_UH), d("al", ALIGN, ALIGN),
            d("ad", ATTR_C, ATTR_O), d("ak", NONE, KEY_O),
        ],
        "ev" => vec![
            d("nt", NUM_C, NUM_O), d("ls", NUM_C, NUM_O), d("eid", &["-", "0", "7", "255"], &["-", "0", "7", "8", "255", "256"]), d("mn", NUM_C, NUM_O),
            d("ce", OPT_C, &["-", "!", "0", "5", "6"]), d("de", OPT_C, &["-", "!", "0", "5", "6"]), d("xe", OPT_C, &["-", "!", "0", "5", "6"]),
            d("dl", &["-", "!", "10", "500"], &["-", "!", "10", "500", "20"]),
            d("ad", ATTR_C, ATTR_O), d("ak", NONE, KEY_O),
        ],
        "rr" => vec![
            d("so", FLAG_C, FLAG_O), d("sr", FLAG_C, FLAG_O), d("ff", FLAG_C, FLAG_O),
            d("ar", NUM_C, NUM_O), d("lr", NUM_C, NUM_O), d("br", NUM_C, NUM_O), d("rb", NUM_C, NUM_O),
            d("sv", NUM_C, NUM_O), d("cl", NUM_C, NUM_O), d("mn", NUM_C, NUM_O),
            d("qt", RR_T, RR_T), d("pt", RR_T, RR_T),
            d("qal", ALIGN, ALIGN), d("pal", ALIGN, ALIGN),
            d("ad", ATTR_C, ATTR_O), d("ak", NONE, KEY_O),
        ],
        _ => vec![
            d("rd", NUM_C, NUM_O), d("mn", NUM_C, NUM_O), d("kt", &["-", "u64", "u32"], &["-", "u64", "u32"]),
            d("e", &["-", "0", "1", "3"], NONE),
            // the same key added twice: refused while the management segment is filled (after the static config was written)
            d("dup", &["-", "-", "1"], NONE),
            d("ad", ATTR_C, ATTR_O), d("ak", NONE, KEY_O),
        ],
    }
}

/// tokens of one dimension value: "-" = not stated, "!" = explicitly disabled (options), lists for attributes
fn tok(key: &str, v: &str, out: &mut Vec<String>) {
    if v == "-" {
        return;
    }
    if key == "ad" || key == "ak" {
        for x in v.split(',') {
            out.push(format!("{key}={x}"));
        }
        return;
    }
    let v = if v == "!" { "-" } else { v };
    out.push(format!("{key}={v}"));
}

fn call_line(op: &str, node: usize, s: usize, h: usize, pat: &str, kv: &[String]) -> String {
    let mut l = format!("{op} {node} {s} {h} {pat}");
    for x in kv {
        l.push(' ');
        l.push_str(x);
    }
    l
}

/// creator settings x opener requirements
fn matrix(a: &Args, pat: &str) -> Vec<Vec<String>> {
    let ds = dims(pat);
    let ooc = a.rest.iter().any(|x| x == "ooc") && pat != "bb";
    let opener = if ooc { "ooc" } else { "open" };
    let mut rounds: Vec<Vec<String>> = vec![];
    let mut round = |ckv: &[String], okv: &[String]| {
        rounds.push(vec![
            call_line("create", 0, 0, 0, pat, ckv),
            call_line(opener, 1, 0, 1, pat, okv),
            "list".to_string(),
            "drop 1".to_string(),
            "drop 0".to_string(),
        ]);
    };
    // every dimension on its own, full domains
    for d in &ds {
        for c in d.creator {
            for o in d.opener {
                let (mut ck, mut ok) = (vec![], vec![]);
                tok(d.key, c, &mut ck);
                tok(d.key, o, &mut ok);
                round(&ck, &ok);
            }
        }
    }
    // zero limits with slice / custom payloads (the builders that did not adjust 0 to 1 before fix 0c61d51):
    // created directly and through open_or_create on a missing service
    if pat == "ps" {
        for t in ["su8", "xu64_8_8", "xu8_1_1_D"] {
            for k in ["mp", "ms", "mn", "b", "r"] {
                let ck = vec![format!("{k}=0"), format!("t={t}")];
                round(&ck, &vec![format!("t={t}")]);
                round(&ck, &ck);
            }
        }
    }
    // the same for the request-response builders of slice / custom payloads (did not adjust before the second fix)
    if pat == "rr" {
        for t in ["qt=xu64_8_8", "pt=xu64_8_8"] {
            for k in ["ar", "lr", "br", "rb", "sv", "cl", "mn"] {
                let ck = vec![format!("{k}=0"), t.to_string()];
                round(&ck, &vec![t.to_string()]);
                round(&ck, &ck);
            }
        }
    }
    // pairs of dimensions (which failing check is reported first), reduced domains
    let red = |xs: &'static [&'static str], k: usize| -> Vec<&'static str> {
        if xs.len() <= k { xs.to_vec() } else { let mut v = vec![xs[0]]; v.extend(xs[xs.len() - (k - 1)..].iter()); v }
    };
    if !a.rest.iter().any(|x| x == "single") {
        for i in 0..ds.len() {
            for j in i + 1..ds.len() {
                for ci in red(ds[i].creator, 2) {
                    for cj in red(ds[j].creator, 2) {
                        for oi in red(ds[i].opener, 3) {
                            for oj in red(ds[j].opener, 3) {
                                let (mut ck, mut ok) = (vec![], vec![]);
                                tok(ds[i].key, ci, &mut ck);
                                tok(ds[j].key, cj, &mut ck);
                                tok(ds[i].key, oi, &mut ok);
                                tok(ds[j].key, oj, &mut ok);
                                round(&ck, &ok);
                            }
                        }
                    }
                }
            }
        }
    }
    // creates that are refused AFTER the static config was written (service resource refused): nothing may stay behind
    let late: Vec<Vec<String>> = match pat {
        "bb" => vec![vec!["dup=1".into()], vec!["e=3".into(), "dup=1".into(), "rd=1".into()], vec!["dup=1".into(), "ad=0:0".into()]],
        "ps" => vec![vec!["t=xiox2::Flatbuffer_8_8".into()], vec!["t=xiox2::Flatbuffer_8_8_D".into(), "mp=0".into(), "ad=0:1".into()]],
        "rr" => vec![vec!["qt=xiox2::Flatbuffer_8_8".into()], vec!["pt=xiox2::Flatbuffer_4_4".into(), "sv=1".into()],
                     vec!["qt=xiox2::Flatbuffer_8_8".into(), "pt=xiox2::Flatbuffer_8_8".into()]],
        _ => vec![],
    };
    for l in &late {
        for first_node_holds_other in [false, true] {
            let mut r = vec![];
            if first_node_holds_other {
                // the creating node already holds another service (its node directory has another tag)
                r.push(call_line("create", 0, 1, 7, "ev", &[]));
            }
            r.push(call_line("create", 0, 0, 0, pat, l));
            r.push(format!("exists 0 {pat}"));
            r.push("ls".to_string());
            r.push("list".to_string());
            r.push(call_line("open", 1, 0, 1, pat, &[]));
            if pat != "bb" {
                r.push(call_line("ooc", 1, 0, 1, pat, l));
                r.push("ls".to_string());
            }
            r.push(call_line("create", 1, 0, 2, pat, &[]));
            r.push(call_line("create", 0, 0, 3, pat, l));
            r.push(call_line("open", 0, 0, 3, pat, &[]));
            r.push("list".to_string());
            r.push("drop 2".to_string());
            r.push("drop 3".to_string());
            r.push("drop 7".to_string());
            r.push("ls".to_string());
            rounds.push(r);
        }
    }
    if pat == "ps" {
        // open_or_create as the creator
        for t in ["su8", "xu64_8_8", "xu8_1_1_D", "u64"] {
            for k in ["mp", "ms", "mn", "b", "r"] {
                rounds.push(vec![
                    call_line("ooc", 0, 0, 0, pat, &[format!("{k}=0"), format!("t={t}")]),
                    "port 0 0 pub".to_string(),
                    "port 0 1 sub".to_string(),
                    "list".to_string(),
                    "dport 0".to_string(),
                    "dport 1".to_string(),
                    "drop 0".to_string(),
                ]);
            }
        }
    }
    let mut rng = Rng::new(a.seed ^ 0xC06);
    if a.rest.iter().any(|x| x == "sample") && (a.cases as usize) < rounds.len() {
        let mut pick = vec![];
        for _ in 0..a.cases {
            pick.push(rounds[rng.below(rounds.len() as u64) as usize].clone());
        }
        rounds = pick;
    }
    // 40 rounds per case: the same name is created again and again with other settings
    let mut cases = vec![];
    for chunk in rounds.chunks(40) {
        let mut c = vec!["new ipc".to_string(), "node 0".to_string(), "node 1".to_string()];
        for r in chunk {
            c.extend(r.iter().cloned());
        }
        c.push("end".to_string());
        cases.push(c);
    }
    cases
}

fn pick_val(rng: &mut Rng, xs: &[&'static str]) -> &'static str {
    xs[rng.below(xs.len() as u64) as usize]
}

fn port_kinds(pat: &str) -> [&'static str; 2] {
    match pat {
        "ps" => ["pub", "sub"],
        "ev" => ["not", "lis"],
        "rr" => ["cli", "srv"],
        _ => ["rd", "wr"],
    }
}

fn random_kv(rng: &mut Rng, pat: &str, creator: bool, dense: u64) -> Vec<String> {
    let mut kv = vec![];
    for d in dims(pat) {
        if rng.chance(dense) {
            let dom = if creator { d.creator } else { d.opener };
            // types / attributes less often than numbers, otherwise almost nothing ever opens
            if matches!(d.key, "t" | "uh" | "qt" | "pt" | "kt" | "ak" | "al" | "qal" | "pal") && !rng.chance(35) {
                continue;
            }
            tok(d.key, pick_val(rng, dom), &mut kv);
        }
    }
    kv
}

fn random_cases(a: &Args) -> Vec<Vec<String>> {
    let mut rng = Rng::new(a.seed);
    let mut cases = vec![];
    let pats = ["ps", "ps", "ps", "ev", "ev", "rr", "bb"];
    let only: Option<&str> = a.rest.iter().find(|x| ["ps", "ev", "rr", "bb"].contains(&x.as_str())).map(|x| x.as_str());
    for _ in 0..a.cases {
        let mut c = vec!["new ipc".to_string()];
        let nn = rng.range(1, 3) as usize;
        for i in 0..nn {
            c.push(format!("node {i}"));
        }
        let main_pat = only.unwrap_or(*rng.pick(&pats));
        let names = rng.range(1, 2);
        // what the generator believes to exist: (s, pat) -> creator tokens (only to bias towards valid calls)
        let mut believed: Vec<((u64, &str), Vec<String>)> = vec![];
        let mut handles: Vec<(u64, &str)> = vec![]; // believed live handle labels
        let mut ports: Vec<u64> = vec![];
        for _ in 0..a.len {
            let pat = if only.is_some() || rng.chance(85) { main_pat } else { *rng.pick(&pats) };
            let s = rng.below(names);
            let node = if rng.chance(1) { 3 } else { rng.below(nn as u64) };
            let x = rng.below(100);
            // mostly a label that is believed to be free
            let free_label = |rng: &mut Rng, handles: &Vec<(u64, &str)>| -> u64 {
                let free: Vec<u64> = (0..8).filter(|l| !handles.iter().any(|(h, _)| h == l)).collect();
                if free.is_empty() || rng.chance(8) { rng.below(8) } else { *rng.pick(&free) }
            };
            let line = if x < 22 {
                let h = free_label(&mut rng, &handles);
                let kv = random_kv(&mut rng, pat, true, 30);
                believed.retain(|(k, _)| *k != (s, pat));
                believed.push(((s, pat), kv.clone()));
                handles.push((h, pat));
                call_line("create", node as usize, s as usize, h as usize, pat, &kv)
            } else if x < 50 {
                let h = free_label(&mut rng, &handles);
                let op = if rng.chance(25) && pat != "bb" { "ooc" } else { "open" };
                // mostly: requirements the creator's settings satisfy (its own tokens, some dropped)
                let kv = match believed.iter().find(|(k, _)| *k == (s, pat)) {
                    Some((_, ckv)) if rng.chance(65) => ckv.iter().filter(|t| !t.starts_with("e=") && rng.chance(60)).cloned().collect(),
                    _ => random_kv(&mut rng, pat, false, 20),
                };
                handles.push((h, pat));
                call_line(op, node as usize, s as usize, h as usize, pat, &kv)
            } else if x < 68 {
                let h = if !handles.is_empty() && rng.chance(85) { let i = rng.below(handles.len() as u64) as usize; handles.remove(i).0 } else { rng.below(6) };
                format!("drop {h}")
            } else if x < 78 {
                let (h, hp) = if !handles.is_empty() && rng.chance(90) { *rng.pick(&handles) } else { (rng.below(6), pat) };
                let p = rng.below(6);
                ports.push(p);
                let kind = if rng.chance(4) { "pub" } else { port_kinds(hp)[rng.below(2) as usize] };
                format!("port {h} {p} {kind}")
            } else if x < 84 {
                let p = if !ports.is_empty() && rng.chance(85) { let i = rng.below(ports.len() as u64) as usize; ports.remove(i) } else { rng.below(6) };
                format!("dport {p}")
            } else if x < 88 {
                format!("exists {s} {pat}")
            } else if x < 93 {
                "list".to_string()
            } else if x < 94 {
                "ls".to_string()
            } else if x < 96 {
                format!("nodes {}", rng.below(6))
            } else if x < 98 {
                format!("settings {}", rng.below(6))
            } else if x < 99 {
                if rng.chance(25) { format!("dnode {}", rng.below(nn as u64)) } else { format!("exists {s} {pat}") }
            } else {
                format!("node {}", rng.below(4))
            };
            c.push(line);
        }
        c.push("list".to_string());
        c.push("end".to_string());
        cases.push(c);
    }
    cases
}

/// all histories of length L over a small alphabet (2 nodes, one name, publish-subscribe + event)
fn exhaustive(a: &Args) -> Vec<Vec<String>> {
    let alphabet: Vec<String> = [
        "create 0 0 0 ps mp=1 mn=1",
        "create 1 0 1 ps mp=2 ad=0:0",
        "open 0 0 2 ps",
        "open 1 0 3 ps mp=2",
        "ooc 1 0 4 ps mn=2",
        "ooc 0 0 5 ps t=u32",
        "drop 0",
        "drop 1",
        "drop 2",
        "drop 3",
        "drop 4",
        "port 0 0 pub",
        "port 3 1 sub",
        "dport 0",
        "dport 1",
        "create 0 0 6 ev nt=1",
        "open 1 0 7 ev nt=1",
        "drop 6",
        "dnode 0",
    ]
    .iter()
    .map(|s| s.to_string())
    .collect();
    // `part=K/N`: only every N-th history, starting with the K-th (to spread the enumeration over processes)
    let (pk, pn) = a.rest.iter().find_map(|x| x.strip_prefix("part=")).and_then(|x| x.split_once('/'))
        .map(|(k, n)| (k.parse::<usize>().unwrap(), n.parse::<usize>().unwrap())).unwrap_or((0, 1));
    let mut idx = 0usize;
    let mut cases = vec![];
    enumerate_seqs(&alphabet, a.exhaustive as usize, &mut |ix| {
        idx += 1;
        if (idx - 1) % pn != pk {
            return;
        }
        let mut c = vec!["new ipc".to_string(), "node 0".to_string(), "node 1".to_string()];
        for i in ix {
            c.push(alphabet[*i].clone());
            c.push("exists 0 ps".to_string());
        }
        c.push("list".to_string());
        c.push("ls".to_string());
        c.push("end".to_string());
        cases.push(c);
    });
    cases
}

pub fn generate(a: &Args) -> Vec<Vec<String>> {
    if let Some(i) = a.rest.iter().position(|x| x == "matrix") {
        return matrix(a, a.rest.get(i + 1).map(|s| s.as_str()).unwrap_or("ps"));
    }
    if a.exhaustive > 0 {
        return exhaustive(a);
    }
    random_cases(a)
}
