//! binary `svclife` (C06): service creation / opening / lifetime.
//!
//!   svclife svclife gen|replay [--seed N --cases N --len N --exhaustive L] [matrix <ps|ev|rr|bb>]   (line protocol of seqdiff)
//!   svclife syscalls create|open <pattern>      one call on a fresh name, markers on stderr for strace (Part B tie i)
//!   svclife stress <rounds> <creators> <openers> <seed> [threads]   (Part B tie ii)
extern crate iceoryx2_bb_loggers;
#[path = "../common.rs"]
mod common;
mod conc;
mod generate;
mod world;
use common::*;

fn main() {
    let argv: Vec<String> = std::env::args().collect();
    if argv.len() < 3 {
        eprintln!("usage: svclife svclife gen|replay … | svclife syscalls create|open <pat> | svclife stress <rounds> <creators> <openers> <seed>");
        std::process::exit(2);
    }
    struct Quiet;
    impl iceoryx2_log::Log for Quiet {
        fn log(&self, _l: iceoryx2_log::LogLevel, _o: core::fmt::Arguments, _m: core::fmt::Arguments) {}
    }
    static QUIET: Quiet = Quiet;
    if std::env::var("VERIF_LOG").is_err() {
        iceoryx2_log::set_logger(&QUIET);
        iceoryx2_log::set_log_level(iceoryx2_log::LogLevel::Fatal);
    } else {
        iceoryx2_log::set_log_level(iceoryx2_log::LogLevel::Trace);
    }
    match argv[1].as_str() {
        "svclife" => {
            std::panic::set_hook(Box::new(|_| {}));
            let args = parse_args(&argv[2..]);
            let cases = if args.mode == "replay" { read_cases_from_stdin() } else { generate::generate(&args) };
            run_cases(&|| world::SvcComp::new(), &cases);
            world::cleanup_prefix(&format!("vs{}_", std::process::id()), false);
            let _ = std::fs::remove_dir_all(world::root_dir());
        }
        "syscalls" => conc::syscalls(&argv[2..]),
        "stress" => conc::stress(&argv[2..]),
        "stress-child" => conc::stress_child(&argv[2..]),
        x => {
            eprintln!("unknown subcommand {x}");
            std::process::exit(2);
        }
    }
}
