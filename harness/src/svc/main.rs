//! stub: binary `svclife` (to be written)
fn main() {
    eprintln!("svclife: not implemented");
    std::process::exit(2);
}
