//! stub: component `reqres` (to be written)
use crate::common::*;

pub struct ReqResComp;
impl ReqResComp {
    pub fn new() -> Self {
        ReqResComp
    }
}
impl Comp for ReqResComp {
    fn exec(&mut self, _t: &[&str]) -> String {
        "unimplemented".into()
    }
}
pub fn generate(_a: &Args) -> Vec<Vec<String>> {
    vec![]
}
