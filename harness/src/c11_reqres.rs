//! C11: request-response through the real Client / Server port API (local and ipc service
//! variants), one operation per line.  Request and response payloads are u64 tags that are unique
//! per case (chosen by the generator).  The harness keeps an own book of who sent which tag for
//! which request, so it can tell - without the model - when a response arrives at a pending
//! response it was not sent for, twice, or out of order; and it re-reads everything it holds after
//! every operation (canary).
use crate::common::*;
use iceoryx2::active_request::ActiveRequest;
use iceoryx2::pending_response::PendingResponse;
use iceoryx2::port::client::Client;
use iceoryx2::port::server::Server;
use iceoryx2::port::update_connections::UpdateConnections;
use iceoryx2::prelude::*;
use iceoryx2::response::Response;
use iceoryx2::request_mut_uninit::RequestMutUninit;
use iceoryx2::response_mut_uninit::ResponseMutUninit;
use std::mem::MaybeUninit;
use std::collections::{HashMap, HashSet};

static SERVICE_COUNTER: std::sync::atomic::AtomicUsize = std::sync::atomic::AtomicUsize::new(0);

type Cl<S> = Client<S, u64, (), u64, ()>;
type Sv<S> = Server<S, u64, (), u64, ()>;
type Pend<S> = PendingResponse<S, u64, (), u64, ()>;
type Act<S> = ActiveRequest<S, u64, (), u64, ()>;
type Resp<S> = Response<S, u64, ()>;
type QLoan<S> = RequestMutUninit<S, MaybeUninit<u64>, (), u64, ()>;
type RLoan<S> = ResponseMutUninit<S, MaybeUninit<u64>, ()>;

struct HeldResp<S: Service> {
    resp: Resp<S>,
    tag: u64,
    req: usize,
    server: String,
}

struct RespInfo {
    server: usize,
    origin: Option<(usize, usize)>, // (client label, request label) of the request the response answers
    seq: usize,
}

struct World<S: Service> {
    #[allow(dead_code)]
    node: Node<S>,
    service: iceoryx2::service::port_factory::request_response::PortFactory<S, u64, (), u64, ()>,
    clients: HashMap<usize, Cl<S>>,
    servers: HashMap<usize, Sv<S>>,
    client_labels: HashSet<usize>,
    server_labels: HashSet<usize>,
    client_ids: HashMap<u128, usize>,
    server_ids: HashMap<u128, usize>,
    client_max_active: HashMap<usize, usize>,
    pendings: HashMap<(usize, usize), (Pend<S>, u64)>,
    pending_labels: HashSet<(usize, usize)>,
    actives: HashMap<(usize, usize), (Act<S>, u64)>,
    active_labels: HashSet<(usize, usize)>,
    held: HashMap<usize, Vec<HeldResp<S>>>,
    qloans: HashMap<(usize, usize), QLoan<S>>,
    qloan_labels: HashSet<(usize, usize)>,
    rloans: HashMap<(usize, usize), (RLoan<S>, usize)>,
    rloan_labels: HashSet<(usize, usize)>,
    max_active: usize,
    max_borrow: usize,
    // the harness's own book (oracle)
    req_tags: HashMap<u64, (usize, usize)>,
    server_seen: HashMap<usize, HashSet<u64>>,
    server_last: HashMap<(usize, usize), u64>,
    active_origin: HashMap<(usize, usize), (Option<(usize, usize)>, usize)>,
    resp_tags: HashMap<u64, RespInfo>,
    pending_seen: HashMap<(usize, usize), HashSet<u64>>,
    pending_last: HashMap<(usize, usize, usize), usize>,
}

pub enum AnyWorld {
    None,
    Local(Box<World<local::Service>>),
    Ipc(Box<World<ipc::Service>>),
}
pub struct ReqResComp {
    w: AnyWorld,
}
impl ReqResComp {
    pub fn new() -> Self {
        ReqResComp { w: AnyWorld::None }
    }
}
fn n(s: &str) -> usize {
    s.parse().unwrap()
}

/// new <variant> <max_clients> <max_servers> <max_active_requests_per_client> <max_response_buffer_size>
///     <max_borrowed_responses> <overflow requests> <overflow responses> <fire and forget> <max_loaned_requests>
///     <client_expired_connection_buffer> <server_expired_connection_buffer>
fn mk<S: Service>(t: &[&str]) -> Result<World<S>, String> {
    let k = SERVICE_COUNTER.fetch_add(1, std::sync::atomic::Ordering::Relaxed);
    let mut config = iceoryx2::config::Config::global_config().clone();
    config.defaults.request_response.client_expired_connection_buffer = n(t[11]);
    config.defaults.request_response.server_expired_connection_buffer = n(t[12]);
    // own domain: nothing is shared with other iceoryx2 users of this machine (test suites, other checks)
    config.global.prefix = iceoryx2_bb_system_types::file_name::FileName::new(format!("vr{}_", std::process::id()).as_bytes()).unwrap();
    let node = NodeBuilder::new().config(&config).create::<S>().map_err(|e| format!("err:node:{e:?}"))?;
    let name = ServiceName::new(&format!("verif/reqres/{}/{k}", std::process::id())).unwrap();
    let service = node
        .service_builder(&name)
        .request_response::<u64, u64>()
        .max_clients(n(t[2]))
        .max_servers(n(t[3]))
        .max_active_requests_per_client(n(t[4]))
        .max_response_buffer_size(n(t[5]))
        .max_borrowed_responses_per_pending_response(n(t[6]))
        .enable_safe_overflow_for_requests(n(t[7]) == 1)
        .enable_safe_overflow_for_responses(n(t[8]) == 1)
        .enable_fire_and_forget_requests(n(t[9]) == 1)
        .max_loaned_requests(n(t[10]))
        .create()
        .map_err(|e| format!("err:service:{e:?}"))?;
    Ok(World {
        node,
        service,
        clients: HashMap::new(),
        servers: HashMap::new(),
        client_labels: Default::default(),
        server_labels: Default::default(),
        client_ids: HashMap::new(),
        server_ids: HashMap::new(),
        client_max_active: HashMap::new(),
        pendings: HashMap::new(),
        pending_labels: Default::default(),
        actives: HashMap::new(),
        active_labels: Default::default(),
        held: HashMap::new(),
        qloans: HashMap::new(),
        qloan_labels: Default::default(),
        rloans: HashMap::new(),
        rloan_labels: Default::default(),
        max_active: n(t[4]).max(1),
        max_borrow: n(t[6]).max(1),
        req_tags: HashMap::new(),
        server_seen: HashMap::new(),
        server_last: HashMap::new(),
        active_origin: HashMap::new(),
        resp_tags: HashMap::new(),
        pending_seen: HashMap::new(),
        pending_last: HashMap::new(),
    })
}

fn exec<S: Service>(w: &mut World<S>, t: &[&str]) -> String {
    let r: String = match t[0] {
        "cclient" => {
            // cclient <c> <max_active_requests or ->
            let c = n(t[1]);
            if w.client_labels.contains(&c) { "dup".to_string() } else {
                let mut b = w.service.client_builder().backpressure_strategy(BackpressureStrategy::DiscardData);
                if t[2] != "-" { b = b.max_active_requests(n(t[2])); }
                match b.create() {
                    Ok(p) => {
                        w.client_ids.insert(p.id().value(), c);
                        w.client_labels.insert(c);
                        w.client_max_active.insert(c, p.max_active_requests());
                        w.clients.insert(c, p);
                        w.held.insert(c, vec![]);
                        "ok".to_string()
                    }
                    Err(e) => format!("err:{e:?}"),
                }
            }
        }
        "dclient" => match w.clients.remove(&n(t[1])) { Some(p) => { drop(p); "ok".into() } None => "none".into() },
        "cserver" => {
            // cserver <s> <max_loaned_responses_per_request or ->
            let s = n(t[1]);
            if w.server_labels.contains(&s) { "dup".to_string() } else {
                let mut b = w.service.server_builder().backpressure_strategy(BackpressureStrategy::DiscardData);
                if t[2] != "-" { b = b.max_loaned_responses_per_request(n(t[2])); }
                match b.create() {
                    Ok(p) => {
                        w.server_ids.insert(p.id().value(), s);
                        w.server_labels.insert(s);
                        w.servers.insert(s, p);
                        "ok".to_string()
                    }
                    Err(e) => format!("err:{e:?}"),
                }
            }
        }
        "dserver" => match w.servers.remove(&n(t[1])) { Some(p) => { drop(p); "ok".into() } None => "none".into() },
        "send" => {
            // send <c> <r> <tag>: loan + write + send; the pending response is kept under (c, r)
            let (c, r, tag) = (n(t[1]), n(t[2]), t[3].parse::<u64>().unwrap());
            match w.clients.get(&c) {
                None => "none".into(),
                Some(_) if w.pending_labels.contains(&(c, r)) => "dup".into(),
                Some(cl) => match cl.loan_uninit() {
                    Err(e) => format!("err:loan:{e:?}"),
                    Ok(req) => match req.write_payload(tag).send() {
                        Err(e) => format!("err:send:{e:?}"),
                        Ok(p) => {
                            let k = p.number_of_server_connections();
                            w.req_tags.insert(tag, (c, r));
                            w.pending_labels.insert((c, r));
                            w.pendings.insert((c, r), (p, tag));
                            format!("ok:{k}")
                        }
                    },
                },
            }
        }
        "qloan" => {
            // qloan <c> <l>: loan a request, keep it under label l
            let (c, l) = (n(t[1]), n(t[2]));
            match w.clients.get(&c) {
                None => "none".into(),
                Some(_) if w.qloan_labels.contains(&(c, l)) => "dup".into(),
                Some(cl) => match cl.loan_uninit() {
                    Err(e) => format!("err:loan:{e:?}"),
                    Ok(req) => { w.qloan_labels.insert((c, l)); w.qloans.insert((c, l), req); "ok".into() }
                },
            }
        }
        "qsend" => {
            // qsend <c> <l> <r> <tag>: write + send the kept loan; the pending response is kept under (c, r)
            let (c, l, r, tag) = (n(t[1]), n(t[2]), n(t[3]), t[4].parse::<u64>().unwrap());
            if !w.qloans.contains_key(&(c, l)) { "none".into() }
            else if w.pending_labels.contains(&(c, r)) { "dup".into() }
            else {
                let req = w.qloans.remove(&(c, l)).unwrap();
                match req.write_payload(tag).send() {
                    Err(e) => format!("err:send:{e:?}"),
                    Ok(p) => {
                        let k = p.number_of_server_connections();
                        w.req_tags.insert(tag, (c, r));
                        w.pending_labels.insert((c, r));
                        w.pendings.insert((c, r), (p, tag));
                        format!("ok:{k}")
                    }
                }
            }
        }
        "qdrop" => match w.qloans.remove(&(n(t[1]), n(t[2]))) { Some(x) => { drop(x); "ok".into() } None => "none".into() },
        "rloan" => {
            // rloan <s> <a> <l>: loan a response on active request a, keep it under label l
            let (s, a, l) = (n(t[1]), n(t[2]), n(t[3]));
            match w.actives.get(&(s, a)) {
                None => "none".into(),
                Some(_) if w.rloan_labels.contains(&(s, l)) => "dup".into(),
                Some((act, _)) => match act.loan_uninit() {
                    Err(e) => format!("err:loan:{e:?}"),
                    Ok(resp) => { w.rloan_labels.insert((s, l)); w.rloans.insert((s, l), (resp, a)); "ok".into() }
                },
            }
        }
        "rsend" => {
            // rsend <s> <l> <tag>: write + send the kept loan (its active request may be gone by now)
            let (s, l, tag) = (n(t[1]), n(t[2]), t[3].parse::<u64>().unwrap());
            match w.rloans.remove(&(s, l)) {
                None => "none".into(),
                Some((resp, a)) => {
                    let (origin, seq) = w.active_origin.get(&(s, a)).cloned().unwrap();
                    w.active_origin.insert((s, a), (origin, seq + 1));
                    w.resp_tags.insert(tag, RespInfo { server: s, origin, seq });
                    match resp.write_payload(tag).send() {
                        Err(e) => format!("err:send:{e:?}"),
                        Ok(()) => "ok".into(),
                    }
                }
            }
        }
        "rdrop" => match w.rloans.remove(&(n(t[1]), n(t[2]))) { Some(x) => { drop(x); "ok".into() } None => "none".into() },
        "recvreq" => {
            // recvreq <s> <a>
            let (s, a) = (n(t[1]), n(t[2]));
            match w.servers.get(&s) {
                None => "none".into(),
                Some(_) if w.active_labels.contains(&(s, a)) => "dup".into(),
                Some(sv) => match sv.receive() {
                    Err(e) => format!("err:{e:?}"),
                    Ok(None) => "none".into(),
                    Ok(Some(act)) => {
                        let tag = *act.payload();
                        let origin = w.client_ids.get(&act.origin().value()).cloned();
                        let hdr_client = w.client_ids.get(&act.header().client_id().value()).cloned();
                        if origin != hdr_client { oracle_fail("request header names another client than the connection it came over".into()); }
                        let book = w.req_tags.get(&tag).cloned();
                        match book {
                            None => oracle_fail("server received a request that was never sent".into()),
                            Some((c, _)) => {
                                if Some(c) != origin { oracle_fail("request received from another client than the one that sent it".into()); }
                                if !w.server_seen.entry(s).or_default().insert(tag) { oracle_fail("request received twice by the same server".into()); }
                                let last = w.server_last.entry((s, c)).or_insert(0);
                                if *last > tag { oracle_fail("requests of one client received out of order".into()); }
                                *last = tag;
                            }
                        }
                        w.active_origin.insert((s, a), (book, 0));
                        w.active_labels.insert((s, a));
                        w.actives.insert((s, a), (act, tag));
                        format!("some:{}:{tag}", origin.map(|c| c.to_string()).unwrap_or("?".into()))
                    }
                },
            }
        }
        "respond" => {
            // respond <s> <a> <tag>: loan + write + send on the active request
            let (s, a, tag) = (n(t[1]), n(t[2]), t[3].parse::<u64>().unwrap());
            match w.actives.get(&(s, a)) {
                None => "none".into(),
                Some((act, _)) => match act.loan_uninit() {
                    Err(e) => format!("err:loan:{e:?}"),
                    Ok(resp) => {
                        let (origin, seq) = w.active_origin.get(&(s, a)).cloned().unwrap();
                        w.active_origin.insert((s, a), (origin, seq + 1));
                        w.resp_tags.insert(tag, RespInfo { server: s, origin, seq });
                        match resp.write_payload(tag).send() {
                            Err(e) => format!("err:send:{e:?}"),
                            Ok(()) => "ok".into(),
                        }
                    }
                },
            }
        }
        "dactive" => match w.actives.remove(&(n(t[1]), n(t[2]))) { Some(x) => { drop(x); "ok".into() } None => "none".into() },
        "recvresp" => {
            // recvresp <c> <r>
            let (c, r) = (n(t[1]), n(t[2]));
            match w.pendings.get(&(c, r)) {
                None => "none".into(),
                Some((p, _)) => match p.receive() {
                    Err(e) => format!("err:{e:?}"),
                    Ok(None) => "none".into(),
                    Ok(Some(resp)) => {
                        let tag = *resp.payload();
                        let origin = w.server_ids.get(&resp.origin().value()).cloned();
                        let os = origin.map(|c| c.to_string()).unwrap_or("?".into());
                        match w.resp_tags.get(&tag) {
                            None => oracle_fail("client received a response that was never sent".into()),
                            Some(info) => {
                                if Some(info.server) != origin { oracle_fail("response origin is not the server that sent it".into()); }
                                match info.origin {
                                    Some((c2, r2)) if c2 == c && r2 == r => {
                                        if !w.pending_seen.entry((c, r)).or_default().insert(tag) { oracle_fail("response received twice".into()); }
                                        let last = w.pending_last.entry((c, r, info.server)).or_insert(0);
                                        if *last > info.seq { oracle_fail("responses of one server received out of order".into()); }
                                        *last = info.seq + 1;
                                    }
                                    Some((c2, _)) if c2 == c => oracle_fail("response delivered to another request of the same client".into()),
                                    Some(_) => oracle_fail("response delivered to a request of another client".into()),
                                    None => oracle_fail("response of unknown origin delivered".into()),
                                }
                            }
                        }
                        w.held.entry(c).or_default().push(HeldResp { resp, tag, req: r, server: os.clone() });
                        format!("some:{os}:{tag}")
                    }
                },
            }
        }
        "dresp" => match w.held.get_mut(&n(t[1])) {
            // dresp <c> <k>: the k-th response still held by client c
            Some(v) if n(t[2]) < v.len() => { let x = v.remove(n(t[2])); drop(x); "ok".into() }
            _ => "none".into(),
        },
        "dpending" => match w.pendings.remove(&(n(t[1]), n(t[2]))) { Some(x) => { drop(x); "ok".into() } None => "none".into() },
        "connected" => match w.pendings.get(&(n(t[1]), n(t[2]))) { Some((p, _)) => format!("{}", p.is_connected()), None => "none".into() },
        "aconnected" => match w.actives.get(&(n(t[1]), n(t[2]))) { Some((a, _)) => format!("{}", a.is_connected()), None => "none".into() },
        "hint" => match w.pendings.get(&(n(t[1]), n(t[2]))) { Some((p, _)) => { p.set_disconnect_hint(); "ok".into() } None => "none".into() },
        "ahint" => match w.actives.get(&(n(t[1]), n(t[2]))) { Some((a, _)) => format!("{}", a.has_disconnect_hint()), None => "none".into() },
        "has" => match w.pendings.get(&(n(t[1]), n(t[2]))) { Some((p, _)) => format!("{}", p.has_response()), None => "none".into() },
        "hasreq" => match w.servers.get(&n(t[1])) {
            Some(s) => match s.has_requests() { Ok(b) => format!("{b}"), Err(e) => format!("err:{e:?}") },
            None => "none".into(),
        },
        "upd" => {
            let res = if t[1] == "c" { w.clients.get(&n(t[2])).map(|p| p.update_connections()) } else { w.servers.get(&n(t[2])).map(|p| p.update_connections()) };
            match res { None => "none".into(), Some(Ok(())) => "ok".into(), Some(Err(e)) => format!("err:{e:?}") }
        }
        _ => panic!("bad op"),
    };
    // canary: everything still held must read back unchanged
    for ((_, _), (p, tag)) in w.pendings.iter() {
        if *p.payload() != *tag { oracle_fail("request held by a pending response changed".into()); }
    }
    for ((_, _), (a, tag)) in w.actives.iter() {
        if *a.payload() != *tag { oracle_fail("request held by an active request changed".into()); }
    }
    for (_, v) in w.held.iter() {
        for h in v {
            if *h.resp.payload() != h.tag { oracle_fail("held response changed".into()); }
        }
    }
    // limits (documented per client / per pending response)
    let mut per_client: HashMap<usize, usize> = HashMap::new();
    for ((c, _), _) in w.pendings.iter() { *per_client.entry(*c).or_default() += 1; }
    for (c, k) in per_client.iter() {
        if *k > *w.client_max_active.get(c).unwrap_or(&w.max_active) { oracle_fail("client has more pending responses than max active requests".into()); }
    }
    for (c, v) in w.held.iter() {
        let mut per: HashMap<(usize, &str), usize> = HashMap::new();
        let mut per_pending: HashMap<usize, usize> = HashMap::new();
        for h in v {
            if w.pendings.contains_key(&(*c, h.req)) {
                *per.entry((h.req, h.server.as_str())).or_default() += 1;
                *per_pending.entry(h.req).or_default() += 1;
            }
        }
        if per.values().any(|k| *k > w.max_borrow) { oracle_fail("more responses of one server borrowed through one pending response than max borrowed responses".into()); }
        if per_pending.values().any(|k| *k > w.max_borrow) { oracle_fail("pending response holds more responses than max borrowed responses".into()); }
    }
    r
}

impl Comp for ReqResComp {
    fn exec(&mut self, t: &[&str]) -> String {
        if t[0] == "new" {
            self.w = AnyWorld::None;
            return match t[1] {
                "local" => match mk::<local::Service>(t) { Ok(w) => { self.w = AnyWorld::Local(Box::new(w)); "ok".into() } Err(e) => e },
                _ => match mk::<ipc::Service>(t) { Ok(w) => { self.w = AnyWorld::Ipc(Box::new(w)); "ok".into() } Err(e) => e },
            };
        }
        match &mut self.w {
            AnyWorld::None => "no-world".into(),
            AnyWorld::Local(w) => exec(w, t),
            AnyWorld::Ipc(w) => exec(w, t),
        }
    }
}

// ---------------------------------------------------------------------------------------------
// generators

/// what the generator believes about the history so far (a rough guess, only used to pick
/// operations that probably do something; the outcome of every call is decided by the
/// implementation and compared with the model)
struct GClient { label: usize, alive: bool, max_active: u64, pendings: Vec<usize>, held: usize, qloans: Vec<usize> }
struct GServer { label: usize, alive: bool, actives: Vec<(usize, usize, usize)>, queue: Vec<(usize, usize)>, rloans: Vec<(usize, usize)>, ml: u64 }
struct GenState {
    clients: Vec<GClient>,
    servers: Vec<GServer>,
    all_pendings: Vec<(usize, usize)>,     // every label ever used, also dropped ones
    all_actives: Vec<(usize, usize)>,
    queued_resp: HashMap<(usize, usize), usize>,
    nc: usize, ns: usize, nr: usize, na: usize, nl: usize, tag: u64,
}
impl GenState {
    fn registered_clients(&self) -> usize { self.clients.iter().filter(|c| c.alive || !c.pendings.is_empty() || c.held > 0).count() }
    fn registered_servers(&self) -> usize { self.servers.iter().filter(|s| s.alive || !s.actives.is_empty()).count() }
}

pub fn generate(a: &Args) -> Vec<Vec<String>> {
    let mut rng = Rng::new(a.seed);
    let mut cases = vec![];
    let variant = a.rest.iter().find(|x| *x == "ipc").map(|_| "ipc").unwrap_or("local");
    let sat = a.rest.iter().any(|x| x == "sat");
    let churn = a.rest.iter().any(|x| x == "churn");
    let loans_mode = a.rest.iter().any(|x| x == "loans");
    if a.rest.iter().any(|x| x == "wrap") {
        return wrap_cases(a, variant);
    }
    if a.rest.iter().any(|x| x == "preloan") {
        return preloan_cases(a, variant);
    }
    fn lo(rng: &mut Rng) -> u64 { if rng.chance(8) { 0 } else { 1 } }
    if a.exhaustive > 0 {
        return exhaustive(a, variant);
    }
    for _ in 0..a.cases {
        let hi = if sat { 2 } else { 3 };
        let l1 = lo(&mut rng); let l2 = lo(&mut rng);
        let mchi = 2 + rng.below(2); let (mc, ms) = (rng.range(l1, mchi), rng.range(l2, 2));
        let l3 = lo(&mut rng); let act = rng.range(l3, hi);
        let l4 = lo(&mut rng); let buf = if loans_mode { 1 + rng.below(3) / 2 } else { rng.range(l4, hi) };
        let l5 = lo(&mut rng); let bor = if loans_mode { 1 + rng.below(3) / 2 } else { rng.range(l5, hi) };
        let (ovq, ovr, ff) = (rng.below(2), rng.below(2), rng.below(2));
        let loans = if loans_mode { rng.range(3, 5) } else { rng.range(0, 3) };
        let act = if loans_mode && act > 2 { 1 } else { act };
        let (ecb, scb) = (rng.range(1, 3), rng.range(1, 3));
        let (mcl, msl, actl) = (mc.max(1) as usize, ms.max(1) as usize, act.max(1));
        let mut lines = vec![format!("new {variant} {mc} {ms} {act} {buf} {bor} {ovq} {ovr} {ff} {loans} {ecb} {scb}")];
        let mut g = GenState { clients: vec![], servers: vec![], all_pendings: vec![], all_actives: vec![], queued_resp: HashMap::new(), nc: 0, ns: 0, nr: 0, na: 0, nl: 0, tag: 0 };
        // weights: cclient cserver dclient dserver send recvreq respond dactive recvresp dpending dresp connected aconnected has hasreq hint ahint upd stray cycle
        //          qloan qsend qdrop rloan rsend rdrop  preloaned-responses preloaned-requests
        let wts: [u64; 28] = if loans_mode { [4, 4, 1, 1, 8, 12, 6, 3, 16, 4, 10, 2, 2, 1, 1, 1, 1, 2, 2, 0, 8, 10, 2, 12, 14, 2, 5, 4] }
            else if sat { [3, 3, 1, 1, 20, 14, 30, 3, 24, 3, 8, 2, 2, 2, 1, 1, 1, 2, 2, 4, 2, 3, 1, 3, 4, 1, 1, 1] }
            else if churn { [8, 6, 8, 4, 15, 12, 13, 5, 12, 7, 5, 3, 4, 2, 1, 2, 2, 2, 2, 6, 2, 2, 1, 3, 3, 1, 1, 1] }
            else { [6, 6, 3, 3, 16, 13, 16, 5, 15, 6, 6, 3, 3, 2, 1, 2, 2, 2, 3, 1, 3, 4, 1, 4, 5, 1, 1, 1] };
        let total: u64 = wts.iter().sum();
        let target = rng.range(3, a.len) as usize;
        while lines.len() < target {
            let mut c = rng.below(total);
            let mut k = 0;
            while c >= wts[k] { c -= wts[k]; k += 1; }
            let live_c: Vec<usize> = (0..g.clients.len()).filter(|i| g.clients[*i].alive).collect();
            let live_s: Vec<usize> = (0..g.servers.len()).filter(|i| g.servers[*i].alive).collect();
            if live_c.is_empty() && rng.chance(50) { k = 0 }
            if live_s.is_empty() && rng.chance(50) { k = 1 }
            match k {
                0 => {
                    // mostly only when there is room (a refused creation is tried now and then)
                    if g.registered_clients() >= mcl && !rng.chance(4) { continue }
                    let ok = g.registered_clients() < mcl;
                    let c = g.nc; g.nc += 1;
                    let (m, ma) = if rng.chance(75) { ("-".to_string(), actl) } else { let m = rng.range(0, act + 1); (m.to_string(), m.max(1)) };
                    if ok && ma <= actl { g.clients.push(GClient { label: c, alive: true, max_active: ma, pendings: vec![], held: 0, qloans: vec![] }); }
                    lines.push(format!("cclient {c} {m}"));
                }
                1 => {
                    if g.registered_servers() >= msl && !rng.chance(4) { continue }
                    let ok = g.registered_servers() < msl;
                    let s = g.ns; g.ns += 1;
                    let m = if loans_mode { rng.range(3, 5).to_string() } else if rng.chance(60) { "-".to_string() } else { rng.range(0, 4).to_string() };
                    if ok { g.servers.push(GServer { label: s, alive: true, actives: vec![], queue: vec![], rloans: vec![], ml: m.parse::<u64>().unwrap_or(2).max(1) }); }
                    lines.push(format!("cserver {s} {m}"));
                }
                2 if !live_c.is_empty() => {
                    let i = *rng.pick(&live_c); g.clients[i].alive = false;
                    lines.push(format!("dclient {}", g.clients[i].label));
                }
                3 if !live_s.is_empty() => {
                    let i = *rng.pick(&live_s); g.servers[i].alive = false;
                    lines.push(format!("dserver {}", g.servers[i].label));
                }
                4 if !live_c.is_empty() => {
                    let i = *rng.pick(&live_c);
                    let c = g.clients[i].label;
                    let r = g.nr; g.nr += 1; g.tag += 1;
                    // beyond the limit only now and then
                    let room = (g.clients[i].pendings.len() as u64) < g.clients[i].max_active;
                    if !room && !rng.chance(if sat { 30 } else { 12 }) { continue }
                    if room {
                        g.clients[i].pendings.push(r); g.all_pendings.push((c, r));
                        for s in g.servers.iter_mut() { if s.alive || !s.actives.is_empty() { s.queue.push((c, r)); if s.queue.len() as u64 > actl { if ovq == 1 { s.queue.remove(0); } else { s.queue.pop(); } } } }
                    }
                    lines.push(format!("send {c} {r} {}", g.tag));
                }
                5 if !live_s.is_empty() => {
                    let i = *rng.pick(&live_s);
                    if g.servers[i].queue.is_empty() && !rng.chance(15) { continue }
                    let s = g.servers[i].label;
                    let a = g.na; g.na += 1;
                    if !g.servers[i].queue.is_empty() && (g.servers[i].actives.len() as u64) < actl {
                        let (c, r) = g.servers[i].queue.remove(0);
                        g.servers[i].actives.push((a, c, r)); g.all_actives.push((s, a));
                    }
                    lines.push(format!("recvreq {s} {a}"));
                }
                6 => {
                    let cand: Vec<(usize, usize)> = (0..g.servers.len()).flat_map(|i| (0..g.servers[i].actives.len()).map(move |j| (i, j))).collect();
                    if cand.is_empty() { continue }
                    let (i, j) = *rng.pick(&cand);
                    let (a, c, r) = g.servers[i].actives[j];
                    g.tag += 1;
                    *g.queued_resp.entry((c, r)).or_default() += 1;
                    lines.push(format!("respond {} {a} {}", g.servers[i].label, g.tag));
                }
                7 => {
                    let cand: Vec<(usize, usize)> = (0..g.servers.len()).flat_map(|i| (0..g.servers[i].actives.len()).map(move |j| (i, j))).collect();
                    if cand.is_empty() { continue }
                    let (i, j) = *rng.pick(&cand);
                    let (a, _, _) = g.servers[i].actives.remove(j);
                    lines.push(format!("dactive {} {a}", g.servers[i].label));
                }
                8 => {
                    let cand: Vec<(usize, usize)> = (0..g.clients.len()).flat_map(|i| (0..g.clients[i].pendings.len()).map(move |j| (i, j))).collect();
                    if cand.is_empty() { continue }
                    // prefer a pending response something was sent for
                    let with: Vec<(usize, usize)> = cand.iter().cloned().filter(|(i, j)| g.queued_resp.get(&(g.clients[*i].label, g.clients[*i].pendings[*j])).cloned().unwrap_or(0) > 0).collect();
                    let (i, j) = if !with.is_empty() && rng.chance(85) { *rng.pick(&with) } else if rng.chance(40) { *rng.pick(&cand) } else { continue };
                    let (c, r) = (g.clients[i].label, g.clients[i].pendings[j]);
                    if let Some(q) = g.queued_resp.get_mut(&(c, r)) { if *q > 0 { *q -= 1; g.clients[i].held += 1; } }
                    lines.push(format!("recvresp {c} {r}"));
                }
                9 => {
                    let cand: Vec<(usize, usize)> = (0..g.clients.len()).flat_map(|i| (0..g.clients[i].pendings.len()).map(move |j| (i, j))).collect();
                    if cand.is_empty() { continue }
                    let (i, j) = *rng.pick(&cand);
                    let r = g.clients[i].pendings.remove(j);
                    lines.push(format!("dpending {} {r}", g.clients[i].label));
                }
                10 => {
                    let cand: Vec<usize> = (0..g.clients.len()).filter(|i| g.clients[*i].held > 0).collect();
                    if cand.is_empty() { continue }
                    let i = *rng.pick(&cand);
                    let k = rng.below(g.clients[i].held as u64);
                    g.clients[i].held -= 1;
                    lines.push(format!("dresp {} {k}", g.clients[i].label));
                }
                11 | 13 | 15 => {
                    if g.all_pendings.is_empty() { continue }
                    let (c, r) = if rng.chance(70) { g.all_pendings[g.all_pendings.len() - 1 - rng.below(g.all_pendings.len().min(4) as u64) as usize] } else { *rng.pick(&g.all_pendings) };
                    lines.push(format!("{} {c} {r}", match k { 11 => "connected", 13 => "has", _ => "hint" }));
                }
                12 | 16 => {
                    if g.all_actives.is_empty() { continue }
                    let (s, a) = if rng.chance(70) { g.all_actives[g.all_actives.len() - 1 - rng.below(g.all_actives.len().min(4) as u64) as usize] } else { *rng.pick(&g.all_actives) };
                    lines.push(format!("{} {s} {a}", if k == 12 { "aconnected" } else { "ahint" }));
                }
                14 if !live_s.is_empty() => lines.push(format!("hasreq {}", g.servers[*rng.pick(&live_s)].label)),
                17 => {
                    if rng.chance(50) && !live_c.is_empty() { lines.push(format!("upd c {}", g.clients[*rng.pick(&live_c)].label)) }
                    else if !live_s.is_empty() { lines.push(format!("upd s {}", g.servers[*rng.pick(&live_s)].label)) }
                }
                18 => {
                    // stray calls: labels that were dropped, never existed or are in use
                    let c = rng.below(g.nc as u64 + 1); let s = rng.below(g.ns as u64 + 1);
                    let r = rng.below(g.nr as u64 + 1); let a = rng.below(g.na as u64 + 1);
                    g.tag += 1;
                    lines.push(match rng.below(10) {
                        0 => format!("send {c} {r} {}", g.tag), 1 => format!("recvreq {s} {a}"), 2 => format!("respond {s} {a} {}", g.tag),
                        3 => format!("dactive {s} {a}"), 4 => format!("recvresp {c} {r}"), 5 => format!("dpending {c} {r}"),
                        6 => format!("dresp {c} {}", rng.below(3)), 7 => format!("dclient {c}"), 8 => format!("dserver {s}"), _ => format!("cclient {c} -"),
                    });
                }
                19 if sat => {
                    // answered requests whose responses are never fetched: the responses stay in their channels
                    if live_c.is_empty() || live_s.is_empty() { continue }
                    let (ci, si) = (*rng.pick(&live_c), *rng.pick(&live_s));
                    if !g.clients[ci].pendings.is_empty() || !g.servers[si].queue.is_empty() { continue }
                    let (c, s) = (g.clients[ci].label, g.servers[si].label);
                    for _ in 0..rng.range(1, 5) {
                        let r = g.nr; g.nr += 1; g.tag += 1;
                        let a = g.na; g.na += 1;
                        lines.push(format!("send {c} {r} {}", g.tag));
                        lines.push(format!("recvreq {s} {a}"));
                        for _ in 0..rng.range(1, 2) { g.tag += 1; lines.push(format!("respond {s} {a} {}", g.tag)); }
                        g.all_pendings.push((c, r)); g.all_actives.push((s, a));
                        lines.push(format!("dpending {c} {r}"));
                        lines.push(format!("dactive {s} {a}"));
                    }
                    // the other servers saw the requests as well
                    for (i, sv) in g.servers.iter_mut().enumerate() { if i != si { sv.queue.clear(); } }
                }
                19 if !live_s.is_empty() => {
                    // a client comes, sends, is answered or not, and goes completely while a server may still hold its request
                    if g.registered_clients() >= mcl { continue }
                    let c = g.nc; g.nc += 1;
                    let r = g.nr; g.nr += 1; g.tag += 1;
                    lines.push(format!("cclient {c} -"));
                    lines.push(format!("send {c} {r} {}", g.tag));
                    g.all_pendings.push((c, r));
                    let i = *rng.pick(&live_s);
                    let s = g.servers[i].label;
                    if rng.chance(70) {
                        let a = g.na; g.na += 1;
                        lines.push(format!("recvreq {s} {a}"));
                        g.all_actives.push((s, a));
                        if (g.servers[i].actives.len() as u64) < actl && g.servers[i].queue.is_empty() { g.servers[i].actives.push((a, c, r)); }
                        if rng.chance(40) { g.tag += 1; lines.push(format!("respond {s} {a} {}", g.tag)); }
                    }
                    if rng.chance(85) { lines.push(format!("dpending {c} {r}")); lines.push(format!("dclient {c}")); }
                    else { g.clients.push(GClient { label: c, alive: true, max_active: actl, pendings: vec![r], held: 0, qloans: vec![] }); }
                }
                20 if !live_c.is_empty() => {
                    let i = *rng.pick(&live_c);
                    let l = g.nl; g.nl += 1;
                    if (g.clients[i].qloans.len() as u64) < loans.max(1) { g.clients[i].qloans.push(l); }
                    lines.push(format!("qloan {} {l}", g.clients[i].label));
                }
                21 => {
                    let cand: Vec<usize> = (0..g.clients.len()).filter(|i| !g.clients[*i].qloans.is_empty()).collect();
                    if cand.is_empty() { continue }
                    let i = *rng.pick(&cand);
                    let j = rng.below(g.clients[i].qloans.len() as u64) as usize;     // not necessarily in loan order
                    let l = g.clients[i].qloans.remove(j);
                    let c = g.clients[i].label;
                    let r = g.nr; g.nr += 1; g.tag += 1;
                    if (g.clients[i].pendings.len() as u64) < g.clients[i].max_active {
                        g.clients[i].pendings.push(r); g.all_pendings.push((c, r));
                        for s in g.servers.iter_mut() { if s.alive || !s.actives.is_empty() { s.queue.push((c, r)); if s.queue.len() as u64 > actl { if ovq == 1 { s.queue.remove(0); } else { s.queue.pop(); } } } }
                    }
                    lines.push(format!("qsend {c} {l} {r} {}", g.tag));
                }
                22 => {
                    let cand: Vec<usize> = (0..g.clients.len()).filter(|i| !g.clients[*i].qloans.is_empty()).collect();
                    if cand.is_empty() { continue }
                    let i = *rng.pick(&cand);
                    let j = rng.below(g.clients[i].qloans.len() as u64) as usize;
                    let l = g.clients[i].qloans.remove(j);
                    lines.push(format!("qdrop {} {l}", g.clients[i].label));
                }
                23 => {
                    let cand: Vec<(usize, usize)> = (0..g.servers.len()).flat_map(|i| (0..g.servers[i].actives.len()).map(move |j| (i, j))).collect();
                    if cand.is_empty() { continue }
                    let (i, j) = *rng.pick(&cand);
                    let (a, _, _) = g.servers[i].actives[j];
                    let l = g.nl; g.nl += 1;
                    g.servers[i].rloans.push((l, a));
                    lines.push(format!("rloan {} {a} {l}", g.servers[i].label));
                }
                24 => {
                    let cand: Vec<usize> = (0..g.servers.len()).filter(|i| !g.servers[*i].rloans.is_empty()).collect();
                    if cand.is_empty() { continue }
                    let i = *rng.pick(&cand);
                    let j = rng.below(g.servers[i].rloans.len() as u64) as usize;
                    let (l, a) = g.servers[i].rloans.remove(j);
                    g.tag += 1;
                    // the active request may have been dropped meanwhile: the response still goes out
                    if let Some((_, c, r)) = g.servers[i].actives.iter().find(|x| x.0 == a) { *g.queued_resp.entry((*c, *r)).or_default() += 1; }
                    lines.push(format!("rsend {} {l} {}", g.servers[i].label, g.tag));
                }
                25 => {
                    let cand: Vec<usize> = (0..g.servers.len()).filter(|i| !g.servers[*i].rloans.is_empty()).collect();
                    if cand.is_empty() { continue }
                    let i = *rng.pick(&cand);
                    let j = rng.below(g.servers[i].rloans.len() as u64) as usize;
                    let (l, _) = g.servers[i].rloans.remove(j);
                    lines.push(format!("rdrop {} {l}", g.servers[i].label));
                }
                26 => {
                    // responses loaned up front, then sent one by one while the client receives and releases each
                    if live_c.is_empty() || live_s.is_empty() { continue }
                    let (ci, si) = (*rng.pick(&live_c), *rng.pick(&live_s));
                    if !g.clients[ci].pendings.is_empty() || !g.servers[si].queue.is_empty() || g.clients[ci].held > 0 { continue }
                    let (c, s) = (g.clients[ci].label, g.servers[si].label);
                    let r = g.nr; g.nr += 1; g.tag += 1;
                    let a = g.na; g.na += 1;
                    lines.push(format!("send {c} {r} {}", g.tag));
                    lines.push(format!("recvreq {s} {a}"));
                    g.all_pendings.push((c, r)); g.all_actives.push((s, a));
                    // one more than the completion queue of the connection holds (buffer + max borrowed + 1), if the loan limit allows
                    let k = if rng.chance(70) { (buf.max(1) + bor.max(1) + 2).min(g.servers[si].ml).max(2) } else { rng.range(2, 5) } as usize;
                    let ls: Vec<usize> = (0..k).map(|_| { let l = g.nl; g.nl += 1; lines.push(format!("rloan {s} {a} {l}")); l }).collect();
                    for l in ls {
                        g.tag += 1;
                        lines.push(format!("rsend {s} {l} {}", g.tag));
                        lines.push(format!("recvresp {c} {r}"));
                        if rng.chance(85) { lines.push(format!("dresp {c} 0")); }
                    }
                    lines.push(format!("recvresp {c} {r}"));
                    if rng.chance(60) { lines.push(format!("dpending {c} {r}")); lines.push(format!("dactive {s} {a}")); lines.push(format!("dresp {c} 0")); lines.push(format!("dresp {c} 0")); }
                    else { g.clients[ci].pendings.push(r); g.servers[si].actives.push((a, c, r)); g.clients[ci].held += 2; }
                    for (i, sv) in g.servers.iter_mut().enumerate() { if i != si { sv.queue.clear(); } }
                }
                27 => {
                    // requests loaned up front, then sent one by one while the server receives and releases each
                    if live_c.is_empty() || live_s.is_empty() { continue }
                    let (ci, si) = (*rng.pick(&live_c), *rng.pick(&live_s));
                    if !g.clients[ci].pendings.is_empty() || !g.servers[si].queue.is_empty() || !g.servers[si].actives.is_empty() { continue }
                    let (c, s) = (g.clients[ci].label, g.servers[si].label);
                    let k = if rng.chance(70) { (2 * actl + 2).min(loans.max(1)).max(2) } else { rng.range(2, 5) } as usize;
                    let ls: Vec<usize> = (0..k).map(|_| { let l = g.nl; g.nl += 1; lines.push(format!("qloan {c} {l}")); l }).collect();
                    for l in ls {
                        let r = g.nr; g.nr += 1; g.tag += 1;
                        let a = g.na; g.na += 1;
                        lines.push(format!("qsend {c} {l} {r} {}", g.tag));
                        lines.push(format!("recvreq {s} {a}"));
                        lines.push(format!("dactive {s} {a}"));
                        lines.push(format!("dpending {c} {r}"));
                        g.all_pendings.push((c, r)); g.all_actives.push((s, a));
                    }
                    let a = g.na; g.na += 1;
                    lines.push(format!("recvreq {s} {a}"));
                    for (i, sv) in g.servers.iter_mut().enumerate() { if i != si { sv.queue.clear(); } }
                }
                _ => continue,
            };
        }
        cases.push(lines);
    }
    cases
}

/// channel-id wrap-around: a server keeps the active request of an early request while the client cycles
/// through all its channel ids, so that a new request reuses the channel of the old one; then the calls that
/// look at the channel state from both sides, before and after the old active request answers / goes
fn wrap_cases(a: &Args, variant: &str) -> Vec<Vec<String>> {
    let mut rng = Rng::new(a.seed);
    let mut cases = vec![];
    for k in 0..a.cases {
        // small channel counts: channels of a client = max_servers * 2 * max_active + max_loaned_requests
        let ms = 1 + (k % 2);
        let act = 1 + ((k / 2) % 2);
        let loans = 1 + ((k / 4) % 2);
        let cmax = if act == 2 && rng.chance(40) { 1 } else { act };           // the client may ask for fewer active requests
        let channels = ms * 2 * cmax + loans;
        let (buf, bor) = (rng.range(1, 2), rng.range(1, 2));
        let (ovq, ovr, ff) = (rng.below(2), rng.below(2), rng.below(2));
        let mut lines = vec![format!("new {variant} {} {ms} {act} {buf} {bor} {ovq} {ovr} {ff} {loans} 2 2", 1 + rng.below(2))];
        lines.push("cserver 0 -".into());
        if ms == 2 && rng.chance(50) { lines.push("cserver 1 -".into()); }
        lines.push(format!("cclient 0 {}", if cmax == act { "-".to_string() } else { cmax.to_string() }));
        let mut tag = 1u64;
        lines.push(format!("send 0 0 {tag}"));
        lines.push("recvreq 0 0".into());
        let early = rng.below(3);      // the old active request answers early: 0 never, 1 before its pending response goes, 2 after
        if early == 1 { tag += 1; lines.push(format!("respond 0 0 {tag}")); }
        lines.push("dpending 0 0".into());
        if early == 2 { tag += 1; lines.push(format!("respond 0 0 {tag}")); }
        let mut na = 1usize;
        // cycle through the other channel ids (a little less / more than a full round now and then)
        let rounds = match rng.below(10) { 0 => channels.saturating_sub(2), 1 => channels, _ => channels - 1 };
        let drain = act >= 2 && rng.chance(70);     // the server receives and drops every request of the rounds
        for r in 1..=rounds {
            tag += 1;
            lines.push(format!("send 0 {r} {tag}"));
            if drain || rng.chance(30) { lines.push(format!("recvreq 0 {na}")); if drain || rng.chance(70) { lines.push(format!("dactive 0 {na}")); } na += 1; }
            lines.push(format!("dpending 0 {r}"));
        }
        let rn = rounds + 1;
        tag += 1;
        lines.push(format!("send 0 {rn} {tag}"));
        // the server may hold the new request next to the old one (same client, same channel, other request id)
        if act >= 2 && rng.chance(50) { lines.push(format!("recvreq 0 {na}")); na += 1; }
        // now the focused tail
        let mut a0_alive = true;
        let mut held = 0usize;
        for _ in 0..rng.range(4, 12) {
            let l = match rng.below(13) {
                12 if na > 1 => format!("aconnected 0 {}", na - 1),
                0 | 1 => format!("connected 0 {rn}"),
                2 => "aconnected 0 0".to_string(),
                3 | 4 => { tag += 1; format!("respond 0 0 {tag}") }
                5 | 6 => { held += 1; format!("recvresp 0 {rn}") }
                7 if a0_alive => { a0_alive = false; "dactive 0 0".to_string() }
                8 => format!("has 0 {rn}"),
                9 => { let x = format!("recvreq 0 {na}"); na += 1; x }
                10 if na > 1 => { tag += 1; format!("respond 0 {} {tag}", na - 1) }
                11 if held > 0 => { held -= 1; "dresp 0 0".to_string() }
                _ => format!("connected 0 {rn}"),
            };
            lines.push(l);
        }
        if a0_alive { lines.push("dactive 0 0".into()); }
        lines.push(format!("connected 0 {rn}"));
        lines.push(format!("recvresp 0 {rn}"));
        cases.push(lines);
    }
    cases
}

/// samples loaned up front and sent later: one side loans k samples (k around the capacity of the connection's
/// completion queue, buffer + max borrowed + 1, and beyond), then sends them one at a time while the other side
/// receives and releases each -- nothing but the delivery itself gives the sender a chance to take back what
/// was returned
fn preloan_cases(a: &Args, variant: &str) -> Vec<Vec<String>> {
    let mut rng = Rng::new(a.seed);
    let mut cases = vec![];
    for n in 0..a.cases {
        let resp_side = n % 3 != 2;
        let (ovq, ovr, ff) = (rng.below(2), rng.below(2), rng.below(2));
        let mut lines;
        let mut tag = 0u64;
        if resp_side {
            let buf = 1 + (n / 3) % 2; let bor = 1 + (n / 6) % 2;
            let act = rng.range(1, 2);
            let cap = buf + bor + 1;
            let k = match rng.below(6) { 0 => cap - 1, 1 => cap, 2 => cap + 2, _ => cap + 1 };
            let ml = if rng.chance(15) { k - 1 } else { k + rng.below(2) };
            lines = vec![format!("new {variant} {} 1 {act} {buf} {bor} {ovq} {ovr} {ff} {} 2 2", 1 + rng.below(2), rng.range(1, 2))];
            lines.push(format!("cserver 0 {ml}"));
            lines.push("cclient 0 -".into());
            if rng.chance(30) { lines.push("cclient 1 -".into()); }
            tag += 1; lines.push(format!("send 0 0 {tag}"));
            lines.push("recvreq 0 0".into());
            if rng.chance(30) { tag += 1; lines.push(format!("respond 0 0 {tag}")); lines.push("recvresp 0 0".into()); lines.push("dresp 0 0".into()); }
            for l in 0..k { lines.push(format!("rloan 0 0 {l}")); }
            let gone_early = rng.chance(15);
            if gone_early { lines.push("dactive 0 0".into()); }
            let mut held = 0;
            for l in 0..k {
                tag += 1;
                if rng.chance(8) { lines.push(format!("rdrop 0 {l}")); continue }
                lines.push(format!("rsend 0 {l} {tag}"));
                if rng.chance(10) { lines.push("has 0 0".into()); }
                lines.push("recvresp 0 0".into()); held += 1;
                if rng.chance(90) { lines.push("dresp 0 0".into()); held -= 1; }
            }
            lines.push("recvresp 0 0".into());
            // afterwards the connection must still work as before
            for _ in 0..held { lines.push("dresp 0 0".into()); }
            if !gone_early {
                for _ in 0..rng.range(1, 3) { tag += 1; lines.push(format!("respond 0 0 {tag}")); lines.push("recvresp 0 0".into()); lines.push("dresp 0 0".into()); }
                lines.push("dactive 0 0".into());
            }
            lines.push("connected 0 0".into());
            lines.push("dpending 0 0".into());
            tag += 1; lines.push(format!("send 0 1 {tag}"));
            lines.push("recvreq 0 1".into());
            tag += 1; lines.push(format!("respond 0 1 {tag}"));
            lines.push("recvresp 0 1".into());
        } else {
            let act = 1 + (n / 3) % 2;
            let cap = 2 * act + 1;
            let k = match rng.below(6) { 0 => cap - 1, 1 => cap, 2 => cap + 2, _ => cap + 1 };
            let loans = if rng.chance(15) { k - 1 } else { k + rng.below(2) };
            lines = vec![format!("new {variant} {} {} {act} {} {} {ovq} {ovr} {ff} {loans} 2 2", 1 + rng.below(2), rng.range(1, 2), rng.range(1, 2), rng.range(1, 2))];
            lines.push("cserver 0 -".into());
            lines.push("cclient 0 -".into());
            if rng.chance(30) { tag += 1; lines.push(format!("send 0 100 {tag}")); lines.push("recvreq 0 100".into()); lines.push("dactive 0 100".into()); lines.push("dpending 0 100".into()); }
            for l in 0..k { lines.push(format!("qloan 0 {l}")); }
            // send order: as loaned, or reversed, or shuffled a little
            let mut order: Vec<u64> = (0..k).collect();
            match rng.below(4) { 0 => order.reverse(), 1 => { let i = rng.below(k) as usize; let j = rng.below(k) as usize; order.swap(i, j); } _ => {} }
            for (i, l) in order.iter().enumerate() {
                tag += 1;
                if rng.chance(8) { lines.push(format!("qdrop 0 {l}")); continue }
                lines.push(format!("qsend 0 {l} {i} {tag}"));
                if rng.chance(10) { lines.push("hasreq 0".into()); }
                lines.push(format!("recvreq 0 {i}"));
                if rng.chance(30) { tag += 1; lines.push(format!("respond 0 {i} {tag}")); lines.push(format!("recvresp 0 {i}")); lines.push("dresp 0 0".into()); }
                if rng.chance(90) { lines.push(format!("dactive 0 {i}")); }
                lines.push(format!("dpending 0 {i}"));
            }
            lines.push(format!("recvreq 0 {k}"));
            for i in 0..rng.range(1, 3) {
                tag += 1; let r = 200 + i;
                lines.push(format!("send 0 {r} {tag}")); lines.push(format!("recvreq 0 {r}"));
                tag += 1; lines.push(format!("respond 0 {r} {tag}")); lines.push(format!("recvresp 0 {r}"));
                lines.push(format!("dactive 0 {r}")); lines.push(format!("dpending 0 {r}")); lines.push("dresp 0 0".into());
            }
        }
        cases.push(lines);
    }
    cases
}

/// every sequence of length `exhaustive` over a fixed alphabet, for a few small configurations
fn exhaustive(a: &Args, variant: &str) -> Vec<Vec<String>> {
    let mut cases = vec![];
    // configurations: (max clients, max servers, A, B, R, ovq, ovr, ff, L, ecb, scb)
    let configs = ["2 1 1 1 1 0 0 0 1 1 1", "2 1 1 1 1 1 1 1 1 1 1", "1 2 2 1 1 0 1 1 1 1 1", "2 2 1 2 2 1 0 0 1 1 1"];
    let alphabet: Vec<String> = [
        "cclient", "cserver", "dclient", "dserver", "send 0", "send new", "recvreq 0", "recvreq new", "respond old", "respond new", "dactive", "recvresp old", "recvresp new",
        "dpending", "dresp", "rloan", "rsend", "qloan", "qsend",
    ].iter().map(|x| x.to_string()).collect();
    for cfg in configs {
        enumerate_seqs(&alphabet, a.exhaustive as usize, &mut |seq| {
            // prefix: one client, one server, one request on its way and received
            let mut lines = vec![format!("new {variant} {cfg}"), "cclient 0 -".to_string(), "cserver 0 -".to_string(), "send 0 0 1".to_string(), "recvreq 0 0".to_string()];
            let (mut nc, mut ns, mut nr, mut na, mut tag) = (1usize, 1usize, 1usize, 1usize, 1u64);
            let (mut dc, mut ds) = (0usize, 0usize);
            let mut pend: Vec<(usize, usize)> = vec![(0, 0)];
            let mut act: Vec<(usize, usize)> = vec![(0, 0)];
            let (mut nl, mut rl, mut ql): (usize, Vec<usize>, Vec<usize>) = (0, vec![], vec![]);
            for &i in seq {
                match alphabet[i].as_str() {
                    "cclient" => { lines.push(format!("cclient {nc} -")); nc += 1; }
                    "cserver" => { lines.push(format!("cserver {ns} -")); ns += 1; }
                    "dclient" => { lines.push(format!("dclient {dc}")); dc += 1; }
                    "dserver" => { lines.push(format!("dserver {ds}")); ds += 1; }
                    "send 0" | "send new" => {
                        let c = if alphabet[i] == "send 0" { 0 } else { nc - 1 };
                        tag += 1;
                        lines.push(format!("send {c} {nr} {tag}")); pend.push((c, nr)); nr += 1;
                    }
                    "recvreq 0" | "recvreq new" => {
                        let s = if alphabet[i] == "recvreq 0" { 0 } else { ns - 1 };
                        lines.push(format!("recvreq {s} {na}")); act.push((s, na)); na += 1;
                    }
                    "respond old" | "respond new" => {
                        if let Some((s, a)) = if alphabet[i] == "respond old" { act.first() } else { act.last() } { tag += 1; lines.push(format!("respond {s} {a} {tag}")); }
                    }
                    "dactive" => { if !act.is_empty() { let (s, a) = act.remove(0); lines.push(format!("dactive {s} {a}")); } }
                    "recvresp old" | "recvresp new" => {
                        if let Some((c, r)) = if alphabet[i] == "recvresp old" { pend.first() } else { pend.last() } { lines.push(format!("recvresp {c} {r}")); }
                    }
                    "dpending" => { if !pend.is_empty() { let (c, r) = pend.remove(0); lines.push(format!("dpending {c} {r}")); } }
                    "dresp" => lines.push("dresp 0 0".to_string()),
                    "rloan" => { lines.push(format!("rloan 0 0 {nl}")); rl.push(nl); nl += 1; }
                    "rsend" => { if !rl.is_empty() { let l = rl.remove(0); tag += 1; lines.push(format!("rsend 0 {l} {tag}")); } }
                    "qloan" => { lines.push(format!("qloan 0 {nl}")); ql.push(nl); nl += 1; }
                    "qsend" => { if !ql.is_empty() { let l = ql.remove(0); tag += 1; lines.push(format!("qsend 0 {l} {nr} {tag}")); pend.push((0, nr)); nr += 1; } }
                    _ => unreachable!(),
                }
            }
            cases.push(lines);
        });
    }
    cases
}
