//! Shared infrastructure of the sequential differential driver.
//!
//! Line protocol: every case is a list of operation lines; the first line of a case starts
//! with `new`. The harness prints, for every operation it executed on the implementation,
//! one line `<op> => <canonical output>`. The Lean driver reads the `<op>` parts and prints
//! its own outputs; `check` diffs the two streams.
#![allow(dead_code)]

use std::cell::{Cell, RefCell};
use std::collections::BTreeSet;

#[derive(Clone)]
pub struct Rng(pub u64);
impl Rng {
    pub fn new(seed: u64) -> Self {
        Rng(seed.wrapping_mul(0x9E3779B97F4A7C15) ^ 0xD1B54A32D192ED03)
    }
    pub fn next(&mut self) -> u64 {
        self.0 = self.0.wrapping_add(0x9E3779B97F4A7C15);
        let mut z = self.0;
        z = (z ^ (z >> 30)).wrapping_mul(0xBF58476D1CE4E5B9);
        z = (z ^ (z >> 27)).wrapping_mul(0x94D049BB133111EB);
        z ^ (z >> 31)
    }
    pub fn below(&mut self, n: u64) -> u64 {
        if n == 0 { 0 } else { self.next() % n }
    }
    pub fn range(&mut self, lo: u64, hi_incl: u64) -> u64 {
        lo + self.below(hi_incl - lo + 1)
    }
    pub fn chance(&mut self, percent: u64) -> bool {
        self.below(100) < percent
    }
    pub fn pick<'a, T>(&mut self, xs: &'a [T]) -> &'a T {
        &xs[self.below(xs.len() as u64) as usize]
    }
}

// ---------------------------------------------------------------------------------------------
// Tracked elements: every element has an id; drops are logged; double drops and use after
// drop are detected by the harness itself (independent oracle, not the model).

thread_local! {
    pub static DROPS: RefCell<Vec<u32>> = const { RefCell::new(Vec::new()) };
    pub static LIVE: RefCell<BTreeSet<u32>> = const { RefCell::new(BTreeSet::new()) };
    pub static NEXT_CLONE: Cell<u32> = const { Cell::new(100_000) };
    pub static ORACLE: RefCell<Vec<String>> = const { RefCell::new(Vec::new()) };
}

pub fn oracle_fail(msg: String) {
    ORACLE.with(|o| o.borrow_mut().push(msg));
}
pub fn take_oracle() -> Vec<String> {
    ORACLE.with(|o| std::mem::take(&mut *o.borrow_mut()))
}

#[derive(Debug)]
pub struct Tr {
    pub id: u32,
    pub val: u32,
}
impl Tr {
    pub fn new(id: u32, val: u32) -> Tr {
        LIVE.with(|l| {
            if !l.borrow_mut().insert(id) {
                oracle_fail(format!("id {id} created twice"));
            }
        });
        Tr { id, val }
    }
    pub fn show(&self) -> String {
        let live = LIVE.with(|l| l.borrow().contains(&self.id));
        if !live {
            oracle_fail(format!("use-after-drop of element {}", self.id));
        }
        format!("{}:{}", self.id, self.val)
    }
}
impl Clone for Tr {
    fn clone(&self) -> Tr {
        let id = NEXT_CLONE.with(|c| {
            let v = c.get();
            c.set(v + 1);
            v
        });
        Tr::new(id, self.val)
    }
}
impl PartialEq for Tr {
    fn eq(&self, o: &Tr) -> bool {
        self.val == o.val
    }
}
impl Eq for Tr {}
impl Drop for Tr {
    fn drop(&mut self) {
        let was_live = LIVE.with(|l| l.borrow_mut().remove(&self.id));
        if !was_live {
            oracle_fail(format!("double-drop of element {}", self.id));
        }
        DROPS.with(|d| d.borrow_mut().push(self.id));
    }
}
pub fn reset_tracking() {
    DROPS.with(|d| d.borrow_mut().clear());
    LIVE.with(|l| l.borrow_mut().clear());
    NEXT_CLONE.with(|c| c.set(100_000));
}
/// sorted ids dropped since the last call
pub fn take_drops() -> String {
    let mut v = DROPS.with(|d| std::mem::take(&mut *d.borrow_mut()));
    v.sort();
    let s: Vec<String> = v.iter().map(|x| x.to_string()).collect();
    format!("d=[{}]", s.join(","))
}
pub fn live_count() -> usize {
    LIVE.with(|l| l.borrow().len())
}

pub fn show_opt(o: Option<Tr>) -> String {
    match o {
        Some(t) => {
            let s = format!("some:{}", t.show());
            // the caller receives the element; it is *returned*, not dropped by the container.
            LIVE.with(|l| l.borrow_mut().remove(&t.id));
            std::mem::forget(t);
            s
        }
        None => "none".to_string(),
    }
}

// ---------------------------------------------------------------------------------------------

pub trait Comp {
    /// executes one line on the implementation, returns canonical output
    fn exec(&mut self, toks: &[&str]) -> String;
}

pub struct Case {
    pub lines: Vec<String>,
}

/// Runs a list of cases; prints `op => out` lines. A panic inside the implementation is
/// reported as output `PANIC` and ends the case (the object may be poisoned).
pub fn run_cases<C: Comp>(mk: &dyn Fn() -> C, cases: &[Vec<String>]) {
    use std::io::Write;
    let stdout = std::io::stdout();
    let mut out = std::io::BufWriter::with_capacity(1 << 20, stdout.lock());
    for case in cases {
        let mut comp = mk();
        reset_tracking();
        let _ = take_oracle();
        for line in case {
            let toks: Vec<&str> = line.split(' ').filter(|t| !t.is_empty()).collect();
            let r = std::panic::catch_unwind(std::panic::AssertUnwindSafe(|| comp.exec(&toks)));
            match r {
                Ok(mut s) => {
                    let o = take_oracle();
                    if !o.is_empty() {
                        s = format!("{s} ORACLE[{}]", o.join("; "));
                    }
                    writeln!(out, "{line} => {s}").unwrap();
                    if s.starts_with("err:alloc") {
                        break; // construction refused: the case ends here
                    }
                }
                Err(_) => {
                    writeln!(out, "{line} => PANIC").unwrap();
                    // leak the poisoned object: its destructor may touch broken state
                    std::mem::forget(comp);
                    comp = mk();
                    break;
                }
            }
        }
        let r = std::panic::catch_unwind(std::panic::AssertUnwindSafe(move || drop(comp)));
        if r.is_err() {
            writeln!(out, "# drop => PANIC").unwrap();
        }
    }
    out.flush().unwrap();
}

pub fn read_cases_from_stdin() -> Vec<Vec<String>> {
    use std::io::BufRead;
    let stdin = std::io::stdin();
    let mut cases: Vec<Vec<String>> = Vec::new();
    for l in stdin.lock().lines() {
        let l = l.unwrap();
        let l = l.trim().to_string();
        if l.is_empty() || l.starts_with('#') {
            continue;
        }
        if l.starts_with("new ") || l == "new" || cases.is_empty() {
            cases.push(Vec::new());
        }
        cases.last_mut().unwrap().push(l);
    }
    cases
}

pub struct Args {
    pub mode: String,
    pub seed: u64,
    pub cases: u64,
    pub len: u64,
    pub exhaustive: u64,
    pub rest: Vec<String>,
}
pub fn parse_args(a: &[String]) -> Args {
    let mut r = Args {
        mode: a.first().cloned().unwrap_or_else(|| "gen".into()),
        seed: 1,
        cases: 100,
        len: 40,
        exhaustive: 0,
        rest: vec![],
    };
    let mut i = 1;
    while i < a.len() {
        match a[i].as_str() {
            "--seed" => {
                r.seed = a[i + 1].parse().unwrap();
                i += 1
            }
            "--cases" => {
                r.cases = a[i + 1].parse().unwrap();
                i += 1
            }
            "--len" => {
                r.len = a[i + 1].parse().unwrap();
                i += 1
            }
            "--exhaustive" => {
                r.exhaustive = a[i + 1].parse().unwrap();
                i += 1
            }
            x => r.rest.push(x.to_string()),
        }
        i += 1;
    }
    r
}

/// enumerate all sequences over `alphabet` of length exactly `maxlen` (every shorter sequence is a prefix of one of them and outputs are compared per operation), calling f.
pub fn enumerate_seqs(alphabet: &[String], maxlen: usize, f: &mut dyn FnMut(&[usize])) {
    fn rec(n: usize, maxlen: usize, cur: &mut Vec<usize>, f: &mut dyn FnMut(&[usize])) {
        if cur.len() == maxlen {
            f(cur);
            return;
        }
        for i in 0..n {
            cur.push(i);
            rec(n, maxlen, cur, f);
            cur.pop();
        }
    }
    let mut cur = Vec::new();
    rec(alphabet.len(), maxlen, &mut cur, f);
}
