//! C19: semantic strings (FileName, Path, FilePath, RestrictedFileName), ServiceName, NodeName,
//! and the path construction / name extraction of named concepts.
use crate::c16_string::{hex, unhex};
use crate::common::*;
use iceoryx2::prelude::{NodeName, ServiceName};
use iceoryx2_bb_container::semantic_string::{SemanticString, SemanticStringError};
use iceoryx2_bb_system_types::file_name::{FileName, RestrictedFileName};
use iceoryx2_bb_system_types::file_path::FilePath;
use iceoryx2_bb_system_types::path::Path;
use iceoryx2_cal::named_concept::NamedConceptConfiguration;

fn serr(e: SemanticStringError) -> &'static str {
    match e {
        SemanticStringError::InvalidContent => "err:content",
        SemanticStringError::ExceedsMaximumLength => "err:len",
    }
}
fn n(s: &str) -> usize {
    s.parse().unwrap()
}
fn res<T>(r: Result<T, SemanticStringError>, f: impl Fn(T) -> String) -> String {
    match r {
        Ok(v) => f(v),
        Err(e) => serr(e).into(),
    }
}
fn edit<const C: usize, S: SemanticString<C>>(s: &mut S, t: &[&str]) -> String {
    let unit = |_: ()| "ok".to_string();
    let r = match t[0] {
        "push" => res(s.push(n(t[1]) as u8), unit),
        "push_bytes" => res(s.push_bytes(&unhex(t[1])), unit),
        "insert" => res(s.insert(n(t[1]), n(t[2]) as u8), unit),
        "insert_bytes" => res(s.insert_bytes(n(t[1]), &unhex(t[2])), unit),
        "pop" => res(s.pop(), |o| match o { Some(b) => format!("some:{b}"), None => "none".into() }),
        "remove" => res(s.remove(n(t[1])), |o| match o { Some(b) => format!("some:{b}"), None => "none".into() }),
        "remove_range" => res(s.remove_range(n(t[1]), n(t[2])), unit),
        "retain" => { let b = n(t[1]) as u8; res(s.retain(|c| c == b), unit) }
        "strip_prefix" => res(s.strip_prefix(&unhex(t[1])), |b| format!("{b}")),
        "strip_suffix" => res(s.strip_suffix(&unhex(t[1])), |b| format!("{b}")),
        "truncate" => res(s.truncate(n(t[1])), unit),
        "find" => match s.find(&unhex(t[1])) { Some(i) => format!("some:{i}"), None => "none".into() },
        "rfind" => match s.rfind(&unhex(t[1])) { Some(i) => format!("some:{i}"), None => "none".into() },
        "dump" => "ok".into(),
        _ => return "bad-op".into(),
    };
    // every op reports the value afterwards: the model must agree, and the harness checks
    // independently that the value still satisfies the type's own validity predicate
    if S::new(s.as_bytes()).is_err() && !s.as_bytes().is_empty() {
        oracle_fail(format!("value {} is not a valid instance of its type", hex(s.as_bytes())));
    }
    format!("{r} v={}", hex(s.as_bytes()))
}

enum V {
    None,
    FN(FileName),
    P(Path),
    FP(FilePath),
    R8(RestrictedFileName<8>),
}
pub struct NamesComp {
    v: V,
}
impl NamesComp {
    pub fn new() -> Self {
        NamesComp { v: V::None }
    }
}
fn cfg(hint: &str, prefix: &str, suffix: &str) -> Option<iceoryx2_cal::static_storage::file::Configuration> {
    let p = Path::new(&unhex(hint)).ok()?;
    let pre = FileName::new(&unhex(prefix)).ok()?;
    let suf = FileName::new(&unhex(suffix)).ok()?;
    Some(iceoryx2_cal::static_storage::file::Configuration::default().prefix(&pre).suffix(&suf).path_hint(&p))
}
impl Comp for NamesComp {
    fn exec(&mut self, t: &[&str]) -> String {
        match t[0] {
            "new" => {
                let b = unhex(t[2]);
                let (v, r) = match t[1] {
                    "filename" => match FileName::new(&b) { Ok(x) => (V::FN(x), Ok(x.as_bytes().to_vec())), Err(e) => (V::None, Err(e)) },
                    "path" => match Path::new(&b) { Ok(x) => (V::P(x), Ok(x.as_bytes().to_vec())), Err(e) => (V::None, Err(e)) },
                    "filepath" => match FilePath::new(&b) { Ok(x) => (V::FP(x), Ok(x.as_bytes().to_vec())), Err(e) => (V::None, Err(e)) },
                    "rfn8" => match RestrictedFileName::<8>::new(&b) { Ok(x) => (V::R8(x), Ok(x.as_bytes().to_vec())), Err(e) => (V::None, Err(e)) },
                    _ => panic!("bad type"),
                };
                self.v = v;
                match r {
                    Ok(bytes) => {
                        if bytes != b { oracle_fail("accepted name does not round-trip".into()); }
                        format!("ok v={}", hex(&bytes))
                    }
                    Err(e) => serr(e).into(),
                }
            }
            "svcname" | "nodename" => {
                let b = unhex(t[1]);
                let s = match std::str::from_utf8(&b) { Ok(s) => s, Err(_) => return "skip:utf8".into() };
                if t[0] == "svcname" {
                    match ServiceName::new(s) {
                        Ok(x) => { if x.as_str() != s { oracle_fail("service name does not round-trip".into()); } "ok".into() }
                        Err(iceoryx2::service::service_name::ServiceNameError::InvalidContent) => "err:content".into(),
                        Err(iceoryx2::service::service_name::ServiceNameError::ExceedsMaximumLength) => "err:len".into(),
                    }
                } else {
                    match NodeName::new(s) {
                        Ok(x) => { if x.as_str() != s { oracle_fail("node name does not round-trip".into()); } "ok".into() }
                        Err(e) => serr(e).into(),
                    }
                }
            }
            "frompf" => {
                let (p, f) = match (Path::new(&unhex(t[1])), FileName::new(&unhex(t[2]))) { (Ok(p), Ok(f)) => (p, f), _ => return "bad-arg".into() };
                res(FilePath::from_path_and_file(&p, &f), |fp| format!("ok v={} file={} path={}", hex(fp.as_bytes()), hex(fp.file_name().as_bytes()), hex(fp.path().as_bytes())))
            }
            "pathfor" => {
                // pathfor <hint> <prefix> <suffix> <name>
                let c = match cfg(t[1], t[2], t[3]) { Some(c) => c, None => return "bad-arg".into() };
                let name = match FileName::new(&unhex(t[4])) { Ok(n) => n, Err(_) => return "bad-arg".into() };
                let fp = c.path_for(&name);
                // independent oracle: the created path lies directly inside the path hint
                let hint = Path::new(&unhex(t[1])).unwrap();
                if fp.path() != hint { oracle_fail(format!("path_for escapes the path hint: {}", fp)); }
                if fp.file_name().as_bytes().contains(&b'/') { oracle_fail("file name with separator".into()); }
                let back = c.extract_name_from_path(&fp);
                format!("ok v={} back={}", hex(fp.as_bytes()), match back { Some(b) => hex(b.as_bytes()), None => "none".into() })
            }
            "extract" => {
                // extract <hint> <prefix> <suffix> <file>
                let c = match cfg(t[1], t[2], t[3]) { Some(c) => c, None => return "bad-arg".into() };
                let file = match FileName::new(&unhex(t[4])) { Ok(n) => n, Err(_) => return "bad-arg".into() };
                match c.extract_name_from_file(&file) { Some(b) => format!("some:{}", hex(b.as_bytes())), None => "none".into() }
            }
            "extractp" => {
                // extractp <hint> <prefix> <suffix> <full path>: extract_name_from_path — the file must lie in exactly the hint directory
                let c = match cfg(t[1], t[2], t[3]) { Some(c) => c, None => return "bad-arg".into() };
                let fp = match FilePath::new(&unhex(t[4])) { Ok(n) => n, Err(_) => return "bad-arg".into() };
                match c.extract_name_from_path(&fp) { Some(b) => format!("some:{}", hex(b.as_bytes())), None => "none".into() }
            }
            _ => match &mut self.v {
                V::None => "no-value".into(),
                V::FN(s) => edit(s, t),
                V::R8(s) => edit(s, t),
                V::FP(s) => match t[0] {
                    "file_name" => format!("v={}", hex(s.file_name().as_bytes())),
                    "parent" => format!("v={}", hex(s.path().as_bytes())),
                    _ => edit(s, t),
                },
                V::P(s) => match t[0] {
                    "add_entry" => match Path::new(&unhex(t[1])) {
                        Ok(e) => { let r = res(s.add_path_entry(&e), |_| "ok".into()); format!("{r} v={}", hex(s.as_bytes())) }
                        Err(_) => "bad-arg".into(),
                    },
                    "normalize" => format!("v={}", hex(s.normalize().as_bytes())),
                    "is_absolute" => format!("{}", s.is_absolute()),
                    "entries" => format!("[{}]", s.entries().iter().map(|e| hex(e.as_bytes())).collect::<Vec<_>>().join(",")),
                    _ => edit(s, t),
                },
            },
        }
    }
}

const INTERESTING: &[u8] = b"ab./._-\\<>\"|?*: \x00\x01\x1f\x7f\x80\xc3\xa9\xff/..a/";
fn rbytes(rng: &mut Rng, maxlen: u64) -> Vec<u8> {
    let l = rng.below(maxlen + 1);
    (0..l).map(|_| match rng.below(100) {
        0..=54 => *rng.pick(b"abcxyz019_"),
        55..=74 => *rng.pick(b"./"),
        75..=92 => *rng.pick(INTERESTING),
        _ => rng.below(256) as u8,
    }).collect()
}
pub fn generate(a: &Args) -> Vec<Vec<String>> {
    let mut cases: Vec<Vec<String>> = Vec::new();
    let types = ["filename", "path", "filepath", "rfn8"];
    if a.exhaustive > 0 {
        // every byte string up to length `exhaustive` (<= 2 in quick, 3 in thorough) for every type's constructor
        fn rec(cur: &mut Vec<u8>, left: u64, out: &mut Vec<Vec<u8>>) {
            out.push(cur.clone());
            if left == 0 { return; }
            for b in 0..=255u8 { cur.push(b); rec(cur, left - 1, out); cur.pop(); }
        }
        let mut all = vec![];
        rec(&mut vec![], a.exhaustive.min(3), &mut all);
        for ty in types {
            for b in &all { cases.push(vec![format!("new {ty} {}", hex(b))]); }
        }
        for b in &all {
            if std::str::from_utf8(b).is_ok() {
                cases.push(vec!["new filename 61".into(), format!("svcname {}", hex(b)), format!("nodename {}", hex(b))]);
            }
        }
        return cases;
    }
    let mut rng = Rng::new(a.seed);
    for _ in 0..a.cases {
        let ty = *rng.pick(&types);
        let mut init = rbytes(&mut rng, 12);
        if rng.chance(8) { init = vec![b'a'; rng.range(250, 258) as usize]; }
        let mut lines = vec![format!("new {ty} {}", hex(&init))];
        let mut len = init.len() as u64;
        for _ in 0..rng.range(0, a.len) {
            let idx = if rng.chance(85) { rng.below(len + 1) } else { len + rng.below(3) };
            let b = if rng.chance(80) { *rng.pick(b"ab./_") as u64 } else { *rng.pick(INTERESTING) as u64 };
            let bs = hex(&rbytes(&mut rng, 4));
            let l = match rng.below(100) {
                0..=11 => { len += 1; format!("push {b}") }
                12..=21 => { len += 2; format!("push_bytes {bs}") }
                22..=28 => { len += 1; format!("insert {} {b}", idx.min(len)) }
                29..=36 => { len += 2; format!("insert_bytes {} {bs}", idx.min(len)) }
                37..=43 => { len = len.saturating_sub(1); "pop".into() }
                44..=52 => { len = len.saturating_sub(1); format!("remove {idx}") }
                53..=58 => format!("remove_range {idx} {}", rng.below(3)),
                59..=62 => format!("retain {b}"),
                63..=68 => format!("strip_prefix {bs}"),
                69..=74 => format!("strip_suffix {bs}"),
                75..=79 => format!("truncate {idx}"),
                80..=83 => format!("find {bs}"),
                84..=87 => format!("rfind {bs}"),
                88..=93 if ty == "path" => format!("add_entry {bs}"),
                94..=96 if ty == "path" => "normalize".into(),
                97..=98 if ty == "path" => "entries".into(),
                99 if ty == "path" => "is_absolute".into(),
                88..=93 if ty == "filepath" => "file_name".into(),
                94..=99 if ty == "filepath" => "parent".into(),
                _ => "dump".into(),
            };
            lines.push(l);
        }
        cases.push(lines);
        // naming scheme: path_for / extract with assorted prefixes (incl. prefixes of one another)
        let prefixes: [&[u8]; 6] = [b"iox2_", b"iox2", b"a", b"ab", b"dom_", b"dom_1"];
        let suffixes: [&[u8]; 4] = [b".node", b".service", b".n", b"_x"];
        let hints: [&[u8]; 5] = [b"/tmp/iceoryx2", b"/tmp/iceoryx2/", b"/", b"rel/dir", b"/a//b/./c"];
        let names = [rbytes(&mut rng, 6), b"123456".to_vec(), b"1".to_vec(), b"b77".to_vec(), b".".to_vec()];
        let (p1, p2) = (*rng.pick(&prefixes), *rng.pick(&prefixes));
        let (s1, s2) = (*rng.pick(&suffixes), *rng.pick(&suffixes));
        let name = rng.pick(&names).clone();
        let hint = *rng.pick(&hints);
        let mut file = p2.to_vec(); file.extend_from_slice(&name); file.extend_from_slice(s2);
        // a file of another root: equal, byte-extension of the hint, nested below it, sibling, with redundant separators
        let roots: [&[u8]; 7] = [b"/tmp/iceoryx2", b"/tmp/iceoryx2_b", b"/tmp/iceoryx2/sub", b"/tmp/ice", b"/tmp//iceoryx2/", b"/tmp/./iceoryx2", b"rel/dir"];
        let mut full = rng.pick(&roots).to_vec(); full.push(b'/'); full.extend_from_slice(&file);
        cases.push(vec![
            "new filename 61".into(),
            format!("pathfor {} {} {} {}", hex(hint), hex(p1), hex(s1), hex(&name)),
            format!("extract {} {} {} {}", hex(hint), hex(p1), hex(s1), hex(&file)),
            format!("extractp {} {} {} {}", hex(hint), hex(p1), hex(s1), hex(&full)),
            format!("extractp {} {} {} {}", hex(hint), hex(p2), hex(s2), hex(&full)),
            format!("frompf {} {}", hex(&rbytes(&mut rng, 10)), hex(&name)),
            format!("svcname {}", hex(&rbytes(&mut rng, 10))),
            format!("nodename {}", hex(&rbytes(&mut rng, 10))),
        ]);
    }
    cases
}
