//! stub: component `blackboard` (blackboard ports; to be written)
use crate::common::*;

pub struct BlackboardComp;
impl BlackboardComp {
    pub fn new() -> Self {
        BlackboardComp
    }
}
impl Comp for BlackboardComp {
    fn exec(&mut self, _t: &[&str]) -> String {
        "unimplemented".into()
    }
}
pub fn generate(_a: &Args) -> Vec<Vec<String>> {
    vec![]
}
